(* StructMeta.__new__ as a whole: the GENERATED composition of its statements (Gen/DefineSrc.v [StructMeta_new]) on the
   Python-level view of a class statement yields what the hand-written model [define] (Struct/Define.v) yields.
   Builds on Struct/DefineSrcProofs.v (the bridging theorems of the functions __new__ calls). *)
From Coq Require Import ZArith NArith String Ascii Bool Lia List Permutation.
Import ListNotations.
From TP Require Import Base.PyVal Base.PyEq Base.PyOps Base.PyOps2 Base.PyObj Base.PyOpsDerive Base.PyOpsDefine
     Fields.FieldAst Fields.SetChain Struct.Define Struct.DefineProofs Gen.DefineSrc Struct.DefineSrcProofs.
From TP Require Base.PyOpsFields Base.PyOpsVersioned.

(* ------------------------------------------------------------------ a heap that agrees with a class environment *)

(* the cells through which the translated functions look at the classes of an environment *)
Definition env_list : list pystr :=
  [isinstance_attr (s2p "StructMeta"); isinstance_attr (s2p "FieldMeta"); n_mro; s2p "mro()"; s2p "__signature__";
   s2p "__dict__"; s2p "_fields"].

Record agree_env (h : heap) (gd : guards) (g : genv) (extra : pystr -> list (pystr * pyval)) : Prop := {
  ae_cells : forall o a, str_in a env_list = true -> h o a = genv_heap gd g extra o a;
  ae_addl : h n_TypedPyDefaults (s2p "additional_properties_default") =
            genv_heap gd g extra n_TypedPyDefaults (s2p "additional_properties_default");
  ae_members : forall x kx n, find_klass g x = Some kx -> In n (map fst (k_own kx)) ->
      pseudo_attr n = false -> str_in n special_class_attrs = false -> h x n = Some (ref (member_obj x n)) }.

Lemma agree_env_view h gd g extra : agree_env h gd g extra -> env_view h gd g extra.
Proof.
  intros [Hc Ha Hm]. pose proof (genv_env_view gd g extra) as G.
  assert (Hinst : forall c K, str_in (isinstance_attr K) env_list = true ->
            obj_isinstance h (ref c) K = obj_isinstance (genv_heap gd g extra) (ref c) K).
  { intros c K HK. unfold obj_isinstance, ref. rewrite pystr_eqb_refl, (Hc c _ HK). reflexivity. }
  assert (Hget : forall b a, str_in a env_list = true ->
            dv_getattr h (ref b) a = dv_getattr (genv_heap gd g extra) (ref b) a).
  { intros b a Ha'. unfold ref. cbn [dv_getattr obj_getattr]. rewrite pystr_eqb_refl, (Hc b a Ha'). reflexivity. }
  constructor.
  - intro c. rewrite Hinst by reflexivity. apply (ev_struct _ _ _ _ G).
  - intro c. rewrite Hinst by reflexivity. apply (ev_fieldmeta _ _ _ _ G).
  - intros c k r Hk. rewrite <- (ev_subclass _ _ _ _ G c k r Hk). unfold obj_issubclass. rewrite !is_ref_ref.
    rewrite (Hc c n_mro) by reflexivity. reflexivity.
  - intros b kb Hk. rewrite Hget by reflexivity. apply (ev_signature _ _ _ _ G b kb Hk).
  - intros b kb Hk. rewrite Hget by reflexivity. apply (ev_class_dict _ _ _ _ G b kb Hk).
  - intros b kb Hk. rewrite Hget by reflexivity. apply (ev_mro _ _ _ _ G b kb Hk).
  - intro Hd. rewrite <- (ev_addl_default _ _ _ _ G Hd). unfold ref. cbn [dv_getattr obj_getattr]. rewrite pystr_eqb_refl.
    change (s2p "TypedPyDefaults") with n_TypedPyDefaults. rewrite Ha. reflexivity.
  - intros x kx Hk. rewrite <- (ev_fields _ _ _ _ G x kx Hk). unfold ref. cbn [dv_getattr_def obj_getattr_def].
    rewrite pystr_eqb_refl, (Hc x (s2p "_fields")) by reflexivity. reflexivity.
  - intros x kx n Hk Hn Hp Hs. unfold dv_getattr_dyn. unfold ref at 1. cbn [dv_getattr obj_getattr].
    rewrite pystr_eqb_refl, (Hm x kx n Hk Hn Hp Hs). reflexivity.
Qed.

(* ------------------------------------------------------------------ the model, in the order of the source *)

(* StructMeta.__new__ runs after the class body: the Field constructors ([field_init]) have produced the member
   objects [pre]; the `= value` defaults are applied AFTER the bases' signatures are read and the names / the
   non-typedpy assignments are checked.  [define_new] is [define] in that order (without the class body and
   without the @keys_of decorator, which runs on the finished class). *)
Section DefineNew.
  Variable re_match : N -> pystr -> bool.
  Variable e : env.
  Variable gd : guards.

  Definition define_new (g : genv) (s : classstmt) (pre : members) : res klass :=
    let names := map fst (s_members s) in
    bp <- base_info gd g (s_bases s) [] false ;;
    let breq := bases_required bp in
    _ <- check (existsb bad_field_name names) ValueError ;;
    _ <- check (gd_block_non_typedpy gd && existsb non_typedpy_assignment (s_attrs s)) TypeError ;;
    own <- mapM (apply_member re_match e (eq_defs (s_members s))) pre ;;
    let required := own_required s own in
    mro <- mro_of g (s_name s) (s_bases s) ;;
    _ <- check (final_violation g (tl_str mro)) TypeError ;;
    let all := all_fields g (tl_str mro) own in
    let consts := constants_of all in
    _ <- check (negb (forallb (fun nv => const_type_ok (snd nv)) consts)) TypeError ;;
    _ <- check (existsb (fun f => str_in f required || str_in f breq) (opt_list (s_optional s))) ValueError ;;
    _ <- check (gd_block_unknown_consts gd && existsb invalid_const (s_attrs s)) ValueError ;;
    let addl := match s_additional s with Some b => b | None => gd_additional_default gd end in
    sg <- Define.make_signature names required bp (map fst consts) ;;
    Ok {| k_name := s_name s; k_is_struct := true; k_bases := s_bases s; k_mro := mro;
          k_own := own; k_all := all;
          k_required := dedup_str (breq ++ required);
          k_sig_req := sg_req sg; k_sig_opt := sg_opt sg; k_sig_kwargs := addl;
          k_additional := s_additional s; k_ignore_none := s_ignore_none s;
          k_constants := consts |}.

  (* the two orders can only be told apart by a statement with two faults at once: a `= value` default that the
     field refuses AND (unreadable bases, or a bad field name, or a non-typedpy assignment) *)
  Definition order_ok (g : genv) (s : classstmt) (pre : members) : bool :=
    is_ok (mapM (apply_member re_match e (eq_defs (s_members s))) pre) ||
    (is_ok (base_info gd g (s_bases s) [] false) && negb (existsb bad_field_name (map fst (s_members s))) &&
     negb (gd_block_non_typedpy gd && existsb non_typedpy_assignment (s_attrs s))).

  Theorem define_new_is_define g s pre :
    has_dup_str (map fst (s_members s)) = false -> s_keys_of s = [] ->
    mapM (init_member re_match e) (s_members s) = Ok pre ->
    (forall k, define re_match e gd g s = Ok k <-> define_new g s pre = Ok k) /\
    (order_ok g s pre = true -> define re_match e gd g s = define_new g s pre).
  Proof.
    intros Hdup Hkeys Hinit.
    assert (Hd : define re_match e gd g s =
                 (own <- mapM (apply_member re_match e (eq_defs (s_members s))) pre ;;
                  bp <- base_info gd g (s_bases s) [] false ;;
                  _ <- check (existsb bad_field_name (map fst (s_members s))) ValueError ;;
                  _ <- check (gd_block_non_typedpy gd && existsb non_typedpy_assignment (s_attrs s)) TypeError ;;
                  (fun own bp =>
                     let breq := bases_required bp in
                     let required := own_required s own in
                     mro <- mro_of g (s_name s) (s_bases s) ;;
                     _ <- check (final_violation g (tl_str mro)) TypeError ;;
                     let all := all_fields g (tl_str mro) own in
                     let consts := constants_of all in
                     _ <- check (negb (forallb (fun nv => const_type_ok (snd nv)) consts)) TypeError ;;
                     _ <- check (existsb (fun f => str_in f required || str_in f breq) (opt_list (s_optional s))) ValueError ;;
                     _ <- check (gd_block_unknown_consts gd && existsb invalid_const (s_attrs s)) ValueError ;;
                     let addl := match s_additional s with Some b => b | None => gd_additional_default gd end in
                     sg <- Define.make_signature (map fst (s_members s)) required bp (map fst consts) ;;
                     Ok {| k_name := s_name s; k_is_struct := true; k_bases := s_bases s; k_mro := mro;
                           k_own := own; k_all := all;
                           k_required := dedup_str (breq ++ required);
                           k_sig_req := sg_req sg; k_sig_opt := sg_opt sg; k_sig_kwargs := addl;
                           k_additional := s_additional s; k_ignore_none := s_ignore_none s;
                           k_constants := consts |}) own bp)).
    { unfold define. rewrite Hdup. cbn [check bind].
      rewrite (build_members_two_phases re_match e (s_members s) pre (has_dup_false_NoDup _ Hdup) Hinit).
      destruct (mapM (apply_member re_match e (eq_defs (s_members s))) pre) as [own|x]; cbn [bind]; [|reflexivity].
      destruct (base_info gd g (s_bases s) [] false) as [bp|x]; cbn [bind]; [|reflexivity].
      destruct (check (existsb bad_field_name (map fst (s_members s))) ValueError); cbn [bind]; [|reflexivity].
      destruct (check (gd_block_non_typedpy gd && existsb non_typedpy_assignment (s_attrs s)) TypeError); cbn [bind]; [|reflexivity].
      destruct (mro_of g (s_name s) (s_bases s)) as [mro|x]; cbn [bind]; [|reflexivity].
      destruct (check (final_violation g (tl_str mro)) TypeError); cbn [bind]; [|reflexivity].
      destruct (check (negb (forallb (fun nv => const_type_ok (snd nv)) (constants_of (all_fields g (tl_str mro) own)))) TypeError); cbn [bind]; [|reflexivity].
      destruct (check (existsb _ (opt_list (s_optional s))) ValueError); cbn [bind]; [|reflexivity].
      destruct (check (gd_block_unknown_consts gd && existsb invalid_const (s_attrs s)) ValueError); cbn [bind]; [|reflexivity].
      destruct (Define.make_signature _ _ _ _) as [sg|x]; cbn [bind]; [|reflexivity].
      rewrite Hkeys. reflexivity. }
    rewrite Hd. unfold define_new, order_ok. clear Hd.
    destruct (mapM (apply_member re_match e (eq_defs (s_members s))) pre) as [own|x];
      destruct (base_info gd g (s_bases s) [] false) as [bp|y]; cbn [bind is_ok orb andb].
    - split; [intro k; reflexivity|reflexivity].
    - split; [intro k; reflexivity|reflexivity].
    - destruct (existsb bad_field_name (map fst (s_members s))); cbn [check bind negb andb].
      + split; [intro k; split; discriminate|discriminate].
      + destruct (gd_block_non_typedpy gd && existsb non_typedpy_assignment (s_attrs s)); cbn [check bind negb].
        * split; [intro k; split; discriminate|discriminate].
        * split; [intro k; reflexivity|reflexivity].
    - split; [intro k; split; discriminate|discriminate].
  Qed.
End DefineNew.

(* ------------------------------------------------------------------ small facts used below *)

Lemma is_sunder_eq n : Define.is_sunder n = str_is_sunder n.
Proof.
  unfold Define.is_sunder, str_is_sunder. destruct n as [|a [|b [|c0 t]]]; try reflexivity.
Qed.

Lemma isinstance_plain h v K : is_ref v = None -> is_object v = false -> obj_isinstance h v K = Ok false.
Proof. intros _ Ho. destruct v; try discriminate; reflexivity. Qed.

Lemma isinstance_ref h o K :
  obj_isinstance h (ref o) K = Ok (match h o (isinstance_attr K) with Some b => py_truthy b | None => false end).
Proof. unfold obj_isinstance, ref. rewrite pystr_eqb_refl. reflexivity. Qed.

Lemma getattr_ref h o a : dv_getattr h (ref o) a = match h o a with Some v => Ok v | None => Raise AttributeError end.
Proof. unfold ref. cbn [dv_getattr obj_getattr]. rewrite pystr_eqb_refl. reflexivity. Qed.

Lemma getattr_def_ref h o a d : dv_getattr_def h (ref o) a d = Ok (match h o a with Some v => v | None => d end).
Proof. unfold ref. cbn [dv_getattr_def obj_getattr_def]. rewrite pystr_eqb_refl. reflexivity. Qed.

Lemma setattr_ref h o a v : dv_setattr h (ref o) a v = Ok (heap_set h o a v).
Proof. unfold ref. cbn [dv_setattr]. rewrite pystr_eqb_refl. reflexivity. Qed.

Lemma deref_ref h o : deref h (ref o) = match h o n_dict_content with Some d => d | None => ref o end.
Proof. unfold deref, ref. rewrite pystr_eqb_refl. reflexivity. Qed.

Lemma heap_set_same h o a v : heap_set h o a v o a = Some v.
Proof. unfold heap_set. rewrite !pystr_eqb_refl. reflexivity. Qed.

Lemma heap_set_other_attr h o a v o' a' : a' <> a -> heap_set h o a v o' a' = h o' a'.
Proof. intro H. unfold heap_set. destruct (pystr_eqb a' a) eqn:E; [apply pystr_eqb_spec in E; contradiction|]. rewrite andb_false_r. reflexivity. Qed.

Lemma heap_set_other_obj h o a v o' a' : o' <> o -> heap_set h o a v o' a' = h o' a'.
Proof. intro H. unfold heap_set. destruct (pystr_eqb o' o) eqn:E; [apply pystr_eqb_spec in E; contradiction|]. reflexivity. Qed.

Lemma pseudo_member c n : pseudo_attr (member_obj c n) = true.
Proof. reflexivity. Qed.

Lemma find_klass_not_pseudo g x k : forallb (fun k => negb (pseudo_attr (k_name k))) g = true -> find_klass g x = Some k -> pseudo_attr x = false.
Proof.
  intros Hg Hk. pose proof (find_klass_name g x k Hk) as Hn. rewrite forallb_forall in Hg.
  assert (Hin : In k g).
  { clear Hg Hn. induction g as [|y t IH]; cbn [find_klass] in Hk; [discriminate|]. destruct (pystr_eqb (k_name y) x); [inversion Hk; left; reflexivity|right; apply IH; exact Hk]. }
  specialize (Hg k Hin). apply negb_true_iff in Hg. rewrite Hn in Hg. exact Hg.
Qed.

Lemma member_obj_inj c n n' : member_obj c n = member_obj c n' -> n = n'.
Proof. unfold member_obj. intro H. apply app_inv_head in H. apply app_inv_head in H. apply app_inv_head in H. exact H. Qed.

Lemma no_underscore_plain k : match k with a :: _ => N.eqb a us | [] => false end = false ->
  str_is_sunder k || str_is_dunder k = false.
Proof.
  intro H. unfold str_is_sunder, str_is_dunder. destruct k as [|a [|b [|c0 t]]]; try reflexivity;
    unfold is_us, underscore; unfold us in H; rewrite H; cbn [andb]; rewrite ?andb_false_r; cbn [orb]; try reflexivity.
  destruct (rev (a :: b :: c0 :: t)) as [|z0 [|z1 [|z2 r]]]; rewrite ?andb_false_r; reflexivity.
Qed.

Lemma existsb_const_false {A} (l : list A) : existsb (fun _ => false) l = false.
Proof. induction l as [|x t IH]; [reflexivity|exact IH]. Qed.

Lemma existsb_ext' {A} (f g : A -> bool) l : (forall x, f x = g x) -> existsb f l = existsb g l.
Proof. intro H. induction l as [|x t IH]; [reflexivity|]. cbn [existsb]. rewrite H, IH. reflexivity. Qed.

Lemma dedup_perm a b : Permutation a b -> Permutation (dedup_str a) (dedup_str b).
Proof.
  intro H. apply NoDup_Permutation; [apply NoDup_dedup_str|apply NoDup_dedup_str|].
  intro x. rewrite !In_dedup_str. split; intro Hx; [eapply Permutation_in; eassumption|].
  eapply Permutation_in; [apply Permutation_sym; exact H|exact Hx].
Qed.

(* [Define.make_signature] looks at the required names only through membership *)
Lemma make_signature_perm names r r' bp consts :
  Permutation r r' -> Define.make_signature names r bp consts = Define.make_signature names r' bp consts.
Proof.
  intro H. unfold Define.make_signature.
  assert (E : forall n, str_in n r = str_in n r') by (intro n; apply str_in_perm; exact H).
  repeat match goal with |- context [filter ?f ?l] =>
    lazymatch f with context [r] =>
      let f' := eval pattern r in f in
      match f' with ?F _ => rewrite (filter_ext (F r) (F r')) by (intro; cbv beta; rewrite ?E; reflexivity) end
    end end.
  reflexivity.
Qed.

(* the parameters [base_info] collects: distinct names, each a parameter of some base *)
Lemma merge_params_spec new : forall acc,
  NoDup (map fst acc) ->
  NoDup (map fst (merge_params acc new)) /\
  forall n, In n (map fst (merge_params acc new)) -> In n (map fst acc) \/ In n (map fst new).
Proof.
  unfold merge_params. induction new as [|[k fl] t IH]; intros acc Hnd; cbn [fold_left].
  - split; [exact Hnd|]. intros n H; left; exact H.
  - cbn [fst]. destruct (alist_has acc k) eqn:E.
    + destruct (IH acc Hnd) as [H1 H2]. split; [exact H1|]. intros n Hn. destruct (H2 n Hn) as [H|H]; [left; exact H|right; right; exact H].
    + assert (Hnd' : NoDup (map fst (acc ++ [(k, fl)]))).
      { rewrite map_app. apply NoDup_snoc; [exact Hnd|]. intro Hin. apply (proj2 (alist_has_In acc k)) in Hin. congruence. }
      destruct (IH _ Hnd') as [H1 H2]. split; [exact H1|]. intros n Hn. destruct (H2 n Hn) as [H|H]; [|right; right; exact H].
      rewrite map_app in H. apply in_app_or in H as [H|[H|[]]]; [left; exact H|right; left; exact H].
Qed.

Lemma base_info_spec gd g bases : forall acc kw bp,
  NoDup (map fst acc) -> base_info gd g bases acc kw = Ok bp ->
  NoDup (map fst bp) /\
  forall n, In n (map fst bp) ->
    In n (map fst acc) \/ exists b kb, In b bases /\ find_klass g b = Some kb /\ In n (k_sig_req kb ++ k_sig_opt kb).
Proof.
  induction bases as [|b t IH]; intros acc kw bp Hnd H; cbn [base_info] in H.
  - destruct kw; [discriminate|]. inversion H; subst. split; [exact Hnd|]. intros n Hn; left; exact Hn.
  - destruct (find_klass g b) as [kb|] eqn:Hk; [|discriminate].
    assert (Hstep : forall acc' kw', NoDup (map fst acc') ->
              (forall n, In n (map fst acc') -> In n (map fst acc) \/ In n (k_sig_req kb ++ k_sig_opt kb)) ->
              base_info gd g t acc' kw' = Ok bp ->
              NoDup (map fst bp) /\
              forall n, In n (map fst bp) ->
                In n (map fst acc) \/ exists b0 kb0, In b0 (b :: t) /\ find_klass g b0 = Some kb0 /\ In n (k_sig_req kb0 ++ k_sig_opt kb0)).
    { intros acc' kw' Hnd' Hsub H'. destruct (IH acc' kw' bp Hnd' H') as [H1 H2]. split; [exact H1|].
      intros n Hn. destruct (H2 n Hn) as [Hin|[b0 [kb0 [Hb0 [Hk0 Hn0]]]]].
      - destruct (Hsub n Hin) as [Ha|Hb]; [left; exact Ha|right; exists b, kb; split; [left; reflexivity|split; [exact Hk|exact Hb]]].
      - right. exists b0, kb0. split; [right; exact Hb0|split; assumption]. }
    destruct (negb (k_is_struct kb) || pystr_eqb b n_Structure).
    + apply (Hstep acc kw Hnd); [intros n Hn; left; exact Hn|exact H].
    + cbv zeta in H. destruct (merge_params_spec (sig_params kb) acc Hnd) as [M1 M2].
      assert (Hsub : forall n, In n (map fst (merge_params acc (sig_params kb))) -> In n (map fst acc) \/ In n (k_sig_req kb ++ k_sig_opt kb)).
      { intros n Hn. destruct (M2 n Hn) as [Ha|Hb]; [left; exact Ha|right]. unfold sig_params in Hb.
        rewrite map_app, !map_map in Hb. cbn [fst] in Hb. rewrite !map_id in Hb. exact Hb. }
      destruct (match k_additional kb with Some x => x | None => gd_additional_default gd end).
      * destruct (kw || k_sig_kwargs kb); [|discriminate]. apply (Hstep _ false M1 Hsub H).
      * apply (Hstep _ _ M1 Hsub H).
Qed.

(* ================================================================== StructMeta.__new__ on a class statement *)

Section NewIsDefine.
  Variable re_match : N -> pystr -> bool.
  Variable e : env.
  Variable gd : guards.
  Variable g : genv.                                   (* the classes that exist *)
  Variable extra : pystr -> list (pystr * pyval).      (* what else their dicts hold *)
  Variable so : set_order.
  Variable X : ext_oracle.
  Variable s : classstmt.                              (* the class statement *)
  Variable pre : members.                              (* the member objects the class body built ([field_init]) *)
  Variable ents : list (pystr * pyval).                (* the class dict, as add_annotations_to_class_dict leaves it *)
  Variable ann : list (pystr * pyval).                 (* the content of __annotations__ (if the body has annotations) *)

  Notation c := (s_name s).
  Notation names := (map fst pre).
  Notation defs := (eq_defs (s_members s)).
  Definition mobj (n : pystr) : pystr := member_obj c n.
  Definition annobj : pystr := s2p ":annotations".
  Definition tyobj (n : pystr) : pystr := s2p ":type:" ++ n.
  Definition constsobj : pystr := newdict_name c (s2p "_constants").
  Definition n_blocked : pystr := s2p "is_non_typedpy_field_assignment_blocked()".

  (* ---------------------------------------------------------------- the class dict *)

  Definition reserved_keys : list pystr :=
    map s2p ["__module__"; "__qualname__"; "_required"; "_optional"; "_additional_properties"; "_ignore_none";
             "__annotations__"; "_defaults"]%string.

  (* the value of a non-field attribute of kind u: plain data of that kind; a type is the object ":type:<name>" *)
  Definition aval_ok (n : pystr) (u : uval) (v : pyval) : bool :=
    match u, v with
    | UBool, PBool _ | UList, PList _ | UDict, PDict _ | UInt, PNum (NInt _) | UStr, PStr _ => true
    | UType, POther t o => pystr_eqb t ref_tag && pystr_eqb o (tyobj n)
    | _, _ => false
    end.

  Definition special_val (v : pyval) : Prop :=
    match v with
    | PStr _ | PList _ | PBool _ | PDict _ => True
    | POther t o => t = ref_tag /\ o = annobj
    | _ => False
    end.

  Inductive ent_kind (k : pystr) (v : pyval) : Prop :=
  | EK_member : In k names -> v = ref (mobj k) -> ent_kind k v
  | EK_attr u : ~ In k names -> In (k, u) (s_attrs s) -> aval_ok k u v = true -> ent_kind k v
  | EK_special : ~ In k names -> str_in k reserved_keys = true -> special_val v -> ent_kind k v.

  Record dict_view : Prop := {
    dv_kinds : forall k v, In (k, v) ents -> ent_kind k v;
    dv_nodup : NoDup (map fst ents);
    dv_members : map fst (filter (fun kv => str_in (fst kv) names) ents) = names;
    dv_attrs : forall n u, In (n, u) (s_attrs s) -> exists v, In (n, v) ents /\ aval_ok n u v = true;
    dv_attr_names : NoDup (map fst (s_attrs s));
    dv_attr_fresh : forall n u, In (n, u) (s_attrs s) -> str_in n reserved_keys = false;
    dv_required : alist_get ents (s2p "_required") = option_map v_names (s_required s);
    dv_optional : alist_get ents (s2p "_optional") = option_map v_names (s_optional s);
    dv_addl : alist_get ents n_addl = option_map PBool (s_additional s);
    dv_addl_old : alist_get ents n_addl_old = None;
    dv_defaults : alist_get ents (s2p "_defaults") = Some (v_defs defs);
    dv_ann : alist_get ents (s2p "__annotations__") = match ann with [] => None | _ => Some (ref annobj) end }.

  (* ---------------------------------------------------------------- the heap *)

  Definition ia (K : string) : pystr := isinstance_attr (s2p K).

  (* what the heap says about the objects of the class body and about the classes [gg] that exist (with [ex] the
     other entries of their dicts); [ms] are the member objects as they currently are, [an] the current content of
     the __annotations__ dict *)
  Record mheap (gg : genv) (ex : pystr -> list (pystr * pyval)) (an : list (pystr * pyval)) (h : heap) (ms : members) : Prop := {
    mh_env : agree_env h gd gg ex;
    mh_field : forall n m, alist_get ms n = Some m -> h (mobj n) (ia "Field") = Some (PBool (negb (is_const m)));
    mh_const : forall n m, alist_get ms n = Some m -> h (mobj n) (ia "Constant") = Some (PBool (is_const m));
    mh_val : forall n v, alist_get ms n = Some (MConst v) -> h (mobj n) (s2p "_val") = Some v;
    mh_default : forall n, h (mobj n) n__default =
                           match alist_get ms n with Some (MField fo) => Some (default_attr (fo_default fo)) | _ => None end;
    mh_mnone : forall n a, In a [ia "StructMeta"; ia "type"; n_dict_content; n_mro] -> h (mobj n) a = None;
    mh_type : forall n, h (tyobj n) (ia "type") = Some (PBool true) /\
                        forall a, In a [ia "Field"; ia "Constant"; ia "StructMeta"; n_dict_content; n_mro] -> h (tyobj n) a = None;
    mh_ann : h annobj n_dict_content = Some (PDict (skeys an)) /\
             forall a, In a [ia "Field"; ia "Constant"; ia "StructMeta"; ia "type"; n_mro] -> h annobj a = None;
    mh_blocked : h n_Structure n_blocked = Some (PBool (gd_block_non_typedpy gd));
    mh_tpd_block : h n_TypedPyDefaults (s2p "block_unknown_consts") = Some (PBool (gd_block_unknown_consts gd));
    mh_env_members : forall x kx n m, find_klass g x = Some kx -> In (n, m) (own_of g x) ->
        h (member_obj x n) (ia "Constant") = Some (PBool (is_const m)) /\
        forall v, m = MConst v -> h (member_obj x n) (s2p "_val") = Some v }.

  (* the attributes [mheap] speaks about *)
  Definition spec_attrs : list pystr :=
    env_list ++ [ia "Field"; ia "Constant"; ia "type"; s2p "_val"; n__default; n_dict_content; n_blocked;
                 s2p "block_unknown_consts"; s2p "additional_properties_default"].

  (* the static side conditions (see [new_domain] below for the boolean ones) *)
  Hypothesis Hg_names : forallb (fun k => negb (pseudo_attr (k_name k))) g = true.

  (* a heap that differs only in cells [mheap] does not speak about is as good (the content of a heap dict is
     only spoken about for the objects of the class body, whose names contain ':') *)
  Lemma mheap_transfer gg ex an h h' ms :
    (forall o a, str_in a spec_attrs = true -> pystr_eqb a n_dict_content = false -> h' o a = h o a) ->
    (forall o, pseudo_attr o = true -> h' o n_dict_content = h o n_dict_content) ->
    (forall x kx a, find_klass gg x = Some kx -> In a (map fst (k_own kx)) -> h' x a = h x a) ->
    mheap gg ex an h ms -> mheap gg ex an h' ms.
  Proof.
    intros Hs Hd Hcls M.
    assert (Hs' : forall o a, In a spec_attrs -> a <> n_dict_content -> h' o a = h o a).
    { intros o a Ha Hne. apply Hs; [apply str_in_In; exact Ha|]. apply pystr_eqb_neq. exact Hne. }
    assert (Hpm : forall n, pseudo_attr (mobj n) = true) by (intro n; reflexivity).
    assert (Hpt : forall n, pseudo_attr (tyobj n) = true) by (intro n; reflexivity).
    assert (Hsel : forall o a, pseudo_attr o = true -> In a spec_attrs -> h' o a = h o a).
    { intros o a Hp Ha. destruct (pystr_eqb a n_dict_content) eqn:E.
      - apply pystr_eqb_spec in E. subst a. apply Hd. exact Hp.
      - apply Hs; [apply str_in_In; exact Ha|exact E]. }
    destruct M as [Menv M1 M2 M3 M4 M5 M6 M7 M8 M9 M11]. constructor.
    - destruct Menv as [Hc Hadl Hm]. constructor.
      + intros o a Ha. rewrite Hs'; [apply Hc; exact Ha| |].
        * apply in_or_app. left. apply str_in_In. exact Ha.
        * intro; subst a. discriminate.
      + rewrite Hs' by (try discriminate; vm_compute; tauto). exact Hadl.
      + intros x kx n Hk Hn Hp Hsp. rewrite (Hcls x kx n Hk Hn). apply (Hm x kx n Hk Hn Hp Hsp).
    - intros n m H. rewrite Hsel by (try apply Hpm; vm_compute; tauto). apply (M1 n m H).
    - intros n m H. rewrite Hsel by (try apply Hpm; vm_compute; tauto). apply (M2 n m H).
    - intros n v H. rewrite Hsel by (try apply Hpm; vm_compute; tauto). apply (M3 n v H).
    - intro n. rewrite Hsel by (try apply Hpm; vm_compute; tauto). apply M4.
    - intros n a Ha. rewrite Hsel; [apply (M5 n a Ha)|apply Hpm|]. cbn [In] in Ha. vm_compute. intuition (subst; tauto).
    - intro n. destruct (M6 n) as [A B]. split; [rewrite Hsel by (try apply Hpt; vm_compute; tauto); exact A|].
      intros a Ha. rewrite Hsel; [apply (B a Ha)|apply Hpt|]. cbn [In] in Ha. vm_compute. intuition (subst; tauto).
    - destruct M7 as [A B]. split; [rewrite Hsel by (try reflexivity; vm_compute; tauto); exact A|].
      intros a Ha. rewrite Hsel; [apply (B a Ha)|reflexivity|]. cbn [In] in Ha. vm_compute. intuition (subst; tauto).
    - rewrite Hs' by (try discriminate; vm_compute; tauto). exact M8.
    - rewrite Hs' by (try discriminate; vm_compute; tauto). exact M9.
    - intros x kx n m Hk Hin. destruct (M11 x kx n m Hk Hin) as [A B].
      split; [rewrite Hsel by (try apply pseudo_member; vm_compute; tauto); exact A|].
      intros v Hv. rewrite Hsel by (try apply pseudo_member; vm_compute; tauto). apply (B v Hv).
  Qed.

  (* ---------------------------------------------------------------- what isinstance says about the entries *)

  Hypothesis Hdv : dict_view.

  Lemma inst_member gg ex an h ms n m : mheap gg ex an h ms -> alist_get ms n = Some m ->
    obj_isinstance h (ref (mobj n)) (s2p "Field") = Ok (negb (is_const m)) /\
    obj_isinstance h (ref (mobj n)) (s2p "Constant") = Ok (is_const m) /\
    obj_isinstance h (ref (mobj n)) (s2p "StructMeta") = Ok false /\
    obj_isinstance h (ref (mobj n)) (s2p "type") = Ok false.
  Proof.
    intros M Hm. rewrite !isinstance_ref. fold (ia "Field"). fold (ia "Constant"). fold (ia "StructMeta"). fold (ia "type").
    rewrite (mh_field gg ex an h ms M n m Hm), (mh_const gg ex an h ms M n m Hm).
    rewrite (mh_mnone gg ex an h ms M n (ia "StructMeta")) by (cbn [In]; tauto).
    rewrite (mh_mnone gg ex an h ms M n (ia "type")) by (cbn [In]; tauto).
    destruct (is_const m); repeat split; reflexivity.
  Qed.

  Lemma inst_attr gg ex an h ms k u v : mheap gg ex an h ms -> aval_ok k u v = true ->
    obj_isinstance h v (s2p "Field") = Ok false /\ obj_isinstance h v (s2p "Constant") = Ok false /\
    obj_isinstance h v (s2p "StructMeta") = Ok false /\
    obj_isinstance h v (s2p "type") = Ok (match u with UType => true | _ => false end).
  Proof.
    intros M Hv. destruct u, v as [| |[| |]| | | | | | | | |t o]; try discriminate; try (repeat split; reflexivity).
    cbn [aval_ok] in Hv. apply andb_true_iff in Hv as [H1 H2]. apply pystr_eqb_spec in H1, H2. subst t o.
    fold (ref (tyobj k)). rewrite !isinstance_ref. destruct (mh_type gg ex an h ms M k) as [A B].
    fold (ia "Field"). fold (ia "Constant"). fold (ia "StructMeta"). fold (ia "type").
    rewrite A, !B by (cbn [In]; tauto). repeat split; reflexivity.
  Qed.

  Lemma inst_special gg ex an h ms v K : mheap gg ex an h ms -> special_val v -> In K ["Field"; "Constant"; "StructMeta"; "type"]%string ->
    obj_isinstance h v (s2p K) = Ok false.
  Proof.
    intros M Hv HK. destruct v; try contradiction; try reflexivity. destruct Hv as [-> ->].
    fold (ref annobj). rewrite isinstance_ref. destruct (mh_ann gg ex an h ms M) as [_ B].
    rewrite B; [reflexivity|]. cbn [In] in HK. unfold ia. cbn [In].
    destruct HK as [<-|[<-|[<-|[<-|[]]]]]; tauto.
  Qed.

  Lemma reserved_special k : str_in k reserved_keys = true ->
    (str_in k special_attrs = true \/ starts_with (s2p "__") k = true) /\
    (Define.is_sunder k || Define.is_dunder k = true) /\ (known_attr k || Define.is_dunder k = true).
  Proof.
    intro H. apply str_in_In in H. unfold reserved_keys in H. cbn [map In] in H.
    repeat (destruct H as [<-|H]; [vm_compute; split; [tauto|split; reflexivity]|]). destruct H.
  Qed.

  (* every member name has an object; [ms] are the same members as [pre], possibly with other defaults *)
  Definition same_members (ms : members) : Prop := map fst ms = names.

  Lemma member_get ms n : same_members ms -> In n names -> exists m, alist_get ms n = Some m.
  Proof.
    intros Hs Hn. rewrite <- Hs in Hn. destruct (alist_get ms n) as [m|] eqn:E; [exists m; reflexivity|].
    apply alist_get_None_notin in E. contradiction.
  Qed.

  (* ---------------------------------------------------------------- the statements that leave the class dict alone *)

  Hypothesis HX_isfrf : forall hh v, X (s2p "is_function_returning_field") hh [v] = Ok (hh, PBool false, [v]).

  (* _instantiate_fields_if_needed *)
  Lemma new_instantiate gg ex an h ms d : mheap gg ex an h ms -> same_members ms ->
    StructMeta_new__call__instantiate_fields_if_needed so X h (PDict (skeys ents)) d = Ok (h, PDict (skeys ents)).
  Proof.
    intros M Hs. unfold StructMeta_new__call__instantiate_fields_if_needed.
    rewrite instantiate_frame_src; [reflexivity|].
    intros [k v] Hin. unfold entry_left_alone. cbn [fst snd].
    assert (Hmro_plain : forall o, h o n_mro = None -> dv_getattr_def h (ref o) (s2p "__mro__") (PList []) = Ok (PList [])).
    { intros o Ho. rewrite getattr_def_ref. change (s2p "__mro__") with n_mro. rewrite Ho. reflexivity. }
    destruct (dv_kinds Hdv k v Hin) as [Hk ->|u Hk Hu Hv|Hk Hr Hv].
    - destruct (member_get ms k Hs Hk) as [m Hm]. destruct (inst_member gg ex an h ms k m M Hm) as [A _].
      destruct (is_const m) eqn:Ec; cbn [negb] in A.
      + right. right. right. split; [exact A|]. split; [|apply HX_isfrf].
        exists []. split; [|reflexivity]. apply Hmro_plain. apply (mh_mnone gg ex an h ms M k). cbn [In]. tauto.
      + right. left. exact A.
    - destruct (inst_attr gg ex an h ms k u v M Hv) as [A _]. right. right. right. split; [exact A|]. split; [|apply HX_isfrf].
      exists []. split; [|reflexivity].
      destruct u, v as [| |[| |]| | | | | | | | |t o]; try discriminate; try reflexivity.
      cbn [aval_ok] in Hv. apply andb_true_iff in Hv as [H1 H2]. apply pystr_eqb_spec in H1, H2. subst t o.
      fold (ref (tyobj k)). apply Hmro_plain. destruct (mh_type gg ex an h ms M k) as [_ B]. apply B. cbn [In]. tauto.
    - destruct (reserved_special k Hr) as [[H|H] _]; [left; exact H|].
      right. right. left. split; [|exact H]. apply (inst_special gg ex an h ms v "Field" M Hv). cbn [In]. tauto.
  Qed.

  (* for key, val in cls_dict.items(): a Structure class as value would be wrapped in a ClassReference; the
     class dict of the model holds none *)
  Lemma new_classref_loop gg ex an h ms : mheap gg ex an h ms -> same_members ms ->
    StructMeta_new__for_key_val so X h (PDict (skeys ents)) = Ok (h, PDict (skeys ents)).
  Proof.
    intros M Hs. unfold StructMeta_new__for_key_val. rewrite items_skeys. cbn [bind].
    rewrite deref_view, iter_items_view. cbn [bind].
    match goal with |- context [@dv_foldM ?S ?F] => set (BODY := F) end.
    assert (Hloop : forall l, (forall kv, In kv l -> In kv ents) -> forall d, py_foldM BODY (map v_item l) (h, d) = Ok (h, d)).
    { induction l as [|[k v] t IH]; intros Hl d; [reflexivity|].
      cbn [map py_foldM]. unfold BODY at 1. unfold v_item at 1. cbn [fst snd]. unfold py_unpack.
      cbn [py_iter_items bind length Nat.eqb].
      assert (E : obj_isinstance h v (s2p "StructMeta") = Ok false).
      { destruct (dv_kinds Hdv k v (Hl _ (or_introl eq_refl))) as [Hk ->|u Hk Hu Hv|Hk Hr Hv].
        - destruct (member_get ms k Hs Hk) as [m Hm]. apply (inst_member gg ex an h ms k m M Hm).
        - apply (inst_attr gg ex an h ms k u v M Hv).
        - apply (inst_special gg ex an h ms v "StructMeta" M Hv). cbn [In]. tauto. }
      rewrite E. cbn [py_and bind]. apply IH. intros kv Hkv. apply Hl. right. exact Hkv. }
    unfold dv_foldM. rewrite Hloop by (intros kv H; exact H). reflexivity.
  Qed.

  (* fields = [key for key, val in cls_dict.items() if isinstance(val, (Field, Constant))] *)
  Lemma new_fields gg ex an h ms : mheap gg ex an h ms -> same_members ms ->
    StructMeta_new__set_fields so X h (PDict (skeys ents)) = Ok (v_names names).
  Proof.
    intros M Hs. unfold StructMeta_new__set_fields. rewrite items_skeys. cbn [bind].
    rewrite deref_view, iter_items_view. cbn [bind].
    rewrite (comp_items _ (fun kv => str_in (fst kv) names) (fun kv => PStr (fst kv))).
    - cbn [bind]. unfold v_names. rewrite <- (map_map fst PStr), (dv_members Hdv). reflexivity.
    - intros [k v] Hin. unfold v_item at 1. cbn [fst snd]. unfold py_unpack. cbn [py_iter_items bind length Nat.eqb].
      destruct (dv_kinds Hdv k v Hin) as [Hk ->|u Hk Hu Hv|Hk Hr Hv].
      + destruct (member_get ms k Hs Hk) as [m Hm]. destruct (inst_member gg ex an h ms k m M Hm) as [A [B _]].
        rewrite A, B. cbn [py_or bind]. rewrite (proj2 (str_in_In k names) Hk). destruct (is_const m); reflexivity.
      + destruct (inst_attr gg ex an h ms k u v M Hv) as [A [B _]]. rewrite A, B. cbn [py_or bind].
        rewrite (proj2 (str_in_false k names) Hk). reflexivity.
      + rewrite (inst_special gg ex an h ms v "Field" M Hv), (inst_special gg ex an h ms v "Constant" M Hv) by (cbn [In]; tauto).
        cbn [py_or bind]. rewrite (proj2 (str_in_false k names) Hk). reflexivity.
  Qed.

  (* the non-typedpy assignment guard *)
  Hypothesis HX_generic : forall hh v, X (s2p "type_is_generic") hh [v] = Ok (hh, PBool false, [v]).

  Lemma new_non_typedpy gg ex an h ms : mheap gg ex an h ms -> same_members ms -> existsb bad_field_name names = false ->
    StructMeta_new__for_key_val_2 so X h (PDict (skeys ents)) =
    if gd_block_non_typedpy gd && existsb non_typedpy_assignment (s_attrs s) then Raise TypeError else Ok h.
  Proof.
    intros M Hs Hgood. unfold StructMeta_new__for_key_val_2. rewrite items_skeys. cbn [bind].
    rewrite deref_view, iter_items_view. cbn [bind].
    match goal with |- context [@dv_foldM ?S ?F] => set (BODY := F) end.
    set (bad := fun kv : pystr * pyval =>
                  gd_block_non_typedpy gd &&
                  existsb (fun nu => pystr_eqb (fst nu) (fst kv) && non_typedpy_assignment nu) (s_attrs s)).
    assert (Hstep : forall k v, In (k, v) ents -> BODY h (v_item (k, v)) = if bad (k, v) then Raise TypeError else Ok h).
    { intros k v Hin. unfold BODY, v_item. cbn [fst snd]. unfold py_unpack. cbn [py_iter_items bind length Nat.eqb].
      cbn [py_is_sunder py_is_dunder bind].
      assert (Hbl : (t73 <- dv_getattr h (ref (s2p "Structure")) (s2p "is_non_typedpy_field_assignment_blocked()");;
                     Ok (py_truthy (deref h t73))) = Ok (gd_block_non_typedpy gd)).
      { rewrite getattr_ref. change (s2p "Structure") with n_Structure. fold n_blocked. rewrite (mh_blocked gg ex an h ms M). reflexivity. }
      destruct (dv_kinds Hdv k v Hin) as [Hk ->|u Hk Hu Hv|Hk Hr Hv].
      - (* a member *)
        assert (Eb : bad (k, ref (mobj k)) = false).
        { unfold bad. cbn [fst]. destruct (gd_block_non_typedpy gd); [|reflexivity]. cbn [andb].
          destruct (existsb _ (s_attrs s)) eqn:E; [|reflexivity]. apply existsb_exists in E as [[n u] [Hnu Hb]].
          cbn [fst] in Hb. apply andb_true_iff in Hb as [Hb _]. apply pystr_eqb_spec in Hb. subst n.
          destruct (dv_attrs Hdv k u Hnu) as [v' [Hin' Hv']].
          assert (v' = ref (mobj k)) by (apply (NoDup_fst_unique ents k v' (ref (mobj k)) (dv_nodup Hdv) Hin' Hin)). subst v'.
          destruct u; discriminate. }
        rewrite Eb. destruct (member_get ms k Hs Hk) as [m Hm]. destruct (inst_member gg ex an h ms k m M Hm) as [A [_ [_ D]]].
        rewrite A. cbn [bind]. destruct (is_const m) eqn:Ec; cbn [negb py_any existsb orb py_not bind].
        + (* a Constant: neither a type nor, for the oracle, a generic *)
          assert (Hnb : bad_field_name k = false).
          { destruct (existsb bad_field_name names) eqn:E; [discriminate|].
            destruct (bad_field_name k) eqn:E2; [|reflexivity].
            assert (existsb bad_field_name names = true) by (apply existsb_exists; exists k; split; assumption). congruence. }
          assert (Hsd : str_is_sunder k || str_is_dunder k = false).
          { apply no_underscore_plain. unfold bad_field_name in Hnb. apply orb_false_iff in Hnb as [Hu _]. exact Hu. }
          apply orb_false_iff in Hsd as [S1 S2]. rewrite S1, S2. cbn [orb negb bind]. rewrite D. cbn [bind].
          rewrite HX_generic. cbn [bind]. rewrite unchanged_refl. cbn [bind py_truthy]. reflexivity.
        + rewrite !orb_true_r. reflexivity.
      - (* a non-field attribute *)
        destruct (inst_attr gg ex an h ms k u v M Hv) as [A [_ [_ D]]]. rewrite A. cbn [bind py_any existsb].
        assert (Eb : bad (k, v) = gd_block_non_typedpy gd && non_typedpy_assignment (k, u)).
        { unfold bad. cbn [fst]. f_equal. destruct (non_typedpy_assignment (k, u)) eqn:E.
          - apply existsb_exists. exists (k, u). split; [exact Hu|]. cbn [fst]. rewrite pystr_eqb_refl, E. reflexivity.
          - destruct (existsb _ (s_attrs s)) eqn:E2; [|reflexivity]. apply existsb_exists in E2 as [[n u'] [Hnu Hb]].
            cbn [fst] in Hb. apply andb_true_iff in Hb as [Hb1 Hb2]. apply pystr_eqb_spec in Hb1. subst n.
            assert (u' = u).
            { pose proof (dv_attr_names Hdv) as Hnd. apply (NoDup_fst_unique (s_attrs s) k u' u Hnd Hnu Hu). }
            subst u'. congruence. }
        rewrite Eb. unfold non_typedpy_assignment. rewrite is_sunder_eq, is_dunder_eq.
        destruct (str_is_sunder k); cbn [orb negb py_not bind andb]; [rewrite andb_false_r; reflexivity|].
        destruct (str_is_dunder k); cbn [orb negb py_not bind andb]; [rewrite andb_false_r; reflexivity|].
        rewrite D. cbn [bind]. destruct u; cbn [bind]; rewrite ?HX_generic; cbn [bind]; rewrite ?unchanged_refl; cbn [bind py_truthy];
          rewrite ?andb_false_r; try reflexivity.
        rewrite Hbl. cbn [bind]. rewrite andb_true_r. destruct (gd_block_non_typedpy gd); reflexivity.
      - (* __module__, _required, ...: sunder or dunder names *)
        destruct (reserved_special k Hr) as [_ [Hsd _]].
        assert (Eb : bad (k, v) = false).
        { unfold bad. cbn [fst]. destruct (gd_block_non_typedpy gd); [|reflexivity]. cbn [andb].
          destruct (existsb _ (s_attrs s)) eqn:E; [|reflexivity]. apply existsb_exists in E as [[n u] [Hnu Hb]].
          cbn [fst] in Hb. apply andb_true_iff in Hb as [Hb Hb2]. apply pystr_eqb_spec in Hb. subst n.
          unfold non_typedpy_assignment in Hb2. rewrite Hsd in Hb2. discriminate. }
        rewrite Eb. rewrite (inst_special gg ex an h ms v "Field" M Hv) by (cbn [In]; tauto). cbn [bind py_any existsb].
        rewrite is_sunder_eq, is_dunder_eq in Hsd.
        destruct (str_is_sunder k); cbn [orb negb py_not bind]; [reflexivity|]. cbn [orb] in Hsd. rewrite Hsd. reflexivity. }
    assert (Hloop : forall l, (forall kv, In kv l -> In kv ents) ->
              py_foldM BODY (map v_item l) h = if existsb bad l then Raise TypeError else Ok h).
    { induction l as [|[k v] t IH]; intro Hl; [reflexivity|].
      cbn [map py_foldM existsb]. rewrite (Hstep k v (Hl _ (or_introl eq_refl))).
      destruct (bad (k, v)); cbn [bind orb]; [reflexivity|]. apply IH. intros kv Hkv. apply Hl. right. exact Hkv. }
    unfold dv_foldM. rewrite Hloop by (intros kv H; exact H).
    replace (existsb bad ents) with (gd_block_non_typedpy gd && existsb non_typedpy_assignment (s_attrs s)).
    - destruct (gd_block_non_typedpy gd && existsb non_typedpy_assignment (s_attrs s)); reflexivity.
    - unfold bad. destruct (gd_block_non_typedpy gd); cbn [andb].
      2:{ symmetry. apply existsb_const_false. }
      destruct (existsb non_typedpy_assignment (s_attrs s)) eqn:E.
      + symmetry. apply existsb_exists in E as [[n u] [Hnu Hb]]. destruct (dv_attrs Hdv n u Hnu) as [v [Hin _]].
        apply existsb_exists. exists (n, v). split; [exact Hin|]. cbn [fst]. apply existsb_exists. exists (n, u).
        split; [exact Hnu|]. cbn [fst]. rewrite pystr_eqb_refl, Hb. reflexivity.
      + symmetry. destruct (existsb _ ents) eqn:E2; [|reflexivity]. apply existsb_exists in E2 as [[k v] [_ Hb]].
        cbn [fst] in Hb. apply existsb_exists in Hb as [nu [Hnu Hb]]. apply andb_true_iff in Hb as [_ Hb].
        assert (existsb non_typedpy_assignment (s_attrs s) = true) by (apply existsb_exists; exists nu; split; assumption).
        congruence.
  Qed.

  (* ---------------------------------------------------------------- the bases, the annotations *)

  Variable cd0 : pyval.        (* the class dict as the class body leaves it *)
  Variable p_cls : pyval.      (* the metaclass *)

  Hypothesis HX_frame : forall hh, X (s2p "currentframe") hh [] = Ok (hh, PStruct (s2p "frame") [(s2p "f_back", PNone)], []).
  (* add_annotations_to_class_dict turns the class body's dict into [ents] (the annotated fields become the member
     objects, their `= value` goes to "_defaults") and touches nothing else *)
  Hypothesis HX_annotations : forall hh,
    X (s2p "add_annotations_to_class_dict") hh [cd0; kwarg (s2p "previous_frame") PNone] =
    Ok (hh, PNone, [PDict (skeys ents); kwarg (s2p "previous_frame") PNone]).

  Lemma new_bases hp gg ex : env_view hp gd gg ex -> bases_ok gg ex (s_bases s) = true ->
    base_info gd gg (s_bases s) [] false <> Raise Unmodelled ->
    StructMeta_new__set_bases_params_bases_required so X hp (PTuple (v_refs (s_bases s))) =
    match base_info gd gg (s_bases s) [] false with
    | Ok bp => Ok (v_params bp, v_names (bases_required bp))
    | Raise x => Raise x
    end.
  Proof.
    intros Hev Hok Hnu. unfold StructMeta_new__set_bases_params_bases_required.
    rewrite (get_base_info_gen so X hp gd gg ex (s_bases s) _ Hev Hok eq_refl Hnu).
    destruct (base_info gd gg (s_bases s) [] false); reflexivity.
  Qed.

  Lemma new_annotations h :
    StructMeta_new__call_add_annotations_to_class_dict so X h cd0 = Ok (h, PDict (skeys ents)).
  Proof.
    unfold StructMeta_new__call_add_annotations_to_class_dict. rewrite HX_frame. cbn [bind dv_getattr alist_get].
    replace (pystr_eqb (s2p "f_back") (s2p "f_back")) with true by reflexivity. cbn [bind].
    rewrite HX_annotations. cbn [bind]. rewrite unchanged_refl. reflexivity.
  Qed.

  Lemma new_defaults h : StructMeta_new__set_defaults so X h (PDict (skeys ents)) = Ok (v_defs defs).
  Proof. unfold StructMeta_new__set_defaults. rewrite subscript_skeys, (dv_defaults Hdv). reflexivity. Qed.

  (* every member name is a key of the class dict, with the member object as value *)
  Lemma member_entry n : In n names -> alist_get ents n = Some (ref (mobj n)).
  Proof.
    intro Hn. rewrite <- (dv_members Hdv) in Hn. apply in_map_iff in Hn as [[k v] [E Hin]]. cbn [fst] in E; subst k.
    apply filter_In in Hin as [Hin Hk]. cbn [fst] in Hk. apply str_in_In in Hk.
    apply In_alist_get_NoDup; [apply (dv_nodup Hdv)|].
    destruct (dv_kinds Hdv n v Hin) as [_ ->|u Hk' _ _|Hk' _ _]; [exact Hin|contradiction|contradiction].
  Qed.

  (* ---------------------------------------------------------------- the `= value` defaults *)

  Hypothesis Hso : so_ok so.
  Hypothesis Hnd : NoDup names.
  Hypothesis Hnorm : defaults_normal pre = true.
  Hypothesis Hmem : forallb (member_ok defs) pre = true.
  Hypothesis Hdefs : forallb (fun nd => eqd_plain (snd nd)) defs = true.
  Hypothesis HX_try : forall hh n fo v, alist_get pre n = Some (MField fo) ->
    X (s2p "._try_default_value") hh [ref (mobj n); v] =
    match vset re_match e (fo_field fo) v with
    | Ok _ => Ok (hh, PNone, [ref (mobj n); v])
    | Raise x => Raise x
    end.

  (* the heap in which the member objects have the defaults of [ms] and everything else is as in [h] *)
  Definition VM (h : heap) (ms : members) : heap :=
    fun o a =>
      if pystr_eqb a n__default then
        match strip_prefix (mobj []) o with
        | Some n => match alist_get ms n with Some (MField fo) => Some (default_attr (fo_default fo)) | _ => None end
        | None => h o a
        end
      else h o a.

  Lemma mobj_app n : mobj n = mobj [] ++ n.
  Proof. unfold mobj, member_obj. rewrite app_nil_r, <- !app_assoc. reflexivity. Qed.

  (* applying the defaults changes the defaults only; kinds and Constant values stay *)
  Lemma apply_members_shape l : forall own, mapM (apply_member re_match e defs) l = Ok own ->
    map fst own = map fst l /\
    forall n m', alist_get own n = Some m' ->
      exists m, alist_get l n = Some m /\ is_const m' = is_const m /\ (forall v, m' = MConst v -> m = MConst v).
  Proof.
    induction l as [|[k m] t IH]; intros own H; cbn [mapM] in H.
    - inversion H; subst. split; [reflexivity|]. intros n m' Hg. discriminate.
    - destruct (apply_member re_match e defs (k, m)) as [[k' m1]|] eqn:E1; cbn [bind] in H; [|discriminate].
      destruct (mapM (apply_member re_match e defs) t) as [ot|] eqn:Et; cbn [bind] in H; [|discriminate].
      inversion H; subst own. clear H. destruct (IH ot eq_refl) as [I1 I2].
      unfold apply_member in E1. cbn [fst snd] in E1.
      assert (Hk : k' = k /\ is_const m1 = is_const m /\ (forall v, m1 = MConst v -> m = MConst v)).
      { destruct m as [fo|cv].
        - destruct (apply_eq_default re_match e fo (alist_get defs k)); cbn [bind] in E1; [|discriminate].
          inversion E1; subst. split; [reflexivity|split; [reflexivity|intros v Hv; discriminate]].
        - inversion E1; subst. split; [reflexivity|split; [reflexivity|intros v Hv; exact Hv]]. }
      destruct Hk as [-> [Hc Hv]]. split; [cbn [map fst]; rewrite I1; reflexivity|].
      intros n m' Hg. cbn [alist_get] in *. destruct (pystr_eqb k n).
      + inversion Hg; subst m'. exists m. split; [reflexivity|split; assumption].
      + apply I2. exact Hg.
  Qed.

  Lemma new_apply_default gg ex an h :
    mheap gg ex an h pre ->
    (forall x kx, find_klass gg x = Some kx -> pseudo_attr x = false) ->
    match mapM (apply_member re_match e defs) pre with
    | Ok own =>
        exists h' req, Permutation req (own_required s own) /\ mheap gg ex an h' own /\
          (forall o a, a <> n__default -> h' o a = h o a) /\
          StructMeta_new__call__apply_default_and_update_required_not_to_include_fields_with_defaults
            so X h (PDict (skeys ents)) (v_defs defs) (v_names names) =
          Ok (h', PDict (skeys (alist_set ents (s2p "_required") (v_names req))))
    | Raise x =>
        StructMeta_new__call__apply_default_and_update_required_not_to_include_fields_with_defaults
          so X h (PDict (skeys ents)) (v_defs defs) (v_names names) = Raise x
    end.
  Proof.
    intros M Hcls.
    unfold StructMeta_new__call__apply_default_and_update_required_not_to_include_fields_with_defaults.
    pose proof (apply_default_gen re_match e so X mobj (VM h) h s defs ents pre Hso Hnd Hnorm Hmem Hdefs) as G.
    assert (G1 : forall ms n, VM h ms (mobj n) n__default =
                   match alist_get ms n with Some (MField fo) => Some (default_attr (fo_default fo)) | _ => None end).
    { intros ms n. unfold VM. rewrite pystr_eqb_refl, (mobj_app n), strip_prefix_app. reflexivity. }
    assert (G2 : forall ms n fo fo', alist_get ms n = Some (MField fo) ->
                   heap_eq (heap_set (VM h ms) (mobj n) n__default (default_attr (fo_default fo'))) (VM h (alist_set ms n (MField fo')))).
    { intros ms n fo fo' Hg o a. unfold heap_set, VM. destruct (pystr_eqb a n__default) eqn:Ea; [|rewrite andb_false_r; reflexivity].
      rewrite andb_true_r. destruct (pystr_eqb o (mobj n)) eqn:Eo.
      - apply pystr_eqb_spec in Eo. subst o. rewrite (mobj_app n), strip_prefix_app, alist_get_set_same. reflexivity.
      - destruct (strip_prefix (mobj []) o) as [n'|] eqn:Es; [|reflexivity].
        assert (n' <> n).
        { intro; subst n'. apply strip_prefix_inv in Es. rewrite <- mobj_app in Es. subst o. rewrite pystr_eqb_refl in Eo. discriminate. }
        rewrite alist_get_set_other by assumption. reflexivity. }
    assert (G3 : heap_eq h (VM h pre)).
    { intros o a. unfold VM. destruct (pystr_eqb a n__default) eqn:Ea; [|reflexivity]. apply pystr_eqb_spec in Ea. subst a.
      destruct (strip_prefix (mobj []) o) as [n|] eqn:Es; [|reflexivity].
      apply strip_prefix_inv in Es. rewrite <- mobj_app in Es. subst o. apply (mh_default gg ex an h pre M). }
    specialize (G G1 G2 G3 member_entry (dv_required Hdv) (dv_optional Hdv) HX_try).
    destruct (mapM (apply_member re_match e defs) pre) as [own|x] eqn:Eown.
    - destruct G as [h' [req [Hperm [Heq Hrun]]]]. rewrite Hrun. cbn [bind]. exists h', req. split; [exact Hperm|].
      destruct (apply_members_shape pre own Eown) as [Hnames Hshape].
      assert (Hother : forall o a, a <> n__default -> h' o a = h o a).
      { intros o a Ha. rewrite Heq. unfold VM. destruct (pystr_eqb a n__default) eqn:E; [apply pystr_eqb_spec in E; contradiction|reflexivity]. }
      split; [|split; [exact Hother|reflexivity]].
      destruct M as [Menv M1 M2 M3 M4 M5 M6 M7 M8 M9 M11]. constructor.
      + destruct Menv as [Hc Hadl Hm]. constructor.
        * intros o a Ha. rewrite Hother; [apply Hc; exact Ha|]. intro; subst a. discriminate.
        * rewrite Hother by discriminate. exact Hadl.
        * intros x kx n Hk Hn Hp Hsp. rewrite Heq. unfold VM. destruct (pystr_eqb n n__default); [|apply (Hm x kx n Hk Hn Hp Hsp)].
          destruct (strip_prefix (mobj []) x) as [n'|] eqn:Es; [|apply (Hm x kx n Hk Hn Hp Hsp)].
          apply strip_prefix_inv in Es. rewrite <- mobj_app in Es. subst x. pose proof (Hcls _ _ Hk) as Hps. discriminate.
      + intros n m' Hg. destruct (Hshape n m' Hg) as [m [Hgm [Hc _]]]. rewrite Hother by discriminate. rewrite Hc. apply (M1 n m Hgm).
      + intros n m' Hg. destruct (Hshape n m' Hg) as [m [Hgm [Hc _]]]. rewrite Hother by discriminate. rewrite Hc. apply (M2 n m Hgm).
      + intros n v Hg. destruct (Hshape n _ Hg) as [m [Hgm [_ Hv]]]. rewrite Hother by discriminate. apply (M3 n v). rewrite Hgm, (Hv v eq_refl). reflexivity.
      + intro n. rewrite Heq. apply G1.
      + intros n a Ha. rewrite Hother; [apply (M5 n a Ha)|]. cbn [In] in Ha. intro; subst a. intuition discriminate.
      + intro n. destruct (M6 n) as [A B]. split; [rewrite Hother by discriminate; exact A|].
        intros a Ha. rewrite Hother; [apply (B a Ha)|]. cbn [In] in Ha. intro; subst a. intuition discriminate.
      + destruct M7 as [A B]. split; [rewrite Hother by discriminate; exact A|].
        intros a Ha. rewrite Hother; [apply (B a Ha)|]. cbn [In] in Ha. intro; subst a. intuition discriminate.
      + rewrite Hother by discriminate. exact M8.
      + rewrite Hother by discriminate. exact M9.
      + intros x kx n m Hk Hin. destruct (M11 x kx n m Hk Hin) as [A B]. split; [rewrite Hother by discriminate; exact A|].
        intros v Hv. rewrite Hother by discriminate. apply (B v Hv).
    - rewrite G. reflexivity.
  Qed.

  (* ---------------------------------------------------------------- the class object *)

  (* what is known of the new class while StructMeta.__new__ completes it *)
  Definition kc (mro : list pystr) (ms : members) : klass :=
    {| k_name := c; k_is_struct := true; k_bases := s_bases s; k_mro := mro; k_own := ms; k_all := [];
       k_required := []; k_sig_req := []; k_sig_opt := []; k_sig_kwargs := false;
       k_additional := s_additional s; k_ignore_none := s_ignore_none s; k_constants := [] |}.
  Definition extra' : pystr -> list (pystr * pyval) := fun o => if pystr_eqb o c then [] else extra o.

  Variable fields_at_creation : option pyval.   (* what getattr(clsobj, "_fields") finds before __new__ sets it *)

  (* the heap after type.__new__(cls, name, bases, dict): a new class object; getattr on it finds its MRO, the
     entries of its dict, and the members of its bases *)
  Definition created (h : heap) (mro : list pystr) : heap :=
    fun o a =>
      if pystr_eqb o c then
        if pystr_eqb a (s2p "_fields") then fields_at_creation
        else if pystr_eqb a (s2p "__annotations__") then match ann with [] => None | _ => Some (ref annobj) end
        else match class_attr (kc mro pre) [] a with
             | Some v => Some v
             | None => if negb (pseudo_attr a) then alist_get (v_fields_of_mro g (tl_str mro)) a else None
             end
      else h o a.

  (* super().__new__(cls, name, bases, dict(cls_dict)) is type.__new__: it computes the MRO (TypeError when the
     bases are inconsistent) and creates the class object *)
  Hypothesis HX_new : forall hh d,
    X (s2p "super().__new__") hh [p_cls; PStr c; PTuple (v_refs (s_bases s)); d] =
    match mro_of g c (s_bases s) with
    | Ok mro => Ok (created hh mro, ref c, [p_cls; PStr c; PTuple (v_refs (s_bases s)); d])
    | Raise x => Raise x
    end.

  Hypothesis Hc_plain : pseudo_attr c = false.
  Hypothesis Hc_fresh : find_klass g c = None.
  Hypothesis Hc_structure : c <> n_Structure.
  Hypothesis Hc_tpd : c <> n_TypedPyDefaults.
  Hypothesis Htpd_fresh : find_klass g n_TypedPyDefaults = None.
  Hypothesis Hnames_reserved : forallb (fun n => negb (str_in n reserved_keys)) names = true.

  Lemma del1_get' (l : list (pystr * pyval)) k k' : k' <> k -> alist_get (del1 l k) k' = alist_get l k'.
  Proof.
    intro H. induction l as [|[x v] t IH]; [reflexivity|]. cbn [del1 alist_get]. destruct (pystr_eqb x k) eqn:E.
    - apply pystr_eqb_spec in E. subst x. destruct (pystr_eqb k k') eqn:E2; [apply pystr_eqb_spec in E2; congruence|reflexivity].
    - cbn [alist_get]. destruct (pystr_eqb x k'); [reflexivity|exact IH].
  Qed.

  (* cls_dict.pop("_defaults", None) *)
  Definition ents2 (req : list pystr) : list (pystr * pyval) :=
    del1 (alist_set ents (s2p "_required") (v_names req)) (s2p "_defaults").

  Lemma new_pop h req :
    StructMeta_new__call_pop so X h (PDict (skeys (alist_set ents (s2p "_required") (v_names req)))) =
    Ok (PDict (skeys (ents2 req))).
  Proof.
    unfold StructMeta_new__call_pop, dv_dict_pop. cbn [py_hashable']. rewrite dict_get_skeys, dict_del_skeys.
    rewrite alist_get_set_other by discriminate. rewrite (dv_defaults Hdv). reflexivity.
  Qed.

  Lemma new_clsobj h req :
    StructMeta_new__set_clsobj so X h p_cls (PStr c) (PTuple (v_refs (s_bases s))) (PDict (skeys (ents2 req))) =
    match mro_of g c (s_bases s) with
    | Ok mro => Ok (created h mro, ref c)
    | Raise x => Raise x
    end.
  Proof.
    unfold StructMeta_new__set_clsobj. cbn [dv_dict_of bind]. rewrite HX_new.
    destruct (mro_of g c (s_bases s)) as [mro|x]; cbn [bind]; [|reflexivity]. rewrite !unchanged_refl. reflexivity.
  Qed.

  (* _check_for_final_violations needs to know the classes of the MRO's tail only *)
  Lemma foldM_check_in (f : unit -> pyval -> res unit) (bad : pystr -> bool) x l :
    (forall c0, In c0 l -> f tt (ref c0) = if bad c0 then Raise x else Ok tt) ->
    dv_foldM f (v_refs l) tt = if existsb bad l then Raise x else Ok tt.
  Proof.
    intro H. unfold dv_foldM, v_refs. induction l as [|c0 t IH]; [reflexivity|].
    cbn [map py_foldM existsb]. rewrite (H c0 (or_introl eq_refl)). destruct (bad c0); cbn [bind orb]; [reflexivity|].
    apply IH. intros c1 Hc1. apply H. right. exact Hc1.
  Qed.

  Lemma check_final_core hp name mro_tail :
    (forall x, In x mro_tail -> obj_isinstance hp (ref x) (s2p "StructMeta") =
                                Ok (match find_klass g x with Some k => k_is_struct k | None => false end)) ->
    (forall x, In x mro_tail -> obj_isinstance hp (ref x) (s2p "FieldMeta") = Ok false) ->
    (forall x k r, In x mro_tail -> find_klass g x = Some k -> obj_issubclass hp (ref x) (ref r) = Ok (str_in r (k_mro k))) ->
    DefineSrc.check_for_final_violations so X hp (PList (v_refs (name :: mro_tail))) =
    if final_violation g mro_tail then Raise TypeError else Ok PNone.
  Proof.
    intros H1 H2 H3. unfold DefineSrc.check_for_final_violations. cbv zeta.
    unfold py_unpack. cbn [v_refs map py_iter_items bind length Nat.leb firstn skipn app].
    rewrite deref_list. cbn [dv_iter bind]. fold (v_refs mro_tail).
    rewrite (foldM_check_in _ (fun c0 => strict_sub g c0 n_Final || strict_sub g c0 n_Immutable) TypeError).
    - unfold final_violation. destruct (existsb _ mro_tail); reflexivity.
    - intros c0 Hc0. cbn [bind]. rewrite globals_Final, globals_Immutable, globals_FieldMeta.
      rewrite (H1 c0 Hc0), (H2 c0 Hc0). unfold strict_sub.
      cbn [py_and bind]. destruct (find_klass g c0) as [k|] eqn:Hk.
      2:{ rewrite !andb_false_r. reflexivity. }
      destruct (k_is_struct k); cbn [andb].
      2:{ rewrite !andb_false_r. reflexivity. }
      rewrite !(H3 c0 k _ Hc0 Hk), !ne_refs. cbn [bind py_and].
      change (s2p "FinalStructure") with n_Final. change (s2p "ImmutableStructure") with n_Immutable.
      destruct (str_in n_Final (k_mro k)); cbn [bind deref py_truthy andb];
        destruct (pystr_eqb c0 n_Final); cbn [negb andb orb bind deref py_truthy];
        destruct (str_in n_Immutable (k_mro k)); cbn [bind deref py_truthy andb];
        destruct (pystr_eqb c0 n_Immutable); reflexivity.
  Qed.

  Lemma created_other h mro o a : o <> c -> created h mro o a = h o a.
  Proof. intro H. unfold created. destruct (pystr_eqb o c) eqn:E; [apply pystr_eqb_spec in E; contradiction|reflexivity]. Qed.

  Lemma new_check_final ex an h ms mro_tail :
    mheap g ex an h ms -> ~ In c mro_tail ->
    StructMeta_new__call__check_for_final_violations so X (created h (c :: mro_tail)) (ref c) =
    if final_violation g mro_tail then Raise TypeError else Ok tt.
  Proof.
    intros M Hnc. unfold StructMeta_new__call__check_for_final_violations.
    rewrite getattr_ref. unfold created at 1. rewrite pystr_eqb_refl.
    replace (pystr_eqb (s2p "mro()") (s2p "_fields")) with false by reflexivity.
    replace (pystr_eqb (s2p "mro()") (s2p "__annotations__")) with false by reflexivity.
    replace (class_attr (kc (c :: mro_tail) pre) [] (s2p "mro()")) with (Some (PList (v_refs (c :: mro_tail)))) by reflexivity.
    cbn [bind].
    pose proof (agree_env_view _ _ _ _ (mh_env g ex an h ms M)) as Hev.
    assert (Hx : forall x, In x mro_tail -> x <> c) by (intros x Hx E; subst; contradiction).
    rewrite (check_final_core (created h (c :: mro_tail)) c mro_tail).
    - destruct (final_violation g mro_tail); reflexivity.
    - intros x Hin. rewrite isinstance_ref, created_other by (apply Hx; exact Hin). rewrite <- isinstance_ref. apply (ev_struct _ _ _ _ Hev).
    - intros x Hin. rewrite isinstance_ref, created_other by (apply Hx; exact Hin). rewrite <- isinstance_ref. apply (ev_fieldmeta _ _ _ _ Hev).
    - intros x k r Hin Hk. rewrite <- (ev_subclass _ _ _ _ Hev x k r Hk). unfold obj_issubclass. rewrite !is_ref_ref.
      rewrite created_other by (apply Hx; exact Hin). reflexivity.
  Qed.

  (* ---------------------------------------------------------------- the heap once the class object exists *)

  Hypothesis Hg_members : forall x kx, find_klass g x = Some kx ->
    own_plain kx = true /\ forallb (fun n => negb (bad_field_name n)) (map fst (k_own kx)) = true.

  Lemma class_attr_names mro ms ms' a : map fst ms = map fst ms' -> class_attr (kc mro ms) [] a = class_attr (kc mro ms') [] a.
  Proof.
    intro H. unfold class_attr, kc. cbn [k_is_struct k_mro k_sig_req k_sig_opt k_sig_kwargs k_own k_name k_additional].
    rewrite H. replace (alist_has ms a) with (alist_has ms' a) by (rewrite !alist_has_str_in, H; reflexivity). reflexivity.
  Qed.

  Lemma find_klass_kc mro ms x : find_klass (kc mro ms :: g) x = if pystr_eqb c x then Some (kc mro ms) else find_klass g x.
  Proof. reflexivity. Qed.

  Lemma own_of_kc mro ms x : x <> c -> own_of (kc mro ms :: g) x = own_of g x.
  Proof.
    intro H. unfold own_of. rewrite find_klass_kc. destruct (pystr_eqb c x) eqn:E; [apply pystr_eqb_spec in E; congruence|reflexivity].
  Qed.

  Lemma own_of_kc_c mro ms : own_of (kc mro ms :: g) c = ms.
  Proof. unfold own_of. rewrite find_klass_kc, pystr_eqb_refl. reflexivity. Qed.

  (* the fold over an MRO that does not mention the new class does not see it *)
  Lemma mro_fold_kc {A} (F : pystr -> pystr * member -> A) mro ms l : ~ In c l -> mro_fold F (kc mro ms :: g) l = mro_fold F g l.
  Proof.
    intro H. unfold mro_fold. assert (Hr : ~ In c (rev l)) by (intro Hin; apply in_rev in Hin; contradiction).
    generalize (@nil (pystr * A)). induction (rev l) as [|x t IH]; intro acc; [reflexivity|].
    cbn [fold_left]. rewrite own_of_kc by (intro; subst; apply Hr; left; reflexivity).
    apply IH. intro Hin. apply Hr. right. exact Hin.
  Qed.

  Lemma mro_fold_cons {A} (F : pystr -> pystr * member -> A) mro ms tail : ~ In c tail ->
    mro_fold F (kc mro ms :: g) (c :: tail) = alist_merge (mro_fold F g tail) (map (fun nm => (fst nm, F c nm)) ms).
  Proof.
    intro H. unfold mro_fold at 1. cbn [rev]. rewrite fold_left_app. cbn [fold_left]. rewrite own_of_kc_c.
    f_equal. apply (mro_fold_kc F mro ms tail H).
  Qed.

  (* the names the fold collects are member names of classes of the MRO *)
  Lemma mro_fold_keys {A} (F : pystr -> pystr * member -> A) gg l n :
    In n (map fst (mro_fold F gg l)) -> exists x, In x l /\ In n (map fst (own_of gg x)).
  Proof.
    unfold mro_fold. intro H.
    assert (Hgen : forall l' acc, In n (map fst (fold_left (fun acc c0 => alist_merge acc (map (fun nm => (fst nm, F c0 nm)) (own_of gg c0))) l' acc)) ->
              In n (map fst acc) \/ exists x, In x l' /\ In n (map fst (own_of gg x))).
    { induction l' as [|x t IH]; intros acc Hin; [left; exact Hin|]. cbn [fold_left] in Hin.
      destruct (IH _ Hin) as [Ha|[y [Hy Hn]]].
      - rewrite alist_merge_keys in Ha. apply In_merge_names in Ha as [Ha|Ha]; [left; exact Ha|].
        right. exists x. split; [left; reflexivity|]. rewrite map_map in Ha. exact Ha.
      - right. exists y. split; [right; exact Hy|exact Hn]. }
    destruct (Hgen _ _ H) as [[]|[x [Hx Hn]]]. exists x. split; [apply in_rev; exact Hx|exact Hn].
  Qed.

  Lemma own_of_names x n : In n (map fst (own_of g x)) ->
    pseudo_attr n = false /\ str_in n special_class_attrs = false /\ bad_field_name n = false.
  Proof.
    unfold own_of. destruct (find_klass g x) as [kx|] eqn:Hk; [|intros []]. destruct (k_is_struct kx); [|intros []].
    intro Hn. destruct (Hg_members x kx Hk) as [Hp Hb]. unfold own_plain in Hp. apply andb_true_iff in Hp as [Hp _].
    rewrite forallb_forall in Hp, Hb. specialize (Hp n Hn). specialize (Hb n Hn).
    apply andb_true_iff in Hp as [P1 P2]. apply negb_true_iff in P1, P2, Hb. repeat split; assumption.
  Qed.

  (* the cells of the class object that the rest of __new__ reads *)
  Record cheap (mro : list pystr) (ms : members) (an : list (pystr * pyval)) (h : heap) : Prop := {
    ch_heap : mheap (kc mro ms :: g) extra' an h ms;
    ch_ann : h c (s2p "__annotations__") = match ann with [] => None | _ => Some (ref annobj) end;
    ch_getattr : forall n v, alist_get (v_fields_of_mro (kc mro ms :: g) mro) n = Some v -> h c n = Some v }.

  Lemma good_name_plain n : bad_field_name n = false -> str_in n reserved_keys = false -> pseudo_attr n = false ->
    str_in n special_class_attrs = false /\ pystr_eqb n (s2p "_fields") = false /\ pystr_eqb n (s2p "__annotations__") = false.
  Proof.
    intros Hb Hr Hp. unfold bad_field_name in Hb. apply orb_false_iff in Hb as [Hu _].
    assert (Hne : forall k, match k with a :: _ => N.eqb a us | [] => false end = true -> pystr_eqb n k = false).
    { intros k Hk. apply pystr_eqb_neq. intro; subst k. congruence. }
    split; [|split; apply Hne; reflexivity].
    unfold special_class_attrs. cbn [str_in existsb].
    assert (Hps : forall k, pseudo_attr k = true -> pystr_eqb n k = false).
    { intros k Hk. apply pystr_eqb_neq. intro; subst k. congruence. }
    rewrite (Hps (isinstance_attr (s2p "StructMeta"))), (Hne n_mro), (Hps (s2p "mro()")), (Hne (s2p "__signature__")),
            (Hne (s2p "__dict__")), (Hne (s2p "_fields")) by reflexivity. reflexivity.
  Qed.

  Lemma name_facts n : In n names -> existsb bad_field_name names = false ->
    forallb (fun n => negb (pseudo_attr n)) names = true ->
    bad_field_name n = false /\ str_in n reserved_keys = false /\ pseudo_attr n = false.
  Proof.
    intros Hn Hb Hp. rewrite forallb_forall in Hp. pose proof Hnames_reserved as Hr. rewrite forallb_forall in Hr.
    split; [|split; [apply negb_true_iff; apply Hr; exact Hn|apply negb_true_iff; apply Hp; exact Hn]].
    destruct (bad_field_name n) eqn:E; [|reflexivity].
    assert (existsb bad_field_name names = true) by (apply existsb_exists; exists n; split; assumption). congruence.
  Qed.

  Hypothesis Hnames_plain : forallb (fun n => negb (pseudo_attr n)) names = true.

  Lemma new_set_fields h : StructMeta_new__set_attr__fields so X h (v_names names) (ref c) = Ok (heap_set h c (s2p "_fields") (v_names names)).
  Proof. unfold StructMeta_new__set_attr__fields. rewrite setattr_ref. reflexivity. Qed.

  Lemma good_not_reserved n : bad_field_name n = false -> str_in n reserved_keys = false.
  Proof.
    intro Hb. unfold bad_field_name in Hb. apply orb_false_iff in Hb as [Hu _].
    apply str_in_false. intro Hin. unfold reserved_keys in Hin. cbn [map In] in Hin.
    repeat (destruct Hin as [<-|Hin]; [discriminate|]). destruct Hin.
  Qed.

  Lemma class_attr_none k ex n : str_in n special_class_attrs = false -> alist_has (k_own k) n = false -> class_attr k ex n = None.
  Proof.
    intros Hs Hh. unfold special_class_attrs in Hs. cbn [str_in existsb] in Hs.
    repeat (apply orb_false_iff in Hs; destruct Hs as [?H Hs]).
    unfold class_attr. rewrite H, H0, H1, H2, H3, H4, Hh, andb_false_r. reflexivity.
  Qed.

  (* after `clsobj._fields = fields` the heap describes the environment with the new class in it *)
  Lemma created_cheap an h own tail :
    mheap g extra an h own -> same_members own -> ~ In c tail -> existsb bad_field_name names = false ->
    cheap (c :: tail) own an (heap_set (created h (c :: tail)) c (s2p "_fields") (v_names names)).
  Proof.
    intros M Hs Hnc Hgood. set (mro := c :: tail). set (h2 := heap_set (created h mro) c (s2p "_fields") (v_names names)).
    assert (Hother : forall o a, o <> c -> h2 o a = h o a).
    { intros o a Ho. unfold h2. rewrite heap_set_other_obj by exact Ho. apply created_other. exact Ho. }
    assert (Hcell : forall a, pystr_eqb a (s2p "_fields") = false -> h2 c a = created h mro c a).
    { intros a Ha. unfold h2. apply heap_set_other_attr. intro; subst a. discriminate. }
    assert (Hpm : forall n, mobj n <> c) by (intros n E; pose proof (pseudo_member c n) as P; unfold mobj in E; rewrite E in P; congruence).
    destruct M as [Menv M1 M2 M3 M4 M5 M6 M7 M8 M9 M11].
    assert (Hgenv : forall o a, o <> c -> genv_heap gd (kc mro own :: g) extra' o a = genv_heap gd g extra o a).
    { intros o a Ho. unfold genv_heap. rewrite find_klass_kc. unfold extra'.
      destruct (pystr_eqb c o) eqn:E; [apply pystr_eqb_spec in E; congruence|].
      rewrite (pystr_eqb_sym o c), E. reflexivity. }
    assert (Hgc : forall a, genv_heap gd (kc mro own :: g) extra' c a = class_attr (kc mro own) [] a).
    { intro a. unfold genv_heap. rewrite find_klass_kc, pystr_eqb_refl. unfold extra'. rewrite pystr_eqb_refl. reflexivity. }
    assert (Hown_cell : forall n, In n names -> h2 c n = Some (ref (mobj n))).
    { intros n Hn. destruct (name_facts n Hn Hgood Hnames_plain) as [F1 [F2 F3]].
      destruct (good_name_plain n F1 F2 F3) as [G1 [G2 G3]].
      rewrite Hcell by exact G2. unfold created. rewrite pystr_eqb_refl, G2, G3.
      rewrite (class_attr_member (kc mro pre) [] n F3 G1) by (apply alist_has_In; exact Hn). reflexivity. }
    constructor.
    - constructor.
      + destruct Menv as [Hc Hadl Hm]. constructor.
        * intros o a Ha. destruct (pystr_eqb o c) eqn:Eo.
          -- apply pystr_eqb_spec in Eo. subst o. rewrite Hgc. apply str_in_In in Ha. unfold env_list in Ha. cbn [In] in Ha.
             destruct Ha as [<-|[<-|[<-|[<-|[<-|[<-|[<-|[]]]]]]]];
               try (rewrite Hcell by reflexivity; unfold created; rewrite pystr_eqb_refl;
                    rewrite (class_attr_names mro pre own) by (symmetry; exact Hs); reflexivity).
             unfold h2. rewrite heap_set_same. unfold same_members in Hs. rewrite <- Hs. reflexivity.
          -- assert (o <> c) by (intro; subst; rewrite pystr_eqb_refl in Eo; discriminate).
             rewrite Hother, Hgenv by assumption. apply Hc. exact Ha.
        * rewrite Hother, Hgenv by (intro E; symmetry in E; contradiction). exact Hadl.
        * intros x kx n Hk Hn Hp Hsp. rewrite find_klass_kc in Hk. destruct (pystr_eqb c x) eqn:Ex.
          -- apply pystr_eqb_spec in Ex. subst x. inversion Hk; subst kx. cbn [kc k_own] in Hn.
             rewrite Hs in Hn. apply Hown_cell. exact Hn.
          -- assert (x <> c) by (intro; subst; rewrite pystr_eqb_refl in Ex; discriminate).
             rewrite Hother by assumption. apply (Hm x kx n Hk Hn Hp Hsp).
      + intros n m Hg. rewrite Hother by apply Hpm. apply (M1 n m Hg).
      + intros n m Hg. rewrite Hother by apply Hpm. apply (M2 n m Hg).
      + intros n v Hg. rewrite Hother by apply Hpm. apply (M3 n v Hg).
      + intro n. rewrite Hother by apply Hpm. apply M4.
      + intros n a Ha. rewrite Hother by apply Hpm. apply (M5 n a Ha).
      + intro n. assert (tyobj n <> c) by (intro E; assert (P : pseudo_attr (tyobj n) = true) by reflexivity; rewrite E in P; congruence).
        destruct (M6 n) as [A B]. split; [rewrite Hother by assumption; exact A|]. intros a Ha. rewrite Hother by assumption. apply (B a Ha).
      + assert (annobj <> c) by (intro E; assert (P : pseudo_attr annobj = true) by reflexivity; rewrite E in P; congruence).
        destruct M7 as [A B]. split; [rewrite Hother by assumption; exact A|]. intros a Ha. rewrite Hother by assumption. apply (B a Ha).
      + rewrite Hother by (intro E; symmetry in E; contradiction). exact M8.
      + rewrite Hother by (intro E; symmetry in E; contradiction). exact M9.
      + intros x kx n m Hk Hin. assert (member_obj x n <> c) by (intro E; pose proof (pseudo_member x n) as P; rewrite E in P; congruence).
        destruct (M11 x kx n m Hk Hin) as [A B]. split; [rewrite Hother by assumption; exact A|]. intros v Hv. rewrite Hother by assumption. apply (B v Hv).
    - rewrite Hcell by reflexivity. unfold created. rewrite pystr_eqb_refl. reflexivity.
    - intros n v Hg. unfold v_fields_of_mro in Hg. unfold mro in Hg. rewrite (mro_fold_cons _ (c :: tail) own tail Hnc) in Hg.
      assert (EO : map (fun nm : pystr * member => (fst nm, ref (member_obj c (fst nm)))) own = map (fun k => (k, ref (mobj k))) names).
      { rewrite <- Hs, map_map. reflexivity. }
      rewrite EO in Hg. rewrite alist_merge_get in Hg by (rewrite map_fst_uniform; exact Hnd).
      rewrite alist_get_uniform in Hg. destruct (str_in n names) eqn:En.
      + inversion Hg; subst v. apply Hown_cell. apply str_in_In. exact En.
      + assert (Hk : In n (map fst (mro_fold (fun c0 nm => ref (member_obj c0 (fst nm))) g tail))) by (apply alist_get_In_fst in Hg; exact Hg).
        destruct (mro_fold_keys _ g tail n Hk) as [x [_ Hx]]. destruct (own_of_names x n Hx) as [P1 [P2 P3]].
        destruct (good_name_plain n P3 (good_not_reserved n P3) P1) as [G1 [G2 G3]].
        rewrite Hcell by exact G2. unfold created. rewrite pystr_eqb_refl, G2, G3.
        rewrite class_attr_none; [|exact G1|].
        * rewrite P1. cbn [negb tl_str]. exact Hg.
        * cbn [kc k_own]. rewrite alist_has_str_in. exact En.
  Qed.

  (* ---------------------------------------------------------------- the attributes set on the class object *)

  Definition late_attrs : list pystr := map s2p ["_constants"; "_required"; "_field_by_name"]%string.

  Lemma late_facts a : In a late_attrs ->
    str_in a spec_attrs = false /\ match a with x :: _ => N.eqb x us | [] => false end = true /\
    pystr_eqb a (s2p "__annotations__") = false.
  Proof. intro H. unfold late_attrs in H. cbn [map In] in H. repeat (destruct H as [<-|H]; [repeat split; reflexivity|]). destruct H. Qed.

  (* the names of the fields of the new class (own and inherited) are ordinary names *)
  Lemma all_field_names mro ms n : same_members ms -> existsb bad_field_name names = false ->
    In n (map fst (v_fields_of_mro (kc mro ms :: g) mro)) -> bad_field_name n = false /\ pseudo_attr n = false.
  Proof.
    intros Hs Hgood Hin. destruct (mro_fold_keys _ _ _ _ Hin) as [x [_ Hx]].
    destruct (pystr_eqb x c) eqn:E.
    - apply pystr_eqb_spec in E. subst x. rewrite own_of_kc_c, Hs in Hx. destruct (name_facts n Hx Hgood Hnames_plain) as [F1 [_ F3]]. split; assumption.
    - rewrite own_of_kc in Hx by (intro; subst; rewrite pystr_eqb_refl in E; discriminate).
      destruct (own_of_names x n Hx) as [P1 [_ P3]]. split; assumption.
  Qed.

  Lemma cheap_set_late mro ms an h a v : same_members ms -> existsb bad_field_name names = false -> In a late_attrs ->
    cheap mro ms an h -> cheap mro ms an (heap_set h c a v).
  Proof.
    intros Hs Hgood Ha [M Hann Hget]. destruct (late_facts a Ha) as [L1 [L2 L3]].
    assert (Hne : forall n, bad_field_name n = false -> n <> a).
    { intros n Hb E. subst n. unfold bad_field_name in Hb. apply orb_false_iff in Hb as [Hb _]. congruence. }
    constructor.
    - apply (mheap_transfer _ _ _ h); [| |  |exact M].
      + intros o a' Ha' _. apply heap_set_other_attr. intro; subst a'. congruence.
      + intros o Hp. apply heap_set_other_obj. intro; subst o. congruence.
      + intros x kx a' Hk Hin. apply heap_set_other_attr. apply Hne.
        rewrite find_klass_kc in Hk. destruct (pystr_eqb c x).
        * inversion Hk; subst kx. cbn [kc k_own] in Hin. rewrite Hs in Hin. apply (name_facts a' Hin Hgood Hnames_plain).
        * destruct (Hg_members x kx Hk) as [_ Hb]. rewrite forallb_forall in Hb. apply negb_true_iff. apply Hb. exact Hin.
    - rewrite heap_set_other_attr; [exact Hann|]. intro E. rewrite <- E in L3. discriminate.
    - intros n v' Hg. rewrite heap_set_other_attr; [apply Hget; exact Hg|]. apply Hne.
      apply alist_get_In_fst in Hg. apply (all_field_names mro ms n Hs Hgood Hg).
  Qed.

  (* all_fields = set(bases_required + fields) if bases_params else fields; default_required = list(all_fields):
     evaluated, never used (cls_dict always has "_required" by then) *)
  Lemma new_all_fields h bp : exists v,
    (t <- StructMeta_new__set_all_fields so X h (v_params bp) (v_names (bases_required bp)) (v_names names) ;;
     StructMeta_new__set_default_required so X h t) = Ok v.
  Proof.
    unfold StructMeta_new__set_all_fields, StructMeta_new__set_default_required, v_params, v_names.
    rewrite !deref_dict, !deref_list. cbn [bind py_truthy]. rewrite add_lists. cbn [bind]. rewrite deref_list, <- map_app.
    fold (v_strs (bases_required bp ++ names)). rewrite set_of_list. cbn [bind].
    match goal with |- context [if ?b then _ else _] => destruct b end; cbn [bind].
    - rewrite ?deref_set. cbn [dv_list_of dv_iter bind]. eexists. reflexivity.
    - rewrite ?deref_list. cbn [dv_list_of dv_iter bind]. eexists. reflexivity.
  Qed.

  Lemma pseudo_app a b : pseudo_attr (a ++ b) = pseudo_attr a || pseudo_attr b.
  Proof. unfold pseudo_attr. apply existsb_app. Qed.

  Lemma constsobj_plain : pseudo_attr constsobj = false.
  Proof. unfold constsobj, newdict_name. rewrite !pseudo_app, Hc_plain. reflexivity. Qed.

  Lemma constsobj_not_c : constsobj <> c.
  Proof.
    unfold constsobj, newdict_name. intro E. apply (f_equal (@length N)) in E. rewrite !app_length in E.
    change (length (s2p ".")) with 1%nat in E. change (length (s2p "_constants")) with 10%nat in E. lia.
  Qed.

  Hypothesis Hconsts_fresh : find_klass g constsobj = None.

  (* clsobj._constants = {} : a new dict of the heap *)
  Lemma new_constants_dict mro ms an h : same_members ms -> existsb bad_field_name names = false ->
    cheap mro ms an h -> h constsobj n_dict_content = None ->
    exists h', StructMeta_new__set_attr__constants so X h (ref c) = Ok h' /\ cheap mro ms an h' /\
               h' c (s2p "_constants") = Some (ref constsobj) /\ h' constsobj n_dict_content = Some (PDict (skeys [])).
  Proof.
    intros Hs Hgood C Hfree. unfold StructMeta_new__set_attr__constants, ref. cbn [dv_setattr_newdict]. rewrite pystr_eqb_refl.
    fold constsobj. rewrite Hfree. cbn [bind]. fold (ref constsobj).
    eexists. split; [reflexivity|]. split; [|split].
    - apply (cheap_set_late mro ms an _ (s2p "_constants") _ Hs Hgood); [cbn; tauto|].
      destruct C as [M Hann Hget]. constructor.
      + apply (mheap_transfer _ _ _ h); [| | |exact M].
        * intros o a Ha Hne. apply heap_set_other_attr. intro; subst a. rewrite pystr_eqb_refl in Hne. discriminate.
        * intros o Hp. apply heap_set_other_obj. intro; subst o. rewrite constsobj_plain in Hp. discriminate.
        * intros x kx a Hk Hin. apply heap_set_other_obj. intro; subst x.
          rewrite find_klass_kc in Hk. destruct (pystr_eqb c constsobj) eqn:E; [apply pystr_eqb_spec in E; symmetry in E; exact (constsobj_not_c E)|].
          congruence.
      + rewrite heap_set_other_obj by (intro E; symmetry in E; exact (constsobj_not_c E)). exact Hann.
      + intros n v Hg. rewrite heap_set_other_obj by (intro E; symmetry in E; exact (constsobj_not_c E)). apply Hget. exact Hg.
    - rewrite heap_set_same. reflexivity.
    - rewrite heap_set_other_obj by exact constsobj_not_c. rewrite heap_set_same. reflexivity.
  Qed.

  (* ---------------------------------------------------------------- the Constants of the class *)

  Lemma const_check v : (match v with POther _ _ => false | _ => true end) = true ->
    forall h,
    (py_or (Ok (py_isinstance (deref h v) [K_int])) (fun _ => py_or (Ok (py_isinstance (deref h v) [K_str]))
       (fun _ => py_or (Ok (py_isinstance (deref h v) [K_bool])) (fun _ => py_or (Ok (match v with PEnum _ _ _ => true | _ => false end))
          (fun _ => Ok (py_isinstance (deref h v) [K_float])))))) = Ok (const_type_ok v).
  Proof. intros Hv h. destruct v as [| |[| |]| | | | | | | | |]; try discriminate; reflexivity. Qed.

  Definition consts_inv (h hcur : heap) (acc : list (pystr * pyval)) : Prop :=
    (forall o a, pystr_eqb a n_dict_content = false \/ o <> constsobj -> hcur o a = h o a) /\
    hcur constsobj n_dict_content = Some (PDict (skeys acc)).

  (* one field of the class, as the loop sees it: the object getattr finds, and the member it is *)
  Definition field_seen (h : heap) (p : pystr * (pystr * member)) : Prop :=
    let '(n, (o, m)) := p in
    h c n = Some (ref o) /\ h o (ia "Constant") = Some (PBool (is_const m)) /\
    forall v, m = MConst v -> h o (s2p "_val") = Some v /\ (match v with POther _ _ => false | _ => true end) = true.

  Lemma setitem_obj_consts hcur acc n v :
    hcur constsobj n_dict_content = Some (PDict (skeys acc)) -> ~ In n (map fst acc) ->
    dv_setitem_obj hcur (ref constsobj) (PStr n) v =
    Ok (heap_set hcur constsobj n_dict_content (PDict (skeys (acc ++ [(n, v)])))).
  Proof.
    intros H Hn. unfold dv_setitem_obj, ref. rewrite pystr_eqb_refl, H. rewrite setitem_skeys. cbn [bind].
    rewrite alist_set_absent by exact Hn. reflexivity.
  Qed.

  Lemma new_constants_loop_gen (BODY : heap -> pyval -> res heap) h :
    h c (s2p "_constants") = Some (ref constsobj) ->
    (forall hcur acc n o m, consts_inv h hcur acc -> field_seen h (n, (o, m)) -> ~ In n (map fst acc) ->
       BODY hcur (PStr n) =
       match m with
       | MConst v => if const_type_ok v then Ok (heap_set hcur constsobj n_dict_content (PDict (skeys (acc ++ [(n, v)]))))
                     else Raise TypeError
       | MField _ => Ok hcur
       end) ->
    forall Pl acc hcur, consts_inv h hcur acc -> Forall (field_seen h) Pl -> NoDup (map fst acc ++ map fst Pl) ->
      let ML := map (fun p => (fst p, snd (snd p))) Pl in
      if forallb (fun nv => const_type_ok (snd nv)) (constants_of ML)
      then exists h', py_foldM BODY (v_strs (map fst Pl)) hcur = Ok h' /\ consts_inv h h' (acc ++ constants_of ML)
      else py_foldM BODY (v_strs (map fst Pl)) hcur = Raise TypeError.
  Proof.
    intros Hcc Hbody. induction Pl as [|[n [o m]] t IH]; intros acc hcur Hinv Hall Hnd2; cbn zeta.
    - cbn [map constants_of flat_map forallb v_strs py_foldM]. exists hcur. rewrite app_nil_r. split; [reflexivity|exact Hinv].
    - inversion Hall as [|? ? Hseen Hrest]; subst. cbn [map fst snd v_strs py_foldM].
      assert (Hn : ~ In n (map fst acc)).
      { intro Hin. cbn [map fst] in Hnd2. apply NoDup_remove_2 in Hnd2. apply Hnd2. apply in_or_app. left. exact Hin. }
      rewrite (Hbody hcur acc n o m Hinv Hseen Hn). unfold constants_of. cbn [flat_map fst snd]. fold (constants_of (map (fun p => (fst p, snd (snd p))) t)).
      destruct m as [fo|v].
      + cbn [app bind]. apply (IH acc hcur Hinv Hrest).
        cbn [map fst] in Hnd2. apply NoDup_remove_1 in Hnd2. exact Hnd2.
      + cbn [app forallb snd]. destruct (const_type_ok v); cbn [andb bind]; [|reflexivity].
        specialize (IH (acc ++ [(n, v)]) (heap_set hcur constsobj n_dict_content (PDict (skeys (acc ++ [(n, v)]))))).
        match goal with |- context [acc ++ (n, v) :: constants_of ?r] =>
          replace (acc ++ (n, v) :: constants_of r) with ((acc ++ [(n, v)]) ++ constants_of r) by (rewrite <- app_assoc; reflexivity) end.
        apply IH.
        * destruct Hinv as [I1 I2]. split; [|apply heap_set_same].
          intros o' a' Hoa. destruct Hoa as [Ha|Ho].
          -- rewrite heap_set_other_attr by (intro; subst a'; rewrite pystr_eqb_refl in Ha; discriminate). apply I1. left. exact Ha.
          -- rewrite heap_set_other_obj by exact Ho. apply I1. right. exact Ho.
        * exact Hrest.
        * rewrite map_app. cbn [map fst]. rewrite <- app_assoc. exact Hnd2.
  Qed.

  Lemma In_alist_set {A} (l : list (pystr * A)) k w n v : In (n, v) (alist_set l k w) -> (n, v) = (k, w) \/ In (n, v) l.
  Proof.
    induction l as [|[k' x] t IH]; cbn [alist_set In]; [intros [H|[]]; left; symmetry; exact H|].
    destruct (pystr_eqb k' k) eqn:E; cbn [In].
    - apply pystr_eqb_spec in E. subst k'. intros [H|H]; [left; symmetry; exact H|right; right; exact H].
    - intros [H|H]; [right; left; exact H|]. destruct (IH H) as [H'|H']; [left; exact H'|right; right; exact H'].
  Qed.

  Lemma mro_fold_In {A} (F : pystr -> pystr * member -> A) gg l n v :
    In (n, v) (mro_fold F gg l) -> exists x nm, In x l /\ In nm (own_of gg x) /\ fst nm = n /\ v = F x nm.
  Proof.
    unfold mro_fold. intro H.
    assert (Hgen : forall l' acc, In (n, v) (fold_left (fun acc c0 => alist_merge acc (map (fun nm => (fst nm, F c0 nm)) (own_of gg c0))) l' acc) ->
              In (n, v) acc \/ exists x nm, In x l' /\ In nm (own_of gg x) /\ fst nm = n /\ v = F x nm).
    { induction l' as [|x t IH]; intros acc Hin; [left; exact Hin|]. cbn [fold_left] in Hin.
      destruct (IH _ Hin) as [Ha|[y [nm [Hy Hr]]]]; [|right; exists y, nm; split; [right; exact Hy|exact Hr]].
      assert (Hm : forall new acc0, In (n, v) (alist_merge acc0 new) -> In (n, v) acc0 \/ In (n, v) new).
      { unfold alist_merge. induction new as [|[k w] tn IHn]; intros acc0 Hi; [left; exact Hi|]. cbn [fold_left fst snd] in Hi.
        destruct (IHn _ Hi) as [H1|H1]; [|right; right; exact H1].
        destruct (In_alist_set _ _ _ _ _ H1) as [H2|H2]; [right; left; symmetry; exact H2|left; exact H2]. }
      destruct (Hm _ _ Ha) as [H1|H1]; [left; exact H1|]. right. apply in_map_iff in H1 as [nm [E Hnm]]. inversion E; subst.
      exists x, nm. split; [left; reflexivity|]. split; [exact Hnm|]. split; reflexivity. }
    destruct (Hgen _ _ H) as [[]|[x [nm [Hx Hr]]]]. exists x, nm. split; [apply in_rev; exact Hx|exact Hr].
  Qed.

  Lemma mro_fold_NoDup {A} (F : pystr -> pystr * member -> A) gg l : NoDup (map fst (mro_fold F gg l)).
  Proof.
    unfold mro_fold. assert (H : NoDup (map fst (@nil (pystr * A)))) by constructor. revert H. generalize (@nil (pystr * A)).
    induction (rev l) as [|x t IH]; intros acc H; [exact H|]. cbn [fold_left]. apply IH. apply alist_merge_NoDup. exact H.
  Qed.

  (* the model's k_all is the fold over the MRO of the new class *)
  Lemma all_fields_fold own tail : ~ In c tail ->
    all_fields g tail own = mro_fold (fun _ nm => snd nm) (kc (c :: tail) own :: g) (c :: tail).
  Proof.
    intro H. rewrite (mro_fold_cons _ (c :: tail) own tail H). unfold all_fields. rewrite fields_of_mro_fold.
    unfold update_members, alist_merge. generalize (mro_fold (fun (_ : pystr) (nm : pystr * member) => snd nm) g tail).
    induction own as [|[n m] t IH]; intro acc; [reflexivity|]. cbn [map fold_left fst snd]. apply IH.
  Qed.

  Hypothesis Hconst_plain_pre : forall n t o, ~ In (n, MConst (POther t o)) pre.
  Hypothesis Hconst_plain_env : forall x n t o, ~ In (n, MConst (POther t o)) (own_of g x).

  Lemma mro_plain_kc own tail : same_members own -> existsb bad_field_name names = false ->
    mro_plain (kc (c :: tail) own :: g) (c :: tail) = true.
  Proof.
    intros Hs Hgood. unfold mro_plain. apply forallb_forall. intros x _. rewrite find_klass_kc. destruct (pystr_eqb c x).
    - unfold own_plain. cbn [kc k_own]. rewrite Hs. apply andb_true_iff. split; [|apply negb_true_iff; apply NoDup_has_dup_false; exact Hnd].
      apply forallb_forall. intros n Hn. destruct (name_facts n Hn Hgood Hnames_plain) as [F1 [F2 F3]].
      destruct (good_name_plain n F1 F2 F3) as [G1 _]. rewrite F3, G1. reflexivity.
    - destruct (find_klass g x) as [kx|] eqn:Hk; [|reflexivity]. apply (Hg_members x kx Hk).
  Qed.

  Lemma new_constants_loop own an h tail :
    cheap (c :: tail) own an h -> same_members own -> ~ In c tail -> existsb bad_field_name names = false ->
    mapM (apply_member re_match e defs) pre = Ok own ->
    h c (s2p "_constants") = Some (ref constsobj) -> h constsobj n_dict_content = Some (PDict (skeys [])) ->
    let consts := constants_of (all_fields g tail own) in
    if forallb (fun nv => const_type_ok (snd nv)) consts
    then exists h', StructMeta_new__for_fname so X h (ref c) = Ok h' /\ consts_inv h h' consts
    else StructMeta_new__for_fname so X h (ref c) = Raise TypeError.
  Proof.
    intros C Hs Hnc Hgood Hown Hcc Hcd. cbn zeta. set (mro := c :: tail). set (gg := kc mro own :: g).
    destruct C as [M Hann Hget]. pose proof (agree_env_view _ _ _ _ (mh_env _ _ _ _ _ M)) as Hev.
    unfold StructMeta_new__for_fname.
    rewrite (get_all_fields_by_name_gen so X h gd gg extra' c (kc mro own) Hev); [| unfold gg; rewrite find_klass_kc, pystr_eqb_refl; reflexivity | apply (mro_plain_kc own tail Hs Hgood)].
    cbn [bind k_mro kc]. rewrite deref_dict. cbn [dv_iter bind].
    set (L := v_fields_of_mro gg mro).
    set (P := mro_fold (fun x nm => (member_obj x (fst nm), snd nm)) gg mro).
    assert (EL : L = map (fun p => (fst p, ref (fst (snd p)))) P).
    { unfold L, P, v_fields_of_mro. rewrite (mro_fold_map (fun om : pystr * member => ref (fst om))). reflexivity. }
    assert (EM : all_fields g tail own = map (fun p => (fst p, snd (snd p))) P).
    { unfold P. rewrite (mro_fold_map (fun om : pystr * member => snd om)). apply (all_fields_fold own tail Hnc). }
    assert (Ekeys : map fst (skeys L) = v_strs (map fst P)).
    { rewrite EL. unfold skeys, v_strs. rewrite !map_map. reflexivity. }
    rewrite Ekeys, EM.
    match goal with |- context [@dv_foldM ?S ?F] => set (BODY := F) end. unfold dv_foldM.
    assert (HP_nodup : NoDup (map fst P)) by apply mro_fold_NoDup.
    assert (Hseen : Forall (field_seen h) P).
    { apply Forall_forall. intros [n [o m]] Hin. destruct (mro_fold_In _ _ _ _ _ Hin) as [x [nm [Hx [Hnm [En Eo]]]]].
      inversion Eo; subst o m. subst n. cbn [field_seen].
      assert (HL : alist_get L (fst nm) = Some (ref (member_obj x (fst nm)))).
      { apply In_alist_get_NoDup; [unfold L, v_fields_of_mro; apply mro_fold_NoDup|]. rewrite EL. apply in_map_iff.
        exists (fst nm, (member_obj x (fst nm), snd nm)). split; [reflexivity|exact Hin]. }
      split; [apply Hget; exact HL|].
      destruct (pystr_eqb x c) eqn:Ex.
      - apply pystr_eqb_spec in Ex. subst x. unfold gg in Hnm. rewrite own_of_kc_c in Hnm. destruct nm as [n m]. cbn [fst snd].
        assert (Hg : alist_get own n = Some m) by (apply In_alist_get_NoDup; [rewrite Hs; exact Hnd|exact Hnm]).
        fold (mobj n). split; [apply (mh_const _ _ _ _ _ M n m Hg)|]. intros v Hv. subst m. split; [apply (mh_val _ _ _ _ _ M n v Hg)|].
        destruct (apply_members_shape pre own Hown) as [_ Hshape]. destruct (Hshape n _ Hg) as [m0 [Hg0 [_ Hv0]]].
        specialize (Hv0 v eq_refl). subst m0. destruct v; try reflexivity. exfalso. apply (Hconst_plain_pre n tag repr). apply alist_get_In. exact Hg0.
      - assert (Hxc : x <> c) by (intro; subst; rewrite pystr_eqb_refl in Ex; discriminate).
        unfold gg in Hnm. rewrite own_of_kc in Hnm by exact Hxc. destruct nm as [n m]. cbn [fst snd].
        assert (Hfk : exists kx, find_klass g x = Some kx) by (unfold own_of in Hnm; destruct (find_klass g x) as [kx|]; [exists kx; reflexivity|destruct Hnm]).
        destruct Hfk as [kx Hkx]. destruct (mh_env_members _ _ _ _ _ M x kx n m Hkx Hnm) as [A B].
        split; [exact A|]. intros v Hv. split; [apply (B v Hv)|]. subst m. destruct v; try reflexivity. exfalso. apply (Hconst_plain_env x n tag repr Hnm). }
    assert (Hbody : forall hcur acc n o m, consts_inv h hcur acc -> field_seen h (n, (o, m)) -> ~ In n (map fst acc) ->
              BODY hcur (PStr n) =
              match m with
              | MConst v => if const_type_ok v then Ok (heap_set hcur constsobj n_dict_content (PDict (skeys (acc ++ [(n, v)]))))
                            else Raise TypeError
              | MField _ => Ok hcur
              end).
    { intros hcur acc n o m [I1 I2] [S1 [S2 S3]] Hn. unfold BODY. cbn [bind]. unfold dv_getattr_dyn. rewrite !getattr_ref.
      assert (R1 : hcur c n = Some (ref o)).
      { rewrite I1; [exact S1|]. right. intro E. symmetry in E. exact (constsobj_not_c E). }
      assert (R2 : hcur o (ia "Constant") = Some (PBool (is_const m))).
      { rewrite I1; [exact S2|]. left. reflexivity. }
      rewrite R1. cbn [bind]. rewrite isinstance_ref. fold (ia "Constant"). rewrite R2. cbn [py_truthy bind].
      destruct m as [fo|v]; cbn [is_const bind]; [reflexivity|].
      destruct (S3 v eq_refl) as [S4 S5].
      assert (R3 : hcur o (s2p "_val") = Some v) by (rewrite I1; [exact S4|left; reflexivity]).
      rewrite !getattr_ref, R3. cbn [bind]. rewrite (const_check v S5). cbn [py_not bind].
      destruct (const_type_ok v); cbn [negb bind]; [|reflexivity].
      rewrite ?getattr_ref, ?R1. cbn [bind]. rewrite ?getattr_ref, ?R3. cbn [bind].
      assert (R4 : hcur c (s2p "_constants") = Some (ref constsobj)).
      { rewrite I1; [exact Hcc|]. left. reflexivity. }
      rewrite R4. cbn [bind]. rewrite (setitem_obj_consts hcur acc n v I2 Hn). reflexivity. }
    pose proof (new_constants_loop_gen BODY h Hcc Hbody P [] h) as G. cbn zeta in G. cbn [app] in G.
    assert (Hinv0 : consts_inv h h []) by (split; [intros; reflexivity|exact Hcd]).
    specialize (G Hinv0 Hseen HP_nodup).
    destruct (forallb (fun nv => const_type_ok (snd nv)) (constants_of (map (fun p => (fst p, snd (snd p))) P))).
    - destruct G as [h' [G1 G2]]. exists h'. rewrite G1. split; [reflexivity|exact G2].
    - rewrite G. reflexivity.
  Qed.

  (* ---------------------------------------------------------------- _required, _optional, unknown attributes, the signature *)

  Lemma ents2_get req k : k <> s2p "_defaults" ->
    alist_get (ents2 req) k = if pystr_eqb k (s2p "_required") then Some (v_names req) else alist_get ents k.
  Proof.
    intro Hk. unfold ents2. rewrite del1_get' by exact Hk. destruct (pystr_eqb k (s2p "_required")) eqn:E.
    - apply pystr_eqb_spec in E. subst k. apply alist_get_set_same.
    - apply alist_get_set_other. intro; subst k. rewrite pystr_eqb_refl in E. discriminate.
  Qed.

  Lemma In_ents2 req k v : In (k, v) (ents2 req) -> (k = s2p "_required" /\ v = v_names req) \/ In (k, v) ents.
  Proof.
    unfold ents2. intro H. apply In_del1 in H. apply In_alist_set in H as [H|H]; [left; inversion H; split; reflexivity|right; exact H].
  Qed.

  Lemma new_optional_fields h req :
    StructMeta_new__set_optional_fields so X h (PDict (skeys (ents2 req))) = Ok (v_names (opt_list (s_optional s))).
  Proof.
    unfold StructMeta_new__set_optional_fields. rewrite dict_get_skeys_def, ents2_get by discriminate.
    replace (pystr_eqb (s2p "_optional") (s2p "_required")) with false by reflexivity. rewrite (dv_optional Hdv).
    destruct (s_optional s); reflexivity.
  Qed.

  Lemma new_old_additional h req :
    StructMeta_new__if_OLD_ADDITIONAL_PROPERTIES_cls_dict so X h (PDict (skeys (ents2 req))) (ref c) = Ok (h, PDict (skeys (ents2 req))).
  Proof.
    unfold StructMeta_new__if_OLD_ADDITIONAL_PROPERTIES_cls_dict. rewrite in_skeys. unfold alist_has.
    change (s2p "_additionalProperties") with n_addl_old. rewrite ents2_get by discriminate.
    replace (pystr_eqb n_addl_old (s2p "_required")) with false by reflexivity. rewrite (dv_addl_old Hdv). reflexivity.
  Qed.

  Definition addl_of : bool := match s_additional s with Some b => b | None => gd_additional_default gd end.

  Lemma new_additional_props mro ms an h req : cheap mro ms an h ->
    StructMeta_new__set_additional_props so X h (PDict (skeys (ents2 req))) = Ok (PBool addl_of).
  Proof.
    intros [M _ _]. unfold StructMeta_new__set_additional_props.
    pose proof (agree_env_view _ _ _ _ (mh_env _ _ _ _ _ M)) as Hev.
    rewrite (ev_addl_default _ _ _ _ Hev).
    2:{ rewrite find_klass_kc. destruct (pystr_eqb c n_TypedPyDefaults) eqn:E; [apply pystr_eqb_spec in E; contradiction|].
        exact Htpd_fresh. }
    cbn [bind]. rewrite dict_get_skeys_def. change (s2p "_additional_properties") with n_addl. rewrite ents2_get by discriminate.
    replace (pystr_eqb n_addl (s2p "_required")) with false by reflexivity. rewrite (dv_addl Hdv). unfold addl_of.
    destruct (s_additional s); reflexivity.
  Qed.

  Lemma ents2_keep req k v : In (k, v) ents -> k <> s2p "_required" -> k <> s2p "_defaults" -> In (k, v) (ents2 req).
  Proof.
    intros Hin H1 H2. apply alist_get_In. rewrite ents2_get by exact H2.
    destruct (pystr_eqb k (s2p "_required")) eqn:E; [apply pystr_eqb_spec in E; contradiction|].
    apply In_alist_get_NoDup; [apply (dv_nodup Hdv)|exact Hin].
  Qed.

  (* if TypedPyDefaults.block_unknown_consts: _block_invalid_consts(cls_dict) *)
  Lemma new_block mro ms an h req : cheap mro ms an h -> same_members ms ->
    (forall n u, In (n, u) (s_attrs s) -> str_in n (map fst an) = false) ->
    (ann = [] -> an = []) ->
    StructMeta_new__if_TypedPyDefaults so X h (PDict (skeys (ents2 req))) =
    if gd_block_unknown_consts gd && existsb invalid_const (s_attrs s) then Raise ValueError else Ok tt.
  Proof.
    intros [M _ _] Hs Hna Hann0. unfold StructMeta_new__if_TypedPyDefaults. rewrite getattr_ref.
    change (s2p "TypedPyDefaults") with n_TypedPyDefaults. rewrite (mh_tpd_block _ _ _ _ _ M). cbn [bind deref py_truthy].
    destruct (gd_block_unknown_consts gd); cbn [andb bind]; [|reflexivity].
    assert (Hmatch : forall n u v, aval_ok n u v = true -> uval_matches h u v = true).
    { intros n u v Hv. unfold uval_matches. destruct u, v as [| |[| |]| | | | | | | | |t o]; try discriminate; try reflexivity.
      cbn [aval_ok] in Hv. apply andb_true_iff in Hv as [H1 H2]. apply pystr_eqb_spec in H1, H2. subst t o.
      fold (ref (tyobj n)). rewrite deref_ref. destruct (mh_type _ _ _ _ _ M n) as [_ B]. rewrite B by (cbn [In]; tauto). reflexivity. }
    rewrite (block_invalid_consts_src so X h s (ents2 req) an).
    - destruct (existsb invalid_const (s_attrs s)); reflexivity.
    - unfold annotations_are. rewrite ents2_get by discriminate.
      replace (pystr_eqb (s2p "__annotations__") (s2p "_required")) with false by reflexivity. rewrite (dv_ann Hdv).
      destruct ann as [|a0 t0]; [rewrite (Hann0 eq_refl); reflexivity|]. rewrite deref_ref. rewrite (proj1 (mh_ann _ _ _ _ _ M)). reflexivity.
    - intros n u Hnu. split; [apply Hna with u; exact Hnu|]. destruct (dv_attrs Hdv n u Hnu) as [v [Hin Hv]]. exists v.
      pose proof (dv_attr_fresh Hdv n u Hnu) as Hfr.
      split; [|apply (Hmatch n u v Hv)]. apply ents2_keep; [exact Hin| |]; intro E; subst n; discriminate.
    - intros k v Hin Hbad. destruct (In_ents2 req k v Hin) as [[-> ->]|Hin'].
      + unfold bad_entry in Hbad. cbn [fst snd] in Hbad. replace (known_attr (s2p "_required")) with true in Hbad by reflexivity.
        rewrite orb_true_r in Hbad. cbn [orb negb andb] in Hbad. discriminate.
      + destruct (dv_kinds Hdv k v Hin') as [Hk ->|u Hk Hu Hv|Hk Hr Hv].
        * unfold bad_entry in Hbad. cbn [fst snd] in Hbad. rewrite deref_ref in Hbad.
          rewrite (mh_mnone _ _ _ _ _ M k n_dict_content) in Hbad by (cbn [In]; tauto). rewrite andb_false_r in Hbad. discriminate.
        * exists u. split; [exact Hu|apply (Hmatch k u v Hv)].
        * destruct (reserved_special k Hr) as [_ [_ Hkn]]. unfold bad_entry in Hbad. cbn [fst snd] in Hbad.
          apply andb_true_iff in Hbad as [Hb _]. apply negb_true_iff in Hb. apply orb_false_iff in Hb as [Hb _].
          apply orb_false_iff in Hb as [Hb Hd]. apply orb_false_iff in Hb as [_ Hb]. rewrite Hb, Hd in Hkn. discriminate.
  Qed.

  Hypothesis Hnames_valid : forallb valid_param_name names = true.
  Hypothesis Hg_sig : forall b kb, find_klass g b = Some kb -> forallb valid_param_name (k_sig_req kb ++ k_sig_opt kb) = true.
  Hypothesis Hbases_ok : bases_ok g extra (s_bases s) = true.

  Lemma cheap_consts_inv mro ms an h h' acc : cheap mro ms an h -> consts_inv h h' acc -> cheap mro ms an h'.
  Proof.
    intros [M Hann Hget] [I1 _]. constructor.
    - apply (mheap_transfer _ _ _ h); [| | |exact M].
      + intros o a _ Ha. apply I1. left. exact Ha.
      + intros o Hp. apply I1. right. intro; subst o. rewrite constsobj_plain in Hp. discriminate.
      + intros x kx a Hk Hin. apply I1. right. intro; subst x. rewrite find_klass_kc in Hk.
        destruct (pystr_eqb c constsobj) eqn:E; [apply pystr_eqb_spec in E; symmetry in E; exact (constsobj_not_c E)|congruence].
    - rewrite I1; [exact Hann|left; reflexivity].
    - intros n v Hg. rewrite I1; [apply Hget; exact Hg|]. right. intro E. symmetry in E. exact (constsobj_not_c E).
  Qed.

  Lemma sig_inputs bp : base_info gd g (s_bases s) [] false = Ok bp -> existsb bad_field_name names = false ->
    sig_inputs_ok names bp = true.
  Proof.
    intros Hbp Hgood. destruct (base_info_spec gd g (s_bases s) [] false bp (NoDup_nil _) Hbp) as [B1 B2].
    assert (Hbn : forall n, In n (map fst bp) -> valid_param_name n = true /\ n <> n_kwargs).
    { intros n Hn. destruct (B2 n Hn) as [[]|[b [kb [Hb [Hk Hin]]]]].
      pose proof (Hg_sig b kb Hk) as Hv. rewrite forallb_forall in Hv. split; [apply Hv; exact Hin|].
      unfold bases_ok in Hbases_ok. apply andb_true_iff in Hbases_ok as [Hb1 _]. rewrite forallb_forall in Hb1.
      specialize (Hb1 b Hb). unfold base_ok in Hb1. rewrite Hk in Hb1. apply andb_true_iff in Hb1 as [Hb1 _].
      apply andb_true_iff in Hb1 as [_ Hb1]. apply negb_true_iff in Hb1. intro; subst n.
      apply str_in_In in Hin. congruence. }
    unfold sig_inputs_ok. rewrite (NoDup_has_dup_false _ Hnd), (NoDup_has_dup_false _ B1). cbn [negb andb].
    apply andb_true_iff. split.
    - rewrite forallb_app, Hnames_valid. cbn [andb]. apply forallb_forall. intros n Hn. apply (Hbn n Hn).
    - apply negb_true_iff. apply str_in_false. intro Hin. apply in_app_or in Hin as [Hin|Hin].
      + assert (Hb : bad_field_name n_kwargs = true) by reflexivity.
        assert (existsb bad_field_name names = true) by (apply existsb_exists; exists n_kwargs; split; assumption). congruence.
      + apply (Hbn _ Hin). reflexivity.
  Qed.

  Lemma new_sig own an h tail bp req consts :
    cheap (c :: tail) own an h -> same_members own -> existsb bad_field_name names = false ->
    base_info gd g (s_bases s) [] false = Ok bp -> Permutation req (own_required s own) ->
    h c (s2p "_constants") = Some (ref constsobj) -> h constsobj n_dict_content = Some (PDict (skeys consts)) ->
    match Define.make_signature names (own_required s own) bp (map fst consts) with
    | Ok sg => exists rq, Permutation rq (sg_req sg) /\
        StructMeta_new__set_sig so X h (v_params bp) (v_names (bases_required bp)) (ref c) (v_names req) (PBool addl_of) =
        Ok (v_sig rq (sg_opt sg) addl_of)
    | Raise x =>
        StructMeta_new__set_sig so X h (v_params bp) (v_names (bases_required bp)) (ref c) (v_names req) (PBool addl_of) = Raise x
    end.
  Proof.
    intros [M _ _] Hs Hgood Hbp Hperm Hcc Hcd. unfold StructMeta_new__set_sig. rewrite !getattr_ref.
    rewrite (ae_cells _ _ _ _ (mh_env _ _ _ _ _ M) c (s2p "_fields")) by reflexivity.
    assert (Ef : genv_heap gd (kc (c :: tail) own :: g) extra' c (s2p "_fields") = Some (v_names names)).
    { unfold genv_heap. rewrite find_klass_kc, pystr_eqb_refl. unfold same_members in Hs. rewrite <- Hs. reflexivity. }
    rewrite Ef, Hcc. cbn [bind]. rewrite deref_ref, Hcd, keys_skeys. cbn [bind].
    pose proof (make_signature_src so X h names req addl_of bp (map fst consts) Hso (sig_inputs bp Hbp Hgood)) as G.
    rewrite (make_signature_perm names req (own_required s own) bp (map fst consts) Hperm) in G.
    unfold sig_agrees in G. destruct (Define.make_signature names (own_required s own) bp (map fst consts)) as [sg|x].
    - destruct G as [rq [Hp Hr]]. exists rq. split; [exact Hp|]. rewrite Hr. reflexivity.
    - rewrite G. reflexivity.
  Qed.

  Lemma new_field_by_name own an h tail :
    cheap (c :: tail) own an h -> same_members own -> existsb bad_field_name names = false ->
    StructMeta_new__set_field_by_name so X h (ref c) =
    Ok (PDict (skeys (v_fields_of_mro (kc (c :: tail) own :: g) (c :: tail)))).
  Proof.
    intros [M _ _] Hs Hgood. unfold StructMeta_new__set_field_by_name.
    pose proof (agree_env_view _ _ _ _ (mh_env _ _ _ _ _ M)) as Hev.
    rewrite (get_all_fields_by_name_gen so X h gd (kc (c :: tail) own :: g) extra' c (kc (c :: tail) own) Hev);
      [reflexivity| rewrite find_klass_kc, pystr_eqb_refl; reflexivity | apply (mro_plain_kc own tail Hs Hgood)].
  Qed.

  (* ---------------------------------------------------------------- the statement that is taken by its contract *)

  (* `if hasattr(clsobj, "__annotations__"): ...` completes the class's __annotations__ dict with the types of the
     TypedFields it does not mention.  Its whole effect is on that one shared dict (which the model does not
     carry): the contract says so, and that afterwards no non-field attribute of the statement is annotated
     (an attribute that shadows an inherited TypedField would be: see the report) *)
  Hypothesis H_annotations_completed : forall mro ms an h, cheap mro ms an h -> same_members ms ->
    (forall n u, In (n, u) (s_attrs s) -> str_in n (map fst an) = false) -> (ann = [] -> an = []) ->
    exists h' an',
      StructMeta_new__if_hasattr_clsobj so X h (ref c) = Ok h' /\ cheap mro ms an' h' /\
      (forall o a, pystr_eqb a n_dict_content = false \/ o <> annobj -> h' o a = h o a) /\
      (forall n u, In (n, u) (s_attrs s) -> str_in n (map fst an') = false) /\ (ann = [] -> an' = []).

  (* ... which holds outright for a class body without annotations *)
  Lemma annotations_completed_none mro ms an h : ann = [] -> cheap mro ms an h ->
    StructMeta_new__if_hasattr_clsobj so X h (ref c) = Ok h.
  Proof.
    intros Ha [_ Hann _]. unfold StructMeta_new__if_hasattr_clsobj, dv_hasattr, ref. rewrite pystr_eqb_refl, Hann, Ha. reflexivity.
  Qed.

  (* ---------------------------------------------------------------- the result *)

  (* the class object [c] of heap [h] is the class description [k] *)
  Record klass_cells (h : heap) (k : klass) : Prop := {
    kc_name : k_name k = c;
    kc_bases : k_bases k = s_bases s;
    kc_mro : h c (s2p "mro()") = Some (PList (v_refs (k_mro k)));
    kc_fields : h c (s2p "_fields") = Some (v_names (map fst (k_own k)));
    kc_defaults : forall n, h (mobj n) n__default =
                  match alist_get (k_own k) n with Some (MField fo) => Some (default_attr (fo_default fo)) | _ => None end;
    kc_all : exists fbn, h c (s2p "_field_by_name") = Some (PDict (skeys fbn)) /\ map fst fbn = map fst (k_all k);
    kc_required : exists req, Permutation req (k_required k) /\ h c (s2p "_required") = Some (v_names req);
    kc_signature : exists req, Permutation req (k_sig_req k) /\
                   h c (s2p "__signature__") = Some (v_sig req (k_sig_opt k) (k_sig_kwargs k));
    kc_constants : h c (s2p "_constants") = Some (ref constsobj) /\
                   h constsobj n_dict_content = Some (PDict (skeys (k_constants k)));
    kc_additional : k_additional k = s_additional s /\ k_ignore_none k = s_ignore_none s }.

  Hypothesis Hbase_modelled : base_info gd g (s_bases s) [] false <> Raise Unmodelled.
  Hypothesis Hmro_fresh : forall mro, mro_of g c (s_bases s) = Ok mro -> ~ In c (tl_str mro).
  Hypothesis Hattrs_not_annotated : forall n u, In (n, u) (s_attrs s) -> str_in n (map fst ann) = false.
  Hypothesis Hmembers : map fst (s_members s) = names.

  Theorem new_is_define_new h0 :
    mheap g extra ann h0 pre -> h0 constsobj n_dict_content = None ->
    match define_new re_match e gd g s pre with
    | Ok k => exists h' cd',
        StructMeta_new so X h0 p_cls (PStr c) (PTuple (v_refs (s_bases s))) cd0 = Ok (h', ref c, cd') /\ klass_cells h' k
    | Raise x => StructMeta_new so X h0 p_cls (PStr c) (PTuple (v_refs (s_bases s))) cd0 = Raise x
    end.
  Proof.
    intros M0 Hfree0. unfold StructMeta_new, define_new. rewrite Hmembers.
    (* the bases *)
    rewrite (new_bases h0 g extra (agree_env_view _ _ _ _ (mh_env _ _ _ _ _ M0)) Hbases_ok Hbase_modelled).
    destruct (base_info gd g (s_bases s) [] false) as [bp|x] eqn:Hbp; cbn [bind]; [|reflexivity].
    (* annotations, _defaults, instantiation, ClassReference, fields *)
    rewrite new_annotations. cbn [bind]. rewrite new_defaults. cbn [bind].
    assert (Hs0 : same_members pre) by reflexivity.
    rewrite (new_instantiate g extra ann h0 pre _ M0 Hs0). cbn [bind].
    rewrite (new_classref_loop g extra ann h0 pre M0 Hs0). cbn [bind].
    rewrite (new_fields g extra ann h0 pre M0 Hs0). cbn [bind].
    (* the field names *)
    pose proof (new_field_names_src so X ents names h0 (fun n Hn => ex_intro _ (mobj n) (member_entry n Hn))) as Hnames.
    destruct (StructMeta_new__for_field_name so X h0 (PDict (skeys ents)) (v_names names)) as [h1|x] eqn:E1.
    2:{ destruct Hnames as [-> Hb]. rewrite Hb. cbn [check bind]. reflexivity. }
    destruct Hnames as [Hgood Hh1]. rewrite Hgood. cbn [check bind].
    assert (M1 : mheap g extra ann h1 pre).
    { apply (mheap_transfer _ _ _ h0); [| | |exact M0].
      - intros o a Ha _. apply Hh1. intro; subst a. discriminate.
      - intros o _. apply Hh1. discriminate.
      - intros x kx a Hk Hin. apply Hh1. intro; subst a. destruct (Hg_members x kx Hk) as [_ Hb].
        rewrite forallb_forall in Hb. specialize (Hb _ Hin). discriminate. }
    (* the non-typedpy assignments *)
    rewrite (new_non_typedpy g extra ann h1 pre M1 Hs0 Hgood).
    destruct (gd_block_non_typedpy gd && existsb non_typedpy_assignment (s_attrs s)); cbn [check bind]; [reflexivity|].
    (* the `= value` defaults *)
    pose proof (new_apply_default g extra ann h1 M1 (fun x kx Hk => find_klass_not_pseudo g x kx Hg_names Hk)) as Hap.
    destruct (mapM (apply_member re_match e defs) pre) as [own|x] eqn:Hown; cbn [bind]; [|rewrite Hap; reflexivity].
    destruct Hap as [h2 [req [Hperm [M2 [Hh2 Hrun]]]]]. rewrite Hrun. cbn [bind].
    destruct (apply_members_shape pre own Hown) as [Hs2 _]. fold (same_members own) in Hs2.
    rewrite new_pop. cbn [bind].
    (* the class object *)
    rewrite new_clsobj. destruct (mro_of g c (s_bases s)) as [mro|x] eqn:Hmro; cbn [bind]; [|reflexivity].
    assert (Emro : exists tail, mro = c :: tail).
    { unfold mro_of in Hmro. destruct (has_dup_str (s_bases s)); [discriminate|]. destruct (mros_of g (s_bases s)); cbn [bind] in Hmro; [|discriminate].
      destruct (c3_merge _ _); inversion Hmro. eexists. reflexivity. }
    destruct Emro as [tail ->]. pose proof (Hmro_fresh (c :: tail) eq_refl) as Hnc. cbn [tl_str] in Hnc |- *.
    rewrite (new_check_final extra ann h2 own tail M2 Hnc).
    destruct (final_violation g tail); cbn [check bind]; [reflexivity|].
    rewrite new_set_fields. cbn [bind].
    pose proof (created_cheap ann h2 own tail M2 Hs2 Hnc Hgood) as C3.
    set (h3 := heap_set (created h2 (c :: tail)) c (s2p "_fields") (v_names names)) in *.
    assert (Hfree3 : h3 constsobj n_dict_content = None).
    { unfold h3. rewrite heap_set_other_obj by exact constsobj_not_c. rewrite created_other by exact constsobj_not_c.
      rewrite Hh2 by discriminate. rewrite Hh1 by discriminate. exact Hfree0. }
    (* the annotations are completed (contract) *)
    destruct (H_annotations_completed _ _ _ _ C3 Hs2 Hattrs_not_annotated (fun H => H)) as [h4 [an' [Hrun4 [C4 [Hh4 [Hna4 Hann4]]]]]].
    rewrite Hrun4. cbn [bind].
    assert (Hfree4 : h4 constsobj n_dict_content = None).
    { rewrite Hh4; [exact Hfree3|]. right. intro E. assert (P : pseudo_attr annobj = true) by reflexivity. rewrite <- E, constsobj_plain in P. discriminate. }
    (* all_fields / default_required: evaluated, not used *)
    destruct (new_all_fields h4 bp) as [vdr Hdr].
    destruct (StructMeta_new__set_all_fields so X h4 (v_params bp) (v_names (bases_required bp)) (v_names names)) as [vaf|x] eqn:Eaf; cbn [bind] in Hdr; [|discriminate].
    cbn [bind]. rewrite Hdr. cbn [bind].
    (* the Constants *)
    destruct (new_constants_dict _ _ _ _ Hs2 Hgood C4 Hfree4) as [h5 [Hrun5 [C5 [Hcc5 Hcd5]]]]. rewrite Hrun5. cbn [bind].
    pose proof (new_constants_loop own an' h5 tail C5 Hs2 Hnc Hgood Hown Hcc5 Hcd5) as Hloop. cbn zeta in Hloop.
    set (consts := constants_of (all_fields g tail own)) in *.
    destruct (forallb (fun nv => const_type_ok (snd nv)) consts); cbn [negb check bind]; [|rewrite Hloop; reflexivity].
    destruct Hloop as [h6 [Hrun6 Hinv6]]. rewrite Hrun6. cbn [bind].
    pose proof (cheap_consts_inv _ _ _ _ _ _ C5 Hinv6) as C6.
    assert (Hcc6 : h6 c (s2p "_constants") = Some (ref constsobj)) by (rewrite (proj1 Hinv6); [exact Hcc5|left; reflexivity]).
    pose proof (proj2 Hinv6) as Hcd6.
    (* _required *)
    rewrite (new_required_src so X h6 (ents2 req) vdr (v_names req)) by (rewrite ents2_get by discriminate; reflexivity).
    cbn [bind].
    destruct (new_required_attr_src so X h6 c (bases_required bp) req Hso) as [rq [Hprq Hrun7]]. rewrite Hrun7. cbn [bind].
    set (h7 := heap_set h6 c (s2p "_required") (v_names rq)) in *.
    assert (C7 : cheap (c :: tail) own an' h7) by (apply (cheap_set_late _ _ _ _ _ _ Hs2 Hgood); [cbn; tauto|exact C6]).
    assert (Hcc7 : h7 c (s2p "_constants") = Some (ref constsobj)) by (unfold h7; rewrite heap_set_other_attr by discriminate; exact Hcc6).
    assert (Hcd7 : h7 constsobj n_dict_content = Some (PDict (skeys consts))) by (unfold h7; rewrite heap_set_other_attr by discriminate; exact Hcd6).
    (* _optional *)
    rewrite new_optional_fields. cbn [bind]. rewrite new_optional_check_src.
    assert (Eopt : existsb (fun f => str_in f req || str_in f (bases_required bp)) (opt_list (s_optional s)) =
                   existsb (fun f => str_in f (own_required s own) || str_in f (bases_required bp)) (opt_list (s_optional s))).
    { apply existsb_ext'. intro f. rewrite (str_in_perm f _ _ Hperm). reflexivity. }
    rewrite Eopt. clear Eopt.
    destruct (existsb (fun f => str_in f (own_required s own) || str_in f (bases_required bp)) (opt_list (s_optional s))); cbn [check bind]; [reflexivity|].
    (* unknown attributes *)
    rewrite (new_block _ _ _ h7 req C7 Hs2 Hna4 Hann4).
    destruct (gd_block_unknown_consts gd && existsb invalid_const (s_attrs s)); cbn [check bind]; [reflexivity|].
    rewrite new_old_additional. cbn [bind]. rewrite (new_additional_props _ _ _ h7 req C7). cbn [bind].
    (* the signature *)
    pose proof (new_sig own an' h7 tail bp req consts C7 Hs2 Hgood Hbp Hperm Hcc7 Hcd7) as Hsig.
    destruct (Define.make_signature names (own_required s own) bp (map fst consts)) as [sg|x]; cbn [bind]; [|rewrite Hsig; reflexivity].
    destruct Hsig as [rqs [Hprqs Hrun8]]. rewrite Hrun8. cbn [bind].
    rewrite (new_field_by_name own an' h7 tail C7 Hs2 Hgood). cbn [bind].
    unfold StructMeta_new__call_setattr___signature, StructMeta_new__call_setattr__field_by_name, StructMeta_new__return.
    rewrite !setattr_ref. cbn [bind].
    eexists. eexists. split; [reflexivity|].
    destruct C7 as [M7 _ _].
    constructor; cbn [k_name k_bases k_mro k_own k_all k_required k_sig_req k_sig_opt k_sig_kwargs k_constants k_additional k_ignore_none].
    - reflexivity.
    - reflexivity.
    - rewrite !heap_set_other_attr by discriminate. rewrite (ae_cells _ _ _ _ (mh_env _ _ _ _ _ M7) c (s2p "mro()")) by reflexivity.
      unfold genv_heap. rewrite find_klass_kc, pystr_eqb_refl. reflexivity.
    - rewrite !heap_set_other_attr by discriminate. rewrite (ae_cells _ _ _ _ (mh_env _ _ _ _ _ M7) c (s2p "_fields")) by reflexivity.
      unfold genv_heap. rewrite find_klass_kc, pystr_eqb_refl. reflexivity.
    - intro n. rewrite !heap_set_other_attr by discriminate. apply (mh_default _ _ _ _ _ M7).
    - eexists. split; [rewrite heap_set_same; reflexivity|].
      unfold v_fields_of_mro. rewrite (all_fields_fold own tail Hnc).
      rewrite <- (map_map (fun p : pystr * pyval => (fst p, tt)) fst), <- (map_map (fun p : pystr * member => (fst p, tt)) fst).
      rewrite (mro_fold_map (fun _ : pyval => tt)), (mro_fold_map (fun _ : member => tt)). reflexivity.
    - exists rq. split; [|rewrite !heap_set_other_attr by discriminate; unfold h7; apply heap_set_same].
      eapply Permutation_trans; [exact Hprq|]. apply dedup_perm. apply Permutation_app_head. exact Hperm.
    - exists rqs. split; [exact Hprqs|]. rewrite heap_set_other_attr by discriminate. apply heap_set_same.
    - split; [rewrite !heap_set_other_attr by discriminate; exact Hcc7|].
      rewrite !heap_set_other_obj by exact constsobj_not_c. exact Hcd7.
    - split; reflexivity.
  Qed.
End NewIsDefine.

(* ================================================================== the theorem, closed *)

(* What the calls that StructMeta.__new__ makes outside the translation do (the oracle [X]), and the one translated
   statement that is taken by its contract (the completion of __annotations__) *)
Record new_contracts (re_match : N -> pystr -> bool) (e : env) (gd : guards) (g : genv)
       (extra : pystr -> list (pystr * pyval)) (so : set_order) (X : ext_oracle) (s : classstmt) (pre : members)
       (ents ann : list (pystr * pyval)) (cd0 p_cls : pyval) (fac : option pyval) : Prop := {
  nc_isfrf : forall hh v, X (s2p "is_function_returning_field") hh [v] = Ok (hh, PBool false, [v]);
  nc_generic : forall hh v, X (s2p "type_is_generic") hh [v] = Ok (hh, PBool false, [v]);
  nc_frame : forall hh, X (s2p "currentframe") hh [] = Ok (hh, PStruct (s2p "frame") [(s2p "f_back", PNone)], []);
  nc_annotations : forall hh,
    X (s2p "add_annotations_to_class_dict") hh [cd0; kwarg (s2p "previous_frame") PNone] =
    Ok (hh, PNone, [PDict (skeys ents); kwarg (s2p "previous_frame") PNone]);
  nc_try : forall hh n fo v, alist_get pre n = Some (MField fo) ->
    X (s2p "._try_default_value") hh [ref (mobj s n); v] =
    match vset re_match e (fo_field fo) v with
    | Ok _ => Ok (hh, PNone, [ref (mobj s n); v])
    | Raise x => Raise x
    end;
  nc_new : forall hh d,
    X (s2p "super().__new__") hh [p_cls; PStr (s_name s); PTuple (v_refs (s_bases s)); d] =
    match mro_of g (s_name s) (s_bases s) with
    | Ok mro => Ok (created g s pre ann fac hh mro, ref (s_name s), [p_cls; PStr (s_name s); PTuple (v_refs (s_bases s)); d])
    | Raise x => Raise x
    end;
  nc_completed : forall mro ms an h, cheap gd g extra s ann mro ms an h -> map fst ms = map fst pre ->
    (forall n u, In (n, u) (s_attrs s) -> str_in n (map fst an) = false) -> (ann = [] -> an = []) ->
    exists h' an',
      StructMeta_new__if_hasattr_clsobj so X h (ref (s_name s)) = Ok h' /\ cheap gd g extra s ann mro ms an' h' /\
      (forall o a, pystr_eqb a n_dict_content = false \/ o <> annobj -> h' o a = h o a) /\
      (forall n u, In (n, u) (s_attrs s) -> str_in n (map fst an') = false) /\ (ann = [] -> an' = []) }.

(* the domain: the classes that exist are ordinary Structure classes, the new class has a fresh ordinary name, its
   member names are identifiers that are not reserved class-dict keys, its bases are modelled, the class body's
   Field objects are normalised, the non-field attributes are not annotated *)
Definition klass_ordinary (k : klass) : bool :=
  negb (pseudo_attr (k_name k)) && own_plain k && forallb (fun n => negb (bad_field_name n)) (map fst (k_own k)) &&
  forallb valid_param_name (k_sig_req k ++ k_sig_opt k) &&
  forallb (fun nm => match snd nm with MConst (POther _ _) => false | _ => true end) (k_own k).

Definition new_domain (re_match : N -> pystr -> bool) (e : env) (gd : guards) (g : genv)
           (extra : pystr -> list (pystr * pyval)) (s : classstmt) (pre : members) (ann : list (pystr * pyval)) : bool :=
  let c := s_name s in
  let names := map fst pre in
  forallb klass_ordinary g &&
  negb (pseudo_attr c) && negb (is_some (find_klass g c)) && negb (pystr_eqb c n_Structure) && negb (pystr_eqb c n_TypedPyDefaults) &&
  negb (is_some (find_klass g n_TypedPyDefaults)) && negb (is_some (find_klass g (constsobj s))) &&
  forallb (fun n => negb (str_in n reserved_keys) && negb (pseudo_attr n) && valid_param_name n) names &&
  bases_ok g extra (s_bases s) &&
  negb (match base_info gd g (s_bases s) [] false with Raise Unmodelled => true | _ => false end) &&
  match mro_of g c (s_bases s) with Ok mro => negb (str_in c (tl_str mro)) | Raise _ => true end &&
  negb (has_dup_str names) && defaults_normal pre && forallb (member_ok (eq_defs (s_members s))) pre &&
  forallb (fun nd => eqd_plain (snd nd)) (eq_defs (s_members s)) &&
  forallb (fun nm => match snd nm with MConst (POther _ _) => false | _ => true end) pre &&
  forallb (fun nu => negb (str_in (fst nu) (map fst ann))) (s_attrs s) &&
  match s_keys_of s with [] => true | _ => false end.

Lemma klass_ordinary_spec k : klass_ordinary k = true ->
  negb (pseudo_attr (k_name k)) = true /\ own_plain k = true /\
  forallb (fun n => negb (bad_field_name n)) (map fst (k_own k)) = true /\
  forallb valid_param_name (k_sig_req k ++ k_sig_opt k) = true /\
  forallb (fun nm => match snd nm with MConst (POther _ _) => false | _ => true end) (k_own k) = true.
Proof.
  unfold klass_ordinary. intro H. apply andb_true_iff in H as [H H5]. apply andb_true_iff in H as [H H4].
  apply andb_true_iff in H as [H H3]. apply andb_true_iff in H as [H1 H2]. repeat split; assumption.
Qed.

Lemma find_klass_In g x k : find_klass g x = Some k -> In k g.
Proof.
  induction g as [|y t IH]; cbn [find_klass]; [discriminate|]. destruct (pystr_eqb (k_name y) x); [intro H; inversion H; left; reflexivity|].
  intro H. right. apply IH. exact H.
Qed.

Ltac split_andb H :=
  repeat match type of H with (_ && _ = true) => let H1 := fresh "D" in let H2 := fresh "D" in apply andb_true_iff in H as [H1 H2]; try split_andb H1; try split_andb H2 end.

(* StructMeta.__new__ (the generated composition of its statements), run on the Python-level view of a class
   statement, yields [define]'s result: the class description [k] read off the class object ([klass_cells]: name,
   bases, MRO -- hence the immutable / final flags --, own fields with their defaults, all fields, _required,
   the signature with its **kwargs flag, _constants, the additional-properties / ignore-none settings), or the
   same exception.  [order_ok] excludes the statements with two simultaneous faults on which the model's order of
   checks and the source's differ; without it the successful definitions still coincide ([new_defines_iff]). *)
Theorem new_is_define re_match e gd g extra so X s pre ents ann cd0 p_cls fac h0 :
  new_domain re_match e gd g extra s pre ann = true -> so_ok so -> dict_view s pre ents ann ->
  new_contracts re_match e gd g extra so X s pre ents ann cd0 p_cls fac ->
  mapM (init_member re_match e) (s_members s) = Ok pre ->
  mheap gd g s g extra ann h0 pre -> h0 (constsobj s) n_dict_content = None ->
  match define_new re_match e gd g s pre with
  | Ok k => exists h' cd',
      StructMeta_new so X h0 p_cls (PStr (s_name s)) (PTuple (v_refs (s_bases s))) cd0 = Ok (h', ref (s_name s), cd') /\
      klass_cells s h' k
  | Raise x => StructMeta_new so X h0 p_cls (PStr (s_name s)) (PTuple (v_refs (s_bases s))) cd0 = Raise x
  end /\
  (forall k, define re_match e gd g s = Ok k <-> define_new re_match e gd g s pre = Ok k) /\
  (order_ok re_match e gd g s pre = true -> define re_match e gd g s = define_new re_match e gd g s pre).
Proof.
  intros Hdom Hso Hdv [C1 C2 C3 C4 C5 C6 C7] Hinit M0 Hfree.
  unfold new_domain in Hdom. cbv zeta in Hdom. split_andb Hdom.
  repeat match goal with H : negb _ = true |- _ => apply negb_true_iff in H end.
  assert (Hmembers : map fst (s_members s) = map fst pre).
  { symmetry. apply (mapM_names (init_member re_match e) (s_members s) pre (init_member_name re_match e) Hinit). }
  assert (Hgk : forall x kx, find_klass g x = Some kx -> klass_ordinary kx = true).
  { intros x kx Hk. match goal with H : forallb klass_ordinary g = true |- _ => rewrite forallb_forall in H; apply H end. apply (find_klass_In g x kx Hk). }
  assert (Hdup : has_dup_str (map fst (s_members s)) = false) by (rewrite Hmembers; assumption).
  assert (Hkeys : s_keys_of s = []) by (destruct (s_keys_of s); [reflexivity|discriminate]).
  split; [|apply (define_new_is_define re_match e gd g s pre Hdup Hkeys Hinit)].
  assert (Hnm : forall n, In n (map fst pre) -> str_in n reserved_keys = false /\ pseudo_attr n = false /\ valid_param_name n = true).
  { intros n Hn. rewrite forallb_forall in D11. specialize (D11 n Hn). apply andb_true_iff in D11 as [D11 V].
    apply andb_true_iff in D11 as [R P]. apply negb_true_iff in R, P. repeat split; assumption. }
  eapply (new_is_define_new re_match e gd g extra so X s pre ents ann); try eassumption.
  - apply forallb_forall. intros k Hk. rewrite forallb_forall in D. apply (klass_ordinary_spec k (D k Hk)).
  - apply has_dup_false_NoDup. exact D7.
  - apply pystr_eqb_neq. exact D15.
  - apply pystr_eqb_neq. exact D14.
  - destruct (find_klass g n_TypedPyDefaults); [discriminate|reflexivity].
  - apply forallb_forall. intros n Hn. apply negb_true_iff. apply (Hnm n Hn).
  - intros x kx Hk. destruct (klass_ordinary_spec kx (Hgk x kx Hk)) as [_ [A [B _]]]. split; assumption.
  - apply forallb_forall. intros n Hn. apply negb_true_iff. apply (Hnm n Hn).
  - destruct (find_klass g (constsobj s)); [discriminate|reflexivity].
  - intros n t o Hin. rewrite forallb_forall in D3. specialize (D3 _ Hin). discriminate.
  - intros x n t o Hin. unfold own_of in Hin. destruct (find_klass g x) as [kx|] eqn:Hk; [|destruct Hin]. destruct (k_is_struct kx); [|destruct Hin].
    destruct (klass_ordinary_spec kx (Hgk x kx Hk)) as [_ [_ [_ [_ A]]]]. rewrite forallb_forall in A. specialize (A _ Hin). discriminate.
  - apply forallb_forall. intros n Hn. apply (Hnm n Hn).
  - intros b kb Hk. apply (klass_ordinary_spec kb (Hgk b kb Hk)).
  - intro E. rewrite E in D9. discriminate.
  - intros mro Hm. rewrite Hm in D8. apply negb_true_iff in D8. apply str_in_false. exact D8.
  - intros n u Hnu. rewrite forallb_forall in D2. specialize (D2 _ Hnu). apply negb_true_iff in D2. exact D2.
Qed.

Print Assumptions new_is_define.
Print Assumptions define_new_is_define.
