(* Model extension: Constant fields in the constructor (Appendix B step 5 of DESIGN.md).  Struct/Instance.v
   [construct] describes classes without Constant fields; here a class description comes with its `_constants`
   (name -> value, in the order of the class dict).  A constant is a declared field of the class (its descriptor is
   whatever the field declaration says), it is NOT a parameter of the signature, and after the extra keyword
   arguments and before the defaults the constructor goes through `_constants` in order: a constant named by the
   caller's keywords is refused (ValueError), otherwise it is assigned.  Executable; no proofs here. *)
From Coq Require Import ZArith QArith NArith String Ascii Bool Lia List.
Import ListNotations.
From TP Require Import Base.PyVal Base.PyOps Base.PyOps2 Base.PyObj Base.PyOpsInit
     Fields.FieldAst Fields.SetChain Struct.Shapes Struct.Instance Struct.InitModel.
Local Open Scope Z_scope.

Definition sig_field (c : classdef) (K : kwargs) (p : pystr * pyval) : bool :=
  is_field c p && negb (alist_has K (fst p)).
Definition bound_k (c : classdef) (K kw : kwargs) : kwargs := filter (sig_field c K) kw.
Definition extras_k (c : classdef) (K kw : kwargs) : kwargs := filter (fun p => negb (sig_field c K p)) kw.
Definition bind_ok_k (c : classdef) (K kw : kwargs) : bool :=
  forallb (fun r => alist_has kw r) (c_required c) && (c_additional c || forallb (sig_field c K) kw).

Definition init_heap_k (c : classdef) (ff : bool) (K : kwargs) : heap :=
  fun o a =>
    if pystr_eqb a (s2p "_constants") && pystr_eqb o (s2p "self") then Some (kw_dict K)
    else init_heap c ff o a.

Section WithOracle.
  Variable re_match : N -> pystr -> bool.
  Variable e : env.

  Fixpoint set_consts (c : classdef) (a : attrs) (K kw : kwargs) : res attrs :=
    match K with
    | [] => Ok a
    | (n, v) :: t =>
        if alist_has kw n then Raise ValueError
        else match setattr re_match e c false a n v with
             | (a', Done) => set_consts c a' t kw
             | (_, Raised x) => Raise x
             end
    end.

  Definition construct_k (c : classdef) (K kw : kwargs) : res pyval :=
    if has_dup (map fst kw) then Raise Unmodelled
    else if negb (bind_ok_k c K kw) then Raise TypeError
    else
      a0 <- set_all re_match e c [] (extras_k c K kw) ;;
      ak <- set_consts c a0 K kw ;;
      a1 <- set_all re_match e c ak (defaults_of c kw) ;;
      a2 <- set_all re_match e c a1 (bound_k c K kw) ;;
      if hook_ok (c_hook c) a2 then Ok (PStruct (c_name c) a2) else Raise ValueError.

  Variable msg_of : pystr -> pyval -> exn -> pystr.
  Variable bind_msg hook_msg : pystr.
  Variable repr_str : pystr -> pystr.
  Variable dumps : list pystr -> pystr.
  Variable sig_order : kwargs -> kwargs.

  Definition model_bind_k (c : classdef) (K : kwargs) (args kwargs : pyval) : M pyval :=
    match args, kwargs with
    | PTuple [], PDict kv =>
        match kwargs_of kv with
        | Some kw =>
            if has_dup (map fst kw) then raiseM (mk_exc Unmodelled [])
            else if negb (bind_ok_k c K kw) then raiseM (mk_exc TypeError bind_msg)
            else
              let b := map (fun p => (PStr (fst p), snd p)) (sig_order (bound_k c K kw)) in
              match extras_k c K kw with
              | [] => ret (PDict b)
              | ex => ret (PDict (b ++ [(PStr n_kwargs, kw_dict ex)]))
              end
        | None => raiseM (mk_exc Unmodelled [])
        end
    | _, _ => raiseM (mk_exc Unmodelled [])
    end.

  Definition model_world_k (c : classdef) (K : kwargs) : world :=
    let w := model_world re_match e msg_of bind_msg hook_msg repr_str dumps sig_order c in
    {| w_bind := fun _ => model_bind_k c K;
       w_setattr := w_setattr w; w_call := w_call w; w_super := w_super w; w_invoke := w_invoke w;
       w_apply := w_apply w; w_callable := w_callable w; w_repr_str := w_repr_str w; w_json_dumps := w_json_dumps w;
       w_new := w_new w |}.
End WithOracle.

(* constants are declared fields without a default; names as in [init_dom] *)
Definition init_dom_k (c : classdef) (K kw : kwargs) : bool :=
  init_dom c kw && forallb (fun p => plain (fst p)) K &&
  forallb (fun fd => negb (alist_has K (fd_name fd)) || match fd_default fd with None => true | Some _ => false end) (c_fields c).
