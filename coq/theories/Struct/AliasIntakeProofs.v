(* Proofs about the intake model (Struct/AliasIntake.v): exactly which isinstance tables keep an immutable owner
   from sharing caller-mutable objects, for EVERY declared field type and EVERY argument shape. *)
From Coq Require Import String List Bool Arith NArith Lia.
Import ListNotations.
From TP Require Import Base.PyVal Struct.Alias Struct.AliasIntake.

Lemma pyty_eqb_eq : forall a b, pyty_eqb a b = true <-> a = b.
Proof. intros a b. split; [destruct a, b; cbn; congruence | intros ->; destruct b; reflexivity]. Qed.

Lemma ty_matches_atomic : forall e y, atomic_ty e = true -> ty_matches e y = true -> atomic_ty y = true.
Proof. intros e y He Hm. destruct e; try discriminate; destruct y; cbn in Hm; try discriminate; reflexivity. Qed.

Lemma in_table_atomic : forall tb y, atomic_table tb = true -> in_table tb y = true -> atomic_ty y = true.
Proof.
  unfold atomic_table, in_table. intros tb y Ha Hi. apply existsb_exists in Hi as [e [He Hm]].
  rewrite forallb_forall in Ha. eapply ty_matches_atomic; eauto.
Qed.

Lemma passes_atomic : forall tb y, atomic_table tb = true -> passes tb true y = true -> atomic_ty y = true.
Proof. unfold passes. intros tb y Ha Hp. cbn [negb orb] in Hp. eapply in_table_atomic; eauto. Qed.

(* a value whose runtime type is atomic has no caller-mutable part *)
Lemma atomic_value_unreachable : forall v, atomic_ty (pyty_of v) = true -> mutable_reach v = false.
Proof. intros v H. destruct v; cbn in H; try discriminate. reflexivity. Qed.

Lemma in_table_In : forall tb y, In y tb -> in_table tb y = true.
Proof.
  unfold in_table. intros tb y H. apply existsb_exists. exists y. split; [assumption|].
  unfold ty_matches. replace (pyty_eqb y y) with true by (symmetry; apply pyty_eqb_eq; reflexivity). reflexivity.
Qed.

Lemma witness_reach : forall y, atomic_ty y = false -> mutable_reach (witness_of y) = true.
Proof. intros y H. destruct y; try discriminate; reflexivity. Qed.

Lemma witness_in_table : forall tb y, atomic_ty y = false -> In y tb -> in_table tb (pyty_of (witness_of y)) = true.
Proof.
  intros tb y Ha Hin. destruct y; try discriminate; try (apply in_table_In; exact Hin).
  (* YUnknownTy: matches the list witness *)
  unfold in_table. apply existsb_exists. exists YUnknownTy. split; [assumption|reflexivity].
Qed.

(* ---------------------------------------------------------------- ImmutableStructure: Structure.__setattr__ *)

Lemma immstruct_safe : forall sv tb deser t v,
    struct_gate_ok tb = true -> retains sv tb OwnImmStruct deser t v = false.
Proof.
  intros sv tb deser t v Hg. unfold struct_gate_ok in Hg. apply andb_true_iff in Hg as [Hc Ha].
  unfold retains. rewrite Hc.
  destruct (passes (t_setattr tb) true (top_pyty deser t v)) eqn:Hp; [|reflexivity].
  apply (passes_atomic _ _ Ha) in Hp. cbn [andb]. generalize true at 2. revert v Hp.
  induction t as [b| |o|l|o|b|l|o|l|t IH]; intros v Hp iimm; cbn [top_pyty] in Hp; try discriminate;
    try (destruct deser; try discriminate; destruct v; discriminate).
  - reflexivity.
  - cbn [pos]. rewrite (atomic_value_unreachable v Hp). apply andb_false_r.
  - cbn [pos]. apply IH. exact Hp.
Qed.

Lemma immstruct_leaks : forall sv tb y,
    atomic_ty y = false -> In y (t_setattr tb) ->
    retains sv tb OwnImmStruct false TAny (witness_of y) = true.
Proof.
  intros sv tb y Ha Hin. unfold retains. cbn [top_pyty pos fset_passes negb orb andb].
  unfold passes. rewrite (witness_in_table _ _ Ha Hin), (witness_reach _ Ha). rewrite orb_true_r. reflexivity.
Qed.

Lemma immstruct_leaks_typed : forall sv tb y,
    atomic_ty y = false -> In y (t_setattr tb) ->
    pyty_of (witness_of y) = (match y with YUnknownTy => YList | _ => y end) /\
    retains sv tb OwnImmStruct false TAny (witness_of y) = true.
Proof. intros sv tb y Ha Hin. split; [destruct y; try discriminate; reflexivity|apply immstruct_leaks; assumption]. Qed.

(* ---------------------------------------------------------------- fields declared immutable: Field.__set__ + wrappers *)

Lemma fset_blocks : forall tb y, t_set_copies tb = true -> atomic_table (t_set tb) = true -> atomic_ty y = false ->
    fset_passes tb true y = false.
Proof.
  intros tb y Hc Ha Hy. unfold fset_passes. cbn [negb orb]. rewrite Hc.
  destruct (passes (t_set tb) true y) eqn:Hp; [|reflexivity].
  apply (passes_atomic _ _ Ha) in Hp. congruence.
Qed.

Lemma mixin_blocks : forall tb gate y, mixin_ok tb = true -> gate = true -> (y = YList \/ y = YDeque \/ y = YDict \/ y = YWrapper) ->
    wrapper_copies tb gate true y = true.
Proof.
  intros tb gate y Hm Hg Hy. unfold mixin_ok in Hm.
  apply andb_true_iff in Hm as [Hm Hw]. apply andb_true_iff in Hm as [Hm Hd]. apply andb_true_iff in Hm as [Hm Hq]. apply andb_true_iff in Hm as [Hc Hl].
  unfold wrapper_copies, passes. rewrite Hg, Hc. cbn [andb negb orb].
  destruct Hy as [ -> | [ -> | [ -> | -> ] ] ]; [rewrite (proj1 (negb_true_iff _) Hl)|rewrite (proj1 (negb_true_iff _) Hq)|rewrite (proj1 (negb_true_iff _) Hd)|rewrite (proj1 (negb_true_iff _) Hw)]; reflexivity.
Qed.

Lemma immfield_safe : forall sv tb deser t v,
    sites_intake_ok sv = true -> field_gates_ok tb = true ->
    retains sv tb OwnImmField deser t v = false.
Proof.
  intros sv tb deser t v Hs Hg. unfold retains.
  unfold sites_intake_ok in Hs. apply andb_true_iff in Hs as [Hs Hsd]. apply andb_true_iff in Hs as [Hs Hsl].
  apply andb_true_iff in Hs as [Hwa Hwm].
  unfold field_gates_ok in Hg. apply andb_true_iff in Hg as [Hg Hgd]. apply andb_true_iff in Hg as [Hg Hgq].
  apply andb_true_iff in Hg as [Hg Hgl]. apply andb_true_iff in Hg as [Hg Hmx]. apply andb_true_iff in Hg as [Hc Ha].
  assert (HL : wrapper_copies tb (t_list_gate tb) true YList = true) by (apply mixin_blocks; auto).
  assert (HQ : wrapper_copies tb (t_deque_gate tb) true YDeque = true) by (apply mixin_blocks; auto).
  assert (HD : wrapper_copies tb (t_dict_gate tb) true YDict = true) by (apply mixin_blocks; auto).
  assert (HLw : wrapper_copies tb (t_list_gate tb) true YWrapper = true) by (apply mixin_blocks; auto 6).
  assert (HQw : wrapper_copies tb (t_deque_gate tb) true YWrapper = true) by (apply mixin_blocks; auto 6).
  assert (HDw : wrapper_copies tb (t_dict_gate tb) true YWrapper = true) by (apply mixin_blocks; auto 6).
  revert v.
  induction t as [b| |o|l|o|b|l|o|l|t IH]; intro v; cbn [pos orb].
  - reflexivity.
  - destruct (fset_passes tb true (pyty_of v)) eqn:Hp; [|reflexivity]. cbn [andb].
    unfold fset_passes in Hp. cbn [negb orb] in Hp. rewrite Hc in Hp. apply (passes_atomic _ _ Ha) in Hp.
    apply atomic_value_unreachable. exact Hp.
  - destruct o; destruct v; try reflexivity; destruct deser; cbn [pyty_of]; rewrite Hwa, Hsl, ?HL, ?HLw; reflexivity.
  - destruct v; try reflexivity; rewrite Hwa, Hsl, HL; reflexivity.
  - destruct o; destruct v; try reflexivity; destruct deser; rewrite Hwm, Hsd, ?HD, ?HDw; reflexivity.
  - destruct b; [reflexivity|]. destruct v; try reflexivity; rewrite (fset_blocks tb YFrozenset Hc Ha eq_refl); reflexivity.
  - destruct v; try reflexivity; rewrite (fset_blocks tb YTuple Hc Ha eq_refl); reflexivity.
  - destruct o; destruct v; try reflexivity; destruct deser; rewrite ?HQ, ?HQw; reflexivity.
  - destruct deser; destruct v; try reflexivity; rewrite (fset_blocks tb YStruct Hc Ha eq_refl); reflexivity.
  - apply IH.
Qed.

Lemma immfield_leaks : forall sv tb y,
    atomic_ty y = false -> In y (t_set tb) ->
    retains sv tb OwnImmField false TAny (witness_of y) = true.
Proof.
  intros sv tb y Ha Hin. unfold retains. cbn [pos]. unfold fset_passes, passes. cbn [negb orb].
  rewrite (witness_in_table _ _ Ha Hin), (witness_reach _ Ha). rewrite orb_true_r. reflexivity.
Qed.

(* a Map field declared immutable is skipped by Field.__set__'s copy: without the wrapper's own copy its values are shared *)
Lemma immutable_map_leaks : forall sv tb deser,
    t_map_custom tb = true -> t_dict_gate tb = false ->
    retains sv tb OwnImmField deser (TMap None) (VDict [VList [VAtom]]) = true.
Proof.
  intros sv tb deser Hc Hg. unfold retains. cbn [pos]. unfold wrapper_copies. rewrite Hc, Hg.
  cbn. apply orb_true_r.
Qed.


(* ---------------------------------------------------------------- plain owners: typed positions are rebuilt *)

Lemma aty_ind' : forall (P : aty -> Prop),
    (forall b, P (TScalar b)) -> P TAny -> P (TArray None) -> (forall i, P i -> P (TArray (Some i))) ->
    (forall l, Forall P l -> P (TArrayPos l)) -> P (TMap None) -> (forall i, P i -> P (TMap (Some i))) ->
    (forall b, P (TSet b)) -> (forall l, Forall P l -> P (TTuple l)) ->
    P (TDeque None) -> (forall i, P i -> P (TDeque (Some i))) -> (forall l, Forall P l -> P (TStruct l)) ->
    (forall i, P i -> P (TOpt i)) -> forall t, P t.
Proof.
  intros P H1 H2 H3 H3' H4 H5 H5' H6 H7 H8 H8' H9 H10.
  fix IH 1. intro t0. destruct t0 as [b| |o|l|o|b|l|o|l|i].
  - apply H1.
  - apply H2.
  - destruct o as [i|]; [apply H3'; apply IH|apply H3].
  - apply H4. induction l as [|a l IHl]; constructor; [apply IH|apply IHl].
  - destruct o as [i|]; [apply H5'; apply IH|apply H5].
  - apply H6.
  - apply H7. induction l as [|a l IHl]; constructor; [apply IH|apply IHl].
  - destruct o as [i|]; [apply H8'; apply IH|apply H8].
  - apply H9. induction l as [|a l IHl]; constructor; [apply IH|apply IHl].
  - apply H10. apply IH.
Qed.

Definition all_typed := fix all (l : list aty) : bool := match l with [] => true | x :: r => typed_inside x && all r end.

Lemma existsb_false : forall (A : Type) (f : A -> bool) l, (forall x, In x l -> f x = false) -> existsb f l = false.
Proof.
  intros A f l H. induction l as [|x l IH]; [reflexivity|]. cbn [existsb]. rewrite (H x (or_introl eq_refl)).
  apply IH. intros y Hy. apply H. right. assumption.
Qed.

Section PlainTyped.
Variables (sv : sites) (tb : ctables).

Definition safe_at (t : aty) : Prop :=
  forall deser v, typed_inside t = true -> shape_ok deser t v = true -> pos sv tb deser false false false t v = false.

Lemma zip_any_false : forall deser l, Forall safe_at l -> all_typed l = true -> forall xs,
    (fix all (l : list aty) (xs : list vshape) {struct l} : bool :=
       match l, xs with [], [] => true | a :: l', x :: xs' => shape_ok deser a x && all l' xs' | _, _ => false end) l xs = true ->
    (fix any (l : list aty) (xs : list vshape) {struct l} : bool :=
       match l, xs with a :: l', x :: xs' => pos sv tb deser false false false a x || any l' xs' | _, _ => false end) l xs = false.
Proof.
  intros deser l H. induction H as [|a l Ha Hl IHl]; intros Ht xs Hxs.
  - reflexivity.
  - destruct xs as [|x xs]; [reflexivity|]. apply andb_true_iff in Hxs as [Hv1 Hv2]. cbn [all_typed] in Ht.
    apply andb_true_iff in Ht as [Ht1 Ht2]. rewrite (Ha deser x Ht1 Hv1). cbn [orb]. apply IHl; assumption.
Qed.

Lemma zip_any_extra_false : forall deser l, Forall safe_at l -> all_typed l = true -> forall xs,
    (fix all (l : list aty) (xs : list vshape) {struct l} : bool :=
       match l, xs with [], [] => true | a :: l', x :: xs' => shape_ok deser a x && all l' xs' | _, _ => false end) l xs = true ->
    (fix any (l : list aty) (xs : list vshape) {struct l} : bool :=
       match l, xs with a :: l', x :: xs' => pos sv tb deser false false false a x || any l' xs' | _, _ => any_reach xs end) l xs = false.
Proof.
  intros deser l H. induction H as [|a l Ha Hl IHl]; intros Ht xs Hxs.
  - destruct xs; [reflexivity|discriminate].
  - destruct xs as [|x xs]; [discriminate|]. apply andb_true_iff in Hxs as [Hv1 Hv2]. cbn [all_typed] in Ht.
    apply andb_true_iff in Ht as [Ht1 Ht2]. rewrite (Ha deser x Ht1 Hv1). cbn [orb]. apply IHl; assumption.
Qed.

Lemma zip_rec_false : forall l, Forall safe_at l -> all_typed l = true -> forall xs,
    (fix all (l : list aty) (xs : list (option vshape)) {struct l} : bool :=
       match l, xs with
       | [], [] => true
       | a :: l', Some x :: xs' => shape_ok true a x && all l' xs'
       | _ :: l', None :: xs' => all l' xs'
       | _, _ => false
       end) l xs = true ->
    (fix any (l : list aty) (xs : list (option vshape)) {struct l} : bool :=
       match l, xs with
       | a :: l', Some x :: xs' => pos sv tb true false false false a x || any l' xs'
       | _ :: l', None :: xs' => any l' xs'
       | _, _ => false
       end) l xs = false.
Proof.
  intros l H. induction H as [|a l Ha Hl IHl]; intros Ht xs Hxs.
  - destruct xs; reflexivity.
  - cbn [all_typed] in Ht. apply andb_true_iff in Ht as [Ht1 Ht2]. destruct xs as [|[x|] xs]; [reflexivity| |].
    + apply andb_true_iff in Hxs as [Hv1 Hv2]. rewrite (Ha true x Ht1 Hv1). cbn [orb]. apply IHl; assumption.
    + apply IHl; assumption.
Qed.

(* a plain (mutable) owner given a value for a field with no untyped position at any depth: every container of the
   argument is rebuilt on the way in, whatever the value; by induction over the declared type *)
Lemma plain_typed_safe_at : sites_intake_ok sv = true -> forall t, safe_at t.
Proof.
  intros Hs. pose proof Hs as Hs'. unfold sites_intake_ok in Hs'. apply andb_true_iff in Hs' as [Hs0 Hsd].
  apply andb_true_iff in Hs0 as [Hs0 Hsl]. apply andb_true_iff in Hs0 as [Hwa Hwm].
  intro t. induction t using aty_ind'; intros deser v Ht Hv; cbn [typed_inside] in Ht; try discriminate.
  - reflexivity.
  - (* Array[i] *)
    cbn [pos]. destruct v; try reflexivity; rewrite Hwa, Hsl; cbn [negb orb];
      cbn [shape_ok] in Hv; rewrite forallb_forall in Hv;
      (rewrite (existsb_false _ _ xs); [apply andb_false_r|]; intros x Hx; apply IHt; auto).
  - (* positional Array *)
    cbn [pos]. destruct v; try reflexivity; rewrite Hwa, Hsl; cbn [negb orb]; cbn [shape_ok] in Hv;
      rewrite (zip_any_extra_false deser l H Ht xs Hv); apply andb_false_r.
  - (* Map[str, i] *)
    cbn [pos]. destruct v; try reflexivity; rewrite Hwm, Hsd; cbn [negb orb];
      cbn [shape_ok] in Hv; rewrite forallb_forall in Hv;
      (rewrite (existsb_false _ _ xs); [apply andb_false_r|]; intros x Hx; apply IHt; auto).
  - (* Set *)
    destruct b; [reflexivity|discriminate].
  - (* Tuple *)
    cbn [pos]. cbn [shape_ok] in Hv. destruct v; try reflexivity;
      apply andb_true_iff in Hv as [_ Hv]; rewrite (zip_any_false deser l H Ht xs Hv); apply andb_false_r.
  - (* Deque[i] *)
    cbn [pos]. cbn [shape_ok] in Hv. destruct v; try reflexivity;
      try (apply andb_true_iff in Hv as [_ Hv]); rewrite forallb_forall in Hv;
      (rewrite (existsb_false _ _ xs); [apply andb_false_r|]; intros x Hx; apply IHt; auto).
  - (* nested structure *)
    cbn [pos]. cbn [shape_ok] in Hv. destruct deser.
    + destruct v; try reflexivity. cbn [andb] in Hv. rewrite (zip_rec_false l H Ht xs Hv). apply andb_false_r.
    + destruct v; reflexivity.
  - (* Optional *)
    cbn [pos]. apply IHt; assumption.
Qed.

End PlainTyped.

Lemma plain_typed_safe : forall sv tb deser t v,
    sites_intake_ok sv = true -> typed_inside t = true -> shape_ok deser t v = true ->
    retains sv tb OwnPlain deser t v = false.
Proof. intros sv tb deser t v Hs Ht Hv. unfold retains. apply (plain_typed_safe_at sv tb Hs t); assumption. Qed.
