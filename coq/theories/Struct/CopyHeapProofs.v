(* Proofs about the object-graph model of deepcopy (Struct/CopyHeap.v):
   - [dc_good]        a deep copy under a SAFE policy extends the heap, denotes the same value and
                      reaches no mutable object of the old heap (induction on the fuel);
   - [dc_separated]   hence original and copy are separated: no mutable object is reachable from both;
   - [frame_steps]    separation is an invariant of every interleaved history of client operations on
                      the two sides, and an operation of one side never changes the value of the other
                      (induction on the history);
   - [unsafe_policy_witness] a policy that re-uses values of a type whose instances can hold mutable
                      objects is refuted by a computed witness;
   - [shared_mutable_sound]  the executable separation check only reports real sharing. *)
From Coq Require Import String.
From Coq Require Import ZArith NArith Bool List Arith Lia.
Import ListNotations.
From TP Require Import Base.PyVal Base.PyEq Struct.CopyHeap.

(* ------------------------------------------------------------------ Prop-level well-formedness *)

Definition child_ok (n : nat) (c : child) : Prop :=
  match c with CAtom _ => True | CRef l => l < n end.

Definition closed (h : heap) : Prop :=
  forall l o, get h l = Some o -> forall k c, In (k, c) (o_kids o) -> child_ok (length h) c.

Definition imm_opaque (h : heap) : Prop :=
  forall l o cls, get h l = Some o -> o_kind o = KInst cls true ->
                  forall k c, In (k, c) (o_kids o) -> exists v, c = CAtom v.

Lemma child_okb_ok n c : child_okb n c = true -> child_ok n c.
Proof. destruct c as [v|l]; simpl; intro H; [exact I | apply Nat.ltb_lt; exact H]. Qed.

Lemma child_ok_mono n m c : n <= m -> child_ok n c -> child_ok m c.
Proof. destruct c; simpl; intros; [exact I | lia]. Qed.

Lemma get_lt h l o : get h l = Some o -> l < length h.
Proof. unfold get. intro H. apply nth_error_Some. rewrite H. discriminate. Qed.

Lemma get_app_old h e l : l < length h -> get (h ++ e) l = get h l.
Proof. unfold get. intro H. apply nth_error_app1. exact H. Qed.

Lemma get_app_new h o : get (h ++ [o]) (length h) = Some o.
Proof. unfold get. rewrite nth_error_app2 by lia. rewrite Nat.sub_diag. reflexivity. Qed.

Lemma get_in h l o : get h l = Some o -> In o h.
Proof. unfold get. apply nth_error_In. Qed.

Lemma closedb_closed h : closedb h = true -> closed h.
Proof.
  unfold closedb, closed. intros H l o G k c I.
  rewrite forallb_forall in H. specialize (H o (get_in _ _ _ G)).
  unfold obj_okb in H. rewrite forallb_forall in H. specialize (H (k, c) I).
  apply child_okb_ok. exact H.
Qed.

Lemma imm_opaqueb_opaque h : imm_opaqueb h = true -> imm_opaque h.
Proof.
  unfold imm_opaqueb, imm_opaque. intros H l o cls G K k c I.
  rewrite forallb_forall in H. specialize (H o (get_in _ _ _ G)). rewrite K in H.
  rewrite forallb_forall in H. specialize (H (k, c) I). simpl in H.
  destruct c as [v|m]; [exists v; reflexivity | discriminate H].
Qed.

Lemma closed_app_one h o :
  closed h -> (forall k c, In (k, c) (o_kids o) -> child_ok (length h) c) -> closed (h ++ [o]).
Proof.
  intros C K l o' G k c I. rewrite app_length. simpl.
  destruct (Nat.lt_ge_cases l (length h)) as [L|L].
  - rewrite get_app_old in G by exact L.
    apply child_ok_mono with (n := length h); [lia | exact (C l o' G k c I)].
  - pose proof (get_lt _ _ _ G) as L2. rewrite app_length in L2. simpl in L2.
    assert (l = length h) by lia. subst l. rewrite get_app_new in G. inversion G; subst o'.
    apply child_ok_mono with (n := length h); [lia | exact (K k c I)].
Qed.

Lemma imm_opaque_app_one h o :
  imm_opaque h ->
  (forall cls, o_kind o = KInst cls true -> forall k c, In (k, c) (o_kids o) -> exists v, c = CAtom v) ->
  imm_opaque (h ++ [o]).
Proof.
  intros O K l o' cls G Kd k c I.
  destruct (Nat.lt_ge_cases l (length h)) as [L|L].
  - rewrite get_app_old in G by exact L. exact (O l o' cls G Kd k c I).
  - pose proof (get_lt _ _ _ G) as L2. rewrite app_length in L2. simpl in L2.
    assert (l = length h) by lia. subst l. rewrite get_app_new in G. inversion G; subst o'.
    exact (K cls Kd k c I).
Qed.

(* ------------------------------------------------------------------ reachability *)

Inductive reach (h : heap) : child -> loc -> Prop :=
| reach_here l : reach h (CRef l) l
| reach_kid l o k c m : get h l = Some o -> In (k, c) (o_kids o) -> reach h c m -> reach h (CRef l) m.

(* no mutable object is reachable from both *)
Definition separated (h : heap) (a b : child) : Prop :=
  forall l, reach h a l -> reach h b l -> mutable_at h l = false.

Lemma separated_sym h a b : separated h a b -> separated h b a.
Proof. intros S l Ra Rb. exact (S l Rb Ra). Qed.

Lemma reach_atom h v l : ~ reach h (CAtom v) l.
Proof. intro R. inversion R. Qed.

Lemma reach_trans h c r m : reach h c r -> reach h (CRef r) m -> reach h c m.
Proof.
  intros R1 R2. induction R1 as [l | l o k c r G I R IH].
  - exact R2.
  - eapply reach_kid; [exact G | exact I | exact (IH R2)].
Qed.

Lemma reach_step h c r o k r' :
  reach h c r -> get h r = Some o -> In (k, CRef r') (o_kids o) -> reach h c r'.
Proof.
  intros R G I. apply reach_trans with (r := r); [exact R |].
  eapply reach_kid; [exact G | exact I | apply reach_here].
Qed.

Lemma reach_lt h c l : closed h -> child_ok (length h) c -> reach h c l -> l < length h.
Proof.
  intros C K R. induction R as [l | l o k c m G I R IH].
  - exact K.
  - apply IH. exact (C l o G k c I).
Qed.

Lemma reach_app h e c l : closed h -> child_ok (length h) c -> reach (h ++ e) c l -> reach h c l.
Proof.
  intros C K R. induction R as [l | l o k c m G I R IH].
  - apply reach_here.
  - simpl in K. rewrite get_app_old in G by exact K.
    eapply reach_kid; [exact G | exact I | apply IH; exact (C l o G k c I)].
Qed.

Lemma reach_app_inv h e c l : reach h c l -> reach (h ++ e) c l.
Proof.
  intro R. induction R as [l | l o k c m G I R IH].
  - apply reach_here.
  - eapply reach_kid; [| exact I | exact IH].
    rewrite get_app_old; [exact G | exact (get_lt _ _ _ G)].
Qed.

Lemma mutable_at_app h e l : l < length h -> mutable_at (h ++ e) l = mutable_at h l.
Proof. intro L. unfold mutable_at. rewrite get_app_old by exact L. reflexivity. Qed.

(* ------------------------------------------------------------------ abs under heap extension *)

Lemma abs_app f : forall h e c, closed h -> child_ok (length h) c -> abs f (h ++ e) c = abs f h c.
Proof.
  induction f as [|f IH]; intros h e c C K; destruct c as [v|l]; try reflexivity.
  simpl in K. cbn [abs]. rewrite get_app_old by exact K.
  destruct (get h l) as [o|] eqn:G; [| reflexivity].
  f_equal. apply map_ext_in. intros [k c] I. cbn [fst snd]. f_equal.
  apply IH; [exact C | exact (C l o G k c I)].
Qed.

(* ------------------------------------------------------------------ Sep: nothing old and mutable is reachable *)

Definition Sep (n : nat) (h : heap) (c : child) : Prop :=
  forall l, reach h c l -> l < n -> mutable_at h l = false.

Lemma Sep_atom n h v : Sep n h (CAtom v).
Proof. intros l R. exfalso. exact (reach_atom _ _ _ R). Qed.

Lemma Sep_app n h e c : closed h -> child_ok (length h) c -> Sep n h c -> Sep n (h ++ e) c.
Proof.
  intros C K S l R L. pose proof (reach_app _ _ _ _ C K R) as R'.
  rewrite mutable_at_app by exact (reach_lt _ _ _ C K R'). exact (S l R' L).
Qed.

Lemma Sep_kid n h l o k c : Sep n h (CRef l) -> get h l = Some o -> In (k, c) (o_kids o) -> Sep n h c.
Proof. intros S G I m R L. apply S; [| exact L]. eapply reach_kid; [exact G | exact I | exact R]. Qed.

Lemma Sep_new n h kd kids :
  closed h -> n <= length h ->
  (forall k c, In (k, c) kids -> child_ok (length h) c /\ Sep n h c) ->
  Sep n (h ++ [{| o_kind := kd; o_kids := kids |}]) (CRef (length h)).
Proof.
  intros C N K l R L. inversion R as [l0 | l0 o k c m G I R']; subst.
  - lia.
  - rewrite get_app_new in G. inversion G; subst o. cbn [o_kids] in I.
    destruct (K k c I) as [Kc Sc]. exact (Sep_app n h _ c C Kc Sc l R' L).
Qed.

Lemma Sep_imm n h l o cls :
  imm_opaque h -> get h l = Some o -> o_kind o = KInst cls true -> Sep n h (CRef l).
Proof.
  intros O G Kd m R _. inversion R as [l0 | l0 o' k c m' G' I R']; subst.
  - unfold mutable_at. rewrite G, Kd. reflexivity.
  - rewrite G in G'. inversion G'; subst o'.
    destruct (O l o cls G Kd k c I) as [v E]. subst c. exfalso. exact (reach_atom _ _ _ R').
Qed.

(* ------------------------------------------------------------------ the specification of one copy step *)

Definition Step (n : nat) (h : heap) (c : child) (h' : heap) (c' : child) : Prop :=
  (exists e, h' = h ++ e) /\ closed h' /\ imm_opaque h' /\ child_ok (length h') c' /\
  (forall f, abs f h' c' = abs f h c) /\ Sep n h' c' /\ (is_atom c = true -> c' = c).

Definition good_rec (n : nat) (rec : heap -> child -> option (heap * child)) : Prop :=
  forall h c h' c', closed h -> imm_opaque h -> child_ok (length h) c -> n <= length h ->
                    rec h c = Some (h', c') -> Step n h c h' c'.

Lemma Step_refl n h c :
  closed h -> imm_opaque h -> child_ok (length h) c -> Sep n h c -> Step n h c h c.
Proof.
  intros C O K S. repeat split; try assumption.
  exists []. symmetry. apply app_nil_r.
Qed.

Lemma kind_isinstance_safe k t :
  kind_isinstance k t = true -> ty_safe t = true -> exists cls, k = KInst cls true.
Proof.
  destruct k as [| | | | | |cls imm| | |]; destruct t; simpl; intros H1 H2;
    try discriminate H1; try discriminate H2.
  all: destruct imm; [exists cls; reflexivity | discriminate H1].
Qed.

Lemma isinstance_safe_Sep n h c tys :
  imm_opaque h -> forallb ty_safe tys = true -> child_isinstance h c tys = true -> Sep n h c.
Proof.
  intros O F H. destruct c as [v|l]; [apply Sep_atom |].
  simpl in H. destruct (get h l) as [o|] eqn:G; [| discriminate].
  apply existsb_exists in H. destruct H as [t [It Kt]].
  rewrite forallb_forall in F. specialize (F t It).
  destruct (kind_isinstance_safe _ _ Kt F) as [cls E].
  exact (Sep_imm n h l o cls O G E).
Qed.

Lemma by_policy_good n rec p :
  good_rec n rec -> item_safe p = true -> good_rec n (by_policy rec p).
Proof.
  intros GR S h c h' c' C O K N E. destruct p as [|tys| |]; simpl in S, E; try discriminate.
  - exact (GR h c h' c' C O K N E).
  - destruct (child_isinstance h c tys) eqn:H.
    + inversion E; subst. apply Step_refl; try assumption.
      exact (isinstance_safe_Sep n h' c' tys O S H).
    + exact (GR h c h' c' C O K N E).
Qed.

Lemma abs_new f h kd kids :
  closed h -> (forall k c, In (k, c) kids -> child_ok (length h) c) ->
  abs (S f) (h ++ [{| o_kind := kd; o_kids := kids |}]) (CRef (length h)) =
  build kd (map (fun p => (fst p, abs f h (snd p))) kids).
Proof.
  intros C K. cbn [abs]. rewrite get_app_new. cbn [o_kind o_kids]. f_equal.
  apply map_ext_in. intros [k c] I. cbn [fst snd]. f_equal. apply abs_app; [exact C | exact (K k c I)].
Qed.

Lemma rewrap_good n h c h2 c2 :
  closed h -> imm_opaque h -> child_ok (length h) c -> n <= length h -> Sep n h c ->
  rewrap h c = (h2, c2) -> Step n h c h2 c2.
Proof.
  intros C O K N S E. unfold rewrap in E.
  destruct c as [v|w]; [inversion E; subst; apply Step_refl; assumption |].
  destruct (get h w) as [o|] eqn:G; [| inversion E; subst; apply Step_refl; assumption].
  destruct (is_wrapper (o_kind o)) eqn:W; [| inversion E; subst; apply Step_refl; assumption].
  unfold alloc in E. inversion E; subst h2 c2. clear E.
  assert (Ko : forall k c, In (k, c) (o_kids o) -> child_ok (length h) c) by (intros k c I; exact (C w o G k c I)).
  destruct o as [kd kids]. cbn [o_kind o_kids] in *.
  repeat split.
  - exists [{| o_kind := kd; o_kids := kids |}]. reflexivity.
  - apply closed_app_one; assumption.
  - apply imm_opaque_app_one; [exact O |]. cbn [o_kind]. intros cls E. rewrite E in W. discriminate W.
  - simpl. rewrite app_length. simpl. lia.
  - intros [|f]; [reflexivity |]. rewrite abs_new by assumption. cbn [abs]. rewrite G. reflexivity.
  - apply Sep_new; [exact C | exact N |]. intros k c I. split; [exact (Ko k c I) |].
    exact (Sep_kid n h w _ k c S G I).
  - intro A. discriminate A.
Qed.

Lemma Step_trans n h c h1 c1 h2 c2 :
  closed h -> child_ok (length h) c ->
  Step n h c h1 c1 -> Step n h1 c1 h2 c2 -> Step n h c h2 c2.
Proof.
  intros C K [[e1 E1] [C1 [O1 [K1 [A1 [S1 T1]]]]]] [[e2 E2] [C2 [O2 [K2 [A2 [S2 T2]]]]]].
  repeat split; try assumption.
  - exists (e1 ++ e2). subst. rewrite app_assoc. reflexivity.
  - intro f. rewrite A2. apply A1.
  - intro A. rewrite (T1 A) in *. exact (T2 A).
Qed.

Lemma attr_step_good pol n rec :
  good_rec n rec -> item_safe (cp_attr pol) = true -> good_rec n (attr_step pol rec).
Proof.
  intros GR S h c h' c' C O K N E. unfold attr_step in E.
  destruct (by_policy rec (cp_attr pol) h c) as [[h1 c1]|] eqn:B; [| discriminate].
  pose proof (by_policy_good n rec _ GR S h c h1 c1 C O K N B) as St.
  destruct (cp_attr_via_setattr pol).
  - inversion E as [E']. clear E.
    destruct St as [[e1 E1] [C1 [O1 [K1 [A1 [S1 T1]]]]]].
    assert (N1 : n <= length h1) by (subst h1; rewrite app_length; lia).
    pose proof (rewrap_good n h1 c1 h' c' C1 O1 K1 N1 S1 E') as St2.
    apply Step_trans with (h1 := h1) (c1 := c1); try assumption.
    repeat split; try assumption. exists e1. exact E1.
  - inversion E; subst. exact St.
Qed.

(* ------------------------------------------------------------------ children one after the other *)

Definition kid_rel (n : nat) (h h' : heap) (p q : pystr * child) : Prop :=
  fst p = fst q /\ child_ok (length h') (snd q) /\ (forall f, abs f h' (snd q) = abs f h (snd p)) /\
  Sep n h' (snd q) /\ (is_atom (snd p) = true -> snd q = snd p).

Lemma Forall2_impl_in {A B} (R R' : A -> B -> Prop) l l' :
  Forall2 R l l' -> (forall p q, In p l -> R p q -> R' p q) -> Forall2 R' l l'.
Proof.
  induction 1 as [|p q l l' Rpq Rs IH]; intro H; constructor.
  - apply H; [left; reflexivity | exact Rpq].
  - apply IH. intros p' q' I. apply H. right. exact I.
Qed.

Lemma map_kids_good n f :
  good_rec n f ->
  forall kids h h' kids',
    closed h -> imm_opaque h -> (forall k c, In (k, c) kids -> child_ok (length h) c) -> n <= length h ->
    map_kids f h kids = Some (h', kids') ->
    (exists e, h' = h ++ e) /\ closed h' /\ imm_opaque h' /\ Forall2 (kid_rel n h h') kids kids'.
Proof.
  intro GR. induction kids as [|[k c] t IH]; intros h h' kids' C O K N E.
  - simpl in E. inversion E; subst. repeat split; try assumption; [exists []; symmetry; apply app_nil_r | constructor].
  - cbn [map_kids] in E.
    destruct (f h c) as [[h1 c1]|] eqn:F; [| discriminate].
    destruct (map_kids f h1 t) as [[h2 t2]|] eqn:M; [| discriminate].
    inversion E; subst h' kids'. clear E.
    assert (Kc : child_ok (length h) c) by (apply (K k); left; reflexivity).
    destruct (GR h c h1 c1 C O Kc N F) as [[e1 E1] [C1 [O1 [K1 [A1 [S1 T1]]]]]].
    assert (L1 : length h <= length h1) by (subst h1; rewrite app_length; lia).
    assert (Kt : forall k' c', In (k', c') t -> child_ok (length h1) c').
    { intros k' c' I. apply child_ok_mono with (n := length h); [exact L1 |]. apply (K k'). right. exact I. }
    destruct (IH h1 h2 t2 C1 O1 Kt ltac:(lia) M) as [[e2 E2] [C2 [O2 F2]]].
    repeat split; try assumption.
    + exists (e1 ++ e2). subst. rewrite app_assoc. reflexivity.
    + constructor.
      * unfold kid_rel. cbn [fst snd]. repeat split.
        -- subst h2. apply child_ok_mono with (n := length h1); [rewrite app_length; lia | exact K1].
        -- intro fu. subst h2. rewrite abs_app by assumption. apply A1.
        -- subst h2. apply Sep_app; assumption.
        -- exact T1.
      * apply (Forall2_impl_in _ _ _ _ F2). intros [k' c'] q I R.
        destruct R as [R1 [R2 [R3 [R4 R5]]]]. unfold kid_rel. repeat split; try assumption.
        intro fu. rewrite R3. cbn [snd]. rewrite E1. apply abs_app; [exact C |].
        apply (K k'). right. exact I.
Qed.

Lemma kid_rel_map f h h' n kids kids' :
  Forall2 (kid_rel n h h') kids kids' ->
  map (fun p => (fst p, abs f h' (snd p))) kids' = map (fun p => (fst p, abs f h (snd p))) kids.
Proof.
  induction 1 as [|p q l l' R Rs IH]; [reflexivity |].
  simpl. destruct R as [R1 [_ [R3 _]]]. rewrite R1, R3, IH. reflexivity.
Qed.

Lemma kid_rel_in n h h' kids kids' :
  Forall2 (kid_rel n h h') kids kids' ->
  forall k c, In (k, c) kids' -> child_ok (length h') c /\ Sep n h' c.
Proof.
  induction 1 as [|p q l l' R Rs IH]; intros k c I; [destruct I |].
  destruct I as [I|I].
  - subst q. destruct R as [_ [R2 [_ [R4 _]]]]. split; assumption.
  - exact (IH k c I).
Qed.

Lemma kid_rel_atoms n h h' kids kids' :
  Forall2 (kid_rel n h h') kids kids' ->
  (forall k c, In (k, c) kids -> exists v, c = CAtom v) ->
  forall k c, In (k, c) kids' -> exists v, c = CAtom v.
Proof.
  induction 1 as [|p q l l' R Rs IH]; intros A k c I; [destruct I |].
  destruct I as [I|I].
  - subst q. destruct R as [_ [_ [_ [_ R5]]]]. destruct p as [kp cp].
    destruct (A kp cp (or_introl eq_refl)) as [v E]. cbn [snd] in *. subst cp.
    rewrite (R5 eq_refl). exists v. reflexivity.
  - apply (IH (fun k' c' I' => A k' c' (or_intror I')) k c I).
Qed.

(* a freshly allocated object whose children were copied one after the other *)
Lemma fresh_obj_good n h l o kd kids1 h1 :
  closed h -> imm_opaque h -> get h l = Some o -> n <= length h ->
  (exists e, h1 = h ++ e) -> closed h1 -> imm_opaque h1 ->
  Forall2 (kid_rel n h h1) (o_kids o) kids1 ->
  (forall f, build kd (map (fun p => (fst p, abs f h (snd p))) (o_kids o)) =
             build (o_kind o) (map (fun p => (fst p, abs f h (snd p))) (o_kids o))) ->
  (forall cls, kd = KInst cls true -> o_kind o = KInst cls true) ->
  Step n h (CRef l) (h1 ++ [{| o_kind := kd; o_kids := kids1 |}]) (CRef (length h1)).
Proof.
  intros C O G N [e E] C1 O1 F B KI.
  assert (K1 : forall k c, In (k, c) kids1 -> child_ok (length h1) c).
  { intros k c I. exact (proj1 (kid_rel_in _ _ _ _ _ F k c I)). }
  repeat split.
  - exists (e ++ [{| o_kind := kd; o_kids := kids1 |}]). subst h1. rewrite app_assoc. reflexivity.
  - apply closed_app_one; assumption.
  - apply imm_opaque_app_one; [exact O1 |]. cbn [o_kind o_kids]. intros cls Ek k c I.
    apply (kid_rel_atoms _ _ _ _ _ F) with (k := k); [| exact I].
    intros k' c' I'. exact (O l o cls G (KI cls Ek) k' c' I').
  - simpl. rewrite app_length. simpl. lia.
  - intros [|f]; [reflexivity |]. rewrite abs_new by assumption.
    rewrite (kid_rel_map f h h1 n _ _ F). cbn [abs]. rewrite G. apply B.
  - apply Sep_new; [exact C1 | subst h1; rewrite app_length; lia |].
    intros k c I. exact (kid_rel_in _ _ _ _ _ F k c I).
  - intro A. discriminate A.
Qed.

Lemma same_refs_in n h h' a b :
  same_refs a b = true -> Forall2 (kid_rel n h h') a b ->
  forall k x, In (k, CRef x) a -> Sep n h' (CRef x).
Proof.
  revert b. induction a as [|[ka ca] a IH]; intros b S F k x I; [destruct I |].
  destruct b as [|[kb cb] b]; [destruct ca; discriminate S |].
  inversion F as [|p q l l' R Rs]; subst.
  destruct ca as [va|la]; destruct cb as [vb|lb]; simpl in S; try discriminate.
  - destruct I as [I|I]; [inversion I |]. exact (IH b S Rs k x I).
  - apply andb_true_iff in S. destruct S as [S1 S2]. apply Nat.eqb_eq in S1. subst lb.
    destruct I as [I|I].
    + inversion I; subst. destruct R as [_ [_ [_ [R4 _]]]]. exact R4.
    + exact (IH b S2 Rs k x I).
Qed.

(* ------------------------------------------------------------------ deepcopy under a safe policy *)

Lemma dc_good pol : policy_safe pol = true -> forall fuel n, good_rec n (dc pol fuel).
Proof.
  intro PS. unfold policy_safe in PS.
  apply andb_true_iff in PS. destruct PS as [PS P4].
  apply andb_true_iff in PS. destruct PS as [PS P3].
  apply andb_true_iff in PS. destruct PS as [P1 P2].
  induction fuel as [|f IH]; intros n h c h' c' C O K N E.
  - destruct c as [v|l]; simpl in E; [| discriminate].
    inversion E; subst. apply Step_refl; try assumption. apply Sep_atom.
  - destruct c as [v|l].
    + simpl in E. inversion E; subst. apply Step_refl; try assumption. apply Sep_atom.
    + cbn [dc] in E. destruct (get h l) as [o|] eqn:G; [| discriminate].
      assert (Ko : forall k c, In (k, c) (o_kids o) -> child_ok (length h) c) by (intros k c I; exact (C l o G k c I)).
      (* the generic case: children copied by [g], a new object of the same kind *)
      assert (Fresh : forall g, good_rec n g ->
                fresh_obj (o_kind o) (map_kids g h (o_kids o)) = Some (h', c') -> Step n h (CRef l) h' c').
      { intros g GG E'. unfold fresh_obj in E'.
        destruct (map_kids g h (o_kids o)) as [[h1 kids1]|] eqn:M; [| discriminate].
        unfold alloc in E'. inversion E'; subst h' c'.
        destruct (map_kids_good n g GG (o_kids o) h h1 kids1 C O Ko N M) as [X1 [C1 [O1 F1]]].
        apply fresh_obj_good with (o := o); try assumption; [reflexivity | intros cls Ek; exact Ek]. }
      revert E Fresh. destruct (o_kind o) eqn:Kd; intros E Fresh.
      * exact (Fresh (dc pol f) (IH n) E).
      * exact (Fresh (dc pol f) (IH n) E).
      * exact (Fresh (dc pol f) (IH n) E).
      * exact (Fresh (dc pol f) (IH n) E).
      * (* tuple *)
        destruct (map_kids (dc pol f) h (o_kids o)) as [[h1 kids1]|] eqn:M; [| discriminate].
        destruct (map_kids_good n (dc pol f) (IH n) (o_kids o) h h1 kids1 C O Ko N M) as [[e1 E1] [C1 [O1 F1]]].
        destruct (same_refs (o_kids o) kids1) eqn:SR.
        -- inversion E; subst h' c'. clear E.
           assert (L1 : length h <= length h1) by (subst h1; rewrite app_length; lia).
           repeat split; try assumption.
           ++ exists e1. exact E1.
           ++ simpl. simpl in K. lia.
           ++ intro fu. subst h1. apply abs_app; assumption.
           ++ intros m R L. inversion R as [l0 | l0 o' k c m' G' I R']; subst l0.
              ** subst m. unfold mutable_at. rewrite E1. rewrite get_app_old by exact K. rewrite G, Kd. reflexivity.
              ** subst m'. rewrite E1 in G'. rewrite get_app_old in G' by exact K. rewrite G in G'. inversion G'; subst o'.
                 destruct c as [v|x]; [exfalso; exact (reach_atom _ _ _ R') |].
                 exact (same_refs_in n h h1 _ _ SR F1 k x I m R' L).
        -- unfold alloc in E. inversion E; subst h' c'.
           apply fresh_obj_good with (o := o); try assumption.
           ++ exists e1. exact E1.
           ++ intro fu. rewrite Kd. reflexivity.
           ++ intros cls Ek. discriminate Ek.
      * exact (Fresh (dc pol f) (IH n) E).
      * (* Structure instance *)
        destruct (imm && cp_self_if_immutable pol) eqn:SI.
        -- inversion E; subst h' c'. apply andb_true_iff in SI. destruct SI as [SI _]. subst imm.
           apply Step_refl; try assumption. exact (Sep_imm n h l o cls O G Kd).
        -- exact (Fresh _ (attr_step_good pol n _ (IH n) P1) E).
      * (* _ListStruct *)
        unfold fresh_obj in E.
        destruct (map_kids (by_policy (dc pol f) (cp_wlist pol)) h (o_kids o)) as [[h1 kids1]|] eqn:M; [| discriminate].
        unfold alloc in E. inversion E; subst h' c'.
        destruct (map_kids_good n _ (by_policy_good n _ _ (IH n) P2) (o_kids o) h h1 kids1 C O Ko N M) as [X1 [C1 [O1 F1]]].
        apply fresh_obj_good with (o := o); try assumption.
        ++ intro fu. rewrite Kd. reflexivity.
        ++ intros cls' Ek. discriminate Ek.
      * unfold fresh_obj in E.
        destruct (map_kids (by_policy (dc pol f) (cp_wdeque pol)) h (o_kids o)) as [[h1 kids1]|] eqn:M; [| discriminate].
        unfold alloc in E. inversion E; subst h' c'.
        destruct (map_kids_good n _ (by_policy_good n _ _ (IH n) P3) (o_kids o) h h1 kids1 C O Ko N M) as [X1 [C1 [O1 F1]]].
        apply fresh_obj_good with (o := o); try assumption.
        ++ intro fu. rewrite Kd. reflexivity.
        ++ intros cls' Ek. discriminate Ek.
      * unfold fresh_obj in E.
        destruct (map_kids (by_policy (dc pol f) (cp_wdict pol)) h (o_kids o)) as [[h1 kids1]|] eqn:M; [| discriminate].
        unfold alloc in E. inversion E; subst h' c'.
        destruct (map_kids_good n _ (by_policy_good n _ _ (IH n) P4) (o_kids o) h h1 kids1 C O Ko N M) as [X1 [C1 [O1 F1]]].
        apply fresh_obj_good with (o := o); try assumption.
        ++ intro fu. rewrite Kd. reflexivity.
        ++ intros cls' Ek. discriminate Ek.
Qed.

(* The copy of [x] under a safe policy: the heap is only extended, original and copy denote the value
   the original denoted before, and no mutable object is reachable from both. *)
Theorem dc_separated pol fuel h x h' y :
  policy_safe pol = true -> closedb h = true -> imm_opaqueb h = true -> child_okb (length h) x = true ->
  dc pol fuel h x = Some (h', y) ->
  (exists e, h' = h ++ e) /\ closed h' /\ child_ok (length h') y /\
  (forall f, abs f h' y = abs f h x) /\ (forall f, abs f h' x = abs f h x) /\
  separated h' x y.
Proof.
  intros PS Cb Ob Kb E.
  pose proof (closedb_closed _ Cb) as C. pose proof (imm_opaqueb_opaque _ Ob) as O.
  pose proof (child_okb_ok _ _ Kb) as K.
  destruct (dc_good pol PS fuel (length h) h x h' y C O K (le_n _) E) as [[e E1] [C1 [O1 [K1 [A1 [S1 _]]]]]].
  repeat split; try assumption.
  - exists e. exact E1.
  - intro f. subst h'. apply abs_app; assumption.
  - intros l Rx Ry. subst h'. pose proof (reach_app _ _ _ _ C K Rx) as Rx'.
    exact (S1 l Ry (reach_lt _ _ _ C K Rx')).
Qed.

(* ------------------------------------------------------------------ client histories and the frame *)

(* what a client holding [root] and the locations [held] (local variables, objects it built) can get at *)
Definition world (h : heap) (root : child) (held : list loc) (l : loc) : Prop :=
  reach h root l \/ exists r, In r held /\ reach h (CRef r) l.

Inductive side := SideA | SideB.

Inductive cop :=
| CAlloc (o : obj)                               (* build a new object from what one can get at *)
| CSet (l : loc) (kids : list (pystr * child))   (* change a mutable object one can get at, in place *)
| CHold (l : loc).                               (* keep a reference in a local variable *)

Definition cop_pre (h : heap) (root : child) (held : list loc) (p : cop) : Prop :=
  match p with
  | CAlloc o => forall k m, In (k, CRef m) (o_kids o) -> world h root held m
  | CSet l kids => world h root held l /\ mutable_at h l = true /\
                   forall k m, In (k, CRef m) kids -> world h root held m
  | CHold l => world h root held l
  end.

Definition cop_heap (h : heap) (p : cop) : heap :=
  match p with
  | CAlloc o => apply_op h (OAlloc o)
  | CSet l kids => apply_op h (OSet l kids)
  | CHold _ => h
  end.

Definition cop_held (h : heap) (held : list loc) (p : cop) : list loc :=
  match p with
  | CAlloc _ => length h :: held
  | CSet _ _ => held
  | CHold l => l :: held
  end.

(* an interleaved history of the two clients: every operation only uses what its side can get at *)
Fixpoint valid2 (h : heap) (a b : child) (ha hb : list loc) (ops : list (side * cop)) : Prop :=
  match ops with
  | [] => True
  | (SideA, p) :: t => cop_pre h a ha p /\ valid2 (cop_heap h p) a b (cop_held h ha p) hb t
  | (SideB, p) :: t => cop_pre h b hb p /\ valid2 (cop_heap h p) a b ha (cop_held h hb p) t
  end.

(* every operation leaves the value of the OTHER side's instance as it was *)
Fixpoint frames (h : heap) (a b : child) (ops : list (side * cop)) : Prop :=
  match ops with
  | [] => True
  | (s, p) :: t =>
      (forall f, abs f (cop_heap h p) (match s with SideA => b | SideB => a end) =
                 abs f h (match s with SideA => b | SideB => a end)) /\
      frames (cop_heap h p) a b t
  end.

Definition run2 (h : heap) (ops : list (side * cop)) : heap := fold_left (fun h sp => cop_heap h (snd sp)) ops h.

Record Inv2 (h : heap) (a b : child) (ha hb : list loc) : Prop := {
  inv_closed : closed h;
  inv_a : child_ok (length h) a;
  inv_b : child_ok (length h) b;
  inv_ha : forall r, In r ha -> r < length h;
  inv_hb : forall r, In r hb -> r < length h;
  inv_sep : forall l, world h a ha l -> world h b hb l -> mutable_at h l = false }.

Lemma world_lt h root held l :
  closed h -> child_ok (length h) root -> (forall r, In r held -> r < length h) ->
  world h root held l -> l < length h.
Proof.
  intros C K H [R | [r [I R]]].
  - exact (reach_lt _ _ _ C K R).
  - apply (reach_lt h (CRef r) l C); [exact (H r I) | exact R].
Qed.

Lemma world_kid h root held r o k r' :
  world h root held r -> get h r = Some o -> In (k, CRef r') (o_kids o) -> world h root held r'.
Proof.
  intros [R | [s [I R]]] G J.
  - left. exact (reach_step _ _ _ _ _ _ R G J).
  - right. exists s. split; [exact I | exact (reach_step _ _ _ _ _ _ R G J)].
Qed.

Lemma get_upd_same {A} (l : list A) n x : n < length l -> nth_error (upd l n x) n = Some x.
Proof.
  revert n. induction l as [|y t IH]; intros n L; simpl in L; [lia |].
  destruct n as [|n]; simpl; [reflexivity | apply IH; lia].
Qed.

Lemma get_upd_other {A} (l : list A) n m x : n <> m -> nth_error (upd l n x) m = nth_error l m.
Proof.
  revert n m. induction l as [|y t IH]; intros n m N; [destruct n; reflexivity |].
  destruct n as [|n]; destruct m as [|m]; simpl; try reflexivity; [lia | apply IH; lia].
Qed.

Lemma upd_length {A} (l : list A) n x : length (upd l n x) = length l.
Proof.
  revert n. induction l as [|y t IH]; intros n; [destruct n; reflexivity |].
  destruct n as [|n]; simpl; [reflexivity | rewrite IH; reflexivity].
Qed.

(* reachability in the changed heap, from a start the actor could get at, stays inside what the actor
   could get at before *)
Lemma reach_after_set h root held l o kids c m :
  get h l = Some o ->
  (forall k x, In (k, CRef x) kids -> world h root held x) ->
  reach (upd h l {| o_kind := o_kind o; o_kids := kids |}) c m ->
  (forall r, c = CRef r -> world h root held r) ->
  world h root held m.
Proof.
  intros G Kk R. induction R as [r | r o' k c m G' I R IH]; intro W.
  - apply W. reflexivity.
  - apply IH. intros r' E. subst c. specialize (W r eq_refl).
    destruct (Nat.eq_dec l r) as [E|E].
    + subst r. unfold get in G'. rewrite get_upd_same in G' by exact (get_lt _ _ _ G).
      inversion G'; subst o'. cbn [o_kids] in I. exact (Kk k r' I).
    + unfold get in G'. rewrite get_upd_other in G' by exact E.
      exact (world_kid _ _ _ _ _ _ _ W G' I).
Qed.

(* ... and from a start of the OTHER side nothing changes at all *)
Lemma reach_other_set h root held l o2 c m :
  ~ world h root held l ->
  reach (upd h l o2) c m ->
  (forall r, c = CRef r -> world h root held r) ->
  reach h c m.
Proof.
  intros NW R. induction R as [r | r o' k c m G' I R IH]; intro W.
  - apply reach_here.
  - specialize (W r eq_refl).
    assert (E : l <> r) by (intro E; subst r; exact (NW W)).
    unfold get in G'. rewrite get_upd_other in G' by exact E.
    eapply reach_kid; [exact G' | exact I |]. apply IH. intros r' E'. subst c.
    exact (world_kid _ _ _ _ _ _ _ W G' I).
Qed.

Lemma reach_other_set_inv h root l o2 c m :
  (forall x, reach h root x -> x <> l) -> reach h c m -> (forall r, c = CRef r -> reach h root r) ->
  reach (upd h l o2) c m.
Proof.
  intros NW R. induction R as [r | r o' k c m G' I R IH]; intro W.
  - apply reach_here.
  - specialize (W r eq_refl).
    assert (E : l <> r) by (intro E; subst r; exact (NW _ W eq_refl)).
    eapply reach_kid; [| exact I |].
    + unfold get. rewrite get_upd_other by exact E. exact G'.
    + apply IH. intros r' E'. subst c. exact (reach_step _ _ _ _ _ _ W G' I).
Qed.

(* the value read from [c] depends only on the objects reachable from [c] *)
Lemma abs_agree f : forall h h' c,
    (forall l, reach h c l -> get h' l = get h l) -> abs f h' c = abs f h c.
Proof.
  induction f as [|f IH]; intros h h' c A; destruct c as [v|l]; try reflexivity.
  cbn [abs]. rewrite (A l (reach_here _ _)).
  destruct (get h l) as [o|] eqn:G; [| reflexivity].
  f_equal. apply map_ext_in. intros [k c] I. cbn [fst snd]. f_equal.
  apply IH. intros m R. apply A. eapply reach_kid; [exact G | exact I | exact R].
Qed.

Lemma mutable_at_upd h l o kids m :
  get h l = Some o ->
  mutable_at (upd h l {| o_kind := o_kind o; o_kids := kids |}) m = mutable_at h m.
Proof.
  intro G. unfold mutable_at, get. destruct (Nat.eq_dec l m) as [E|E].
  - subst m. rewrite get_upd_same by exact (get_lt _ _ _ G). unfold get in G. rewrite G. reflexivity.
  - rewrite get_upd_other by exact E. reflexivity.
Qed.

(* one operation of the actor (root1, held1) against the other side (root2, held2) *)
Lemma step_frame h r1 h1 r2 h2 p :
  closed h -> child_ok (length h) r1 -> child_ok (length h) r2 ->
  (forall r, In r h1 -> r < length h) -> (forall r, In r h2 -> r < length h) ->
  (forall l, world h r1 h1 l -> world h r2 h2 l -> mutable_at h l = false) ->
  cop_pre h r1 h1 p ->
  let h' := cop_heap h p in
  let h1' := cop_held h h1 p in
  closed h' /\ length h <= length h' /\
  (forall r, In r h1' -> r < length h') /\
  (forall l, world h' r1 h1' l -> world h' r2 h2 l -> mutable_at h' l = false) /\
  (forall f, abs f h' r2 = abs f h r2).
Proof.
  intros C K1 K2 H1 H2 S P. destruct p as [o | l kids | l]; cbn [cop_heap cop_held apply_op] in *.
  - (* allocation *)
    simpl in P.
    assert (Ko : forall k c, In (k, c) (o_kids o) -> child_ok (length h) c).
    { intros k c I. destruct c as [v|m]; [exact Logic.I |]. simpl.
      exact (world_lt h r1 h1 m C K1 H1 (P k m I)). }
    assert (Wold : forall root held x, child_ok (length h) root -> (forall r, In r held -> r < length h) ->
                                       world (h ++ [o]) root held x -> world h root held x).
    { intros root held x Kr Hh [R | [r [I R]]].
      - left. exact (reach_app _ _ _ _ C Kr R).
      - right. exists r. split; [exact I |]. apply (reach_app h [o] (CRef r) x C); [exact (Hh r I) | exact R]. }
    repeat split.
    + apply closed_app_one; assumption.
    + rewrite app_length. simpl. lia.
    + intros r [E|I]; rewrite app_length; simpl; [subst r; lia | specialize (H1 r I); lia].
    + intros x W1 W2. pose proof (Wold r2 h2 x K2 H2 W2) as W2'.
      pose proof (world_lt h r2 h2 x C K2 H2 W2') as Lx.
      rewrite mutable_at_app by exact Lx. apply S; [| exact W2'].
      destruct W1 as [R | [r [[E|I] R]]].
      * left. exact (reach_app _ _ _ _ C K1 R).
      * subst r. inversion R as [l0 | l0 o' k c m G I R']; subst.
        -- lia.
        -- rewrite get_app_new in G. inversion G; subst o'.
           destruct c as [v|y]; [exfalso; exact (reach_atom _ _ _ R') |].
           pose proof (P k y I) as Wy.
           pose proof (reach_app h [o] (CRef y) x C (world_lt h r1 h1 y C K1 H1 Wy) R') as Ry.
           destruct Wy as [Ry0 | [s [Is Rs]]].
           ++ left. exact (reach_trans _ _ _ _ Ry0 Ry).
           ++ right. exists s. split; [exact Is | exact (reach_trans _ _ _ _ Rs Ry)].
      * right. exists r. split; [exact I |]. apply (reach_app h [o] (CRef r) x C); [exact (H1 r I) | exact R].
    + intro f. apply abs_app; assumption.
  - (* in-place change *)
    destruct P as [Wl [Ml Pk]].
    destruct (get h l) as [o|] eqn:G; [| unfold mutable_at in Ml; rewrite G in Ml; discriminate Ml].
    set (o2 := {| o_kind := o_kind o; o_kids := kids |}).
    assert (NW : ~ world h r2 h2 l).
    { intro W2. rewrite (S l Wl W2) in Ml. discriminate Ml. }
    assert (W1sub : forall x, world (upd h l o2) r1 h1 x -> world h r1 h1 x).
    { intros x [R | [r [I R]]].
      - apply (reach_after_set h r1 h1 l o kids r1 x G Pk R).
        intros r E. left. rewrite E. apply reach_here.
      - apply (reach_after_set h r1 h1 l o kids (CRef r) x G Pk R).
        intros r' E. inversion E; subst r'. right. exists r. split; [exact I | apply reach_here]. }
    assert (W2sub : forall x, world (upd h l o2) r2 h2 x -> world h r2 h2 x).
    { intros x [R | [r [I R]]].
      - left. apply (reach_other_set h r2 h2 l o2 r2 x NW R).
        intros r E. left. rewrite E. apply reach_here.
      - right. exists r. split; [exact I |].
        apply (reach_other_set h r2 h2 l o2 (CRef r) x NW R).
        intros r' E. inversion E; subst r'. right. exists r. split; [exact I | apply reach_here]. }
    repeat split.
    + intros m om Gm k c I. rewrite upd_length.
      destruct (Nat.eq_dec l m) as [E|E].
      * subst m. unfold get in Gm. rewrite get_upd_same in Gm by exact (get_lt _ _ _ G).
        inversion Gm; subst om. cbn [o_kids] in I. destruct c as [v|y]; [exact Logic.I |].
        simpl. exact (world_lt h r1 h1 y C K1 H1 (Pk k y I)).
      * unfold get in Gm. rewrite get_upd_other in Gm by exact E. exact (C m om Gm k c I).
    + rewrite upd_length. lia.
    + intros r I. rewrite upd_length. exact (H1 r I).
    + intros x W1 W2. unfold o2. rewrite mutable_at_upd by exact G.
      apply S; [exact (W1sub x W1) | exact (W2sub x W2)].
    + intro f. apply abs_agree. intros m R.
      assert (E : l <> m).
      { intro E. subst m. apply NW. left. exact R. }
      unfold get. rewrite get_upd_other by exact E. reflexivity.
  - (* keeping a reference *)
    simpl in P. repeat split; try assumption.
    + lia.
    + intros r [E|I]; [subst r; exact (world_lt h r1 h1 l C K1 H1 P) | exact (H1 r I)].
    + intros x W1 W2. apply S; [| exact W2].
      destruct W1 as [R | [r [[E|I] R]]].
      * left. exact R.
      * subst r. destruct P as [R0 | [s [Is Rs]]].
        -- left. exact (reach_trans _ _ _ _ R0 R).
        -- right. exists s. split; [exact Is | exact (reach_trans _ _ _ _ Rs R)].
      * right. exists r. split; [exact I | exact R].
Qed.

Lemma Inv2_step_A h a b ha hb p :
  Inv2 h a b ha hb -> cop_pre h a ha p ->
  Inv2 (cop_heap h p) a b (cop_held h ha p) hb /\ (forall f, abs f (cop_heap h p) b = abs f h b).
Proof.
  intros [C Ka Kb Ha Hb S] P.
  destruct (step_frame h a ha b hb p C Ka Kb Ha Hb S P) as [C' [L [Ha' [S' A]]]].
  split; [| exact A]. constructor; try assumption.
  - apply child_ok_mono with (n := length h); assumption.
  - apply child_ok_mono with (n := length h); assumption.
  - intros r I. specialize (Hb r I). lia.
Qed.

Lemma Inv2_step_B h a b ha hb p :
  Inv2 h a b ha hb -> cop_pre h b hb p ->
  Inv2 (cop_heap h p) a b ha (cop_held h hb p) /\ (forall f, abs f (cop_heap h p) a = abs f h a).
Proof.
  intros [C Ka Kb Ha Hb S] P.
  assert (S2 : forall l, world h b hb l -> world h a ha l -> mutable_at h l = false) by (intros l W1 W2; exact (S l W2 W1)).
  destruct (step_frame h b hb a ha p C Kb Ka Hb Ha S2 P) as [C' [L [Hb' [S' A]]]].
  split; [| exact A]. constructor; try assumption.
  - apply child_ok_mono with (n := length h); assumption.
  - apply child_ok_mono with (n := length h); assumption.
  - intros r I. specialize (Ha r I). lia.
  - intros l W1 W2. exact (S' l W2 W1).
Qed.

Lemma frame_steps_inv ops : forall h a b ha hb,
    Inv2 h a b ha hb -> valid2 h a b ha hb ops ->
    frames h a b ops /\ separated (run2 h ops) a b.
Proof.
  induction ops as [|[s p] t IH]; intros h a b ha hb I V.
  - split; [exact Logic.I |]. intros l Ra Rb. apply (inv_sep _ _ _ _ _ I); left; assumption.
  - destruct s; cbn [valid2] in V; destruct V as [P V].
    + destruct (Inv2_step_A h a b ha hb p I P) as [I' A].
      destruct (IH _ a b _ hb I' V) as [F Sp]. split; [split; [exact A | exact F] | exact Sp].
    + destruct (Inv2_step_B h a b ha hb p I P) as [I' A].
      destruct (IH _ a b ha _ I' V) as [F Sp]. split; [split; [exact A | exact F] | exact Sp].
Qed.

(* Two instances that share no mutable object stay so under EVERY interleaved history of operations
   of the two clients, and every operation leaves the value of the other side's instance unchanged. *)
Theorem frame_steps h a b ops :
  closedb h = true -> child_okb (length h) a = true -> child_okb (length h) b = true ->
  separated h a b -> valid2 h a b [] [] ops ->
  frames h a b ops /\ separated (run2 h ops) a b.
Proof.
  intros Cb Ka Kb S V. apply (frame_steps_inv ops h a b [] []); [| exact V].
  constructor.
  - exact (closedb_closed _ Cb).
  - exact (child_okb_ok _ _ Ka).
  - exact (child_okb_ok _ _ Kb).
  - intros r I. destruct I.
  - intros r I. destruct I.
  - intros l [Ra | [r [I _]]] [Rb | [r' [I' _]]]; try (destruct I); try (destruct I'). exact (S l Ra Rb).
Qed.

(* ------------------------------------------------------------------ the executable check is sound *)

Lemma reach_list_sound f : forall h c l, In l (reach_list f h c) -> reach h c l.
Proof.
  induction f as [|f IH]; intros h c l I; destruct c as [v|r]; simpl in I; try (destruct I; fail).
  - destruct I as [E|I]; [subst; apply reach_here | destruct I].
  - destruct I as [E|I]; [subst; apply reach_here |].
    destruct (get h r) as [o|] eqn:G; [| destruct I].
    apply in_flat_map in I. destruct I as [[k c] [Ik Il]].
    eapply reach_kid; [exact G | exact Ik | exact (IH h c l Il)].
Qed.

Lemma mem_loc_in l s : mem_loc l s = true -> In l s.
Proof.
  unfold mem_loc. intro H. apply existsb_exists in H. destruct H as [x [I E]].
  apply Nat.eqb_eq in E. subst x. exact I.
Qed.

(* whatever the executable check reports is a mutable object reachable from both *)
Theorem shared_mutable_sound fuel h a b l :
  In l (shared_mutable fuel h a b) -> reach h a l /\ reach h b l /\ mutable_at h l = true.
Proof.
  unfold shared_mutable. intro I. apply nodup_In in I. apply filter_In in I. destruct I as [Ia F].
  apply andb_true_iff in F. destruct F as [M Ib].
  repeat split; [exact (reach_list_sound _ _ _ _ Ia) | exact (reach_list_sound _ _ _ _ (mem_loc_in _ _ Ib)) | exact M].
Qed.

Corollary separatedb_false_not_separated fuel h a b :
  separatedb fuel h a b = false -> ~ separated h a b.
Proof.
  unfold separatedb. destruct (shared_mutable fuel h a b) as [|l t] eqn:E; [discriminate |].
  intros _ S. destruct (shared_mutable_sound fuel h a b l) as [Ra [Rb M]]; [rewrite E; left; reflexivity |].
  rewrite (S l Ra Rb) in M. discriminate M.
Qed.

(* ------------------------------------------------------------------ an unsafe policy is refuted by a witness *)

(* a kind of object that is an instance of the type and can hold (or is) a mutable object *)
Definition kind_of_ty (t : tyname) : option okind :=
  match t with
  | TTuple => Some KTuple | TFrozenset => Some KFrozen | TList => Some KList | TDict => Some KDict
  | TSet => Some KSet | TDeque => Some KDeque | TStructure => Some (KInst (s2p "Inner"%string) false)
  | TImmMixin => Some KWList
  | _ => None
  end.

(* location 2: an instance W whose attribute f holds an object of kind k (location 1) that holds a list
   (location 0) *)
Definition witness_heap (k : okind) : heap :=
  [ {| o_kind := KList; o_kids := [] |};
    {| o_kind := k; o_kids := [([], CAtom (PNum (NInt 1))); ([], CRef 0)] |};
    {| o_kind := KInst (s2p "W"%string) false; o_kids := [(s2p "f"%string, CRef 1)] |} ].

(* append 99 to that list *)
Definition witness_op : cop := CSet 0 [([], CAtom (PNum (NInt 99)))].

Lemma kind_of_ty_isinstance t k : kind_of_ty t = Some k -> kind_isinstance k t = true.
Proof. destruct t; simpl; intro H; inversion H; reflexivity. Qed.

Lemma kind_of_ty_unsafe t : ty_safe t = false -> t <> TOther -> exists k, kind_of_ty t = Some k.
Proof. destruct t; simpl; intros H N; try discriminate H; try (eexists; reflexivity). exfalso. apply N. reflexivity. Qed.

(* If Structure.__deepcopy__ re-uses the values of a type t whose instances can hold mutable objects, then
   for the witness instance the copy shares a mutable object with the original, the holder of the copy can
   change it, and that changes the value of the original. *)
Theorem unsafe_policy_witness pol t k :
  In t (unsafe_types_of (cp_attr pol)) -> kind_of_ty t = Some k ->
  exists h' y,
    dc pol 3 (witness_heap k) (CRef 2) = Some (h', y) /\
    ~ separated h' (CRef 2) y /\
    cop_pre h' y [] witness_op /\
    abs 4 (cop_heap h' witness_op) (CRef 2) <> abs 4 h' (CRef 2).
Proof.
  intros U K. destruct (cp_attr pol) as [|tys| |] eqn:P; simpl in U; try (destruct U; fail).
  apply filter_In in U. destruct U as [I _].
  assert (X : existsb (kind_isinstance k) tys = true).
  { apply existsb_exists. exists t. split; [exact I | exact (kind_of_ty_isinstance t k K)]. }
  unfold witness_heap.
  cbn [dc get nth_error o_kind o_kids andb map_kids].
  unfold attr_step. rewrite P. cbn [by_policy child_isinstance get nth_error o_kind]. rewrite X.
  assert (R1 : forall (h : heap) o1 o2, get h 1 = Some o1 -> In ([], CRef 0) (o_kids o1) ->
                                 get h 2 = Some o2 -> In (s2p "f"%string, CRef 1) (o_kids o2) -> reach h (CRef 2) 0).
  { intros h o1 o2 G1 I1 G2 I2. eapply reach_kid; [exact G2 | exact I2 |].
    eapply reach_kid; [exact G1 | exact I1 | apply reach_here]. }
  destruct t; simpl in K; inversion K; subst k; clear K;
    destruct (cp_attr_via_setattr pol); cbn;
    (eexists; eexists; split; [reflexivity |]; split; [| split]);
    try (intro S;
         match goal with
         | S : separated ?h _ (CRef ?y) |- _ =>
             assert (M : mutable_at h 0 = false);
             [ apply S;
               [ eapply R1; [reflexivity | right; left; reflexivity | reflexivity | left; reflexivity]
               | eapply reach_kid; [reflexivity | left; reflexivity |];
                 eapply reach_kid; [reflexivity | right; left; reflexivity | apply reach_here] ]
             | discriminate M ]
         end);
    try (split; [ left; eapply reach_kid; [reflexivity | left; reflexivity |];
                  eapply reach_kid; [reflexivity | right; left; reflexivity | apply reach_here]
                | split; [reflexivity | intros k0 m0 I0; destruct I0 as [I0|[]]; discriminate I0] ]);
    try (intro H; discriminate H).
Qed.

(* ------------------------------------------------------------------ copy.copy *)

Lemma copy_shallow_value h x h' y :
  closedb h = true -> child_okb (length h) x = true -> copy_shallow h x = Some (h', y) ->
  forall f, abs f h' y = abs f h x /\ abs f h' x = abs f h x.
Proof.
  intros Cb Kb E. pose proof (closedb_closed _ Cb) as C. pose proof (child_okb_ok _ _ Kb) as K.
  unfold copy_shallow in E. destruct x as [v|l]; [discriminate |].
  destruct (get h l) as [o|] eqn:G; [| discriminate].
  destruct (o_kind o) eqn:Kd; try discriminate. unfold alloc in E. inversion E; subst h' y.
  intro f. split; [| apply abs_app; assumption].
  destruct f as [|f]; [reflexivity |]. destruct o as [kd kids]. cbn [o_kind] in Kd. subst kd.
  rewrite abs_new; [| exact C | intros k c I; exact (C l _ G k c I)].
  cbn [abs]. rewrite G. reflexivity.
Qed.

(* the shallow copy shares every attribute value with the original: it is NOT independent *)
Theorem copy_shallow_shares :
  exists h x h' y,
    copy_shallow h x = Some (h', y) /\ ~ separated h' x y /\
    cop_pre h' y [] witness_op /\
    abs 4 (cop_heap h' witness_op) x <> abs 4 h' x.
Proof.
  exists (witness_heap KTuple), (CRef 2). eexists. eexists. split; [reflexivity |]. split; [| split].
  - intro S. assert (M : mutable_at (witness_heap KTuple ++ [{| o_kind := KInst (s2p "W"%string) false; o_kids := [(s2p "f"%string, CRef 1)] |}]) 0 = false).
    { apply S.
      - eapply reach_kid; [reflexivity | left; reflexivity |].
        eapply reach_kid; [reflexivity | right; left; reflexivity | apply reach_here].
      - eapply reach_kid; [reflexivity | left; reflexivity |].
        eapply reach_kid; [reflexivity | right; left; reflexivity | apply reach_here]. }
    discriminate M.
  - split; [| split; [reflexivity | intros k0 m0 I0; destruct I0 as [I0|[]]; discriminate I0]].
    left. eapply reach_kid; [reflexivity | left; reflexivity |].
    eapply reach_kid; [reflexivity | right; left; reflexivity | apply reach_here].
  - intro H. discriminate H.
Qed.

(* ------------------------------------------------------------------ deep copy, then any history *)

Lemma closed_closedb_free h a b ops :
  closed h -> child_ok (length h) a -> child_ok (length h) b ->
  separated h a b -> valid2 h a b [] [] ops ->
  frames h a b ops /\ separated (run2 h ops) a b.
Proof.
  intros C Ka Kb S V. apply (frame_steps_inv ops h a b [] []); [| exact V].
  constructor; try assumption.
  - intros r I. destruct I.
  - intros r I. destruct I.
  - intros l [Ra | [r [I _]]] [Rb | [r' [I' _]]]; try (destruct I); try (destruct I'). exact (S l Ra Rb).
Qed.

(* A deep copy under a safe policy, followed by ANY interleaved history of operations of the holder of the
   original and the holder of the copy (each using only what it can get at): every operation leaves the
   value of the other instance unchanged, and the two never come to share a mutable object. *)
Theorem dc_independent pol fuel h x h' y ops :
  policy_safe pol = true -> closedb h = true -> imm_opaqueb h = true -> child_okb (length h) x = true ->
  dc pol fuel h x = Some (h', y) ->
  valid2 h' x y [] [] ops ->
  (forall f, abs f h' y = abs f h x) /\ frames h' x y ops /\ separated (run2 h' ops) x y.
Proof.
  intros PS Cb Ob Kb E V.
  destruct (dc_separated pol fuel h x h' y PS Cb Ob Kb E) as [[e E1] [C1 [K1 [A1 [A2 S1]]]]].
  split; [exact A1 |].
  apply closed_closedb_free; try assumption.
  subst h'. apply child_ok_mono with (n := length h); [rewrite app_length; lia | exact (child_okb_ok _ _ Kb)].
Qed.
