(* The explicit-None bookkeeping of Structure.__setattr__ under `_enable_undefined_value = True`
   (instance._none_fields: the optional fields that were assigned None, as opposed to never set), as a second
   component of the instance state next to the attributes of Struct/Instance.v.

   Structure.__setattr__ is seen as the ORDERED list of its effects on that state for one assignment:
   marker added / marker removed / hand-over of a value to the descriptor chain (with or without the restore of
   self.__dict__[key] when the chain raises).  That list is translated from the source on every run
   (Gen/StructNoneFields.v, harness/genmods/py2v_struct_nf.py); [setattr_nf_decision] is what the documented
   behaviour prescribes, [run_nf] executes a list -- an exception of the chain ends the method, so effects listed
   after the hand-over do not happen, effects listed before it have happened.  Executable; no proofs here. *)
From Coq Require Import ZArith NArith String List Bool.
Import ListNotations.
From TP Require Import Base.PyVal Fields.FieldAst Fields.SetChain Fields.Doc Struct.Shapes Struct.Instance.

Inductive nfev :=
| NfAdd                                (* getattr(self, "_none_fields").add(key) *)
| NfDiscard                            (* getattr(self, "_none_fields").discard(key) *)
| NfHandover (v : pyval) (rb : bool).  (* super().__setattr__(key, v); rb: a raising chain restores __dict__[key] *)

Definition nset := list pystr.
Definition nf_add (n : pystr) (s : nset) : nset := if str_in n s then s else n :: s.
Definition nf_del (n : pystr) (s : nset) : nset := filter (fun x => negb (pystr_eqb x n)) s.

Record ustate := { u_attrs : attrs; u_none : nset }.

(* the field named n is declared immutable=True *)
Definition field_immutable (c : classdef) (n : pystr) : bool :=
  match find_field (c_fields c) n with Some fd => fd_immutable fd | None => false end.

Section WithOracle.
  Variable re_match : N -> pystr -> bool.
  Variable e : env.

  (* the descriptor chain of attribute n receiving v (second half of Instance.setattr) *)
  Definition nf_chain (c : classdef) (instantiated : bool) (a : attrs) (n : pystr) (v : pyval) : attrs * outcome :=
    match find_field (c_fields c) n with
    | None => (alist_set a n v, Done)
    | Some fd =>
        match vset re_match e (fd_field fd) v with
        | Raise x => (a, Raised x)
        | Ok nf =>
            if fd_immutable fd && alist_has a n then (a, Raised ValueError)
            else
              let a' := alist_set a n nf in
              if instantiated && negb (hook_ok (c_hook c) a') then (a', Raised ValueError)
              else (a', Done)
        end
    end.

  Definition nf_hand (c : classdef) (instantiated : bool) (a : attrs) (n : pystr) (v : pyval) (rb : bool)
    : attrs * outcome :=
    match nf_chain c instantiated a n v with
    | (a', Raised x) => (if rb then a else a', Raised x)
    | r => r
    end.

  Fixpoint run_nf (c : classdef) (instantiated : bool) (n : pystr) (st : ustate) (evs : list nfev)
    : ustate * outcome :=
    match evs with
    | [] => (st, Done)
    | NfAdd :: t => run_nf c instantiated n {| u_attrs := u_attrs st; u_none := nf_add n (u_none st) |} t
    | NfDiscard :: t => run_nf c instantiated n {| u_attrs := u_attrs st; u_none := nf_del n (u_none st) |} t
    | NfHandover v rb :: t =>
        match nf_hand c instantiated (u_attrs st) n v rb with
        | (a', Raised x) => ({| u_attrs := a'; u_none := u_none st |}, Raised x)
        | (a', Done) => run_nf c instantiated n {| u_attrs := a'; u_none := u_none st |} t
        end
    end.

  (* the documented effects of one assignment; u: the class enables the undefined value; a: the attributes the
     instance holds (self.__dict__).  Recording an explicit None for a field declared immutable=True that holds a
     value is an assignment to it like any other: it is refused, before the marker is added *)
  Definition setattr_nf_decision (c : classdef) (u instantiated : bool) (a : attrs) (n : pystr) (v : pyval)
    : res (list nfev) :=
    if c_immutable c && instantiated then Raise ValueError
    else if negb (c_additional c || str_in n (field_names c)) then Raise ValueError
    else if (c_ignore_none c || u) && is_none_val v && negb (is_required c n) then
      if str_in n (field_names c) && u then
        if alist_has a n && field_immutable c n then Raise ValueError else Ok [NfAdd]
      else Ok []
    else
      Ok (NfHandover v true :: (if str_in n (field_names c) && u && negb (is_none_val v) then [NfDiscard] else [])).

  Definition run_decision (c : classdef) (instantiated : bool) (st : ustate) (n : pystr) (d : res (list nfev))
    : ustate * outcome :=
    match d with
    | Raise x => (st, Raised x)
    | Ok evs => run_nf c instantiated n st evs
    end.

  (* Structure.__setattr__ on the two-component state *)
  Definition setattr_u (c : classdef) (u instantiated : bool) (st : ustate) (n : pystr) (v : pyval) : ustate * outcome :=
    run_decision c instantiated st n (setattr_nf_decision c u instantiated (u_attrs st) n v).

  (* the one assignment that is refused by __setattr__ itself, in its 'ignored None' branch: an explicit None
     for a non-required field declared immutable=True that holds a value, under _enable_undefined_value *)
  Definition marker_blocked (c : classdef) (u : bool) (a : attrs) (n : pystr) (v : pyval) : bool :=
    u && is_none_val v && negb (is_required c n) && str_in n (field_names c) && (alist_has a n && field_immutable c n).

  Definition is_handover (ev : nfev) : bool := match ev with NfHandover _ _ => true | _ => false end.
  Definition no_handover (evs : list nfev) : bool := negb (existsb is_handover evs).

  (* nothing happens before the (single, restoring) hand-over: the shape under which a raising chain leaves BOTH
     components as they were *)
  Definition nf_atomic_shape (evs : list nfev) : bool :=
    match evs with
    | [] => true
    | NfHandover _ rb :: t => rb && no_handover t
    | _ :: t => no_handover t
    end.
End WithOracle.
