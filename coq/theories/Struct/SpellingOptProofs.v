(* Proofs about WHICH annotations mark their field optional (add_annotations_to_class_dict ->
   _handle_typing_optional: the converted AnyOf has a NoneField member), for typing Unions of any arity with None at
   any position, and the equivalence "typing Optional/Union-with-None, not listed  ~  AnyOf[..., None, ...] listed in
   _optional" of the property. *)
From Coq Require Import ZArith NArith String List Bool Lia. Import ListNotations.
From TP Require Import Base.PyVal Fields.FieldAst Fields.SetChain Gen.TypeMapping Struct.Spelling Struct.SpellingProofs.
Local Open Scope string_scope.
Local Open Scope list_scope.

Lemma construct_anyof vs :
  construct (s2p "AnyOf") (IMany vs) no_sizec false None =
  (fs <- mapM inst vs ;; match fs with [] => Raise TypeError | _ => Ok (FAnyOf fs) end).
Proof.
  unfold construct. change (classify (s2p "AnyOf")) with (CMulti MAnyOf). cbn beta iota.
  destruct (mapM inst vs) as [[|f t]|x]; reflexivity.
Qed.

Lemma existsb_of_maps {A B} (p : A -> bool) (q : B -> bool) l l' :
  map p l = map q l' -> existsb p l = existsb q l'.
Proof.
  revert l'. induction l as [|x t IH]; intros [|y u] H; try discriminate; [reflexivity|].
  cbn in H. inversion H as [[H1 H2]]. cbn [existsb]. rewrite H1, (IH _ H2). reflexivity.
Qed.

(* the spelling of a typing Union that marks the field optional does so whatever the spelling of its members:
   marks_optional is invariant under the congruence, among spellings of the same kind (typing / Field) *)
Theorem marks_optional_equiv s s' : sp_eq s s' -> fieldy s = fieldy s' -> marks_optional s = marks_optional s'.
Proof.
  intros H Hf. pose proof (proj1 sp_sound _ _ H) as HR. unfold marks_optional, fieldy in *.
  destruct (pyeval s) as [o|x], (pyeval s') as [o'|y]; cbn in HR; try tauto; try reflexivity.
  rewrite Hf, (tli_f_of_rel _ _ (proj1 HR)). reflexivity.
Qed.

(* the Field of every member of a Union, and which of them are NoneField *)
Lemma member_fields l objs :
  forallb member_ok l = true -> mapM pyeval l = Ok objs ->
  exists vs fs, mapM tli (map none_to_nonetype objs) = Ok (map Some vs) /\ mapM inst vs = Ok fs /\
                map is_fnone fs = map member_none l.
Proof.
  revert objs. induction l as [|a t IH]; intros objs Hm E.
  - cbn in E. inversion E; subst. exists [], []. auto.
  - cbn [mapM] in E. destruct (pyeval a) as [o|x] eqn:Ea; [|discriminate]. cbn [bind] in E.
    destruct (mapM pyeval t) as [os|x] eqn:Et; [|discriminate]. cbn in E. inversion E; subst objs.
    cbn [forallb] in Hm. apply andb_true_iff in Hm. destruct Hm as [Ha Hm].
    destruct (IH os Hm eq_refl) as [vs [fs [E1 [E2 E3]]]].
    unfold member_ok in Ha. destruct (is_tnone a) eqn:Na.
    + destruct a; try discriminate. cbn in Ea. inversion Ea; subst o.
      exists (FVInst FNone :: vs), (FNone :: fs). cbn [map mapM none_to_nonetype tli bind inst].
      rewrite E1, E2. cbn [bind map]. rewrite E3. auto.
    + cbn in Ha. unfold good in Ha. rewrite Ea in Ha. destruct (good_obj_spec o Ha) as [v [f [Hv Hi]]].
      assert (Ho : none_to_nonetype o = o) by (destruct o; try reflexivity; cbn in Hv; discriminate).
      exists (v :: vs), (f :: fs). cbn [map mapM]. rewrite Ho, Hv, E1, Hi, E2. cbn [bind map]. rewrite E3.
      repeat split; auto. f_equal. unfold member_none. rewrite Na. cbn [orb].
      unfold convert, convert_opt. rewrite Ea. cbn [bind]. unfold tli_f. rewrite Hv. cbn [bind opt_inst].
      rewrite Hi. reflexivity.
Qed.

Lemma tli_f_union_written l objs :
  forallb member_ok l = true -> mapM pyeval l = Ok objs -> keeps_as_written objs = true ->
  exists fs, tli_f (OUnion (map none_to_nonetype objs)) = Ok (Some (FAnyOf fs)) /\
             map is_fnone fs = map member_none l.
Proof.
  intros Hm E K. destruct (member_fields l objs Hm E) as [vs [fs [E1 [E2 E3]]]].
  exists fs. split; [|exact E3].
  assert (Hlv : length (map none_to_nonetype objs) = length vs).
  { pose proof (mapM_length _ _ _ E1) as H. rewrite map_length in H. symmetry. exact H. }
  unfold tli_f. rewrite tli_union, union_maps_to_anyof, E1. cbn [bind]. unfold finish.
  rewrite (fill_somes _ _ _ Hlv). cbn [bind]. rewrite anyof_is_anyof.
  pose proof (keeps_length _ K) as HK. rewrite map_length in Hlv. rewrite Hlv in HK.
  destruct vs as [|v vt]; [cbn in HK; lia|].
  rewrite construct_anyof, E2. cbn [bind].
  pose proof (mapM_length _ _ _ E2) as HL. destruct fs as [|f ft]; [discriminate|]. reflexivity.
Qed.

(* EXACT characterisation: a typing Union (as written by typing) marks its field optional iff one of its members, at
   ANY position and for ANY arity, denotes NoneField *)
Theorem marks_optional_union l :
  union_written l = true -> forallb member_ok l = true -> marks_optional (TUnion l) = existsb member_none l.
Proof.
  intros Hw Hm. destruct (union_written_spec l Hw) as [objs [E K]].
  destruct (tli_f_union_written l objs Hm E K) as [fs [Ht E3]].
  unfold marks_optional. rewrite pyeval_union, E. cbn [bind]. rewrite (keeps_mk_union _ K), Ht.
  cbn [fieldy_obj negb andb is_optional_anyof].
  change (existsb (fun g => match g with FNone => true | _ => false end) fs) with (existsb is_fnone fs).
  apply existsb_of_maps. exact E3.
Qed.

(* ... and it is converted to the AnyOf of its members' fields *)
Theorem convert_union_written l :
  union_written l = true -> forallb member_ok l = true ->
  exists fs, convert (TUnion l) = Ok (FAnyOf fs) /\ map is_fnone fs = map member_none l.
Proof.
  intros Hw Hm. destruct (union_written_spec l Hw) as [objs [E K]].
  destruct (tli_f_union_written l objs Hm E K) as [fs [Ht E3]]. exists fs. split; [|exact E3].
  unfold convert, convert_opt. rewrite pyeval_union, E. cbn [bind]. rewrite (keeps_mk_union _ K), Ht. reflexivity.
Qed.

Theorem marks_optional_optional a :
  union_written [a; TNone] = true -> member_ok a = true -> marks_optional (TOptional a) = true.
Proof.
  intros Hw Hm. unfold marks_optional. rewrite pyeval_optional_eq. fold (marks_optional (TUnion [a; TNone])).
  rewrite marks_optional_union; [|exact Hw|cbn [forallb]; rewrite Hm; reflexivity].
  cbn [existsb]. unfold member_none at 2. cbn [is_tnone orb]. apply orb_true_r.
Qed.

Lemma marks_optional_sub c l : marks_optional (TSub c l) = false.
Proof.
  unfold marks_optional. rewrite pyeval_sub. destruct (mapM pyeval l) as [objs|x]; [|reflexivity]. cbn [bind].
  destruct (subscript c objs); reflexivity.
Qed.

Lemma is_func_sub c l : is_func (TSub c l) = false.
Proof.
  unfold is_func. rewrite pyeval_sub. destruct (mapM pyeval l) as [objs|x]; [|reflexivity]. cbn [bind].
  destruct (subscript c objs); reflexivity.
Qed.

Lemma is_func_union_written l : union_written l = true -> is_func (TUnion l) = false.
Proof.
  intros Hw. destruct (union_written_spec l Hw) as [objs [E K]]. unfold is_func.
  rewrite pyeval_union, E. cbn [bind]. rewrite (keeps_mk_union _ K). reflexivity.
Qed.

Section OptDecl.
  Variable re_match : N -> pystr -> bool.
  Variable e : env.

  (* the property's clause "Optional[T] and AnyOf[T, None] with the field optional", for Unions of any arity with None
     anywhere: `a: Union[..., None, ...]` NOT listed in _optional and `a: AnyOf[..., None, ...]` LISTED in _optional
     are the same declaration (field, default, optional-ness) — members spelled in any equivalent way *)
  Theorem optional_decl_equiv nm l l' dv :
    sp_eqs l l' -> forallb member_ok l = true -> forallb member_ok l' = true -> union_written l = true ->
    is_ok (pyeval (TSub (s2p "AnyOf") l')) = true -> existsb member_none l = true -> eq_immutable dv = true ->
    decl_result re_match e {| d_name := nm; d_annot := true; d_ty := TUnion l; d_eq := dv; d_kw := None; d_opt := false |} =
    decl_result re_match e {| d_name := nm; d_annot := true; d_ty := TSub (s2p "AnyOf") l'; d_eq := dv; d_kw := None;
                              d_opt := true |}.
  Proof.
    intros Hs Hm Hm' Hw Hok Hn Hi. apply decl_sound.
    apply de_annot; cbn [d_name d_annot d_kw d_eq d_ty d_opt]; try reflexivity; try exact Hi;
      try (apply is_func_union_written; exact Hw); try apply is_func_sub.
    - apply sp_union_sub; assumption.
    - rewrite (marks_optional_union l Hw Hm), Hn. reflexivity.
  Qed.

  (* without a NoneField member neither spelling marks the field: both are required unless listed *)
  Theorem union_decl_equiv nm l l' dv o :
    sp_eqs l l' -> forallb member_ok l = true -> forallb member_ok l' = true -> union_written l = true ->
    is_ok (pyeval (TSub (s2p "AnyOf") l')) = true -> existsb member_none l = false -> eq_immutable dv = true ->
    decl_result re_match e {| d_name := nm; d_annot := true; d_ty := TUnion l; d_eq := dv; d_kw := None; d_opt := o |} =
    decl_result re_match e {| d_name := nm; d_annot := true; d_ty := TSub (s2p "AnyOf") l'; d_eq := dv; d_kw := None;
                              d_opt := o |}.
  Proof.
    intros Hs Hm Hm' Hw Hok Hn Hi. apply decl_sound.
    apply de_annot; cbn [d_name d_annot d_kw d_eq d_ty d_opt]; try reflexivity; try exact Hi;
      try (apply is_func_union_written; exact Hw); try apply is_func_sub.
    - apply sp_union_sub; assumption.
    - rewrite (marks_optional_union l Hw Hm), Hn, marks_optional_sub. reflexivity.
  Qed.
End OptDecl.
