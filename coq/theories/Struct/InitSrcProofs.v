(* The tie between the GENERATED translation of Structure.__init__ / _set_defaults / raise_errs_if_needed
   (Gen/InitSrc.v: what typedpy/structures/structures.py and commons.py say NOW) and the hand-written models
   the constructor theorems of C01 / C02 / C18 are about:
     Struct/Instance.v   [construct]         (instance state and exception class, keyword construction),
     Struct/EntrySites.v [trusted_instance]  (the `_trust_supplied_values` branch),
     Errors/Collect.v    [construct_u]       (which texts are reported, fail-fast and collect-all).
   Struct/InitModel.v says how a class description / keyword list is seen as the Python-level heap, `kwargs`
   and [world].  Every statement is for ALL class descriptions, keyword lists and values. *)
From Coq Require Import ZArith QArith NArith String Ascii Bool Lia List.
Import ListNotations.
From TP Require Import Base.PyVal Base.PyOps Base.PyOps2 Base.PyObj Base.PyOpsInit
     Fields.FieldAst Fields.SetChain Struct.Shapes Struct.Instance Struct.EntrySites Struct.InitModel
     Struct.InstanceProofs Struct.StructGuardProofs Gen.StructGuards Gen.InitSrc
     Errors.Template Errors.Render Errors.Parse Errors.Collect.
From TP Require Base.PyOpsVersioned Base.PyOpsFields Base.PyOpsDerive.
Local Open Scope Z_scope.

(* ------------------------------------------------------------------ the monad *)
Lemma bindM_ok {A B} (m : M A) (f : A -> M B) s s' a : m s = (s', inl a) -> bindM m f s = f a s'.
Proof. intro H. unfold bindM. rewrite H. reflexivity. Qed.

Lemma bindM_raise {A B} (m : M A) (f : A -> M B) s s' x : m s = (s', inr x) -> bindM m f s = (s', inr x).
Proof. intro H. unfold bindM. rewrite H. reflexivity. Qed.

Lemma bindM_assoc {A B C} (m : M A) (f : A -> M B) (g : B -> M C) s :
  bindM (bindM m f) g s = bindM m (fun a => bindM (f a) g) s.
Proof. unfold bindM. destruct (m s) as [s' [a|x]]; reflexivity. Qed.

Lemma tryM_ok {A} (m : M A) pats h s s' a : m s = (s', inl a) -> tryM m pats h s = (s', inl a).
Proof. intro H. unfold tryM. rewrite H. reflexivity. Qed.

Lemma tryM_raise {A} (m : M A) pats h s s' x :
  m s = (s', inr x) -> tryM m pats h s = if catches pats x then h x s' else (s', inr x).
Proof. intro H. unfold tryM. rewrite H. reflexivity. Qed.

(* ------------------------------------------------------------------ names *)
Lemma peqb_sym a b : pystr_eqb a b = pystr_eqb b a.
Proof.
  destruct (pystr_eqb a b) eqn:H1; destruct (pystr_eqb b a) eqn:H2; try reflexivity.
  - apply pystr_eqb_spec in H1. subst. rewrite pystr_eqb_refl in H2. discriminate.
  - apply pystr_eqb_spec in H2. subst. rewrite pystr_eqb_refl in H1. discriminate.
Qed.

Lemma plain_ordinary n : plain n = true -> ordinary n = true.
Proof. unfold plain. intro H. apply andb_true_iff in H. tauto. Qed.

Lemma ordinary_not_internal n : ordinary n = true -> internal n = false.
Proof.
  intro H. unfold internal.
  destruct (pystr_eqb n n_instantiated) eqn:E1.
  { apply pystr_eqb_spec in E1. subst n. discriminate H. }
  destruct (pystr_eqb n n_none_fields) eqn:E2.
  { apply pystr_eqb_spec in E2. subst n. discriminate H. }
  reflexivity.
Qed.

Lemma plain_not_internal n : plain n = true -> internal n = false.
Proof. intro H. apply ordinary_not_internal, plain_ordinary, H. Qed.

(* the instance __dict__ holds bookkeeping entries and plain names only *)
Definition keys_ok (s : istate) : bool := forallb (fun p => internal (fst p) || plain (fst p)) s.

Lemma keys_ok_get s n : keys_ok s = true -> internal n = false -> plain n = false -> alist_get s n = None.
Proof.
  intros Hk Hi Hp. induction s as [|[k v] t IH]; [reflexivity|].
  cbn [keys_ok forallb fst] in Hk. apply andb_true_iff in Hk. destruct Hk as [Hk1 Hk2].
  cbn [alist_get]. destruct (pystr_eqb k n) eqn:E.
  - apply pystr_eqb_spec in E. subst k. rewrite Hi, Hp in Hk1. discriminate.
  - apply IH, Hk2.
Qed.

Lemma keys_ok_set s n v : keys_ok s = true -> internal n || plain n = true -> keys_ok (alist_set s n v) = true.
Proof.
  intros Hk Hn. induction s as [|[k x] t IH]; cbn [alist_set keys_ok forallb fst].
  - rewrite Hn. reflexivity.
  - cbn [keys_ok forallb fst] in Hk. apply andb_true_iff in Hk. destruct Hk as [Hk1 Hk2].
    destruct (pystr_eqb k n); cbn [keys_ok forallb fst]; rewrite Hk1; cbn [andb]; [exact Hk2 | apply IH, Hk2].
Qed.

Lemma public_set s n v : internal n = false -> public (alist_set s n v) = alist_set (public s) n v.
Proof.
  intro Hn. unfold public. induction s as [|[k x] t IH]; cbn [alist_set filter fst].
  - rewrite Hn. reflexivity.
  - destruct (pystr_eqb k n) eqn:E.
    + apply pystr_eqb_spec in E. subst k. cbn [filter fst]. rewrite Hn. cbn [negb alist_set].
      rewrite pystr_eqb_refl. reflexivity.
    + cbn [filter fst]. destruct (internal k); cbn [negb]; [exact IH|].
      cbn [alist_set]. rewrite E. f_equal. exact IH.
Qed.

Lemma public_set_internal s n v : internal n = true -> public (alist_set s n v) = public s.
Proof.
  intro Hn. unfold public. induction s as [|[k x] t IH]; cbn [alist_set filter fst].
  - rewrite Hn. reflexivity.
  - destruct (pystr_eqb k n) eqn:E.
    + apply pystr_eqb_spec in E. subst k. cbn [filter fst]. rewrite Hn. reflexivity.
    + cbn [filter fst]. destruct (internal k); cbn [negb]; [exact IH|]. f_equal. exact IH.
Qed.

Lemma public_get s n : internal n = false -> alist_get (public s) n = alist_get s n.
Proof.
  intro Hn. unfold public. induction s as [|[k x] t IH]; [reflexivity|].
  cbn [filter fst alist_get]. destruct (internal k) eqn:Ek; cbn [negb].
  - destruct (pystr_eqb k n) eqn:E; [|exact IH].
    apply pystr_eqb_spec in E. subst k. rewrite Hn in Ek. discriminate.
  - cbn [alist_get]. destruct (pystr_eqb k n); [reflexivity|exact IH].
Qed.

Lemma public_has s n : internal n = false -> alist_has (public s) n = alist_has s n.
Proof. intro Hn. unfold alist_has. rewrite public_get by exact Hn. reflexivity. Qed.

Lemma get_set_other {A} (s : list (pystr * A)) n m v : pystr_eqb n m = false -> alist_get (alist_set s n v) m = alist_get s m.
Proof.
  intro Hnm. induction s as [|[k x] t IH]; cbn [alist_set alist_get].
  - rewrite Hnm. reflexivity.
  - destruct (pystr_eqb k n) eqn:E; cbn [alist_get].
    + apply pystr_eqb_spec in E. subst k. rewrite Hnm. reflexivity.
    + destruct (pystr_eqb k m); [reflexivity|exact IH].
Qed.

Lemma get_set_same {A} (s : list (pystr * A)) n v : alist_get (alist_set s n v) n = Some v.
Proof.
  induction s as [|[k x] t IH]; cbn [alist_set alist_get].
  - rewrite pystr_eqb_refl. reflexivity.
  - destruct (pystr_eqb k n) eqn:E; cbn [alist_get]; rewrite E; [reflexivity|exact IH].
Qed.

Lemma instantiated_set s n v : pystr_eqb n n_instantiated = false -> instantiated (alist_set s n v) = instantiated s.
Proof. intro H. unfold instantiated. rewrite get_set_other by exact H. reflexivity. Qed.

Lemma plain_not_instantiated n : plain n = true -> pystr_eqb n n_instantiated = false.
Proof.
  intro H. apply plain_not_internal in H. unfold internal in H. apply orb_false_iff in H. tauto.
Qed.

Section Bridge.
  Variable re_match : N -> pystr -> bool.
  Variable e : env.
  Variable msg_of : pystr -> pyval -> exn -> pystr.
  Variable bind_msg hook_msg : pystr.
  Variable repr_str : pystr -> pystr.
  Variable dumps : list pystr -> pystr.

  (* ---------------------------------------------------------------- setattr of the model world *)
  (* Struct/Instance.v [setattr] on the whole __dict__ and on its public part *)
  Lemma setattr_public c s n v :
    plain n = true ->
    setattr re_match e c false (public s) n v =
    (public (fst (setattr re_match e c false s n v)), snd (setattr re_match e c false s n v)).
  Proof.
    intro Hn. pose proof (plain_not_internal n Hn) as Hi.
    unfold setattr. cbn [andb]. rewrite (andb_false_r (c_immutable c)).
    destruct (find_field (c_fields c) n) as [fd|].
    - destruct (c_ignore_none c && is_none_val v && negb (is_required c n)); [reflexivity|].
      destruct (vset re_match e (fd_field fd) v) as [nf|x]; [|reflexivity].
      rewrite public_has by exact Hi.
      destruct (fd_immutable fd && alist_has s n); [reflexivity|].
      cbn [andb fst snd]. rewrite public_set by exact Hi. reflexivity.
    - destruct (c_additional c); [|reflexivity].
      destruct (c_ignore_none c && is_none_val v && negb (is_required c n)); [reflexivity|].
      cbn [fst snd]. rewrite public_set by exact Hi. reflexivity.
  Qed.

  Lemma setattr_keys c s n v :
    plain n = true -> keys_ok s = true -> instantiated s = false ->
    keys_ok (fst (setattr re_match e c false s n v)) = true /\
    instantiated (fst (setattr re_match e c false s n v)) = false /\
    alist_get (fst (setattr re_match e c false s n v)) n_none_fields = alist_get s n_none_fields.
  Proof.
    intros Hn Hk Hi.
    assert (Hset : forall x, keys_ok (alist_set s n x) = true /\ instantiated (alist_set s n x) = false /\
                             alist_get (alist_set s n x) n_none_fields = alist_get s n_none_fields).
    { intro x. split; [|split].
      - apply keys_ok_set; [exact Hk|]. rewrite Hn. apply orb_true_r.
      - rewrite instantiated_set; [exact Hi | apply plain_not_instantiated, Hn].
      - apply get_set_other. pose proof (plain_not_internal n Hn) as H. unfold internal in H.
        apply orb_false_iff in H. tauto. }
    unfold setattr. cbn [andb]. rewrite (andb_false_r (c_immutable c)).
    destruct (find_field (c_fields c) n) as [fd|].
    - destruct (c_ignore_none c && is_none_val v && negb (is_required c n)); [cbn [fst]; auto|].
      destruct (vset re_match e (fd_field fd) v) as [nf|x]; [|cbn [fst]; auto].
      destruct (fd_immutable fd && alist_has s n); [cbn [fst]; auto|].
      cbn [andb fst]. apply Hset.
    - destruct (c_additional c); [|cbn [fst]; auto].
      destruct (c_ignore_none c && is_none_val v && negb (is_required c n)); [cbn [fst]; auto|].
      cbn [fst]. apply Hset.
  Qed.

  (* the hand-over of the model world's setattr to the SOURCE's __setattr__ (Gen/StructGuards.v): for an ordinary
     name it is the generated guard prefix followed by the descriptor chain, as Struct/StructGuardProofs.v states *)
  Lemma model_setattr_is_source c n v s :
    ordinary n = true ->
    model_setattr re_match e msg_of c (PStr n) v s =
    match (match Structure__setattr (struct_heap c (instantiated s)) (PStr n) v with
           | Raise x => (s, Raised x)
           | Ok None => (s, Done)
           | Ok (Some vr) => handover re_match e c (instantiated s) s n vr
           end) with
    | (s', Done) => (s', inl tt)
    | (s', Raised x) => (s', inr (mk_exc x (msg_of n v x)))
    end.
  Proof.
    intro Hn. unfold model_setattr. rewrite (ordinary_not_internal n Hn).
    rewrite (generated_setattr_is_model re_match e c (instantiated s) s n v Hn). reflexivity.
  Qed.

  (* a sequence of setattr calls of the model world, stopping at the first exception *)
  Fixpoint run_sets (c : classdef) (l : kwargs) (s : istate) : istate * (unit + pyexc) :=
    match l with
    | [] => (s, inl tt)
    | (n, v) :: t =>
        match model_setattr re_match e msg_of c (PStr n) v s with
        | (s', inl _) => run_sets c t s'
        | (s', inr x) => (s', inr x)
        end
    end.

  Definition names_plain (l : kwargs) : bool := forallb (fun p => plain (fst p)) l.

  Lemma run_sets_set_all c : forall l s,
      names_plain l = true -> keys_ok s = true -> instantiated s = false ->
      match set_all re_match e c (public s) l with
      | Ok a' => exists s', run_sets c l s = (s', inl tt) /\ public s' = a' /\ keys_ok s' = true /\
                            instantiated s' = false /\ alist_get s' n_none_fields = alist_get s n_none_fields
      | Raise x => exists s' m, run_sets c l s = (s', inr (mk_exc x m))
      end.
  Proof.
    induction l as [|[n v] t IH]; intros s Hl Hk Hi.
    - cbn [set_all run_sets]. exists s. repeat split; auto.
    - cbn [names_plain forallb fst] in Hl. apply andb_true_iff in Hl. destruct Hl as [Hn Ht].
      cbn [set_all run_sets]. rewrite (setattr_public c s n v Hn).
      unfold model_setattr. rewrite (plain_not_internal n Hn). rewrite Hi.
      destruct (setattr_keys c s n v Hn Hk Hi) as [K1 [K2 K3]].
      destruct (setattr re_match e c false s n v) as [s1 o] eqn:Es. cbn [fst snd] in *.
      destruct o as [|x].
      + specialize (IH s1 Ht K1 K2).
        destruct (set_all re_match e c (public s1) t) as [a'|x].
        * destruct IH as [s' [R1 [R2 [R3 [R4 R5]]]]]. exists s'. repeat split; auto. congruence.
        * exact IH.
      + exists s1, (msg_of n v x). reflexivity.
  Qed.

  (* ---------------------------------------------------------------- the model world *)
  Variable sig_order : kwargs -> kwargs.
  Definition MW (c : classdef) : world :=
    model_world re_match e msg_of bind_msg hook_msg repr_str dumps sig_order c.

  Definition pairs (l : kwargs) : list (pyval * pyval) := map (fun p => (PStr (fst p), snd p)) l.

  Lemma kwargs_of_pairs l : kwargs_of (pairs l) = Some l.
  Proof. induction l as [|[n v] t IH]; [reflexivity|]. cbn [pairs map kwargs_of fst snd]. fold (pairs t). rewrite IH. reflexivity. Qed.

  Definition inv (s : istate) : Prop := keys_ok s = true /\ instantiated s = false.

  Lemma model_setattr_inv c n v s :
    plain n = true -> inv s -> inv (fst (model_setattr re_match e msg_of c (PStr n) v s)).
  Proof.
    intros Hn [Hk Hi]. unfold model_setattr. rewrite (plain_not_internal n Hn), Hi.
    destruct (setattr_keys c s n v Hn Hk Hi) as [K1 [K2 _]].
    destruct (setattr re_match e c false s n v) as [s1 [|x]]; cbn [fst] in *; split; assumption.
  Qed.

  Lemma run_sets_inv c : forall l s, names_plain l = true -> inv s -> inv (fst (run_sets c l s)).
  Proof.
    induction l as [|[n v] t IH]; intros s Hl Hs; [exact Hs|].
    cbn [names_plain forallb fst] in Hl. apply andb_true_iff in Hl. destruct Hl as [Hn Ht].
    cbn [run_sets]. pose proof (model_setattr_inv c n v s Hn Hs) as H1.
    destruct (model_setattr re_match e msg_of c (PStr n) v s) as [s1 [u|x]]; cbn [fst] in *; [|exact H1].
    apply IH; assumption.
  Qed.

  (* the loop over the extra keyword arguments, and any plain `for n, v in d.items(): setattr(self, n, v)` *)
  Lemma plain_loop c : forall l s,
      for_acc (fun '(k, v) (_ : unit) => (_ <~ w_setattr (MW c) k v ;; ret tt)) (pairs l) tt s = run_sets c l s.
  Proof.
    induction l as [|[n v] t IH]; intro s; [reflexivity|].
    cbn [pairs map for_acc fst snd run_sets]. fold (pairs t). unfold bindM at 1 2.
    cbn [w_setattr MW model_world].
    destruct (model_setattr re_match e msg_of c (PStr n) v s) as [s1 [[]|x]]; [|reflexivity].
    cbn [ret]. apply IH.
  Qed.

  (* ---------------------------------------------------------------- reading the heap *)
  Lemma self_class c ff s : keys_ok s = true ->
    self_getattr (init_heap c ff) (s2p "__class__") s = (s, inl (ref (s2p "cls"))).
  Proof. intro Hk. unfold self_getattr. rewrite (keys_ok_get s (s2p "__class__") Hk eq_refl eq_refl). reflexivity. Qed.

  Lemma self_constants c ff s : keys_ok s = true ->
    self_getattr_def (init_heap c ff) (s2p "_constants") (PDict []) s = (s, inl (PDict [])).
  Proof. intro Hk. unfold self_getattr_def. rewrite (keys_ok_get s (s2p "_constants") Hk eq_refl eq_refl). reflexivity. Qed.

  Lemma self_gafbn c ff s : keys_ok s = true ->
    self_query (init_heap c ff) (s2p "get_all_fields_by_name") s = (s, inl (fields_map c)).
  Proof. intro Hk. unfold self_query. rewrite (keys_ok_get s (s2p "get_all_fields_by_name") Hk eq_refl eq_refl). reflexivity. Qed.

  Lemma cls_name c ff : obj_getattr (init_heap c ff) (ref (s2p "cls")) (s2p "__name__") = Ok (PStr (c_name c)).
  Proof. reflexivity. Qed.

  (* ---------------------------------------------------------------- the fail-fast assignment loop *)
  Definition rewrap (c : classdef) (x : pyexc) : pyexc :=
    if model_level (x_cls x) then x
    else if exc_isinstance x (OtherExn (s2p "JSONDecodeError")) then x
    else mk_exc (x_cls x) (c_name c ++ s2p "." ++ exc_str (MW c) x).

  Lemma rewrap_cls c x : x_cls (rewrap c x) = x_cls x.
  Proof. unfold rewrap. destruct (model_level (x_cls x)); [reflexivity|]. destruct (exc_isinstance x _); reflexivity. Qed.

  Definition no_undefined (l : kwargs) : bool := forallb (fun p => negb (undefined_ref (snd p))) l.

  Definition ff_body (c : classdef) (h : heap) : pyval * pyval -> unit -> M unit :=
    fun '(n, v) (_ : unit) =>
      (_ <~ tryM (_ <~ (c0 <~ (ret (negb (is_global v (s2p "Undefined")))) ;;
                        if c0 then (_ <~ w_setattr (MW c) n v ;; (ret tt)) else (ret tt)) ;; (ret tt))
                 [XP_Exception]
                 (fun x => (c0 <~ (ret (exc_isinstance x (OtherExn (s2p "JSONDecodeError")))) ;;
                    if c0 then (raiseM x)
                    else (t52 <~ self_getattr h (s2p "__class__") ;;
                          t53 <~ lift (obj_getattr h t52 (s2p "__name__")) ;;
                          let cn := t53 in
                          (t55 <~ lift (PyOpsDerive.py_format cn) ;;
                           raiseM (mk_exc (x_cls x) (t55 ++ (s2p ".") ++ (exc_str (MW c) x))%list))))) ;;
       (ret tt)).

  Lemma ff_body_step c ff n v s :
    plain n = true -> undefined_ref v = false -> inv s ->
    ff_body c (init_heap c ff) (PStr n, v) tt s =
    match model_setattr re_match e msg_of c (PStr n) v s with
    | (s', inl _) => (s', inl tt)
    | (s', inr x) => (s', inr (rewrap c x))
    end.
  Proof.
    intros Hn Hv Hs. pose proof (model_setattr_inv c n v s Hn Hs) as H1.
    unfold ff_body. unfold undefined_ref in Hv.
    unfold bindM at 1. unfold tryM. unfold bindM at 1. unfold bindM at 1.
    unfold ret at 1. rewrite Hv. cbn [negb]. unfold bindM at 1.
    cbn [w_setattr MW model_world].
    destruct (model_setattr re_match e msg_of c (PStr n) v s) as [s1 [[]|x]]; cbn [fst] in H1.
    - reflexivity.
    - unfold catches, rewrap. cbn [existsb orb]. rewrite andb_true_r.
      destruct (model_level (x_cls x)); cbn [negb]; [reflexivity|].
      unfold bindM at 1. unfold ret at 1.
      destruct (exc_isinstance x (OtherExn (s2p "JSONDecodeError"))); [reflexivity|].
      destruct H1 as [K1 _].
      rewrite (bindM_ok _ _ _ _ _ (self_class c ff s1 K1)).
      rewrite cls_name. reflexivity.
  Qed.

  (* a bound argument that IS the Undefined singleton is not assigned at all (fail-fast mode) *)
  Lemma ff_body_skips_undefined c h n v s :
    undefined_ref v = true -> ff_body c h (PStr n, v) tt s = (s, inl tt).
  Proof.
    intro Hv. unfold undefined_ref in Hv. unfold ff_body. unfold bindM at 1. unfold tryM. unfold bindM at 1. unfold bindM at 1.
    unfold ret at 1. rewrite Hv. reflexivity.
  Qed.

  Lemma ff_loop c ff : forall l s,
      names_plain l = true -> no_undefined l = true -> inv s ->
      for_acc (ff_body c (init_heap c ff)) (pairs l) tt s =
      match run_sets c l s with
      | (s', inl _) => (s', inl tt)
      | (s', inr x) => (s', inr (rewrap c x))
      end.
  Proof.
    induction l as [|[n v] t IH]; intros s Hl Hu Hs; [reflexivity|].
    cbn [names_plain forallb fst] in Hl. apply andb_true_iff in Hl. destruct Hl as [Hn Ht].
    cbn [no_undefined forallb snd] in Hu. apply andb_true_iff in Hu. destruct Hu as [Hv Hu].
    apply negb_true_iff in Hv.
    cbn [pairs map for_acc fst snd run_sets]. fold (pairs t). unfold bindM at 1.
    rewrite (ff_body_step c ff n v s Hn Hv Hs).
    pose proof (model_setattr_inv c n v s Hn Hs) as H1.
    destruct (model_setattr re_match e msg_of c (PStr n) v s) as [s1 [[]|x]]; cbn [fst] in H1; [|reflexivity].
    apply IH; assumption.
  Qed.

  (* ---------------------------------------------------------------- the defaults *)
  Lemma heap_default c ff n a :
    init_heap c ff (fobj n) a =
    if pystr_eqb a (s2p "_default")
    then match find_field (c_fields c) n with Some fd => fd_default fd | None => None end
    else None.
  Proof. reflexivity. Qed.

  Lemma fields_map_get c n fd :
    find_field (c_fields c) n = Some fd -> py_getitem_dyn (fields_map c) (PStr n) = Ok (ref (fobj n)).
  Proof.
    unfold fields_map, py_getitem_dyn, py_dict_getitem. cbn [py_hashable'].
    induction (c_fields c) as [|d t IH]; intro H; [discriminate H|].
    cbn [find_field] in H. cbn [map dict_get py_eq].
    destruct (pystr_eqb (fd_name d) n) eqn:E.
    - apply pystr_eqb_spec in E. subst n. reflexivity.
    - apply IH, H.
  Qed.

  Definition dflt (kw : kwargs) (fs : list fdecl) : kwargs :=
    flat_map (fun fd => match fd_default fd with
                        | Some d => if alist_has kw (fd_name fd) then [] else [(fd_name fd, d)]
                        | None => []
                        end) fs.

  Definition dflt_pick (c : classdef) (h : heap) (B : pyval) : pyval * pyval -> M (option pyval) :=
    fun '(k, v) =>
      (c0 <~ (andM (t35 <~ lift (obj_getattr_def h v (s2p "_default") PNone) ;; ret (py_is_not_none t35))
                   (fun _ => (notM (lift (py_in_dyn k B))))) ;;
       if c0 then (ret (Some k)) else ret None).

  Definition fpairs (fs : list fdecl) : list (pyval * pyval) :=
    map (fun fd => (PStr (fd_name fd), ref (fobj (fd_name fd)))) fs.

  Lemma comp_defaults c ff kw B : forall fs s,
      (forall fd, In fd fs -> find_field (c_fields c) (fd_name fd) = Some fd /\ fd_default fd <> Some PNone /\
                               py_in_dyn (PStr (fd_name fd)) B = Ok (alist_has kw (fd_name fd))) ->
      filterMM (dflt_pick c (init_heap c ff) B) (fpairs fs) s = (s, inl (map PStr (map fst (dflt kw fs)))).
  Proof.
    induction fs as [|fd t IH]; intros s H; [reflexivity|].
    destruct (H fd (or_introl eq_refl)) as [Hf [Hd Hin]].
    cbn [fpairs map filterMM]. fold (fpairs t).
    assert (Hstep : dflt_pick c (init_heap c ff) B (PStr (fd_name fd), ref (fobj (fd_name fd))) s =
                    (s, inl (match fd_default fd with
                             | Some d => if alist_has kw (fd_name fd) then None else Some (PStr (fd_name fd))
                             | None => None
                             end))).
    { unfold dflt_pick, andM, notM. unfold obj_getattr_def, ref. rewrite pystr_eqb_refl.
      change (POther ref_tag (fobj (fd_name fd))) with (ref (fobj (fd_name fd))).
      rewrite heap_default. rewrite pystr_eqb_refl, Hf, Hin.
      destruct (fd_default fd) as [d|]; [|reflexivity].
      destruct d; try (exfalso; apply Hd; reflexivity); cbn; destruct (alist_has kw (fd_name fd)); reflexivity. }
    rewrite (bindM_ok _ _ _ _ _ Hstep).
    rewrite (bindM_ok _ _ _ _ _ (IH s (fun fd' Hi => H fd' (or_intror Hi)))).
    cbn [dflt flat_map]. fold (dflt kw t).
    destruct (fd_default fd) as [d|]; [|reflexivity].
    destruct (alist_has kw (fd_name fd)); reflexivity.
  Qed.

  Lemma set_defaults_run c ff : forall dl s,
      (forall p, In p dl -> exists fd, find_field (c_fields c) (fst p) = Some fd /\ fd_default fd = Some (snd p)) ->
      Structure__set_defaults (init_heap c ff) (MW c) (PList (map PStr (map fst dl))) (fields_map c) s = run_sets c dl s.
  Proof.
    intros dl s H. unfold Structure__set_defaults.
    rewrite (bindM_ok _ _ s s (map PStr (map fst dl)) eq_refl).
    match goal with |- bindM (for_acc ?b _ _) _ _ = _ => set (body := b) end.
    assert (L : forall l s0, (forall p, In p l -> exists fd, find_field (c_fields c) (fst p) = Some fd /\ fd_default fd = Some (snd p)) ->
                for_acc body (map PStr (map fst l)) tt s0 = run_sets c l s0).
    { induction l as [|[n d] t IH]; intros s0 Hl; [reflexivity|].
      cbn [map fst for_acc run_sets]. unfold bindM at 1.
      destruct (Hl (n, d) (or_introl eq_refl)) as [fd [Hf Hd]]. cbn [fst snd] in Hf, Hd.
      assert (Hb : body (PStr n) tt s0 = match model_setattr re_match e msg_of c (PStr n) d s0 with
                                         | (s', inl _) => (s', inl tt) | (s', inr x) => (s', inr x) end).
      { unfold body. rewrite (fields_map_get c n fd Hf). unfold lift at 1. unfold bindM at 1. unfold ret at 1.
        unfold obj_getattr, ref. rewrite pystr_eqb_refl.
        change (POther ref_tag (fobj n)) with (ref (fobj n)). rewrite heap_default, pystr_eqb_refl, Hf, Hd.
        unfold lift at 1. unfold bindM at 1. unfold ret at 1.
        cbn [w_callable w_setattr MW model_world]. unfold bindM at 1. unfold bindM at 1. unfold ret at 1. unfold ret at 1.
        unfold bindM at 1.
        destruct (model_setattr re_match e msg_of c (PStr n) d s0) as [s1 [[]|x]]; reflexivity. }
      rewrite Hb.
      destruct (model_setattr re_match e msg_of c (PStr n) d s0) as [s1 [[]|x]]; [|reflexivity].
      apply IH. intros p Hp. apply Hl. right. exact Hp. }
    unfold bindM. rewrite (L dl s H).
    destruct (run_sets c dl s) as [s1 [[]|x]]; reflexivity.
  Qed.

  (* ---------------------------------------------------------------- dictionaries of keyword arguments *)
  Lemma dict_get_pairs l n : dict_get (pairs l) (PStr n) = alist_get l n.
  Proof.
    induction l as [|[k v] t IH]; [reflexivity|].
    cbn [pairs map dict_get py_eq alist_get fst snd]. fold (pairs t). destruct (pystr_eqb k n); [reflexivity|exact IH].
  Qed.

  Lemma in_pairs l n : py_in_dyn (PStr n) (PDict (pairs l)) = Ok (alist_has l n).
  Proof. cbn [py_in_dyn py_hashable']. unfold dict_has, alist_has. rewrite dict_get_pairs. reflexivity. Qed.

  Lemma dict_get_app_last l k x :
    alist_has l k = false -> dict_get (pairs l ++ [(PStr k, x)]) (PStr k) = Some x.
  Proof.
    unfold alist_has. induction l as [|[k' v] t IH]; intro H.
    - cbn. rewrite pystr_eqb_refl. reflexivity.
    - cbn [pairs map app dict_get py_eq fst snd]. fold (pairs t). cbn [alist_get] in H.
      destruct (pystr_eqb k' k); [discriminate H | apply IH, H].
  Qed.

  Lemma dict_del_app_last l k x :
    alist_has l k = false -> dict_del (pairs l ++ [(PStr k, x)]) (PStr k) = pairs l.
  Proof.
    unfold alist_has. induction l as [|[k' v] t IH]; intro H.
    - cbn. rewrite pystr_eqb_refl. reflexivity.
    - cbn [pairs map app dict_del py_eq fst snd]. fold (pairs t). cbn [alist_get] in H.
      destruct (pystr_eqb k' k); [discriminate H |]. f_equal. apply IH, H.
  Qed.

  Lemma has_bound c kw n : alist_has (bound_of c kw) n = str_in n (field_names c) && alist_has kw n.
  Proof.
    unfold alist_has, bound_of, is_field.
    rewrite (alist_get_filter (fun k => str_in k (field_names c)) kw n).
    destruct (str_in n (field_names c)); reflexivity.
  Qed.

  Lemma find_field_in : forall fs fd, has_dup (map fd_name fs) = false -> In fd fs -> find_field fs (fd_name fd) = Some fd.
  Proof.
    induction fs as [|d t IH]; intros fd Hd Hin; [destruct Hin|].
    cbn [map has_dup] in Hd. apply orb_false_iff in Hd. destruct Hd as [Hd1 Hd2].
    cbn [find_field]. destruct Hin as [->|Hin]; [rewrite pystr_eqb_refl; reflexivity|].
    destruct (pystr_eqb (fd_name d) (fd_name fd)) eqn:E; [|apply IH; assumption].
    apply pystr_eqb_spec in E. exfalso.
    assert (str_in (fd_name d) (map fd_name t) = true).
    { rewrite E. apply str_in_In. apply in_map. exact Hin. }
    congruence.
  Qed.

  Lemma str_in_field c fd : In fd (c_fields c) -> str_in (fd_name fd) (field_names c) = true.
  Proof. intro H. apply str_in_In. unfold field_names. apply in_map. exact H. Qed.

  Lemma bind_result c ff kw :
    (t15 <~ self_getattr (init_heap c ff) (s2p "__signature__") ;;
     t16 <~ w_bind (MW c) t15 (PTuple []) (kw_dict kw) ;; ret t16) [] =
    model_bind bind_msg sig_order c (PTuple []) (kw_dict kw) [].
  Proof.
    rewrite (bindM_ok _ _ [] [] (ref (s2p "sig")) eq_refl). unfold bindM. cbn [w_bind MW model_world].
    destruct (model_bind bind_msg sig_order c (PTuple []) (kw_dict kw) []) as [s [a|x]]; reflexivity.
  Qed.

  Lemma dom_names c kw :
    forallb (fun p => plain (fst p) && negb (undefined_ref (snd p))) kw = true ->
    names_plain (extras_of c kw) = true /\ names_plain (bound_of c kw) = true /\ no_undefined (bound_of c kw) = true.
  Proof.
    intro H. unfold names_plain, no_undefined, extras_of, bound_of.
    repeat split; apply forallb_forall; intros p Hp; apply filter_In in Hp; destruct Hp as [Hp _];
      pose proof (proj1 (forallb_forall _ _) H p Hp) as Hq; apply andb_true_iff in Hq; tauto.
  Qed.

  Definition bound_dict (c : classdef) (kw : kwargs) : pyval :=
    PDict (pairs (bound_of c kw) ++
           match extras_of c kw with [] => [] | ex => [(PStr n_kwargs, PDict (pairs ex))] end).

  Lemma model_bind_cases c kw :
    sig_order (bound_of c kw) = bound_of c kw ->
    model_bind bind_msg sig_order c (PTuple []) (kw_dict kw) [] =
    if has_dup (map fst kw) then ([], inr (mk_exc Unmodelled []))
    else if negb (bind_ok c kw) then ([], inr (mk_exc TypeError bind_msg))
    else ([], inl (bound_dict c kw)).
  Proof.
    intro Hord. unfold model_bind. change (kw_dict kw) with (PDict (pairs kw)). cbv beta iota. rewrite kwargs_of_pairs.
    destruct (has_dup (map fst kw)); [reflexivity|]. destruct (bind_ok c kw); cbn [negb]; [|reflexivity].
    rewrite Hord. unfold bound_dict. destruct (extras_of c kw); [|reflexivity].
    fold (pairs (bound_of c kw)). rewrite app_nil_r. reflexivity.
  Qed.

  Lemma bound_no_kwargs c kw :
    forallb (fun fd => negb (pystr_eqb (fd_name fd) n_kwargs)) (c_fields c) = true ->
    alist_has (bound_of c kw) n_kwargs = false.
  Proof.
    intro H. rewrite has_bound.
    destruct (str_in n_kwargs (field_names c)) eqn:E; [|reflexivity].
    apply str_in_true in E. unfold field_names in E. apply in_map_iff in E. destruct E as [fd [E1 E2]].
    pose proof (proj1 (forallb_forall _ _) H fd E2) as Hq. cbv beta in Hq. rewrite E1, pystr_eqb_refl in Hq. discriminate Hq.
  Qed.

  (* the extra keyword arguments are assigned first, then removed from the bound arguments *)
  Lemma extras_phase c kw :
    alist_has (bound_of c kw) n_kwargs = false ->
    (c0 <~ lift (py_in_dyn (PStr (s2p "kwargs")) (bound_dict c kw)) ;;
     (if c0
      then
        (t23 <~ lift (py_getitem_dyn (bound_dict c kw) (PStr (s2p "kwargs"))) ;;
         t24 <~ lift (PyOpsVersioned.py_dict_items t23) ;;
         _ <~ for_acc (fun '(v_name_25, v_val_26) (_ : unit) => (_ <~ w_setattr (MW c) v_name_25 v_val_26 ;; ret tt)) t24 tt ;;
         (t27 <~ lift (PyOpsVersioned.py_delitem (bound_dict c kw) (PStr (s2p "kwargs"))) ;; ret t27))
      else ret (bound_dict c kw))) [] =
    match run_sets c (extras_of c kw) [] with
    | (s1, inl _) => (s1, inl (PDict (pairs (bound_of c kw))))
    | (s1, inr x) => (s1, inr x)
    end.
  Proof.
    intro Hb. change (s2p "kwargs") with n_kwargs. unfold bound_dict.
    destruct (extras_of c kw) as [|p ex].
    - rewrite app_nil_r. rewrite in_pairs, Hb. reflexivity.
    - set (E := p :: ex).
      assert (H1 : py_in_dyn (PStr n_kwargs) (PDict (pairs (bound_of c kw) ++ [(PStr n_kwargs, PDict (pairs E))])) = Ok true).
      { cbn [py_in_dyn py_hashable']. unfold dict_has. rewrite dict_get_app_last by exact Hb. reflexivity. }
      rewrite H1. rewrite (bindM_ok _ _ [] [] true eq_refl).
      assert (H2 : py_getitem_dyn (PDict (pairs (bound_of c kw) ++ [(PStr n_kwargs, PDict (pairs E))])) (PStr n_kwargs) = Ok (PDict (pairs E))).
      { unfold py_getitem_dyn, py_dict_getitem. cbn [py_hashable']. rewrite dict_get_app_last by exact Hb. reflexivity. }
      rewrite H2. rewrite (bindM_ok _ _ [] [] (PDict (pairs E)) eq_refl).
      rewrite (bindM_ok _ _ [] [] (pairs E) eq_refl).
      unfold bindM at 1. rewrite plain_loop.
      destruct (run_sets c E []) as [s1 [[]|x]]; [|reflexivity].
      assert (H3 : PyOpsVersioned.py_delitem (PDict (pairs (bound_of c kw) ++ [(PStr n_kwargs, PDict (pairs E))])) (PStr n_kwargs)
                   = Ok (PDict (pairs (bound_of c kw)))).
      { unfold PyOpsVersioned.py_delitem. cbn [py_hashable']. unfold dict_has.
        rewrite dict_get_app_last by exact Hb. rewrite dict_del_app_last by exact Hb. reflexivity. }
      rewrite H3. reflexivity.
  Qed.

  Lemma internal_store c n v s :
    internal n = true -> instantiated s = false ->
    w_setattr (MW c) (PStr n) v s = (alist_set s n v, inl tt).
  Proof.
    intros Hn Hi. cbn [w_setattr MW model_world]. unfold model_setattr. rewrite Hn, Hi, andb_false_r. reflexivity.
  Qed.

  Lemma dflt_sound kw : forall fs p, In p (dflt kw fs) ->
      exists fd, In fd fs /\ fd_name fd = fst p /\ fd_default fd = Some (snd p).
  Proof.
    induction fs as [|d t IH]; intros p Hp; [destruct Hp|].
    cbn [dflt flat_map] in Hp. fold (dflt kw t) in Hp. apply in_app_or in Hp. destruct Hp as [Hp|Hp].
    - destruct (fd_default d) as [x|] eqn:Ed; [|destruct Hp].
      destruct (alist_has kw (fd_name d)); [destruct Hp|].
      destruct Hp as [<-|[]]. exists d. cbn [fst snd]. auto using in_eq.
    - destruct (IH p Hp) as [fd [H1 H2]]. exists fd. split; [right; exact H1 | exact H2].
  Qed.

  Lemma ff_flag c ff s :
    (t47 <~ Structure__failing_fast (init_heap c ff) (MW c) ;; ret (py_truthy t47)) s = (s, inl ff).
  Proof. destruct ff; reflexivity. Qed.

  Lemma validate_step c s :
    w_call (MW c) (s2p "__validate__") [] s =
    if hook_ok (c_hook c) (public s) then (s, inl PNone) else (s, inr (mk_exc ValueError hook_msg)).
  Proof. reflexivity. Qed.

  (* what the regular branch does after Signature.bind and the extra keyword arguments, in fail-fast mode *)
  Definition field_facts (c : classdef) : Prop :=
    forallb (fun fd => plain (fd_name fd) && negb (pystr_eqb (fd_name fd) n_kwargs) &&
                       match fd_default fd with Some PNone => false | _ => true end) (c_fields c) = true /\
    has_dup (field_names c) = false.

  Lemma defaults_plain c kw : field_facts c -> names_plain (defaults_of c kw) = true.
  Proof.
    intros [Hfs _]. unfold names_plain. apply forallb_forall. intros p Hp.
    destruct (dflt_sound kw (c_fields c) p Hp) as [fd [H1 [H2 _]]].
    pose proof (proj1 (forallb_forall _ _) Hfs fd H1) as Hq. cbv beta in Hq.
    apply andb_true_iff in Hq. destruct Hq as [Hq _]. apply andb_true_iff in Hq. destruct Hq as [Hq _].
    rewrite <- H2. exact Hq.
  Qed.

  Theorem generated_init_is_construct : forall c kw,
      init_dom c kw = true -> sig_order (bound_of c kw) = bound_of c kw ->
      view c (Structure__init (init_heap c true) (MW c) (PTuple []) (kw_dict kw) []) = Instance.construct re_match e c kw.
  Proof.
    intros c kw Hdom Hord.
    unfold init_dom in Hdom. apply andb_true_iff in Hdom. destruct Hdom as [Hdom Hnd].
    apply andb_true_iff in Hdom. destruct Hdom as [Hkw Hfs]. apply negb_true_iff in Hnd.
    destruct (dom_names c kw Hkw) as [Hex [Hbn Hbu]].
    assert (FF : field_facts c) by (split; assumption).
    unfold Structure__init, Instance.construct.
    rewrite (bindM_ok _ _ [] [] false eq_refl).
    unfold bindM at 1. unfold tryM at 1. rewrite bind_result. rewrite (model_bind_cases c kw Hord).
    destruct (has_dup (map fst kw)); [reflexivity|].
    destruct (bind_ok c kw); cbn [negb]; [|reflexivity].
    unfold bindM at 1. rewrite extras_phase.
    2:{ apply bound_no_kwargs. apply forallb_forall. intros fd Hfd.
        pose proof (proj1 (forallb_forall _ _) Hfs fd Hfd) as Hq. cbv beta in Hq.
        apply andb_true_iff in Hq. destruct Hq as [Hq _]. apply andb_true_iff in Hq. tauto. }
    (* the extra keyword arguments *)
    change (filter (fun p => negb (str_in (fst p) (field_names c))) kw) with (extras_of c kw).
    change (filter (fun p => str_in (fst p) (field_names c)) kw) with (bound_of c kw).
    pose proof (run_sets_set_all c (extras_of c kw) [] Hex eq_refl eq_refl) as R0.
    change (public []) with (@nil (pystr * pyval)) in R0.
    destruct (set_all re_match e c [] (extras_of c kw)) as [a0|x0].
    2:{ destruct R0 as [s1 [m R1]]. rewrite R1. reflexivity. }
    destruct R0 as [s1 [R1 [R2 [R3 [R4 _]]]]]. rewrite R1. cbv beta iota. cbn [bind].
    (* the names of the fields that take their default *)
    rewrite (bindM_ok _ _ _ _ _ (self_gafbn c true s1 R3)).
    rewrite (bindM_ok _ _ s1 s1 (fpairs (c_fields c)) eq_refl).
    assert (HD : forall fd, In fd (c_fields c) ->
              find_field (c_fields c) (fd_name fd) = Some fd /\ fd_default fd <> Some PNone /\
              py_in_dyn (PStr (fd_name fd)) (PDict (pairs (bound_of c kw))) = Ok (alist_has kw (fd_name fd))).
    { intros fd Hfd. split; [apply find_field_in; assumption|]. split.
      - pose proof (proj1 (forallb_forall _ _) Hfs fd Hfd) as Hq. cbv beta in Hq.
        apply andb_true_iff in Hq. destruct Hq as [_ Hq]. intro E. rewrite E in Hq. discriminate Hq.
      - rewrite in_pairs, has_bound, (str_in_field c fd Hfd). reflexivity. }
    rewrite (bindM_ok _ _ s1 s1 _ (comp_defaults c true kw (PDict (pairs (bound_of c kw))) (c_fields c) s1 HD)).
    change (dflt kw (c_fields c)) with (defaults_of c kw).
    (* _none_fields *)
    rewrite (bindM_ok _ _ _ _ _ (internal_store c n_none_fields (PSet false []) s1 eq_refl R4)).
    set (s2 := alist_set s1 n_none_fields (PSet false [])).
    assert (K2 : keys_ok s2 = true) by (apply keys_ok_set; [exact R3 | reflexivity]).
    assert (I2 : instantiated s2 = false) by (unfold s2; rewrite instantiated_set; [exact R4 | reflexivity]).
    assert (P2 : public s2 = a0) by (unfold s2; rewrite public_set_internal; [exact R2 | reflexivity]).
    (* no constants *)
    rewrite (bindM_ok _ _ _ _ _ (self_constants c true s2 K2)).
    rewrite (bindM_ok _ _ s2 s2 (@nil (pyval * pyval)) eq_refl).
    rewrite (bindM_ok _ _ s2 s2 tt eq_refl).
    (* the defaults *)
    unfold bindM at 1. rewrite set_defaults_run.
    2:{ intros p Hp. destruct (dflt_sound kw (c_fields c) p Hp) as [fd [H1 [H2 H3]]].
        exists fd. rewrite <- H2. split; [apply find_field_in; assumption | exact H3]. }
    pose proof (run_sets_set_all c (defaults_of c kw) s2 (defaults_plain c kw FF) K2 I2) as RD. rewrite P2 in RD.
    destruct (set_all re_match e c a0 (defaults_of c kw)) as [a1|x1].
    2:{ destruct RD as [s3 [m RD1]]. rewrite RD1. reflexivity. }
    destruct RD as [s3 [RD1 [RD2 [RD3 [RD4 _]]]]]. rewrite RD1. cbv beta iota. cbn [bind].
    (* fail-fast assignment of the bound arguments *)
    rewrite bindM_assoc. rewrite (bindM_ok _ _ s3 s3 true (ff_flag c true s3)). cbv beta iota.
    rewrite bindM_assoc. rewrite (bindM_ok _ _ s3 s3 (pairs (bound_of c kw)) eq_refl).
    rewrite bindM_assoc. unfold bindM at 1.
    change (for_acc _ (pairs (bound_of c kw)) tt s3) with (for_acc (ff_body c (init_heap c true)) (pairs (bound_of c kw)) tt s3).
    rewrite (ff_loop c true (bound_of c kw) s3 Hbn Hbu (conj RD3 RD4)).
    pose proof (run_sets_set_all c (bound_of c kw) s3 Hbn RD3 RD4) as RB. rewrite RD2 in RB.
    destruct (set_all re_match e c a1 (bound_of c kw)) as [a2|x2].
    2:{ destruct RB as [s4 [m RB1]]. rewrite RB1. cbv beta iota. cbn [view]. rewrite rewrap_cls. reflexivity. }
    destruct RB as [s4 [RB1 [RB2 [RB3 [RB4 _]]]]]. rewrite RB1. cbv beta iota. cbn [bind].
    (* __validate__, _instantiated, no uniqueness bookkeeping, super().__init__() *)
    rewrite (bindM_ok _ _ s4 s4 tt eq_refl).
    unfold bindM at 1. rewrite validate_step. rewrite RB2.
    destruct (hook_ok (c_hook c) a2); [|reflexivity].
    rewrite (bindM_ok _ _ _ _ _ (internal_store c n_instantiated (PBool true) s4 eq_refl RB4)).
    rewrite (bindM_ok _ _ _ _ tt eq_refl).
    rewrite (bindM_ok _ _ _ _ PNone eq_refl).
    cbn [ret view]. rewrite public_set_internal by reflexivity. rewrite RB2. reflexivity.
  Qed.
End Bridge.

(* ------------------------------------------------------------------ the side conditions are satisfiable; the order matters *)
Definition ex_cls : classdef :=
  {| c_name := s2p "Foo"; c_ancestors := [];
     c_fields := [ {| fd_name := s2p "a"; fd_field := FNumber KInteger SAny no_numc; fd_immutable := false; fd_default := None |};
                   {| fd_name := s2p "b"; fd_field := FNumber KInteger SPositive no_numc; fd_immutable := false; fd_default := None |};
                   {| fd_name := s2p "d"; fd_field := FNumber KFloat SAny no_numc; fd_immutable := false;
                      fd_default := Some (PNum (NInt 2)) |} ];
     c_required := [s2p "a"; s2p "b"]; c_additional := true; c_ignore_none := false; c_immutable := false;
     c_hook := HookLe (s2p "a") (s2p "b") |}.
Definition ex_good : kwargs := [(s2p "a", PNum (NInt 1)); (s2p "extra", PStr (s2p "x")); (s2p "b", PNum (NInt 2))].
Definition ex_bad : kwargs := [(s2p "b", PNum (NInt (-1))); (s2p "a", PStr (s2p "x"))].
Definition ex_world (ord : kwargs -> kwargs) : world :=
  model_world (fun _ _ => true) [ex_cls] (fun _ _ _ => []) [] [] (fun x => x) (fun _ => []) ord ex_cls.
Definition ex_run (ord : kwargs -> kwargs) (kw : kwargs) : res pyval :=
  view ex_cls (Structure__init (init_heap ex_cls true) (ex_world ord) (PTuple []) (kw_dict kw) []).

Example init_dom_satisfiable :
  init_dom ex_cls ex_good = true /\ init_dom ex_cls ex_bad = true /\
  ex_run (fun x => x) ex_good =
    Ok (PStruct (s2p "Foo") [(s2p "extra", PStr (s2p "x")); (s2p "d", PNum (NFlt 1 1)); (s2p "a", PNum (NInt 1)); (s2p "b", PNum (NInt 2))]) /\
  ex_run (fun x => x) ex_bad = Raise ValueError.
Proof. repeat split; vm_compute; reflexivity. Qed.

(* DISAGREEMENT between the hand model and the source: [construct] assigns the declared keywords in the order the
   CALLER wrote them, Structure.__init__ in the order of the signature's parameters (make_signature builds the required
   parameters from a Python set: the order changes with PYTHONHASHSEED).  Foo(b=-1, a='x') with the signature (a, b):
   the source raises TypeError (Foo.a), [construct] ValueError (Foo.b); typedpy follows the source. *)
Example order_disagreement :
  ex_run (@rev _) ex_bad = Raise TypeError /\
  Instance.construct (fun _ _ => true) [ex_cls] ex_cls ex_bad = Raise ValueError.
Proof. split; vm_compute; reflexivity. Qed.

Print Assumptions generated_init_is_construct.
Print Assumptions model_setattr_is_source.
Print Assumptions ff_body_skips_undefined.
Print Assumptions ff_loop.
Print Assumptions set_defaults_run.
Print Assumptions init_dom_satisfiable.
Print Assumptions order_disagreement.
