(* How the entry-point model of Struct/Entry.v is seen by the GENERATED entry points (Gen/EntrySrc.v):
   the current instance [PStruct (c_name cd) a] is `self` (its __dict__ is the state of the monad, with the
   bookkeeping entries `_instantiated`, `_none_fields`), classes are objects "class:<name>" of the heap, and
   `C( **kwargs)` ([w_new]) IS the validating constructor [construct] of Struct/Instance.v.  No proofs here. *)
From Coq Require Import ZArith QArith NArith String Ascii Bool Lia List.
Import ListNotations.
From TP Require Import Base.PyVal Base.PyOps Base.PyOps2 Base.PyObj Base.PyOpsInit
     Fields.FieldAst Fields.SetChain Struct.Shapes Struct.Instance Struct.Entry Struct.InitModel.
Local Open Scope Z_scope.

Definition cobj (n : pystr) : pystr := s2p "class:" ++ n.
Definition un_cobj (o : pystr) : option pystr :=
  match o with
  | 99%N :: 108%N :: 97%N :: 115%N :: 115%N :: 58%N :: n => Some n
  | _ => None
  end.
Definition un_rel (a : pystr) : option (bool * pystr) :=        (* "issubclass:<x>" -> (true, x); "isinstance:<x>" -> (false, x) *)
  match a with
  | 105%N :: 115%N :: 115%N :: 117%N :: 98%N :: 99%N :: 108%N :: 97%N :: 115%N :: 115%N :: 58%N :: x => Some (true, x)
  | 105%N :: 115%N :: 105%N :: 110%N :: 115%N :: 116%N :: 97%N :: 110%N :: 99%N :: 101%N :: 58%N :: x => Some (false, x)
  | _ => None
  end.

(* the instance __dict__ of a constructed instance with public attributes a *)
Definition inst_state (a : attrs) : istate :=
  a ++ [(n_none_fields, PSet false []); (n_instantiated, PBool true)].

Section View.
  Variable re_match : N -> pystr -> bool.
  Variable e : env.

  (* what class X answers to issubclass(X, <object named b>) *)
  Definition sub_answer (x : classdef) (b : pystr) : option pyval :=
    if pystr_eqb b (s2p "Structure") then Some (PBool true)
    else if pystr_eqb b (s2p "ImmutableStructure") then Some (PBool (c_immutable x))
    else match un_cobj b with
         | Some y => Some (PBool (is_instance_of e (c_name x) y))
         | None => None
         end.

  Definition class_attr (x : classdef) (a : pystr) : option pyval :=
    if pystr_eqb a (s2p "__name__") then Some (PStr (c_name x))
    else if pystr_eqb a (s2p "get_all_fields_by_name()") then Some (fields_map x)
    else match un_rel a with
         | Some (true, b) => sub_answer x b
         | _ => None
         end.

  (* cd: the class of `self`; ct: the other class the entry point is given *)
  Definition entry_heap (cd ct : classdef) : heap :=
    fun o a =>
      if pystr_eqb o (s2p "self") then
        if pystr_eqb a (s2p "__class__") then Some (ref (cobj (c_name cd)))
        else if pystr_eqb a (s2p "get_all_fields_by_name()") then Some (fields_map cd)
        else match un_rel a with
             | Some (false, b) =>
                 match un_cobj b with
                 | Some y => Some (PBool (is_instance_of e (c_name cd) y))
                 | None => None
                 end
             | Some (true, _) => None
             | None =>
                 (* a declared field without an entry in __dict__: Field.__get__ hands out the default *)
                 match find_field (c_fields cd) a with
                 | Some fd => Some (match fd_default fd with Some d => d | None => PNone end)
                 | None => None
                 end
             end
      else match un_cobj o with
           | Some n => if pystr_eqb n (c_name ct) then class_attr ct a
                       else if pystr_eqb n (c_name cd) then class_attr cd a
                       else None
           | None => None
           end.

  (* C( **kwargs) is the validating constructor of the class the object C stands for *)
  Definition ctor_new (cd ct : classdef) (cls args kwargs : pyval) : M pyval :=
    match cls, args, kwargs with
    | POther t o, PTuple [], PDict kv =>
        if pystr_eqb t ref_tag then
          match un_cobj o, kwargs_of kv with
          | Some n, Some kw =>
              if pystr_eqb n (c_name ct) then lift (construct re_match e ct kw)
              else if pystr_eqb n (c_name cd) then lift (construct re_match e cd kw)
              else raiseM (mk_exc Unmodelled [])
          | _, _ => raiseM (mk_exc Unmodelled [])
          end
        else raiseM (mk_exc Unmodelled [])
    | _, _, _ => raiseM (mk_exc Unmodelled [])
    end.

  Definition entry_world (cd ct : classdef) : world :=
    {| w_bind := fun _ _ _ => raiseM (mk_exc Unmodelled []);
       w_setattr := fun _ _ => raiseM (mk_exc Unmodelled []);
       w_call := fun _ _ => raiseM (mk_exc Unmodelled []);
       w_super := fun _ _ => raiseM (mk_exc Unmodelled []);
       w_invoke := fun _ _ _ => raiseM (mk_exc Unmodelled []);
       w_apply := fun _ _ => raiseM (mk_exc Unmodelled []);
       w_callable := fun _ => false;
       w_repr_str := fun x => x;
       w_json_dumps := fun _ => [];
       w_new := ctor_new cd ct |}.

  (* what the caller of the entry point observes: the instance returned, or the class of the exception *)
  Definition entry_view (r : istate * (pyval + pyexc)) : res pyval :=
    match r with (_, inl v) => Ok v | (_, inr x) => Raise (x_cls x) end.
End View.

(* the domain of the bridging theorems about an instance of cd with attributes a *)
Definition attr_name_ok (n : pystr) : bool :=
  plain n && negb (pystr_eqb n (s2p "get_all_fields_by_name()")) &&
  match un_rel n with Some _ => false | None => true end.

Definition inst_dom (cd : classdef) (a : attrs) : bool :=
  forallb (fun p => attr_name_ok (fst p) && negb (undefined_ref (snd p))) a &&
  forallb (fun fd => attr_name_ok (fd_name fd) &&
                     match fd_default fd with Some d => negb (undefined_ref d) | None => true end) (c_fields cd) &&
  negb (has_dup (field_names cd)).
