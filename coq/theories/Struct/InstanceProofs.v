(* Soundness of the validating entry points (property C01):
   - field level: the value a __set__ chain stores conforms to the documented rules of its
     declaration ([vset f v = Ok nf -> conf f nf]) on the statement's domain;
   - instance level: what the keyword constructor returns satisfies [struct_ok];
   - every entry point of Struct/Entry.v, and every chain of them, yields valid instances. *)
From Coq Require Import ZArith QArith Lqa NArith String Ascii Bool Lia List.
Import ListNotations.
From TP Require Import Base.PyVal Fields.FieldAst Fields.SetChain Fields.Doc Fields.Domain
  Fields.SetChainProofs Struct.Shapes Struct.Instance Struct.Entry.
Local Open Scope Z_scope.
Arguments lenZ : simpl never.

(* ------------------------------------------------------------------ generic list facts *)

Lemma all_some_Forall2 {A B} (h : A -> option B) l : forall r,
    all_some (map h l) = Some r -> Forall2 (fun x y => h x = Some y) l r.
Proof.
  induction l as [|x t IH]; simpl; intros r H.
  - inversion H. constructor.
  - destruct (h x) as [y|] eqn:Ex; [|discriminate].
    destruct (all_some (map h t)) as [r0|]; [|discriminate].
    inversion H; subst. constructor; auto.
Qed.

Lemma Forall2_length' {A B} (R : A -> B -> Prop) l r : Forall2 R l r -> length r = length l.
Proof. induction 1; simpl; congruence. Qed.

Lemma all_some_total {A B} (h : A -> option B) l :
  (forall x, In x l -> exists y, h x = Some y) -> exists r, all_some (map h l) = Some r.
Proof.
  induction l as [|x t IH]; simpl; intro H; [eauto|].
  destruct (H x (or_introl eq_refl)) as [y Ey]. rewrite Ey.
  destruct IH as [r Er]; [intros; apply H; auto|]. rewrite Er. eauto.
Qed.

Lemma forallb_In {A} (p : A -> bool) l x : forallb p l = true -> In x l -> p x = true.
Proof. intros H I. rewrite forallb_forall in H. auto. Qed.

Lemma forallb_filter {A} (p q : A -> bool) l : forallb p l = true -> forallb p (filter q l) = true.
Proof.
  intro H. apply forallb_forall. intros x I. apply filter_In in I as [I _].
  eapply forallb_In; eauto.
Qed.

Lemma first_some_In {A B} (h : A -> option B) l y :
  first_some (map h l) = Some y -> exists x, In x l /\ h x = Some y.
Proof.
  induction l as [|x t IH]; simpl; [discriminate|].
  destruct (h x) as [z|] eqn:E.
  - intro H. inversion H; subst. eauto.
  - intro H. destruct (IH H) as [x' [I E']]. eauto.
Qed.

Lemma first_some_exists {A B} (h : A -> option B) l x y :
  In x l -> h x = Some y -> exists z, first_some (map h l) = Some z.
Proof.
  induction l as [|x0 t IH]; simpl; [contradiction|].
  intros [->|I] E.
  - rewrite E. eauto.
  - destruct (h x0); eauto.
Qed.

(* py_dedup only keeps elements of its input *)
Lemma py_dedup_aux_In seen l x : In x (py_dedup_aux seen l) -> In x seen \/ In x l.
Proof.
  revert seen. induction l as [|y t IH]; simpl; intros seen H.
  - left. apply in_rev. exact H.
  - destruct (py_in y seen).
    + destruct (IH _ H); auto.
    + destruct (IH _ H) as [[->|I]|I]; auto.
Qed.

Lemma py_dedup_In l x : In x (py_dedup l) -> In x l.
Proof. intro H. destruct (py_dedup_aux_In [] l x H) as [[]|]; assumption. Qed.

(* dict_set / dict_of_pairs keep keys among the keys and values among the values *)
Lemma dict_set_Forall (Pk Pv : pyval -> Prop) kv k v :
  Forall (fun p => Pk (fst p) /\ Pv (snd p)) kv -> Pk k -> Pv v ->
  Forall (fun p => Pk (fst p) /\ Pv (snd p)) (dict_set kv k v).
Proof.
  induction 1 as [|[k' v'] t [Hk Hv] Ht IH]; simpl; intros Pk0 Pv0.
  - constructor; auto.
  - destruct (py_eq k' k); constructor; simpl in *; auto.
Qed.

Lemma dict_of_pairs_Forall (Pk Pv : pyval -> Prop) l : forall acc,
  Forall (fun p => Pk (fst p) /\ Pv (snd p)) acc ->
  Forall (fun p => Pk (fst p) /\ Pv (snd p)) l ->
  Forall (fun p => Pk (fst p) /\ Pv (snd p)) (dict_of_pairs acc l).
Proof.
  induction l as [|[k v] t IH]; simpl; intros acc Ha Hl; [exact Ha|].
  inversion Hl as [|? ? [Hk Hv] Ht]; subst. simpl in *.
  apply IH; [apply dict_set_Forall; auto | exact Ht].
Qed.

Lemma seq_items_make k v l : seq_items k v = Some l -> v = seq_make k l.
Proof. destruct k, v; simpl; intro H; try discriminate; inversion H; reflexivity. Qed.

Lemma seq_items_of_make k l : seq_items k (seq_make k l) = Some l.
Proof. destruct k; reflexivity. Qed.

Lemma lenZ_eq {A B} (l : list A) (r : list B) : length r = length l -> lenZ r = lenZ l.
Proof. unfold lenZ. intro H. rewrite H. reflexivity. Qed.

(* ------------------------------------------------------------------ field level *)

Section Field.
  Variable re_match : N -> pystr -> bool.
  Variable e : env.

  Notation vset := (vset re_match e).
  Notation docb := (docb re_match e).
  Notation conf := (conf re_match e).
  Notation stable := (stable re_match e).

  Lemma conf_iff f v : conf f v = true <-> exists nf, docb f v = Some nf.
  Proof.
    unfold Entry.conf. destruct (docb f v); split; intro H; eauto; try discriminate.
    destruct H; discriminate.
  Qed.

  (* the normal form of a documented-valid value is itself documented-valid *)
  Definition Q (f : field) : Prop :=
    forall v nf, stable f v = true -> docb f v = Some nf -> conf f nf = true.

  Lemma same_value f v nf : docb f v = Some nf -> nf = v -> conf f nf = true.
  Proof. intros H ->. apply conf_iff. eauto. Qed.

  Lemma elements_conf g l r :
    Q g -> forallb (stable g) l = true -> all_some (map (docb g) l) = Some r ->
    forall y, In y r -> conf g y = true.
  Proof.
    intros Hg Hs Ha. apply all_some_Forall2 in Ha.
    induction Ha as [|x y l' r' Hxy Hr IH]; intros z Hz; [contradiction|].
    simpl in Hs. apply andb_true_iff in Hs as [Hx Hs].
    destruct Hz as [<-|Hz]; [eapply Hg; eauto | apply IH; auto].
  Qed.

  Lemma conf_all g r :
    (forall y, In y r -> conf g y = true) -> exists r', all_some (map (docb g) r) = Some r'.
  Proof. intro H. apply all_some_total. intros x I. apply conf_iff. auto. Qed.

  (* positional items of Array/Deque *)
  Lemma pos_seq_conf fs : Forall Q fs -> forall l r,
      (fix pos (fs : list field) (vs : list pyval) {struct fs} : bool :=
         match fs, vs with
         | g :: fs', x :: vs' => stable g x && pos fs' vs'
         | _, _ => true
         end) fs l = true ->
      (fix pos (fs : list field) (vs : list pyval) {struct fs} : option (list pyval) :=
         match fs, vs with
         | [], _ => Some vs
         | _ :: _, [] => None
         | g :: fs', x :: vs' =>
             match docb g x, pos fs' vs' with
             | Some y, Some ys => Some (y :: ys)
             | _, _ => None
             end
         end) fs l = Some r ->
      length r = length l /\
      exists r',
        (fix pos (fs : list field) (vs : list pyval) {struct fs} : option (list pyval) :=
           match fs, vs with
           | [], _ => Some vs
           | _ :: _, [] => None
           | g :: fs', x :: vs' =>
               match docb g x, pos fs' vs' with
               | Some y, Some ys => Some (y :: ys)
               | _, _ => None
               end
           end) fs r = Some r'.
  Proof.
    induction 1 as [|g fs' Hg Hfs IH]; intros l r Hs Hp.
    - inversion Hp; subst. split; eauto.
    - destruct l as [|x vs']; [discriminate|].
      apply andb_true_iff in Hs as [Hx Hs].
      destruct (docb g x) as [y|] eqn:Ey; [|discriminate].
      match type of Hp with
      | match ?o with _ => _ end = _ => destruct o as [ys|] eqn:Eys; [|discriminate]
      end.
      inversion Hp; subst. destruct (IH _ _ Hs Eys) as [Hl [ys' Eys']].
      split; [simpl; congruence|].
      pose proof (Hg x y Hx Ey) as Cy. apply conf_iff in Cy as [y' Ey'].
      rewrite Ey', Eys'. eauto.
  Qed.

  (* positional items of a Tuple *)
  Lemma pos_tuple_conf fs : Forall Q fs -> forall l r,
      (fix pos (fs : list field) (vs : list pyval) {struct fs} : bool :=
         match fs, vs with
         | g :: fs', x :: vs' => stable g x && pos fs' vs'
         | _, _ => true
         end) fs l = true ->
      (fix pos (fs : list field) (vs : list pyval) {struct fs} : option (list pyval) :=
         match fs, vs with
         | [], _ => Some []
         | _ :: _, [] => None
         | g :: fs', x :: vs' =>
             match docb g x, pos fs' vs' with
             | Some y, Some ys => Some (y :: ys)
             | _, _ => None
             end
         end) fs l = Some r ->
      length r = length fs /\
      exists r',
        (fix pos (fs : list field) (vs : list pyval) {struct fs} : option (list pyval) :=
           match fs, vs with
           | [], _ => Some []
           | _ :: _, [] => None
           | g :: fs', x :: vs' =>
               match docb g x, pos fs' vs' with
               | Some y, Some ys => Some (y :: ys)
               | _, _ => None
               end
           end) fs r = Some r'.
  Proof.
    induction 1 as [|g fs' Hg Hfs IH]; intros l r Hs Hp.
    - inversion Hp; subst. split; eauto.
    - destruct l as [|x vs']; [discriminate|].
      apply andb_true_iff in Hs as [Hx Hs].
      destruct (docb g x) as [y|] eqn:Ey; [|discriminate].
      match type of Hp with
      | match ?o with _ => _ end = _ => destruct o as [ys|] eqn:Eys; [|discriminate]
      end.
      inversion Hp; subst. destruct (IH _ _ Hs Eys) as [Hl [ys' Eys']].
      split; [simpl; congruence|].
      pose proof (Hg x y Hx Ey) as Cy. apply conf_iff in Cy as [y' Ey'].
      rewrite Ey', Eys'. eauto.
  Qed.

  Theorem docb_normal_form_conforms : forall f, Q f.
  Proof.
    induction f using field_ind'; unfold Q; intros v nf Hs Hd.
    - (* FNumber *)
      cbn [Doc.docb] in Hd. destruct v as [| |n| | | | | | | | |]; try discriminate.
      apply conf_iff.
      destruct k; destruct n as [z|m ex|m ex]; cbv zeta iota in Hd; try discriminate;
        try (destruct (num_constraints_ok c _ && sign_ok s _) eqn:E; [|discriminate];
             inversion Hd; subst; cbn [Doc.docb]; cbv zeta iota; rewrite E; eauto; fail).
      (* Float given an int *)
      destruct (num_constraints_ok c (int_to_flt z) && sign_ok s (int_to_flt z)) eqn:E; [|discriminate].
      inversion Hd; subst. destruct (int_to_flt_inv z) as [m [e' Ef]]. rewrite Ef in *.
      cbn [Doc.docb]. cbv zeta iota. rewrite E. eauto.
    - (* FString *) apply (same_value _ v); [exact Hd|].
      cbn [Doc.docb] in Hd. destruct v; try discriminate.
      match type of Hd with (if ?b then _ else _) = _ => destruct b; [|discriminate] end.
      inversion Hd; reflexivity.
    - (* FBoolean *) cbn [Doc.docb] in Hd. destruct v; try discriminate.
      + inversion Hd; subst. reflexivity.
      + destruct (pystr_eqb s str_True); [inversion Hd; reflexivity|].
        destruct (pystr_eqb s str_False); [inversion Hd; reflexivity | discriminate].
    - (* FNone *) cbn [Doc.docb] in Hd. destruct v; try discriminate. inversion Hd; reflexivity.
    - (* FAnything *) reflexivity.
    - (* FEnumLit *) apply (same_value _ v); [exact Hd|].
      cbn [Doc.docb] in Hd. destruct (py_in v vs); [inversion Hd; reflexivity | discriminate].
    - (* FEnumCls *) cbn [Doc.docb] in Hd. destruct v; try discriminate.
      + destruct (alist_get ms s) as [x|] eqn:Ex; [|discriminate]. inversion Hd; subst.
        unfold Entry.conf. cbn [Doc.docb]. rewrite pystr_eqb_refl. unfold alist_has. rewrite Ex. reflexivity.
      + apply (same_value _ (PEnum cls name v)); [exact Hd|].
        destruct (pystr_eqb cls c && alist_has ms name); [inversion Hd; reflexivity | discriminate].
    - (* FSeqAny *) apply (same_value _ v); [exact Hd|].
      cbn [Doc.docb] in Hd. destruct (seq_items k v) as [l|] eqn:Es; [|discriminate].
      destruct (size_ok sz (lenZ l) && (negb u || py_unique l)); [|discriminate].
      inversion Hd. symmetry. apply seq_items_make. exact Es.
    - (* FSeqEach *)
      cbn [Doc.docb] in Hd. cbn [Entry.stable] in Hs.
      destruct (seq_items k v) as [l|] eqn:Es; [|discriminate].
      destruct (size_ok sz (lenZ l) && (negb u || py_unique l)) eqn:Ec; [|discriminate].
      destruct (all_some (map (docb f) l)) as [r|] eqn:Ea; [|discriminate].
      inversion Hd; subst. apply andb_true_iff in Hs as [Hs Hu].
      apply andb_true_iff in Ec as [Esz _].
      pose proof (Forall2_length' _ _ _ (all_some_Forall2 _ _ _ Ea)) as Hl.
      destruct (conf_all f r (elements_conf f l r IHf Hs Ea)) as [r' Er'].
      unfold Entry.conf. cbn [Doc.docb]. rewrite seq_items_of_make.
      rewrite (lenZ_eq l r Hl), Esz, Hu, Er'. reflexivity.
    - (* FSeqPos *)
      cbn [Entry.stable] in Hs.
      destruct (seq_items k v) as [l|] eqn:Es.
      2:{ cbn [Doc.docb] in Hd. rewrite Es in Hd. discriminate. }
      apply andb_true_iff in Hs as [Hs Hu]. rewrite Hd in Hu.
      cbn [Doc.docb] in Hd. rewrite Es in Hd.
      match type of Hd with (if ?b then _ else _) = _ => destruct b eqn:Ec; [|discriminate] end.
      match type of Hd with
      | match ?o with _ => _ end = _ => destruct o as [r|] eqn:Ep; [|discriminate]
      end.
      inversion Hd; subst. rewrite seq_items_of_make in Hu.
      destruct (pos_seq_conf fs H l r Hs Ep) as [Hl [r' Er']].
      unfold Entry.conf. cbn [Doc.docb]. rewrite seq_items_of_make.
      rewrite (lenZ_eq l r Hl).
      apply andb_true_iff in Ec as [Ec E4]. apply andb_true_iff in Ec as [Ec E3].
      apply andb_true_iff in Ec as [E1 _].
      rewrite E1, Hu, E3, E4. cbn [andb]. rewrite Er'. reflexivity.
    - (* FSet None *) cbn [Doc.docb] in Hd. destruct v; try discriminate.
      destruct (size_ok sz (lenZ l)) eqn:Esz; [|discriminate]. inversion Hd; subst.
      unfold Entry.conf. cbn [Doc.docb]. rewrite Esz. reflexivity.
    - (* FSet Some *) cbn [Doc.docb] in Hd. cbn [Entry.stable] in Hs. destruct v; try discriminate.
      destruct (size_ok sz (lenZ l)) eqn:Esz; [|discriminate].
      destruct (all_some (map (docb f) l)) as [r|] eqn:Ea; [|discriminate].
      inversion Hd; subst. apply andb_true_iff in Hs as [Hs Hsz].
      pose proof (elements_conf f l r IHf Hs Ea) as Hc.
      destruct (conf_all f (py_dedup r)) as [r' Er'].
      { intros y Hy. apply Hc. apply py_dedup_In. exact Hy. }
      unfold Entry.conf. cbn [Doc.docb]. rewrite Hsz, Er'. reflexivity.
    - (* FTuple *)
      cbn [Entry.stable] in Hs.
      destruct v; try (cbn [Doc.docb] in Hd; discriminate).
      apply andb_true_iff in Hs as [Hs Hu]. rewrite Hd in Hu.
      cbn [Doc.docb] in Hd.
      destruct (negb u || py_unique l) eqn:Eu; [|discriminate].
      destruct fs as [|g [|g2 rest]]; [discriminate| |].
      + (* homogeneous *)
        destruct (all_some (map (docb g) l)) as [r|] eqn:Ea; [|discriminate].
        inversion Hd; subst. inversion H; subst.
        destruct (conf_all g r (elements_conf g l r H2 Hs Ea)) as [r' Er'].
        unfold Entry.conf. cbn [Doc.docb]. rewrite Hu, Er'. reflexivity.
      + destruct (lenZ (g :: g2 :: rest) =? lenZ l) eqn:El; [|discriminate].
        match type of Hd with
        | match ?o with _ => _ end = _ => destruct o as [r|] eqn:Ep; [|discriminate]
        end.
        inversion Hd; subst.
        destruct (pos_tuple_conf (g :: g2 :: rest) H l r Hs Ep) as [Hl [r' Er']].
        unfold Entry.conf. cbn [Doc.docb]. rewrite Hu.
        assert (El' : lenZ (g :: g2 :: rest) =? lenZ r = true).
        { apply Z.eqb_eq. unfold lenZ. rewrite Hl. reflexivity. }
        rewrite El', Er'. reflexivity.
    - (* FMapAny *) apply (same_value _ v); [exact Hd|].
      cbn [Doc.docb] in Hd. destruct v; try discriminate.
      destruct (size_ok sz (lenZ kv)); [inversion Hd; reflexivity | discriminate].
    - (* FMapKV *)
      cbn [Entry.stable] in Hs. destruct v; try (cbn [Doc.docb] in Hd; discriminate).
      apply andb_true_iff in Hs as [Hs Hsz]. rewrite Hd in Hsz.
      cbn [Doc.docb] in Hd.
      destruct (size_ok sz (lenZ kv)) eqn:Esz; [|discriminate].
      match type of Hd with
      | match ?o with _ => _ end = _ => destruct o as [r|] eqn:Ea; [|discriminate]
      end.
      inversion Hd; subst.
      assert (Hr : Forall (fun p => conf f1 (fst p) = true /\ conf f2 (snd p) = true) r).
      { apply all_some_Forall2 in Ea. clear Hd Hsz Esz.
        induction Ea as [|p q kv' r' Hpq Hr IH]; constructor.
        - simpl in Hs. apply andb_true_iff in Hs as [Hp _]. apply andb_true_iff in Hp as [Hk Hv].
          destruct (docb f1 (fst p)) as [k'|] eqn:Ek; [|discriminate].
          destruct (docb f2 (snd p)) as [v'|] eqn:Ev; [|discriminate].
          inversion Hpq; subst. simpl. split; [eapply IHf1 | eapply IHf2]; eauto.
        - apply IH. simpl in Hs. apply andb_true_iff in Hs as [_ Hs]. exact Hs. }
      pose proof (dict_of_pairs_Forall (fun k => conf f1 k = true) (fun x => conf f2 x = true)
                    r [] (Forall_nil _) Hr) as Hd'.
      destruct (all_some_total (fun p => match docb f1 (fst p), docb f2 (snd p) with
                                         | Some k', Some v' => Some (k', v')
                                         | _, _ => None
                                         end) (dict_of_pairs [] r)) as [r' Er'].
      { intros p Hp. rewrite Forall_forall in Hd'. destruct (Hd' p Hp) as [Ck Cv].
        apply conf_iff in Ck as [k' Ek]. apply conf_iff in Cv as [v' Ev].
        rewrite Ek, Ev. eauto. }
      unfold Entry.conf. cbn [Doc.docb]. rewrite Hsz, Er'. reflexivity.
    - (* FAllOf *) apply (same_value _ v); [exact Hd|].
      cbn [Doc.docb] in Hd.
      match type of Hd with (if ?b then _ else _) = _ => destruct b; [|discriminate] end.
      inversion Hd; reflexivity.
    - (* FAnyOf *)
      cbn [Doc.docb] in Hd. cbn [Entry.stable] in Hs.
      destruct (first_some_In (fun g => docb g v) fs nf Hd) as [g [Ig Eg]].
      rewrite Forall_forall in H. pose proof (H g Ig v nf (forallb_In _ _ _ Hs Ig) Eg) as Cg.
      apply conf_iff in Cg as [y Ey].
      destruct (first_some_exists (fun g => docb g nf) fs g y Ig Ey) as [z Ez].
      unfold Entry.conf. cbn [Doc.docb]. rewrite Ez. reflexivity.
    - (* FOneOf *) apply (same_value _ v); [exact Hd|].
      cbn [Doc.docb] in Hd.
      match type of Hd with (if ?b then _ else _) = _ => destruct b; [|discriminate] end.
      inversion Hd; reflexivity.
    - (* FNot *) apply (same_value _ v); [exact Hd|].
      cbn [Doc.docb] in Hd.
      match type of Hd with (if ?b then _ else _) = _ => destruct b; [discriminate|] end.
      inversion Hd; reflexivity.
    - (* FClassRef *) apply (same_value _ v); [exact Hd|].
      cbn [Doc.docb] in Hd. destruct v; try discriminate.
      destruct (is_instance_of e cls c); [inversion Hd; reflexivity | discriminate].
  Qed.

  (* C01, field level: what a __set__ chain stores conforms to the declaration *)
  Theorem vset_sound f v nf :
    dom f v = true -> stable f v = true -> vset f v = Ok nf -> conf f nf = true.
  Proof.
    intros Hd Hs Hv. apply (vset_decision re_match e f v nf Hd) in Hv.
    exact (docb_normal_form_conforms f v nf Hs Hv).
  Qed.
End Field.

(* ------------------------------------------------------------------ association lists *)

Lemma str_in_In x l : In x l -> str_in x l = true.
Proof.
  unfold str_in. intro H. apply existsb_exists. exists x. split; [exact H | apply pystr_eqb_refl].
Qed.

Lemma str_in_true x l : str_in x l = true -> In x l.
Proof.
  unfold str_in. intro H. apply existsb_exists in H as [y [I E]].
  apply pystr_eqb_spec in E. subst. exact I.
Qed.

Lemma alist_has_set {A} (a : list (pystr * A)) m v n :
  alist_has (alist_set a m v) n = alist_has a n || pystr_eqb m n.
Proof.
  unfold alist_has. induction a as [|[k x] t IH]; simpl.
  - destruct (pystr_eqb m n); reflexivity.
  - destruct (pystr_eqb k m) eqn:Ekm; simpl.
    + apply pystr_eqb_spec in Ekm. subst k.
      destruct (pystr_eqb m n); simpl; [reflexivity|]. destruct (alist_get t n); reflexivity.
    + destruct (pystr_eqb k n); simpl; [reflexivity | exact IH].
Qed.

Lemma str_in_alist_set {A} (t : list (pystr * A)) n v x :
  str_in x (map fst (alist_set t n v)) = str_in x (map fst t) || pystr_eqb x n.
Proof.
  unfold str_in. induction t as [|[k y] t IH]; simpl.
  - rewrite orb_false_r. reflexivity.
  - destruct (pystr_eqb k n) eqn:Ekn; simpl.
    + apply pystr_eqb_spec in Ekn. subst k.
      destruct (pystr_eqb x n); simpl; [reflexivity|]. rewrite orb_false_r. reflexivity.
    + rewrite IH. rewrite orb_assoc. reflexivity.
Qed.

Lemma has_dup_alist_set {A} (a : list (pystr * A)) n v :
  has_dup (map fst a) = false -> has_dup (map fst (alist_set a n v)) = false.
Proof.
  induction a as [|[k y] t IH]; simpl; intro H; [reflexivity|].
  apply orb_false_iff in H as [H1 H2].
  destruct (pystr_eqb k n) eqn:Ekn; simpl.
  - rewrite H1, H2. reflexivity.
  - rewrite str_in_alist_set, H1, Ekn, (IH H2). reflexivity.
Qed.

Lemma alist_get_filter {A} (q : pystr -> bool) (l : list (pystr * A)) k :
  alist_get (filter (fun p => q (fst p)) l) k = if q k then alist_get l k else None.
Proof.
  induction l as [|[k' v] t IH]; simpl.
  - destruct (q k); reflexivity.
  - destruct (q k') eqn:Eq; simpl.
    + destruct (pystr_eqb k' k) eqn:Ek.
      * apply pystr_eqb_spec in Ek. subst. rewrite Eq. reflexivity.
      * exact IH.
    + destruct (pystr_eqb k' k) eqn:Ek.
      * apply pystr_eqb_spec in Ek. subst. rewrite Eq in *. exact IH.
      * exact IH.
Qed.

Lemma str_in_filter {A} (q : pystr * A -> bool) (a : list (pystr * A)) x :
  str_in x (map fst (filter q a)) = true -> str_in x (map fst a) = true.
Proof.
  intro H. apply str_in_true in H. apply str_in_In.
  apply in_map_iff in H as [p [E I]]. apply filter_In in I as [I _].
  apply in_map_iff. eauto.
Qed.

Lemma has_dup_filter {A} (q : pystr * A -> bool) (a : list (pystr * A)) :
  has_dup (map fst a) = false -> has_dup (map fst (filter q a)) = false.
Proof.
  induction a as [|[k y] t IH]; simpl; intro H; [reflexivity|].
  apply orb_false_iff in H as [H1 H2].
  destruct (q (k, y)); simpl; [|auto].
  rewrite (IH H2), orb_false_r.
  destruct (str_in k (map fst (filter q t))) eqn:E; [|reflexivity].
  apply str_in_filter in E. congruence.
Qed.

Lemma find_class_name e n c : find_class e n = Some c -> c_name c = n.
Proof.
  induction e as [|c0 t IH]; simpl; [discriminate|].
  destruct (pystr_eqb (c_name c0) n) eqn:E.
  - intro H. inversion H; subst. apply pystr_eqb_spec. exact E.
  - exact IH.
Qed.

Lemma find_class_self e n c : find_class e n = Some c -> find_class e (c_name c) = Some c.
Proof. intro H. rewrite (find_class_name e n c H). exact H. Qed.

(* ------------------------------------------------------------------ instance level *)

Section Instance.
  Variable re_match : N -> pystr -> bool.
  Variable e : env.

  Notation vset := (vset re_match e).
  Notation docb := (docb re_match e).
  Notation conf := (conf re_match e).
  Notation stable := (stable re_match e).
  Notation setattr := (setattr re_match e).
  Notation set_all := (set_all re_match e).
  Notation construct := (construct re_match e).
  Notation struct_ok := (struct_ok re_match e).
  Notation arg_ok := (arg_ok re_match e).
  Notation kw_ok := (kw_ok re_match e).
  Notation defaults_ok := (defaults_ok re_match e).
  Notation inst_ok := (inst_ok re_match e).
  Notation run_entry := (run_entry re_match e).
  Notation run_chain := (run_chain re_match e).
  Notation entry_dom := (entry_dom re_match e).
  Notation chain_dom := (chain_dom re_match e).
  Notation entry_plan := (entry_plan e).

  (* one stored attribute is acceptable for class c *)
  Definition attr_ok (c : classdef) (p : pystr * pyval) : bool :=
    match find_field (c_fields c) (fst p) with
    | Some fd => conf (fd_field fd) (snd p)
    | None => c_additional c
    end.

  Definition Inv (c : classdef) (a : attrs) : Prop :=
    forallb (attr_ok c) a = true /\ has_dup (map fst a) = false.

  Lemma struct_ok_split c a :
    struct_ok c a =
    forallb (fun r => alist_has a r) (c_required c) && forallb (attr_ok c) a &&
    negb (has_dup (map fst a)) && hook_ok (c_hook c) a.
  Proof. reflexivity. Qed.

  Lemma Inv_nil c : Inv c [].
  Proof. split; reflexivity. Qed.

  Lemma Inv_set c a n v : Inv c a -> attr_ok c (n, v) = true -> Inv c (alist_set a n v).
  Proof.
    intros [Ha Hd] Hv. split; [|apply has_dup_alist_set; exact Hd].
    clear Hd. induction a as [|[k y] t IH]; simpl in *.
    - rewrite Hv. reflexivity.
    - apply andb_true_iff in Ha as [H1 H2].
      destruct (pystr_eqb k n) eqn:Ekn; simpl.
      + apply pystr_eqb_spec in Ekn. subst k. rewrite Hv, H2. reflexivity.
      + rewrite H1, (IH H2). reflexivity.
  Qed.

  Lemma setattr_Inv c a n v a' :
    setattr c false a n v = (a', Done) -> Inv c a -> arg_ok c (n, v) = true -> Inv c a'.
  Proof.
    unfold Instance.setattr, Entry.arg_ok. rewrite andb_false_r. cbn [fst snd].
    intros H HI Harg.
    destruct (find_field (c_fields c) n) as [fd|] eqn:Ef.
    - destruct (c_ignore_none c && is_none_val v && negb (is_required c n)).
      + inversion H; subst. exact HI.
      + destruct (vset (fd_field fd) v) as [nf|x] eqn:Ev; [|discriminate].
        destruct (fd_immutable fd && alist_has a n); [discriminate|].
        cbn [andb] in H. inversion H; subst.
        apply Inv_set; [exact HI|]. unfold attr_ok. cbn [fst snd]. rewrite Ef.
        apply andb_true_iff in Harg as [Hd Hs].
        exact (vset_sound re_match e _ _ _ Hd Hs Ev).
    - destruct (c_additional c) eqn:Ea; [|discriminate].
      destruct (c_ignore_none c && is_none_val v && negb (is_required c n)).
      + inversion H; subst. exact HI.
      + inversion H; subst. apply Inv_set; [exact HI|].
        unfold attr_ok. cbn [fst]. rewrite Ef. exact Ea.
  Qed.

  Lemma setattr_mono c a n v a' m :
    setattr c false a n v = (a', Done) -> alist_has a m = true -> alist_has a' m = true.
  Proof.
    unfold Instance.setattr. rewrite andb_false_r. intros H Hm.
    destruct (find_field (c_fields c) n) as [fd|].
    - destruct (c_ignore_none c && is_none_val v && negb (is_required c n)).
      + inversion H; subst. exact Hm.
      + destruct (vset (fd_field fd) v) as [nf|x]; [|discriminate].
        destruct (fd_immutable fd && alist_has a n); [discriminate|].
        cbn [andb] in H. inversion H; subst. rewrite alist_has_set, Hm. reflexivity.
    - destruct (c_additional c); [|discriminate].
      destruct (c_ignore_none c && is_none_val v && negb (is_required c n)).
      + inversion H; subst. exact Hm.
      + inversion H; subst. rewrite alist_has_set, Hm. reflexivity.
  Qed.

  Lemma setattr_required c a n v a' :
    setattr c false a n v = (a', Done) -> is_required c n = true -> alist_has a' n = true.
  Proof.
    unfold Instance.setattr. rewrite andb_false_r. intros H Hr. rewrite Hr in H.
    cbn [negb] in H. rewrite andb_false_r in H.
    destruct (find_field (c_fields c) n) as [fd|].
    - destruct (vset (fd_field fd) v) as [nf|x]; [|discriminate].
      destruct (fd_immutable fd && alist_has a n); [discriminate|].
      cbn [andb] in H. inversion H; subst. rewrite alist_has_set, pystr_eqb_refl, orb_true_r. reflexivity.
    - destruct (c_additional c); [|discriminate].
      inversion H; subst. rewrite alist_has_set, pystr_eqb_refl, orb_true_r. reflexivity.
  Qed.

  Lemma set_all_Inv c kw : forall a a',
      set_all c a kw = Ok a' -> Inv c a -> kw_ok c kw = true -> Inv c a'.
  Proof.
    induction kw as [|[n v] t IH]; simpl; intros a a' H HI Hk.
    - inversion H; subst. exact HI.
    - apply andb_true_iff in Hk as [Hp Hk].
      destruct (setattr c false a n v) as [a1 [|x]] eqn:Es; [|discriminate].
      eapply IH; eauto. eapply setattr_Inv; eauto.
  Qed.

  Lemma set_all_has c kw : forall a a' m,
      set_all c a kw = Ok a' ->
      alist_has a m = true \/ (is_required c m = true /\ alist_has kw m = true) ->
      alist_has a' m = true.
  Proof.
    induction kw as [|[n v] t IH]; simpl; intros a a' m H Hm.
    - inversion H; subst. destruct Hm as [Hm|[_ Hm]]; [exact Hm | discriminate].
    - destruct (setattr c false a n v) as [a1 [|x]] eqn:Es; [|discriminate].
      apply (IH a1 a' m H).
      destruct Hm as [Hm|[Hr Hm]].
      + left. eapply setattr_mono; eauto.
      + unfold alist_has in Hm. simpl in Hm. destruct (pystr_eqb n m) eqn:Enm.
        * apply pystr_eqb_spec in Enm. subst n. left. eapply setattr_required; eauto.
        * right. split; [exact Hr | exact Hm].
  Qed.

  Lemma defaults_kw_ok c kw : defaults_ok c = true -> kw_ok c (defaults_of c kw) = true.
  Proof.
    unfold Entry.defaults_ok, Entry.kw_ok, defaults_of. intro H.
    induction (c_fields c) as [|fd t IH]; simpl in *; [reflexivity|].
    apply andb_true_iff in H as [H1 H2].
    destruct (fd_default fd) as [d|]; [|auto].
    destruct (alist_has kw (fd_name fd)); simpl; [auto|].
    rewrite H1. auto.
  Qed.

  (* C01: keyword construction yields a valid instance *)
  Theorem construct_sound c kw v :
    kw_ok c kw = true -> defaults_ok c = true ->
    construct c kw = Ok v ->
    exists a, v = PStruct (c_name c) a /\ struct_ok c a = true.
  Proof.
    intros Hk Hdf. unfold Instance.construct.
    destruct (has_dup (map fst kw)); [discriminate|].
    destruct (bind_ok c kw) eqn:Eb; cbn [negb]; [|discriminate].
    intro H.
    match type of H with bind ?r _ = _ => destruct r as [a0|x] eqn:E0; cbn [bind] in H; [|discriminate] end.
    match type of H with bind ?r _ = _ => destruct r as [a1|x] eqn:E1; cbn [bind] in H; [|discriminate] end.
    match type of H with bind ?r _ = _ => destruct r as [a2|x] eqn:E2; cbn [bind] in H; [|discriminate] end.
    destruct (hook_ok (c_hook c) a2) eqn:Eh; [|discriminate].
    inversion H; subst. exists a2. split; [reflexivity|].
    assert (I0 : Inv c a0).
    { eapply set_all_Inv; [exact E0 | apply Inv_nil | apply forallb_filter; exact Hk]. }
    assert (I1 : Inv c a1).
    { eapply set_all_Inv; [exact E1 | exact I0 | apply defaults_kw_ok; exact Hdf]. }
    assert (I2 : Inv c a2).
    { eapply set_all_Inv; [exact E2 | exact I1 | apply forallb_filter; exact Hk]. }
    destruct I2 as [Hattrs Hnd].
    rewrite struct_ok_split, Hattrs, Hnd, Eh. cbn [negb andb]. rewrite !andb_true_r.
    apply forallb_forall. intros r Hr.
    unfold bind_ok in Eb. apply andb_true_iff in Eb as [Ereq _].
    pose proof (forallb_In _ _ _ Ereq Hr) as Hkw. cbn beta in Hkw.
    assert (Hreq : is_required c r = true) by (apply str_in_In; exact Hr).
    destruct (str_in r (field_names c)) eqn:Ef.
    - (* bound *)
      eapply set_all_has; [exact E2|]. right. split; [exact Hreq|].
      unfold alist_has. rewrite (alist_get_filter (fun k => str_in k (field_names c))), Ef.
      exact Hkw.
    - (* extra *)
      eapply set_all_has; [exact E2|]. left.
      eapply set_all_has; [exact E1|]. left.
      eapply set_all_has; [exact E0|]. right. split; [exact Hreq|].
      unfold alist_has.
      rewrite (alist_get_filter (fun k => negb (str_in k (field_names c)))), Ef. exact Hkw.
  Qed.

  Corollary construct_inst_ok cn c kw v :
    find_class e cn = Some c ->
    kw_ok c kw = true -> defaults_ok c = true ->
    construct c kw = Ok v -> inst_ok v = true.
  Proof.
    intros Hc Hk Hdf H. destruct (construct_sound c kw v Hk Hdf H) as [a [-> Ha]].
    unfold Entry.inst_ok. rewrite (find_class_self e cn c Hc). exact Ha.
  Qed.

  (* the pickle round trip keeps the declared fields only *)
  Lemma pickle_ok c a :
    class_wf c = true -> struct_ok c a = true ->
    struct_ok c (filter (fun p => str_in (fst p) (field_names c)) a) = true.
  Proof.
    intros Hw H. rewrite struct_ok_split in *.
    apply andb_true_iff in H as [H Hh]. apply andb_true_iff in H as [H Hd].
    apply andb_true_iff in H as [Hr Ha].
    unfold class_wf in Hw. apply andb_true_iff in Hw as [Hwh Hwr].
    assert (G : forall k, str_in k (field_names c) = true ->
                          alist_get (filter (fun p : pystr * pyval => str_in (fst p) (field_names c)) a) k
                          = alist_get a k).
    { intros k Hk. rewrite (alist_get_filter (fun k => str_in k (field_names c))), Hk. reflexivity. }
    apply andb_true_iff; split; [apply andb_true_iff; split; [apply andb_true_iff; split|]|].
    - apply forallb_forall. intros r Ir. unfold alist_has.
      rewrite (G r (forallb_In _ _ _ Hwr Ir)). exact (forallb_In _ _ _ Hr Ir).
    - apply forallb_filter. exact Ha.
    - apply negb_true_iff. apply has_dup_filter. apply negb_true_iff. exact Hd.
    - unfold hook_ok in *. destruct (c_hook c) as [|x y|x].
      + reflexivity.
      + apply andb_true_iff in Hwh as [Hx Hy]. rewrite (G x Hx), (G y Hy). exact Hh.
      + unfold alist_has in *. rewrite (G x Hwh). exact Hh.
  Qed.

  (* every single entry point *)
  Theorem entry_sound cur en x :
    entry_dom cur en = true ->
    (match entry_plan cur en with PValue _ => inst_ok cur = true | _ => True end) ->
    run_entry cur en = Ok x -> inst_ok x = true.
  Proof.
    unfold Entry.entry_dom, Entry.run_entry.
    destruct (entry_plan cur en) as [c kw|v|ex] eqn:Ep; intros Hd Hcur Hr; [| |discriminate].
    - (* a constructor call: the class was looked up in the environment *)
      apply andb_true_iff in Hd as [Hk Hdf].
      assert (Hc : exists cn, find_class e cn = Some c).
      { unfold Entry.entry_plan, with_class, with_instance in Ep.
        destruct en; try (destruct cur as [| | | | | | | | | |cn0 a0|]; try discriminate);
          repeat (first [ progress (unfold with_class, with_instance in Ep)
                        | match type of Ep with
                          | match find_class e ?n with _ => _ end = _ =>
                              let E := fresh "E" in destruct (find_class e n) eqn:E; [|discriminate]
                          | (if ?b then _ else _) = _ => destruct b; [|discriminate]
                          end ]);
          inversion Ep; subst; eauto. }
      destruct Hc as [cn Hc]. eapply construct_inst_ok; eauto.
    - (* a copy *)
      inversion Hr; subst x.
      unfold Entry.entry_plan, with_class, with_instance in Ep.
      destruct en; try (destruct cur as [| | | | | | | | | |cn0 a0|]; try discriminate);
        repeat (first [ progress (unfold with_class, with_instance in Ep)
                      | match type of Ep with
                        | match find_class e ?n with _ => _ end = _ =>
                            let E := fresh "E" in destruct (find_class e n) eqn:E; [|discriminate]
                        | (if ?b then _ else _) = _ => destruct b; [|discriminate]
                        end ]);
        try discriminate; inversion Ep; subst; clear Ep.
      + (* copy *) rewrite (find_class_name _ _ _ E). exact Hcur.
      + (* deepcopy *) rewrite (find_class_name _ _ _ E). exact Hcur.
      + (* pickle *)
        unfold Entry.inst_ok in *. rewrite E in *. rewrite (find_class_self _ _ _ E).
        apply pickle_ok; assumption.
  Qed.

  (* C01: any chain of validating entry points applied to a valid instance *)
  Theorem chain_sound : forall ch x0 x,
      inst_ok x0 = true -> chain_dom x0 ch = true -> run_chain x0 ch = Ok x -> inst_ok x = true.
  Proof.
    induction ch as [|en t IH]; simpl; intros x0 x H0 Hd Hr.
    - inversion Hr; subst. exact H0.
    - apply andb_true_iff in Hd as [Hd1 Hd2].
      destruct (run_entry x0 en) as [x1|ex] eqn:E1; [|discriminate]. cbn [bind] in Hr.
      apply (IH x1 x); [|exact Hd2|exact Hr].
      eapply entry_sound; eauto. destruct (entry_plan x0 en); auto.
  Qed.

  (* ... and any chain that starts with a construction, whatever came before *)
  Theorem chain_from_ctor_sound : forall cn kw ch x0 x,
      chain_dom x0 (ECtor cn kw :: ch) = true ->
      run_chain x0 (ECtor cn kw :: ch) = Ok x -> inst_ok x = true.
  Proof.
    intros cn kw ch x0 x Hd Hr. simpl in Hd, Hr.
    apply andb_true_iff in Hd as [Hd1 Hd2].
    destruct (run_entry x0 (ECtor cn kw)) as [x1|ex] eqn:E1; [|discriminate]. cbn [bind] in Hr.
    apply (chain_sound ch x1 x); [|exact Hd2|exact Hr].
    eapply entry_sound; eauto.
    unfold Entry.entry_plan, with_class. destruct (find_class e cn); exact I.
  Qed.
End Instance.
