(* Spec side of C14: the faults of a class statement listed by the property, as decidable predicates
   on the statement (and the environment), and the environments reachable by class statements.
   Executable; no proofs here. *)
From Coq Require Import ZArith NArith String Ascii Bool List.
Import ListNotations.
From TP Require Import Base.PyVal Fields.FieldAst Fields.SetChain Struct.Define.

Section Faults.
  Variable re_match : N -> pystr -> bool.
  Variable e : env.
  Variable gd : guards.

  Definition default_raises (f : field) (d : defval) : bool :=
    match vset re_match e f (defval_value d) with Raise _ => true | Ok _ => false end.

  Definition kw_truthy (kwd : option defval) : bool :=
    match norm_default kwd with Some d => defval_truthy d | None => false end.

  (* `default=` given to the Field constructor violates the field *)
  Definition fault_kw_default (ms : mstmt) : bool :=
    match ms with
    | SDecl f _ kwd _ => match norm_default kwd with Some d => default_raises f d | None => false end
    | _ => false
    end.

  (* ... and is truthy: the part Field.__init__ (`if default:`) looks at *)
  Definition fault_kw_default_truthy (ms : mstmt) : bool :=
    match ms with
    | SDecl f _ kwd _ => match norm_default kwd with Some d => defval_truthy d && default_raises f d | None => false end
    | _ => false
    end.

  (* `name: F(...) = value` with a value the field rejects (no truthy default= competing with it) *)
  Definition fault_eq_default (ms : mstmt) : bool :=
    match ms with
    | SDecl f _ kwd (Some d) => negb (kw_truthy kwd) && negb (defval_mutable d) && default_raises f d
    | _ => false
    end.

  (* `name: F(...) = []` / `{}` / `set()`: a mutable literal as the default *)
  Definition fault_mutable_default (ms : mstmt) : bool :=
    match ms with
    | SDecl f _ kwd (Some d) => negb (kw_truthy kwd) && defval_mutable d
    | _ => false
    end.

  Definition fault_bad_const (ms : mstmt) : bool :=
    match ms with SConst v => negb (const_type_ok v) | _ => false end.

  Definition any_member (p : mstmt -> bool) (s : classstmt) : bool := existsb (fun nm => p (snd nm)) (s_members s).

  Definition fault_name (s : classstmt) : bool := existsb bad_field_name (map fst (s_members s)).

  (* _optional names a field required by the class body or by a base *)
  Definition fault_optional (g : genv) (s : classstmt) : bool :=
    match build_members re_match e (s_members s), base_info gd g (s_bases s) [] false with
    | Ok own, Ok bp =>
        existsb (fun f => str_in f (own_required s own) || str_in f (bases_required bp)) (opt_list (s_optional s))
    | _, _ => false
    end.

  (* a base is (a subclass of) an ImmutableStructure / FinalStructure class *)
  Definition fault_final_base (g : genv) (s : classstmt) : bool :=
    existsb (fun b => strict_sub g b n_Final || strict_sub g b n_Immutable) (s_bases s).

  Definition fault_unknown_attr (s : classstmt) : bool :=
    gd_block_unknown_consts gd && existsb invalid_const (s_attrs s).

  Definition fault_non_typedpy (s : classstmt) : bool :=
    gd_block_non_typedpy gd && existsb non_typedpy_assignment (s_attrs s).

  (* every fault the code is able to see (used on observed behaviour: such a statement must raise) *)
  Definition has_fault (g : genv) (s : classstmt) : bool :=
    any_member fault_kw_default s || any_member fault_eq_default s || any_member fault_mutable_default s ||
    any_member fault_bad_const s || fault_name s || fault_optional g s || fault_final_base g s ||
    fault_unknown_attr s || fault_non_typedpy s.

  (* environments reachable from the built-in classes by class statements and plain mix-in classes *)
  Inductive built : genv -> Prop :=
  | built0 : built genv0
  | built_def g s k : built g -> find_klass g (s_name s) = None -> define re_match e gd g s = Ok k -> built (k :: g)
  | built_mixin g n : built g -> find_klass g n = None -> built (mixin n :: g).
End Faults.
