(* Statement-level model of the wrapper methods of typedpy/fields/collections_impl.py
   (_ListStruct / _DequeStruct / _DictStruct overrides of the mutators inherited from list / deque / dict).

   The BODY of every such method is transliterated from the source on every run into the small statement
   language below (Gen/WrapBodies.v, by harness/genmods/wrapbodies.py: one constructor per source statement,
   [SOther] for anything it does not recognise).  Two things are defined over it here:
     * [classify]: which coarse [shape] (Struct/Shapes.v) a body has -- decided in Coq, on the translated body,
       not by the Python recogniser;
     * [wexec]: what a body does to the instance, to the wrapper object the method was called on (the handle)
       and to its local copy, statement by statement, with the base type's methods as oracles -- including
       what a base method that fails HALF WAY leaves behind (list.sort, extend / update from a failing iterator).
   Struct/WrapBodyProofs.v proves that for every body classified copy-mutate-reassign the statement-level
   execution coincides, at the instance level, with the coarse [mstep] of Struct/Instance.v.
   Executable; no proofs here. *)
From Coq Require Import ZArith NArith String List Bool.
Import ListNotations.
From TP Require Import Base.PyVal Fields.FieldAst Struct.Shapes Struct.Instance.

(* condition guarding a re-assignment *)
Inductive wcond :=
| CAlways                  (* unconditional *)
| CBound                   (* if getattr(self, "_instance", None) / if self._field_definition: true on a wrapper
                              that belongs to an instance *)
| COther.                  (* any other test *)

Inductive wstmt :=
| SGuard                               (* self._raise_if_immutable() *)
| SCopy                                (* copied = self[:] | deque(self) | self.copy() *)
| SApplyCopy (m : pystr)               (* [res =] copied.m(...) | copied[k] = v | del copied[k] | copied *= n *)
| SReassign (c : wcond)                (* [if c:] setattr(self._instance, <own field name>, copied) *)
| SReassignEmpty (kind : N)            (* setattr(self._instance, <own field name>, [] | deque() | {}) *)
| SApplySelf (m : pystr)               (* super().m(...): the base type's method on the wrapper object itself *)
| SReturn                              (* return | return res | return getattr(self._instance, <own field name>) *)
| SOther.                              (* anything else *)

Definition wbody := list wstmt.
Definition body_table := list (pystr * wbody).

Definition is_apply_copy (s : wstmt) : bool := match s with SApplyCopy _ => true | _ => false end.

(* statements allowed AFTER the re-assignment: they act on the wrapper the method was called on, which the
   instance no longer refers to (Array/Deque/Map.__set__ stores a NEW wrapper), or return *)
Definition tail_stmt_ok (s : wstmt) : bool :=
  match s with SApplySelf _ | SReturn => true | _ => false end.

Definition cond_ok (c : wcond) : bool := match c with CAlways | CBound => true | COther => false end.

Fixpoint skip_applies (b : wbody) : wbody :=
  match b with
  | SApplyCopy _ :: t => skip_applies t
  | _ => b
  end.

Fixpoint applies_of (b : wbody) : list pystr :=
  match b with
  | SApplyCopy m :: t => m :: applies_of t
  | _ => []
  end.

Definition clear_name : pystr := s2p "clear".

(* the body after an optional leading guard *)
Definition strip_guard (b : wbody) : bool * wbody :=
  match b with SGuard :: t => (true, t) | _ => (false, b) end.

(* the body after the optional guard; g: was there a guard *)
Definition classify_core (kind : N) (m : pystr) (g : bool) (b1 : wbody) : shape :=
  match b1 with
  | SCopy :: t =>
      match skip_applies t with
      | SReassign c :: rest =>
          if cond_ok c && forallb tail_stmt_ok rest then CopyMutateReassign g else Unrecognised
      | _ => Unrecognised
      end
  | SReassignEmpty k :: rest =>
      if N.eqb k kind && pystr_eqb m clear_name && forallb tail_stmt_ok rest then CopyMutateReassign g
      else Unrecognised
  | SApplySelf m' :: rest =>
      match rest with
      | [] => if g && pystr_eqb m m' then GuardThenInPlace else Unrecognised
      | _ => Unrecognised
      end
  | _ => Unrecognised
  end.

(* [classify kind m body]: the shape of method m of the wrapper of the given kind (0 list / 1 deque / 2 dict) *)
Definition classify (kind : N) (m : pystr) (b : wbody) : shape :=
  classify_core kind m (fst (strip_guard b)) (snd (strip_guard b)).

Definition classify_table (kind : N) (t : body_table) : mutator_table :=
  map (fun p => (fst p, classify kind (fst p) (snd p))) t.

(* the stricter of two classifications of the same method: safe only if both say so *)
Definition meet_shape (s1 s2 : shape) : shape :=
  match shape_safe s1, shape_safe s2 with
  | true, true => s1
  | false, _ => s1
  | true, false => s2
  end.

(* [refine t bt]: table t with every entry that has a translated body re-classified from that body *)
Definition refine (kind : N) (t : mutator_table) (bt : body_table) : mutator_table :=
  map (fun p => match alist_get bt (fst p) with
                | Some b => (fst p, meet_shape (snd p) (classify kind (fst p) b))
                | None => p
                end) t.

Definition empty_of (kind : N) : pyval :=
  match kind with 0%N => PList [] | 1%N => PDeque [] | _ => PDict [] end.

Section Exec.
  Variable re_match : N -> pystr -> bool.
  Variable e : env.
  (* oracles: the base type's method m, with the arguments of the call being modelled, applied to a plain
     container holding v -- the new content or the exception -- and the content it leaves behind when it raises
     (CPython: unchanged for most methods, partially reordered for list.sort, partially extended for
     extend / update from an iterator that fails) *)
  Variable base_of : pystr -> pyval -> res pyval.
  Variable partial_of : pystr -> pyval -> pyval.

  Variable c : classdef.
  Variable n : pystr.                       (* the field the wrapper belongs to *)

  Record wst := { w_inst : attrs;           (* the instance *)
                  w_handle : pyval;         (* content of the wrapper object the method was called on *)
                  w_live : bool;            (* is that object the one stored in the instance? *)
                  w_copy : option pyval }.  (* the local variable `copied` *)

  Definition frozen : bool := c_immutable c || field_immutable c n.

  (* Structure.__setattr__ returns without storing anything for an ignored None *)
  Definition skips_store (v : pyval) : bool := c_ignore_none c && is_none_val v && negb (is_required c n).

  (* setattr(self._instance, name, v).  When it stores, Array/Deque/Map.__set__ wraps the value in a NEW wrapper
     object: the one the method was called on is no longer the instance's *)
  Definition reassign (st : wst) (v : pyval) : wst * option outcome :=
    let r := setattr re_match e c true (w_inst st) n v in
    match snd r with
    | Done => ({| w_inst := fst r; w_handle := w_handle st;
                  w_live := if skips_store v then w_live st else false; w_copy := w_copy st |}, None)
    | Raised x => ({| w_inst := fst r; w_handle := w_handle st; w_live := w_live st; w_copy := w_copy st |},
                   Some (Raised x))
    end.

  Definition set_handle (st : wst) (v : pyval) : wst :=
    {| w_inst := if w_live st then alist_set (w_inst st) n v else w_inst st;
       w_handle := v; w_live := w_live st; w_copy := w_copy st |}.

  (* one statement: new state, and Some outcome when the method terminates here *)
  Definition wstep (st : wst) (s : wstmt) : wst * option outcome :=
    match s with
    | SGuard => if frozen then (st, Some (Raised ValueError)) else (st, None)
    | SCopy => ({| w_inst := w_inst st; w_handle := w_handle st; w_live := w_live st;
                   w_copy := Some (w_handle st) |}, None)
    | SApplyCopy m =>
        match w_copy st with
        | None => (st, Some (Raised Unmodelled))
        | Some cv =>
            match base_of m cv with
            | Ok nv => ({| w_inst := w_inst st; w_handle := w_handle st; w_live := w_live st;
                           w_copy := Some nv |}, None)
            | Raise x => (st, Some (Raised x))        (* the copy is local: whatever it holds now is dropped *)
            end
        end
    | SReassign cd =>
        if cond_ok cd then
          match w_copy st with
          | Some cv => reassign st cv
          | None => (st, Some (Raised Unmodelled))
          end
        else (st, Some (Raised Unmodelled))
    | SReassignEmpty k => reassign st (empty_of k)
    | SApplySelf m =>
        match base_of m (w_handle st) with
        | Ok nv => (set_handle st nv, None)
        | Raise x => (set_handle st (partial_of m (w_handle st)), Some (Raised x))
        end
    | SReturn => (st, Some Done)
    | SOther => (st, Some (Raised Unmodelled))
    end.

  Fixpoint wexec (st : wst) (b : wbody) : wst * outcome :=
    match b with
    | [] => (st, Done)
    | s :: t =>
        match wstep st s with
        | (st', Some r) => (st', r)
        | (st', None) => wexec st' t
        end
    end.

  Definition wstart (a : attrs) (hv : pyval) (live : bool) : wst :=
    {| w_inst := a; w_handle := hv; w_live := live; w_copy := None |}.

  (* the base type's methods named in [ms], one after the other, on a plain container *)
  Fixpoint apply_all (ms : list pystr) (v : pyval) : res pyval :=
    match ms with
    | [] => Ok v
    | m :: t => match base_of m v with Ok nv => apply_all t nv | Raise x => Raise x end
    end.

  (* what a copy-mutate-reassign body hands to setattr *)
  Definition cmr_base_core (b1 : wbody) (hv : pyval) : res pyval :=
    match b1 with
    | SCopy :: t => apply_all (applies_of t) hv
    | SReassignEmpty k :: _ => Ok (empty_of k)
    | _ => Raise Unmodelled
    end.

  Definition cmr_base (b : wbody) (hv : pyval) : res pyval := cmr_base_core (snd (strip_guard b)) hv.
End Exec.

(* ------------------------------------------------------------------ histories of wrapper calls *)

(* one call of a wrapper method as it happens on the implementation: the field, the translated body of the method,
   the base type's behaviour for THIS call's arguments (oracles), the content of the wrapper object the method is
   called on and whether that object is the one the instance holds *)
Record wcall := {
  wc_field : pystr;
  wc_kind : N;
  wc_meth : pystr;
  wc_body : wbody;
  wc_base : pystr -> pyval -> res pyval;
  wc_partial : pystr -> pyval -> pyval;
  wc_handle : pyval;
  wc_live : bool }.

Section Calls.
  Variable re_match : N -> pystr -> bool.
  Variable e : env.
  Variable c : classdef.

  Definition call_exec (a : attrs) (k : wcall) : wst * outcome :=
    wexec re_match e (wc_base k) (wc_partial k) c (wc_field k) (wstart a (wc_handle k) (wc_live k)) (wc_body k).

  (* the instance after a sequence of wrapper calls, statement-level semantics *)
  Definition run_calls (a : attrs) (ks : list wcall) : attrs :=
    fold_left (fun st k => w_inst (fst (call_exec st k))) ks a.

  (* the coarse operation a call stands for *)
  Definition call_mop (k : wcall) : mop :=
    WrapMut (wc_field k) (classify (wc_kind k) (wc_meth k) (wc_body k)) (cmr_base (wc_base k) (wc_body k) (wc_handle k)).

  Definition call_shape_safe (k : wcall) : bool := shape_safe (classify (wc_kind k) (wc_meth k) (wc_body k)).
End Calls.
