(* Property C03, model side: the decidable safety conditions under which a mutation step of
   Struct/Instance.v ([mstep]) is validated and failure-atomic, histories and their traces, and
   the computable witnesses used for the table entries that are not safe.
   Executable; no proofs here (Struct/MutateProofs.v). *)
From Coq Require Import ZArith QArith NArith String Ascii Bool Lia List.
Import ListNotations.
From TP Require Import Base.PyVal Fields.FieldAst Fields.SetChain Fields.Doc Struct.Shapes Struct.Instance.
Local Open Scope Z_scope.

Definition is_some {A} (o : option A) : bool := match o with Some _ => true | None => false end.

(* names a __validate__ hook reads *)
Definition hook_names (h : hook) : list pystr :=
  match h with
  | HookNone => []
  | HookLe x y => [x; y]
  | HookNeverNone x => [x]
  end.

(* the hook only speaks about declared fields *)
Definition hook_wf (c : classdef) : bool :=
  forallb (fun x => str_in x (field_names c)) (hook_names (c_hook c)).

Definition is_raised (r : outcome) : bool := match r with Done => false | Raised _ => true end.

Section WithOracle.
  Variable re_match : N -> pystr -> bool.
  Variable e : env.

  (* What C03 asks of one step, given the state before, the state after and the outcome:
     success leaves a valid instance, failure leaves the instance unchanged. *)
  Definition step_good (c : classdef) (a a' : attrs) (r : outcome) : Prop :=
    match r with
    | Done => struct_ok re_match e c a' = true
    | Raised _ => a' = a
    end.

  (* [assign_safe c a n v]: assigning v to attribute n of an instantiated instance with state a is
     validated and atomic.  Mirrors the branches of [setattr] up to the store:
       - nothing is stored (immutable class, non-field, ignored None, validation raises, immutable field
         already set): safe;
       - a normal form nf is stored and the class's __validate__ hook rejects the new state:
         Structure.__setattr__ puts the previous entry back and re-raises: safe;
       - a normal form nf is stored and stays: it must be valid per the declaration (C01's concern: the
         stored normal form is itself a documented value). *)
  Definition assign_safe (c : classdef) (a : attrs) (n : pystr) (v : pyval) : bool :=
    c_immutable c ||
    match find_field (c_fields c) n with
    | None => true
    | Some fd =>
        (c_ignore_none c && is_none_val v && negb (is_required c n)) ||
        match vset re_match e (fd_field fd) v with
        | Raise _ => true
        | Ok nf =>
            (fd_immutable fd && alist_has a n) ||
            negb (hook_ok (c_hook c) (alist_set a n nf)) ||
            is_some (docb re_match e (fd_field fd) nf)
        end
    end.

  Definition step_safe (c : classdef) (a : attrs) (op : mop) : bool :=
    match op with
    | SetAttr n v => assign_safe c a n v
    | DelItem n =>
        (* Structure.__delitem__ runs __validate__ on the result and puts the entry back when it raises *)
        true
    | WrapMut n s base =>
        match s with
        | CopyMutateReassign guard =>
            (guard && (c_immutable c || field_immutable c n)) ||
            match base with
            | Raise _ => true
            | Ok nv => assign_safe c a n nv
            end
        | _ => false
        end
    end.

  (* the two ingredients of [step_safe], separately: what the generated table says about the mutator,
     and what the declaration says about the value that would be stored *)
  Definition op_shape_safe (op : mop) : bool :=
    match op with WrapMut _ s _ => shape_safe s | _ => true end.

  Definition value_safe (c : classdef) (a : attrs) (op : mop) : bool :=
    match op with
    | SetAttr n v => assign_safe c a n v
    | DelItem n => true
    | WrapMut n s base =>
        match s with
        | CopyMutateReassign guard =>
            (guard && (c_immutable c || field_immutable c n)) ||
            match base with Raise _ => true | Ok nv => assign_safe c a n nv end
        | _ => true
        end
    end.

  (* safety of a whole history: every step is safe in the state the model reaches before it *)
  Fixpoint hist_safe (c : classdef) (a : attrs) (ops : list mop) : bool :=
    match ops with
    | [] => true
    | op :: t => step_safe c a op && hist_safe c (fst (mstep re_match e c a op)) t
    end.

  (* state-independent sufficient condition for classes without a hook *)
  Definition op_safe_nohook (c : classdef) (op : mop) : bool :=
    match op with
    | SetAttr n v => assign_safe c [] n v
    | DelItem _ => true
    | WrapMut n s base =>
        match s with
        | CopyMutateReassign guard =>
            match base with Raise _ => true | Ok nv => assign_safe c [] n nv end
        | _ => false
        end
    end.

  Record tstep := { t_pre : attrs; t_op : mop; t_post : attrs; t_out : outcome }.

  Fixpoint run_trace (c : classdef) (a : attrs) (ops : list mop) : list tstep :=
    match ops with
    | [] => []
    | op :: t =>
        let r := mstep re_match e c a op in
        {| t_pre := a; t_op := op; t_post := fst r; t_out := snd r |} :: run_trace c (fst r) t
    end.
End WithOracle.

(* ------------------------------------------------------------------ witnesses (closed terms) *)

Definition w_int : field := FNumber KInteger SAny no_numc.

(* class W: a = Array[Integer] ; i, j = Integer ; __validate__: i <= j *)
Definition w_class (h : hook) : classdef :=
  {| c_name := s2p "W"; c_ancestors := [];
     c_fields := [ {| fd_name := s2p "a"; fd_field := FSeqEach SeqList w_int no_sizec false;
                      fd_immutable := false; fd_default := None |};
                   {| fd_name := s2p "i"; fd_field := w_int; fd_immutable := false; fd_default := None |};
                   {| fd_name := s2p "j"; fd_field := w_int; fd_immutable := false; fd_default := None |} ];
     c_required := [s2p "a"]; c_additional := false; c_ignore_none := false; c_immutable := false;
     c_hook := h |}.

Definition w_state : attrs :=
  [(s2p "a", PList [PNum (NInt 1)]); (s2p "i", PNum (NInt 1)); (s2p "j", PNum (NInt 5))].

(* a mutator of shape s that is not copy-mutate-reassign, applied to x.a with the base type's result
   [1, 'x'] (e.g. x.a += ['x']): runs in place, nothing validates *)
Definition w_op (s : shape) : mop :=
  WrapMut (s2p "a") s (Ok (PList [PNum (NInt 1); PStr (s2p "x")])).

(* the hook rejects the stored value: x.i = 9 with __validate__ requiring i <= j (= 5) *)
Definition w_hook : hook := HookLe (s2p "i") (s2p "j").
Definition w_hook_op : mop := SetAttr (s2p "i") (PNum (NInt 9)).

(* del x['i'] with __validate__ requiring i to be set *)
Definition w_del_hook : hook := HookNeverNone (s2p "i").
Definition w_del_op : mop := DelItem (s2p "i").

Definition no_re (_ : N) (_ : pystr) : bool := false.
