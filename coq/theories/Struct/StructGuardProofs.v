(* The tie between the GENERATED translation of the guard logic of typedpy/structures/structures.py
   (Gen/StructGuards.v: what Structure.__setattr__, Structure.__delitem__, ImmutableMixin._is_immutable /
   _raise_if_immutable and Field.__set__ say NOW) and the hand-written instance model on which the
   mutation / immutability theorems (C01, C03, C04) are proved: Struct/Instance.v [setattr].
   The lemmas hold for EVERY class description, EVERY instance state, key and value. *)
From Coq Require Import ZArith QArith NArith String Ascii Bool Lia List.
Import ListNotations.
From TP Require Import Base.PyVal Base.PyOps Base.PyOps2 Base.PyObj Fields.FieldAst Fields.SetChain
     Struct.Instance Gen.StructGuards.
From TP Require Base.PyOpsVersioned.
Local Open Scope Z_scope.

(* ------------------------------------------------------------------ how an instance of class c is seen as a heap *)

Definition names_dict (l : list pystr) : pyval := PDict (map (fun n => (PStr n, PNone)) l).
Definition names_list (l : list pystr) : pyval := PList (map PStr l).

(* configuration: TypedPyDefaults as shipped, except the two switches the class description resolves *)
Definition struct_heap (c : classdef) (instantiated : bool) : heap :=
  fun o a =>
    if pystr_eqb o (s2p "self") then
      if pystr_eqb a (s2p "_immutable") then Some (PBool (c_immutable c))
      else if pystr_eqb a (s2p "_instantiated") then (if instantiated then Some (PBool true) else None)
      else if pystr_eqb a (s2p "_additional_properties") then Some (PBool (c_additional c))
      else if pystr_eqb a (s2p "get_all_fields_by_name()") then Some (names_dict (field_names c))
      else if pystr_eqb a (s2p "_ignore_none") then Some (PBool (c_ignore_none c))
      else if pystr_eqb a (s2p "_required") then Some (names_list (c_required c))
      else if pystr_eqb a (s2p "__class__") then Some (ref (s2p "cls"))
      else None
    else if pystr_eqb o (s2p "cls") then
      if pystr_eqb a (s2p "_required") then Some (names_list (c_required c)) else None
    else if pystr_eqb o (s2p "TypedPyDefaults") then
      if pystr_eqb a (s2p "additional_properties_default") then Some (PBool true)
      else if pystr_eqb a (s2p "allow_none_for_optionals") then Some (PBool false)
      else if pystr_eqb a (s2p "uniqueness_features_enabled") then Some (PBool false)
      else None
    else None.

(* ------------------------------------------------------------------ facts *)

Lemma pystr_eqb_sym a b : pystr_eqb a b = pystr_eqb b a.
Proof.
  destruct (pystr_eqb a b) eqn:H1; destruct (pystr_eqb b a) eqn:H2; try reflexivity.
  - apply pystr_eqb_spec in H1. subst. rewrite pystr_eqb_refl in H2. discriminate.
  - apply pystr_eqb_spec in H2. subst. rewrite pystr_eqb_refl in H1. discriminate.
Qed.

Lemma in_names_dict n l : py_in_dyn (PStr n) (names_dict l) = Ok (str_in n l).
Proof.
  unfold names_dict. cbn [py_in_dyn py_hashable']. f_equal. unfold dict_has, str_in.
  induction l as [|x t IH]; [reflexivity|].
  cbn [map dict_get py_eq existsb]. rewrite (pystr_eqb_sym x n).
  destruct (pystr_eqb n x); [reflexivity|exact IH].
Qed.

Lemma in_names_list n l : py_in_dyn (PStr n) (names_list l) = Ok (str_in n l).
Proof.
  unfold names_list. cbn [py_in_dyn]. unfold py_in_lit, py_in, str_in. f_equal.
  induction l as [|x t IH]; [reflexivity|].
  cbn [map existsb py_eq]. f_equal. exact IH.
Qed.

Lemma in_field_names c n :
  str_in n (field_names c) = match find_field (c_fields c) n with Some _ => true | None => false end.
Proof.
  unfold field_names, str_in. induction (c_fields c) as [|d t IH]; [reflexivity|].
  cbn [map existsb find_field]. rewrite (pystr_eqb_sym (fd_name d) n).
  destruct (pystr_eqb n (fd_name d)); [reflexivity|exact IH].
Qed.

(* the documented decision of Structure.__setattr__ for an ordinary attribute name *)
(* [Some (v, true)]: v is handed to the descriptor chain, and whatever the chain raises is re-raised after
   self.__dict__[n] has been put back to what it was before the hand-over *)
Definition setattr_decision (c : classdef) (instantiated : bool) (n : pystr) (v : pyval) : res (option (pyval * bool)) :=
  if c_immutable c && instantiated then Raise ValueError
  else if negb (c_additional c || str_in n (field_names c)) then Raise ValueError
  else if c_ignore_none c && is_none_val v && negb (is_required c n) then Ok None
  else Ok (Some (v, true)).

Definition ordinary_name (n : pystr) : bool := negb (str_is_sunder n) && negb (str_is_dunder n).

Section Bridge.
  Variable re_match : N -> pystr -> bool.
  Variable e : env.

  Ltac heap_changes c :=
    repeat match goal with
    | |- context [struct_heap c ?i (s2p "self") (s2p "_trust_supplied_values")] =>
        change (struct_heap c i (s2p "self") (s2p "_trust_supplied_values")) with (@None pyval)
    | |- context [struct_heap c ?i (s2p "self") (s2p "_immutable")] =>
        change (struct_heap c i (s2p "self") (s2p "_immutable")) with (Some (PBool (c_immutable c)))
    | |- context [struct_heap c ?i (s2p "self") (s2p "_constants")] =>
        change (struct_heap c i (s2p "self") (s2p "_constants")) with (@None pyval)
    | |- context [struct_heap c ?i (s2p "self") (s2p "_additional_properties")] =>
        change (struct_heap c i (s2p "self") (s2p "_additional_properties")) with (Some (PBool (c_additional c)))
    | |- context [struct_heap c ?i (s2p "self") (s2p "get_all_fields_by_name()")] =>
        change (struct_heap c i (s2p "self") (s2p "get_all_fields_by_name()")) with (Some (names_dict (field_names c)))
    | |- context [struct_heap c ?i (s2p "self") (s2p "_ignore_none")] =>
        change (struct_heap c i (s2p "self") (s2p "_ignore_none")) with (Some (PBool (c_ignore_none c)))
    | |- context [struct_heap c ?i (s2p "self") (s2p "_enable_undefined_value")] =>
        change (struct_heap c i (s2p "self") (s2p "_enable_undefined_value")) with (@None pyval)
    | |- context [struct_heap c ?i (s2p "self") (s2p "__class__")] =>
        change (struct_heap c i (s2p "self") (s2p "__class__")) with (Some (POther ref_tag (s2p "cls")))
    | |- context [struct_heap c ?i (s2p "self") (s2p "_required")] =>
        change (struct_heap c i (s2p "self") (s2p "_required")) with (Some (names_list (c_required c)))
    | |- context [struct_heap c ?i (s2p "cls") (s2p "_required")] =>
        change (struct_heap c i (s2p "cls") (s2p "_required")) with (Some (names_list (c_required c)))
    | |- context [struct_heap c ?i (s2p "TypedPyDefaults") (s2p "additional_properties_default")] =>
        change (struct_heap c i (s2p "TypedPyDefaults") (s2p "additional_properties_default")) with (Some (PBool true))
    | |- context [struct_heap c ?i (s2p "TypedPyDefaults") (s2p "allow_none_for_optionals")] =>
        change (struct_heap c i (s2p "TypedPyDefaults") (s2p "allow_none_for_optionals")) with (Some (PBool false))
    | |- context [struct_heap c ?i (s2p "TypedPyDefaults") (s2p "uniqueness_features_enabled")] =>
        change (struct_heap c i (s2p "TypedPyDefaults") (s2p "uniqueness_features_enabled")) with (Some (PBool false))
    end.

  (* ---------------------------------------------------------------- Structure.__setattr__ *)
  Lemma generated_setattr : forall c inst n v,
      ordinary_name n = true ->
      Structure__setattr (struct_heap c inst) (PStr n) v = setattr_decision c inst n v.
  Proof.
    intros c inst n v Hn. unfold ordinary_name in Hn. apply andb_true_iff in Hn. destruct Hn as [Hs Hd].
    apply negb_true_iff in Hs. apply negb_true_iff in Hd.
    unfold Structure__setattr, setattr_decision, is_required.
    unfold obj_getattr_def, obj_getattr, ref.
    unfold py_is_sunder, py_is_dunder. rewrite Hs, Hd.
    change (py_in_dyn (PStr n) (PDict [])) with (@Ok bool false).
    destruct (c_immutable c) eqn:Him, inst, (c_additional c) eqn:Hadd, (c_ignore_none c) eqn:Hign;
      repeat (progress (
        try change (pystr_eqb ref_tag ref_tag) with true;
        change (struct_heap c true (s2p "self") (s2p "_instantiated")) with (Some (PBool true));
        change (struct_heap c false (s2p "self") (s2p "_instantiated")) with (@None pyval);
        heap_changes c;
        rewrite ?Him, ?Hadd, ?Hign;
        cbn [bind py_truthy py_and py_or py_not py_any py_all existsb forallb negb andb orb
                  py_is_none py_is_not_none is_none_val];
        rewrite ?in_names_dict, ?in_names_list));
      destruct (str_in n (field_names c)), (str_in n (c_required c)), v;
      reflexivity.
  Qed.

  (* what happens once the descriptor chain of attribute n receives v (Struct/Instance.v, second half of
     [setattr]): the field's __set__ chain, the immutable-field test and store of Field.__set__, the hook *)
  Definition descriptor (c : classdef) (instantiated : bool) (a : attrs) (n : pystr) (v : pyval) : attrs * outcome :=
    match find_field (c_fields c) n with
    | None => (alist_set a n v, Done)
    | Some fd =>
        match vset re_match e (fd_field fd) v with
        | Raise x => (a, Raised x)
        | Ok nf =>
            if fd_immutable fd && alist_has a n then (a, Raised ValueError)
            else
              let a' := alist_set a n nf in
              if instantiated && negb (hook_ok (c_hook c) a') then (a', Raised ValueError)
              else (a', Done)
        end
    end.

  (* the hand-over as Structure.__setattr__ performs it: with [rb] an exception of the chain leaves the
     attributes as they were before it *)
  Definition handover (c : classdef) (instantiated : bool) (a : attrs) (n : pystr) (vr : pyval * bool) : attrs * outcome :=
    match descriptor c instantiated a n (fst vr) with
    | (a', Raised x) => (if snd vr then a else a', Raised x)
    | r => r
    end.

  (* the hand-written [setattr] IS the source's guard prefix followed by the descriptor *)
  Lemma setattr_factors : forall c inst a n v,
      setattr re_match e c inst a n v =
      match setattr_decision c inst n v with
      | Raise x => (a, Raised x)
      | Ok None => (a, Done)
      | Ok (Some vr) => handover c inst a n vr
      end.
  Proof.
    intros c inst a n v. unfold setattr, setattr_decision, handover, descriptor. rewrite in_field_names.
    destruct (c_immutable c && inst); [reflexivity|].
    destruct (find_field (c_fields c) n) as [fd|]; destruct (c_additional c); cbn [orb negb];
      destruct (c_ignore_none c && is_none_val v && negb (is_required c n)); try reflexivity; cbn [fst snd].
    all: destruct (vset re_match e (fd_field fd) v) as [nf|x]; [|reflexivity].
    all: destruct (fd_immutable fd && alist_has a n); [reflexivity|].
    all: destruct (inst && negb (hook_ok (c_hook c) (alist_set a n nf))); reflexivity.
  Qed.

  (* without the restore (the source before the repair of F4) a hook failure would leave the new value stored *)
  Lemma handover_without_restore_not_atomic : forall c a n v fd nf,
      find_field (c_fields c) n = Some fd -> vset re_match e (fd_field fd) v = Ok nf ->
      (fd_immutable fd && alist_has a n) = false -> hook_ok (c_hook c) (alist_set a n nf) = false ->
      handover c true a n (v, false) = (alist_set a n nf, Raised ValueError) /\
      handover c true a n (v, true) = (a, Raised ValueError).
  Proof.
    intros c a n v fd nf Hf Hv Hi Hh. unfold handover, descriptor. cbn [fst snd].
    rewrite Hf, Hv, Hi, Hh. split; reflexivity.
  Qed.

  Theorem generated_setattr_is_model : forall c inst a n v,
      ordinary_name n = true ->
      setattr re_match e c inst a n v =
      match Structure__setattr (struct_heap c inst) (PStr n) v with
      | Raise x => (a, Raised x)
      | Ok None => (a, Done)
      | Ok (Some vr) => handover c inst a n vr
      end.
  Proof. intros. rewrite generated_setattr by assumption. apply setattr_factors. Qed.

  (* ---------------------------------------------------------------- Structure.__delitem__ *)
  (* an instantiated instance of class c; get_all_fields_by_name() maps each field name to its Field object
     "field:<name>", whose `_immutable` is the field's flag *)
  Definition fld_obj (n : pystr) : pystr := s2p "field:" ++ n.
  Definition un_fld (o : pystr) : option pystr :=
    match o with
    | 102%N :: 105%N :: 101%N :: 108%N :: 100%N :: 58%N :: n => Some n
    | _ => None
    end.
  Definition fields_dict (c : classdef) : pyval :=
    PDict (map (fun fd => (PStr (fd_name fd), ref (fld_obj (fd_name fd)))) (c_fields c)).

  Definition delitem_heap (c : classdef) : heap :=
    fun o a =>
      if pystr_eqb o (s2p "self") then
        if pystr_eqb a (s2p "_immutable") then Some (PBool (c_immutable c))
        else if pystr_eqb a (s2p "get_all_fields_by_name()") then Some (fields_dict c)
        else if pystr_eqb a (s2p "_required") then Some (names_list (c_required c))
        else if pystr_eqb a (s2p "_instantiated") then Some (PBool true)
        else None
      else match un_fld o with
           | Some n => if pystr_eqb a (s2p "_immutable")
                       then match find_field (c_fields c) n with
                            | Some fd => Some (PBool (fd_immutable fd))
                            | None => None
                            end
                       else None
           | None => None
           end.

  Lemma un_fld_obj n : un_fld (fld_obj n) = Some n.
  Proof. reflexivity. Qed.
  Lemma fld_obj_not_self n : pystr_eqb (fld_obj n) (s2p "self") = false.
  Proof. reflexivity. Qed.

  Lemma fields_dict_get c n :
    PyOpsVersioned.py_dict_get (fields_dict c) (PStr n) PNone =
    Ok (match find_field (c_fields c) n with Some _ => ref (fld_obj n) | None => PNone end).
  Proof.
    unfold fields_dict, PyOpsVersioned.py_dict_get. cbn [py_hashable']. f_equal.
    induction (c_fields c) as [|d t IH]; [reflexivity|].
    cbn [map dict_get py_eq find_field]. destruct (pystr_eqb (fd_name d) n) eqn:E; [|exact IH].
    apply pystr_eqb_spec in E. subst n. reflexivity.
  Qed.

  (* Structure.__delitem__: refused on an immutable class, for an immutable field and for a required name;
     otherwise the entry is removed, __validate__ runs and a rejection puts the removed value back *)
  Definition delitem_decision (c : classdef) (n : pystr) : res (bool * bool) :=
    if c_immutable c then Raise ValueError
    else if field_immutable c n then Raise ValueError
    else if is_required c n then Raise ValueError
    else Ok (true, true).

  Lemma generated_delitem : forall c n,
      Structure__delitem (delitem_heap c) (PStr n) = delitem_decision c n.
  Proof.
    intros c n. unfold Structure__delitem, delitem_decision, obj_getattr_def, obj_getattr, ref, is_required, field_immutable.
    change (pystr_eqb ref_tag ref_tag) with true. cbv beta iota.
    change (delitem_heap c (s2p "self") (s2p "_immutable")) with (Some (PBool (c_immutable c))).
    change (delitem_heap c (s2p "self") (s2p "get_all_fields_by_name()")) with (Some (fields_dict c)).
    change (delitem_heap c (s2p "self") (s2p "_required")) with (Some (names_list (c_required c))).
    change (delitem_heap c (s2p "self") (s2p "_instantiated")) with (Some (PBool true)).
    change (delitem_heap c (s2p "self") (s2p "_skip_validation")) with (@None pyval).
    cbn [bind py_truthy]. destruct (c_immutable c); [reflexivity|]. cbn [bind].
    rewrite fields_dict_get. cbn [bind].
    assert (H : forall fd, find_field (c_fields c) n = Some fd ->
                delitem_heap c (fld_obj n) (s2p "_immutable") = Some (PBool (fd_immutable fd))).
    { intros fd Ef. unfold delitem_heap. rewrite fld_obj_not_self, un_fld_obj, Ef. reflexivity. }
    destruct (find_field (c_fields c) n) as [fd|]; unfold ref.
    - change (pystr_eqb ref_tag ref_tag) with true. cbv beta iota. rewrite (H fd eq_refl).
      cbn [bind py_truthy]. destruct (fd_immutable fd); [reflexivity|].
      cbn [bind py_and py_not]. change (py_isinstance (names_list (c_required c)) [K_list]) with true.
      cbn [bind]. rewrite in_names_list. cbn [bind].
      destruct (str_in n (c_required c)); reflexivity.
    - cbn [bind py_truthy py_and py_not]. change (py_isinstance (names_list (c_required c)) [K_list]) with true.
      cbn [bind]. rewrite in_names_list. cbn [bind].
      destruct (str_in n (c_required c)); reflexivity.
  Qed.

  (* mstep's DelItem is that guard followed by the removal, the hook and the restore *)
  Definition delete_entry (c : classdef) (a : attrs) (n : pystr) (hr : bool * bool) : attrs * outcome :=
    if alist_has a n then
      if fst hr && negb (hook_ok (c_hook c) (alist_del a n))
      then (if snd hr then a else alist_del a n, Raised ValueError)
      else (alist_del a n, Done)
    else (a, Raised KeyError).

  Lemma generated_delitem_is_model : forall c a n,
      mstep re_match e c a (DelItem n) =
      match Structure__delitem (delitem_heap c) (PStr n) with
      | Raise x => (a, Raised x)
      | Ok hr => delete_entry c a n hr
      end.
  Proof.
    intros c a n. rewrite generated_delitem. unfold delitem_decision, delete_entry. cbn [mstep fst snd].
    destruct (c_immutable c), (field_immutable c n), (is_required c n); cbn [orb]; try reflexivity.
    destruct (alist_has a n); [|reflexivity].
    destruct (hook_ok (c_hook c) (alist_del a n)); reflexivity.
  Qed.

  (* deleting from an instance of an immutable class, or an immutable field, always raises ValueError *)
  Lemma generated_delitem_guarded : forall c n,
      c_immutable c || field_immutable c n = true ->
      Structure__delitem (delitem_heap c) (PStr n) = Raise ValueError.
  Proof.
    intros c n H. rewrite generated_delitem. unfold delitem_decision.
    destruct (c_immutable c); [reflexivity|]. cbn [orb] in H. rewrite H. reflexivity.
  Qed.

  (* ---------------------------------------------------------------- ImmutableMixin._is_immutable / _raise_if_immutable *)
  (* a wrapper (_ListStruct/_DequeStruct/_DictStruct) of a field with immutability flag [fimm], bound to an
     instance of a class with flag [cimm] (or to no instance) *)
  Definition wrapper_heap (fimm : bool) (inst : option bool) : heap :=
    fun o a =>
      if pystr_eqb o (s2p "self") then
        if pystr_eqb a (s2p "_field_definition") then Some (ref (s2p "fd"))
        else if pystr_eqb a (s2p "_instance") then
               Some (match inst with Some _ => ref (s2p "inst") | None => PNone end)
        else None
      else if pystr_eqb o (s2p "fd") then
        if pystr_eqb a (s2p "_immutable") then Some (PBool fimm) else None
      else if pystr_eqb o (s2p "inst") then
        if pystr_eqb a (s2p "_immutable") then
          match inst with Some true => Some (PBool true) | _ => None end
        else None
      else None.

  Lemma generated_is_immutable : forall fimm inst,
      Mixin__is_immutable (wrapper_heap fimm inst) =
      Ok (fimm || match inst with Some b => b | None => false end).
  Proof. intros [|] [[|]|]; reflexivity. Qed.

  (* this is the [frozen] test of mstep's wrapper mutators: the guard raises exactly when the class or the
     field is immutable *)
  Lemma generated_raise_if_immutable : forall fimm cimm,
      Mixin__raise_if_immutable (wrapper_heap fimm (Some cimm)) =
      if cimm || fimm then Raise ValueError else Ok tt.
  Proof. intros [|] [|]; reflexivity. Qed.

  (* ---------------------------------------------------------------- Field.__set__ *)
  Definition field_heap (fd : fdecl) (instantiated : bool) (a : attrs) : heap :=
    fun o at' =>
      if pystr_eqb o (s2p "self") then
        if pystr_eqb at' (s2p "_immutable") then Some (PBool (fd_immutable fd))
        else if pystr_eqb at' (s2p "_name") then Some (PStr (fd_name fd))
        else None
      else if pystr_eqb o (s2p "instance") then
        if pystr_eqb at' (s2p "__dict__") then Some (names_dict (map fst a))
        else if pystr_eqb at' (s2p "_instantiated") then (if instantiated then Some (PBool true) else None)
        else None
      else if pystr_eqb o (s2p "TypedPyDefaults") then
        if pystr_eqb at' (s2p "uniqueness_features_enabled") then Some (PBool false) else None
      else None.

  Lemma alist_has_keys {A} (a : list (pystr * A)) n : str_in n (map fst a) = alist_has a n.
  Proof.
    unfold alist_has, str_in. induction a as [|[k x] t IH]; [reflexivity|].
    cbn [map fst existsb alist_get]. rewrite (pystr_eqb_sym k n).
    destruct (pystr_eqb n k); [reflexivity|exact IH].
  Qed.

  (* Field.__set__: an immutable field that already holds a value refuses; otherwise the value is stored
     and __validate__ runs iff the instance is already instantiated *)
  Lemma generated_field_set : forall fd inst a v,
      Field__set (field_heap fd inst a) v =
      if fd_immutable fd && alist_has a (fd_name fd) then Raise ValueError else Ok (v, inst).
  Proof.
    intros fd inst a v. unfold Field__set, obj_getattr_def, obj_getattr, ref.
    change (pystr_eqb ref_tag ref_tag) with true. cbv beta iota.
    change (field_heap fd inst a (s2p "self") (s2p "_immutable")) with (Some (PBool (fd_immutable fd))).
    change (field_heap fd inst a (s2p "self") (s2p "_name")) with (Some (PStr (fd_name fd))).
    change (field_heap fd inst a (s2p "self") (s2p "_custom_deep_copy_implementation")) with (@None pyval).
    change (field_heap fd inst a (s2p "instance") (s2p "__dict__")) with (Some (names_dict (map fst a))).
    change (field_heap fd inst a (s2p "instance") (s2p "_trust_supplied_values")) with (@None pyval).
    change (field_heap fd inst a (s2p "instance") (s2p "_skip_validation")) with (@None pyval).
    change (field_heap fd inst a (s2p "instance") (s2p "_instantiated")) with (if inst then Some (PBool true) else None).
    change (field_heap fd inst a (s2p "TypedPyDefaults") (s2p "uniqueness_features_enabled")) with (Some (PBool false)).
    cbn [bind py_truthy]. rewrite in_names_dict, alist_has_keys.
    destruct (fd_immutable fd), (alist_has a (fd_name fd)), inst; reflexivity.
  Qed.

  Lemma generated_setattr_immutable : forall c n v,
      c_immutable c = true -> ordinary_name n = true ->
      Structure__setattr (struct_heap c true) (PStr n) v = Raise ValueError.
  Proof.
    intros c n v Hc Hn. rewrite generated_setattr by assumption.
    unfold setattr_decision. rewrite Hc. reflexivity.
  Qed.

  Lemma generated_is_immutable_unbound : forall fimm,
      Mixin__is_immutable (wrapper_heap fimm None) = Ok fimm.
  Proof. intros fimm. rewrite generated_is_immutable. destruct fimm; reflexivity. Qed.
End Bridge.
