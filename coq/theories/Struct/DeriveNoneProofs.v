(* The None decision of a derived class is the None decision of its source under EVERY value of the process-wide
   default (also one that is switched after the class was derived): C12. *)
From Coq Require Import ZArith NArith String Bool List.
Import ListNotations.
From TP Require Import Base.PyVal Fields.FieldAst Fields.SetChain Struct.Define Struct.DefineProofs Struct.Derive
     Struct.DeriveProofs Struct.DeriveNone.

Section DeriveNoneProofs.
  Variable re_match : N -> pystr -> bool.
  Variable e : env.
  Variable gd : guards.

  (* the derived class sees exactly the attribute value -- absent, False or True -- that its source sees *)
  Theorem derive_seen_ignore_none g k o cn k' :
    base_ok g -> inherited_ignore_none g [n_Structure] = None ->
    find_klass g (k_name k) = Some k -> k_mro k = k_name k :: tl_str (k_mro k) ->
    derived_name o cn k <> n_Structure ->
    derive re_match e gd g k o cn = Ok k' ->
    seen_ignore_none (k' :: g) k' = seen_ignore_none g k.
  Proof.
    intros Hb Hroot Hfind Hmro Hne H.
    destruct (derive_spec re_match e gd g k o cn k' Hb H) as [ms [_ [_ [_ [_ [_ [Hm [Hname Hign]]]]]]]].
    unfold seen_ignore_none. rewrite Hm, Hmro.
    cbn [inherited_ignore_none find_klass]. rewrite Hname, pystr_eqb_refl, Hfind, Hign.
    unfold effective_ignore_none, bases_ignore_none.
    destruct (k_ignore_none k) as [b|]; [reflexivity|].
    destruct (inherited_ignore_none g (tl_str (k_mro k))) as [b|]; [reflexivity|].
    destruct (pystr_eqb (derived_name o cn k) n_Structure) eqn:E.
    - apply pystr_eqb_spec in E. contradiction.
    - cbn [inherited_ignore_none] in Hroot. exact Hroot.
  Qed.

  Theorem derive_none_decision g k o cn k' :
    base_ok g -> inherited_ignore_none g [n_Structure] = None ->
    find_klass g (k_name k) = Some k -> k_mro k = k_name k :: tl_str (k_mro k) ->
    derived_name o cn k <> n_Structure ->
    derive re_match e gd g k o cn = Ok k' ->
    forall allow_none_default : bool,
      none_decision (k' :: g) allow_none_default (k_mro k') = none_decision g allow_none_default (k_mro k).
  Proof.
    intros Hb Hroot Hfind Hmro Hne H d.
    pose proof (derive_seen_ignore_none g k o cn k' Hb Hroot Hfind Hmro Hne H) as Hs.
    unfold seen_ignore_none in Hs. unfold none_decision. rewrite Hs. reflexivity.
  Qed.

  (* a derivation that carries the attribute over only when it is truthy (a source that says False yields a class
     that does not say anything) is NOT the model: under the default True the two classes decide differently *)
  Definition carried_if_truthy (seen : option bool) : option bool :=
    match seen with Some true => Some true | _ => None end.

  Lemma carried_if_truthy_differs :
    exists seen d, (match carried_if_truthy seen with Some b => b | None => d end)
                   <> (match seen with Some b => b | None => d end).
  Proof. exists (Some false), true. cbn. discriminate. Qed.
End DeriveNoneProofs.
