(* The configuration of the handle model as GENERATED from /repo's working tree (Gen/Tables.v, Gen/TablesC04.v):
   re-checked by the kernel on every run. *)
From Coq Require Import List ZArith Bool NArith String. Import ListNotations.
From TP Require Import Base.PyVal Struct.Shapes Struct.Handles Gen.Tables Gen.TablesC04.

Definition today_muts (k : okind) : mutator_table :=
  match k with KList => list_mutators | KDeque => deque_mutators | KDict => dict_mutators | _ => [] end.
Definition today_inplace (k : okind) : list pystr :=
  match k with KList => list_inplace_also | KDeque => deque_inplace_also | KDict => dict_inplace_also | _ => [] end.
Definition today_accs (k : okind) : accessor_table :=
  match k with KList => list_accessors | KDeque => deque_accessors | KDict => dict_accessors | _ => [] end.
Definition today_base_accs (k : okind) : list (pystr * retkind) :=
  match k with
  | KList => base_list_accessors | KDeque => base_deque_accessors | KDict => base_dict_accessors
  | KSet => base_set_accessors | KFrozen => base_frozenset_accessors | KTuple => base_tuple_accessors
  | _ => []
  end.
Definition today_base_muts (k : okind) : list pystr :=
  match k with
  | KList => map fst list_mutators | KDeque => map fst deque_mutators | KDict => map fst dict_mutators
  | KSet => map fst set_mutators | _ => []
  end.
Definition today_init_copies (k : okind) : bool :=
  match k with KList => init_copies_list | KDeque => init_copies_deque | KDict => init_copies_dict | _ => false end.

Definition today (struct_imm field_imm : bool) : cfg :=
  {| c_struct_imm := struct_imm; c_field_imm := field_imm;
     c_muts := today_muts; c_inplace := today_inplace; c_accs := today_accs;
     c_base_accs := today_base_accs; c_base_muts := today_base_muts;
     c_types_get := immutable_types_get; c_copies_get := deepcopies_get;
     c_types_set := immutable_types_set; c_copies_set := deepcopies_set;
     c_types_setattr := immutable_types_setattr; c_copies_setattr := deepcopies_setattr;
     c_types_mixin := immutable_types_mixin; c_copies_mixin := deepcopies_mixin;
     c_get_field_flag := field_get_honours_field_flag;
     c_delitem_guarded := delitem_guarded;
     c_unpickle_keeps := unpickle_keeps_instantiated;
     c_nested_bound := nested_wrapper_bound;
     c_init_copies := today_init_copies;
     c_map_custom_deepcopy := map_custom_deepcopy |}.

Definition today_final : final_cfg :=
  {| f_sealed := final_sealed; f_strict := final_strict; f_skips_first := final_skips_first;
     f_called_by := final_called_by |}.

(* the entries of today's tables that the model predicts to be holes (printed by the check) *)
Definition unguarded_mutators (k : okind) : list pystr :=
  map fst (filter (fun e => negb (shape_guarded_strict (snd e))) (today_muts k)).
Definition raw_accessors (k : okind) : list pystr :=
  map fst (filter (fun e => match fst (snd e) with ANotOverridden | AUnrecognised => true | _ => false end) (today_accs k)).
