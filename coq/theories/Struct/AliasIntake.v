(* C19 — intake model: what an instance keeps of a value it is given.

   typedpy decides in FOUR places whether a value is deep-copied on its way into an immutable owner, each by an
   isinstance test against a tuple of exempt types:
     Structure.__setattr__                            (owner: an ImmutableStructure, top level of every field)
     Field.__set__                                    (owner: a field declared immutable, at every nested position)
     ImmutableMixin._get_defensive_copy_if_needed     (the list/deque/dict wrappers, when built for an immutable owner)
   plus the question whether each wrapper's __init__ routes its argument through that copy at all, and the
   Map exception (_custom_deep_copy_implementation).  Those tuples and flags are GENERATED from the source
   (Gen/AliasTables.v); this file gives them executable meaning: for an owner kind, a declared field type and the
   SHAPE of the argument value (which python container kinds it is made of -- including the immutable-looking ones,
   tuple and frozenset, that can hold mutable objects), does the instance end up sharing a caller-mutable object?

   No proofs here (Struct/AliasIntakeProofs.v). *)
From Coq Require Import String List Bool Arith NArith.
Import ListNotations.
From TP Require Import Base.PyVal Struct.Alias.

(* ------------------------------------------------------------------------------------ values *)

(* runtime type of a value, as far as the isinstance tuples can distinguish *)
Inductive pyty :=
| YScalar        (* int, float, str, bool, None, enum members: immutable, no parts *)
| YTuple | YFrozenset
| YList | YDict | YSet | YDeque
| YObject        (* instance of a user class *)
| YStruct        (* instance of a (mutable) Structure class *)
| YImmStruct     (* instance of an ImmutableStructure class *)
| YWrapper       (* _ListStruct / _DictStruct / _DequeStruct (ImmutableMixin) bound to a mutable owner *)
| YImmWrapper    (* such a wrapper bound to an immutable owner: its mutators raise *)
| YUnknownTy.    (* a table entry the generator could not resolve: matches every value (fail closed) *)

Definition pyty_eqb (a b : pyty) : bool :=
  match a, b with
  | YScalar, YScalar | YTuple, YTuple | YFrozenset, YFrozenset | YList, YList | YDict, YDict | YSet, YSet
  | YDeque, YDeque | YObject, YObject | YStruct, YStruct | YImmStruct, YImmStruct | YWrapper, YWrapper
  | YImmWrapper, YImmWrapper | YUnknownTy, YUnknownTy => true
  | _, _ => false
  end.

(* shape of an argument value *)
Inductive vshape :=
| VAtom
| VList (xs : list vshape)
| VTuple (xs : list vshape)
| VDeque (xs : list vshape)
| VSet (xs : list vshape)
| VFrozenset (xs : list vshape)
| VDict (xs : list vshape)              (* the values; keys are atoms *)
| VRec (xs : list (option vshape))      (* a nested DOCUMENT for a structure-typed position: one entry per declared field *)
| VObj (xs : list vshape)               (* a plain object holding xs in (re-assignable) attributes *)
| VWrapper (xs : list vshape)           (* the live value of a list / deque / dict field of another instance (the donor): a wrapper *)
| VInst.                                (* a Structure instance made by the caller *)

Definition pyty_of (v : vshape) : pyty :=
  match v with
  | VAtom => YScalar | VList _ => YList | VTuple _ => YTuple | VDeque _ => YDeque | VSet _ => YSet
  | VFrozenset _ => YFrozenset | VDict _ => YDict | VRec _ => YDict | VObj _ => YObject
  | VWrapper _ => YWrapper | VInst => YStruct
  end.

(* can the caller change this very object after handing it over? *)
Definition self_mutable (v : vshape) : bool :=
  match v with
  | VAtom | VTuple _ | VFrozenset _ => false
  | _ => true
  end.

(* is a caller-mutable object reachable from v (v itself included)? *)
Fixpoint mutable_reach (v : vshape) : bool :=
  let any := fix any (l : list vshape) : bool := match l with [] => false | x :: r => mutable_reach x || any r end in
  match v with
  | VAtom => false
  | VTuple xs | VFrozenset xs => any xs
  | VRec _ | VList _ | VDeque _ | VSet _ | VDict _ | VObj _ | VWrapper _ | VInst => true
  end.

Definition any_reach (xs : list vshape) : bool := existsb mutable_reach xs.

(* ------------------------------------------------------------------------------------ tables *)

Record ctables := mkT {
  t_setattr : list pyty;  t_setattr_copies : bool;   (* Structure.__setattr__, owner an immutable structure *)
  t_set : list pyty;      t_set_copies : bool;       (* Field.__set__, field declared immutable *)
  t_mixin : list pyty;    t_mixin_copies : bool;     (* ImmutableMixin._get_defensive_copy_if_needed *)
  t_list_gate : bool;                                (* _ListStruct.__init__ passes its argument through the mixin's copy *)
  t_deque_gate : bool;
  t_dict_gate : bool;
  t_map_custom : bool                                (* Map fields are skipped by Field.__set__'s copy *)
}.

(* isinstance: a table entry covers its subclasses (ImmutableMixin covers every wrapper, Structure every structure) *)
Definition ty_matches (e y : pyty) : bool :=
  pyty_eqb e y || pyty_eqb e YUnknownTy
  || (pyty_eqb e YWrapper && pyty_eqb y YImmWrapper) || (pyty_eqb e YStruct && pyty_eqb y YImmStruct).

Definition in_table (tb : list pyty) (y : pyty) : bool := existsb (fun e => ty_matches e y) tb.

(* the value goes through by reference *)
Definition passes (tb : list pyty) (copies : bool) (y : pyty) : bool := negb copies || in_table tb y.

Inductive owner := OwnPlain | OwnImmStruct | OwnImmField.

Definition owner_immutable (o : owner) : bool := match o with OwnPlain => false | _ => true end.

(* ------------------------------------------------------------------------------------ positions *)

(* the wrapper built for a list / deque / dict position deep-copies what it is given *)
Definition wrapper_copies (tb : ctables) (gate imm : bool) (y : pyty) : bool :=
  gate && imm && negb (passes (t_mixin tb) (t_mixin_copies tb) y).

(* Field.__set__ of an immutable field lets the (already processed) value y through by reference *)
Definition fset_passes (tb : ctables) (fimm : bool) (y : pyty) : bool :=
  negb fimm || passes (t_set tb) (t_set_copies tb) y.

(* [deser]: the value is a document handed to the Deserializer (typed containers are rebuilt first, nested
            structures are given as nested documents); otherwise it is a constructor / setattr argument.
   [oimm] : the owner promises a defensive copy (ImmutableStructure / field declared immutable): a Structure instance
            kept by reference then counts as shared state (a mutable owner composes instances by reference, by design);
   [fimm] : the field at this position is declared immutable (propagates to every nested position);
   [iimm] : the wrapper at this position is bound to an immutable instance (top level of an ImmutableStructure).
   Result : the stored value shares a caller-mutable object with the argument. *)
Fixpoint pos (sv : sites) (tb : ctables) (deser oimm fimm iimm : bool) (t : aty) (v : vshape) {struct t} : bool :=
  match t with
  | TScalar _ => false
  | TAny => fset_passes tb fimm (pyty_of v) && mutable_reach v
  | TArray None =>
      match v with
      | VList xs | VWrapper xs =>
          (* no item field: the wrapper is built from the value itself, which may be another instance's wrapper *)
          negb (s_array_set_wraps sv) || negb (eff_safe (s_liststruct_init sv)) ||
          (negb (wrapper_copies tb (t_list_gate tb) (fimm || iimm) (if deser then YList else pyty_of v)) && fset_passes tb fimm YImmWrapper && any_reach xs)
      | _ => false
      end
  | TArray (Some i) =>
      match v with
      | VList xs | VWrapper xs =>      (* every element goes through the item field: a new list is wrapped *)
          negb (s_array_set_wraps sv) || negb (eff_safe (s_liststruct_init sv)) ||
          (negb (wrapper_copies tb (t_list_gate tb) (fimm || iimm) YList) && fset_passes tb fimm YImmWrapper
           && existsb (fun x => pos sv tb deser oimm fimm false i x) xs)
      | _ => false
      end
  | TArrayPos l =>
      match v with
      | VList xs | VWrapper xs =>
          negb (s_array_set_wraps sv) || negb (eff_safe (s_liststruct_init sv)) ||
          (negb (wrapper_copies tb (t_list_gate tb) (fimm || iimm) YList) && fset_passes tb fimm YImmWrapper
           && (fix any (l : list aty) (xs : list vshape) : bool :=
                 match l, xs with
                 | a :: l', x :: xs' => pos sv tb deser oimm fimm false a x || any l' xs'
                 | _, _ => any_reach xs          (* additional items are kept as they are *)
                 end) l xs)
      | _ => false
      end
  | TDeque None =>
      match v with
      | VDeque xs | VList xs | VWrapper xs =>
          negb (wrapper_copies tb (t_deque_gate tb) (fimm || iimm) (if deser then YDeque else match v with VWrapper _ => YWrapper | _ => YDeque end)) && fset_passes tb fimm YImmWrapper && any_reach xs
      | _ => false
      end
  | TDeque (Some i) =>
      match v with
      | VDeque xs | VList xs | VWrapper xs =>
          negb (wrapper_copies tb (t_deque_gate tb) (fimm || iimm) YDeque) && fset_passes tb fimm YImmWrapper
          && existsb (fun x => pos sv tb deser oimm fimm false i x) xs
      | _ => false
      end
  | TMap None =>
      match v with
      | VDict xs | VWrapper xs =>
          negb (s_map_set_wraps sv) || negb (eff_safe (s_dictstruct_init sv)) ||
          (negb (wrapper_copies tb (t_dict_gate tb) (fimm || iimm) (if deser then YDict else match v with VWrapper _ => YWrapper | _ => YDict end))
           && (t_map_custom tb || fset_passes tb fimm YImmWrapper) && any_reach xs)
      | _ => false
      end
  | TMap (Some i) =>
      match v with
      | VDict xs | VWrapper xs =>
          negb (s_map_set_wraps sv) || negb (eff_safe (s_dictstruct_init sv)) ||
          (negb (wrapper_copies tb (t_dict_gate tb) (fimm || iimm) YDict)
           && (t_map_custom tb || fset_passes tb fimm YImmWrapper)
           && existsb (fun x => pos sv tb deser oimm fimm false i x) xs)
      | _ => false
      end
  | TSet true => false                       (* elements pass through a scalar field; a new set is stored *)
  | TSet false =>
      match v with
      | VSet xs | VFrozenset xs | VList xs =>
          if fimm then fset_passes tb true YFrozenset && any_reach xs      (* ImmutableSet stores frozenset(value) *)
          else if deser then any_reach xs                                  (* the deserializer builds the set *)
          else mutable_reach v                                             (* the caller's set itself is stored *)
      | _ => false
      end
  | TTuple l =>
      match v with
      | VTuple xs | VList xs =>
          fset_passes tb fimm YTuple &&
          (fix any (l : list aty) (xs : list vshape) : bool :=
             match l, xs with
             | a :: l', x :: xs' => pos sv tb deser oimm fimm false a x || any l' xs'
             | _, _ => false
             end) l xs
      | _ => false
      end
  | TStruct l =>
      if deser
      then match v with
           | VRec xs =>
               fset_passes tb fimm YStruct &&
               (fix any (l : list aty) (xs : list (option vshape)) : bool :=
                  match l, xs with
                  | a :: l', Some x :: xs' => pos sv tb deser oimm false false a x || any l' xs'
                  | _ :: l', None :: xs' => any l' xs'
                  | _, _ => false
                  end) l xs
           | _ => false
           end
      else match v with
           | VInst => oimm && fset_passes tb fimm YStruct
           | _ => false
           end
  | TOpt i => pos sv tb deser oimm fimm false i v      (* AnyOf validates on a scratch structure and stores the normal form *)
  end.

(* the type Structure.__setattr__ sees: a constructor argument as it is (possibly another instance's wrapper); a
   document's containers have been rebuilt by the Deserializer *)
Fixpoint top_pyty (deser : bool) (t : aty) (v : vshape) : pyty :=
  match t with
  | TScalar _ => YScalar
  | TAny => pyty_of v
  | TArray _ | TArrayPos _ => if deser then YList else match v with VWrapper _ => YWrapper | _ => YList end
  | TMap _ => if deser then YDict else match v with VWrapper _ => YWrapper | _ => YDict end
  | TSet _ => match v with VFrozenset _ => YFrozenset | _ => YSet end
  | TTuple _ => YTuple
  | TDeque _ => if deser then YDeque else match v with VWrapper _ => YWrapper | _ => YDeque end
  | TStruct _ => YStruct
  | TOpt i => top_pyty deser i v
  end.

Definition retains (sv : sites) (tb : ctables) (own : owner) (deser : bool) (t : aty) (v : vshape) : bool :=
  match own with
  | OwnPlain => pos sv tb deser false false false t v
  | OwnImmStruct =>
      passes (t_setattr tb) (t_setattr_copies tb) (top_pyty deser t v) && pos sv tb deser true false true t v
  | OwnImmField => pos sv tb deser true true false t v
  end.

(* the argument has the shape the declared type admits (the harness only generates such cases) *)
Fixpoint shape_ok (deser : bool) (t : aty) (v : vshape) {struct t} : bool :=
  match t with
  | TScalar _ => match v with VAtom => true | _ => false end
  | TAny => true
  | TArray None => match v with VList _ | VWrapper _ => true | _ => false end
  | TArray (Some i) => match v with VList xs | VWrapper xs => forallb (fun x => shape_ok deser i x) xs | _ => false end
  | TArrayPos l | TTuple l =>
      let all := fix all (l : list aty) (xs : list vshape) : bool :=
                   match l, xs with
                   | [], [] => true
                   | a :: l', x :: xs' => shape_ok deser a x && all l' xs'
                   | _, _ => false
                   end in
      match t, v with
      | TArrayPos _, VList xs | TArrayPos _, VWrapper xs => all l xs
      | TTuple _, VTuple xs => negb deser && all l xs
      | TTuple _, VList xs => deser && all l xs
      | _, _ => false
      end
  | TDeque None => match v with VDeque _ => negb deser | VList _ => deser | VWrapper _ => true | _ => false end
  | TDeque (Some i) =>
      match v with
      | VDeque xs => negb deser && forallb (fun x => shape_ok deser i x) xs
      | VList xs => deser && forallb (fun x => shape_ok deser i x) xs
      | VWrapper xs => forallb (fun x => shape_ok deser i x) xs
      | _ => false
      end
  | TMap None => match v with VDict _ | VWrapper _ => true | _ => false end
  | TMap (Some i) => match v with VDict xs | VWrapper xs => forallb (fun x => shape_ok deser i x) xs | _ => false end
  | TSet _ => match v with VSet _ | VFrozenset _ => negb deser | VList _ => deser | _ => false end
  | TStruct l =>
      match v with
      | VRec xs =>
          deser && (fix all (l : list aty) (xs : list (option vshape)) : bool :=
                      match l, xs with
                      | [], [] => true
                      | a :: l', Some x :: xs' => shape_ok deser a x && all l' xs'
                      | _ :: l', None :: xs' => all l' xs'
                      | _, _ => false
                      end) l xs
      | VInst => negb deser
      | _ => false
      end
  | TOpt i => shape_ok deser i v
  end.

(* ------------------------------------------------------------------------------------ what is safe *)

(* types none of whose values can reach a caller-mutable object *)
Definition atomic_ty (y : pyty) : bool := match y with YScalar | YImmStruct | YImmWrapper => true | _ => false end.
Definition atomic_table (tb : list pyty) : bool := forallb atomic_ty tb.

(* for every other type, a value of that type from which a caller-mutable object is reachable *)
Definition witness_of (y : pyty) : vshape :=
  match y with
  | YTuple => VTuple [VList [VAtom]; VAtom]
  | YFrozenset => VFrozenset [VObj [VAtom]]
  | YList | YUnknownTy => VList [VAtom]
  | YDict => VDict [VAtom]
  | YSet => VSet [VAtom]
  | YDeque => VDeque [VAtom]
  | YObject => VObj [VAtom]
  | YStruct => VInst
  | YWrapper => VWrapper [VList [VAtom]]
  | YScalar | YImmStruct | YImmWrapper => VAtom
  end.

(* the copy sites of the wrappers and of collection fields are in place *)
Definition sites_intake_ok (sv : sites) : bool :=
  s_array_set_wraps sv && s_map_set_wraps sv && eff_safe (s_liststruct_init sv) && eff_safe (s_dictstruct_init sv).

(* nothing mutable gets through the gates of a field declared immutable *)
Definition mixin_ok (tb : ctables) : bool :=
  t_mixin_copies tb && negb (in_table (t_mixin tb) YList) && negb (in_table (t_mixin tb) YDeque)
  && negb (in_table (t_mixin tb) YDict) && negb (in_table (t_mixin tb) YWrapper).

Definition field_gates_ok (tb : ctables) : bool :=
  t_set_copies tb && atomic_table (t_set tb) && mixin_ok tb
  && t_list_gate tb && t_deque_gate tb && t_dict_gate tb.

(* nothing mutable gets through Structure.__setattr__ of an immutable structure *)
Definition struct_gate_ok (tb : ctables) : bool := t_setattr_copies tb && atomic_table (t_setattr tb).
