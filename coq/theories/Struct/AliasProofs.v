(* Proofs about the aliasing model (Struct/Alias.v): separation is preserved by every operation whose
   effect summary is safe and by every client mutation, and the abstract state of the instance only
   depends on the content of the locations it owns. *)
From Coq Require Import ZArith String List Bool Arith NArith Lia.
Import ListNotations.
From TP Require Import Base.PyVal Struct.Alias.

(* ------------------------------------------------------------------------------ store lemmas *)

Lemma lookup_update_other : forall s l l' c, l <> l' -> lookup (update s l c) l' = lookup s l'.
Proof.
  unfold lookup. induction s as [|x s IH]; intros l l' c Hne; [reflexivity|].
  destruct l as [|l]; destruct l' as [|l']; cbn [update nth_error]; try reflexivity; try congruence.
  apply IH. congruence.
Qed.

Lemma lookup_update_same : forall s l c c0, lookup s l = Some c0 -> lookup (update s l c) l = Some c.
Proof.
  unfold lookup. induction s as [|x s IH]; intros l c c0 H.
  - destruct l; discriminate.
  - destruct l as [|l]; cbn [update nth_error] in *; [reflexivity|]. eapply IH; eauto.
Qed.

Lemma lookup_some_lt : forall s l c, lookup s l = Some c -> l < length s.
Proof. unfold lookup. intros s l c H. apply nth_error_Some. congruence. Qed.

Lemma lookup_app_old : forall s x l c, lookup s l = Some c -> lookup (s ++ x) l = Some c.
Proof. unfold lookup. intros s x l c H. rewrite nth_error_app1; [assumption|]. eapply lookup_some_lt; eauto. Qed.

Lemma lookup_app_new : forall s c, lookup (s ++ [c]) (length s) = Some c.
Proof. unfold lookup. intros s c. rewrite nth_error_app2 by lia. rewrite Nat.sub_diag. reflexivity. Qed.

Lemma memb_In : forall x l, memb x l = true <-> In x l.
Proof.
  unfold memb. intros x l. rewrite existsb_exists. split.
  - intros [y [Hy He]]. apply Nat.eqb_eq in He. subst. assumption.
  - intro H. exists x. split; [assumption|apply Nat.eqb_refl].
Qed.

Lemma subsetb_incl : forall a b, subsetb a b = true <-> incl a b.
Proof.
  unfold subsetb, incl. intros a b. rewrite forallb_forall. split; intros H x Hx.
  - apply memb_In. apply H. assumption.
  - apply memb_In. apply H. assumption.
Qed.

Lemma flatc_refs : forall c, flatc c = true -> refs c = [].
Proof.
  unfold flatc, refs. intros [k es]. cbn [elems]. induction es as [|[key it] es IH]; intro H; [reflexivity|].
  cbn [forallb flat_map snd] in *. apply andb_true_iff in H as [H1 H2].
  destruct it; [|discriminate]. cbn [item_refs app]. apply IH. assumption.
Qed.

Lemma refs_freeze : forall n s c, refs (freeze n s c) = [].
Proof.
  unfold freeze, refs. intros n s [k es]. cbn [elems]. induction es as [|[key it] es IH]; [reflexivity|].
  cbn [map flat_map snd item_refs app]. assumption.
Qed.

Lemma refs_elem : forall c p, In p (elems c) -> incl (item_refs (snd p)) (refs c).
Proof.
  unfold refs. intros c p Hp x Hx. apply in_flat_map. exists p. split; assumption.
Qed.

(* ------------------------------------------------------------------------------- separation *)

Definition closed (s : store) (ls : list loc) : Prop :=
  forall l, In l ls -> exists c, lookup s l = Some c /\ incl (refs c) ls.

Definition sep (w : world) : Prop :=
  closed (st w) (own w) /\ closed (st w) (acc w) /\
  (forall l, In l (own w) -> ~ In l (acc w)) /\
  (forall f l, In (f, ILoc l) (fields w) -> In l (own w)).

Lemma closedb_sound : forall s ls, closedb s ls = true -> closed s ls.
Proof.
  unfold closedb, closed. intros s ls H l Hl. rewrite forallb_forall in H. specialize (H l Hl).
  destruct (lookup s l) as [c|]; [|discriminate]. exists c. split; [reflexivity|]. apply subsetb_incl. assumption.
Qed.

Lemma sepb_sound : forall w, sepb w = true -> sep w.
Proof.
  unfold sepb, sep. intros w H.
  apply andb_true_iff in H as [H H4]. apply andb_true_iff in H as [H H3]. apply andb_true_iff in H as [H1 H2].
  split; [apply closedb_sound; assumption|]. split; [apply closedb_sound; assumption|]. split.
  - intros l Hl Ha. unfold disjointb in H3. rewrite forallb_forall in H3. specialize (H3 l Hl).
    apply memb_In in Ha. rewrite Ha in H3. discriminate.
  - intros f l Hin. unfold roots_inb in H4. rewrite forallb_forall in H4. specialize (H4 _ Hin).
    cbn [snd item_refs] in H4. apply subsetb_incl in H4. apply H4. left. reflexivity.
Qed.

(* the abstract value of an item only depends on the locations of a closed set containing its roots *)
Lemma resolve_agree : forall s s' ls,
    closed s ls -> (forall l, In l ls -> lookup s' l = lookup s l) ->
    forall n it, incl (item_refs it) ls -> resolve n s' it = resolve n s it.
Proof.
  intros s s' ls Hc Hag. induction n as [|n IH]; intros it Hin.
  - destruct it; reflexivity.
  - destruct it as [v|l]; [reflexivity|]. cbn [resolve].
    assert (Hl : In l ls) by (apply Hin; left; reflexivity).
    rewrite (Hag l Hl). destruct (Hc l Hl) as [c [Hlk Hrefs]]. rewrite Hlk.
    assert (Hmap : map (fun p => (fst p, resolve n s' (snd p))) (elems c)
                   = map (fun p => (fst p, resolve n s (snd p))) (elems c)).
    { apply map_ext_in. intros p Hp. f_equal. apply IH.
      intros x Hx. apply Hrefs. eapply refs_elem; eauto. }
    rewrite Hmap. reflexivity.
Qed.

Definition own_stable (w w' : world) : Prop :=
  own w' = own w /\ fields w' = fields w /\ forall l, In l (own w) -> lookup (st w') l = lookup (st w) l.

Lemma own_stable_refl : forall w, own_stable w w.
Proof. intro w. repeat split; reflexivity. Qed.

Lemma own_stable_trans : forall a b c, own_stable a b -> own_stable b c -> own_stable a c.
Proof.
  intros a b c [H1 [H2 H3]] [G1 [G2 G3]]. split; [congruence|]. split; [congruence|].
  intros l Hl. rewrite G3 by (rewrite H1; assumption). apply H3. assumption.
Qed.

Lemma closed_incl_cons : forall s ls x l, closed s ls -> In l ls ->
    exists c, lookup s l = Some c /\ incl (refs c) (x :: ls).
Proof.
  intros s ls x l Hc Hl. destruct (Hc l Hl) as [c [H1 H2]]. exists c. split; [assumption|].
  intros y Hy. right. apply H2. assumption.
Qed.

(* one client mutation keeps the separation and does not touch what the instance owns *)
Lemma cstep_sep : forall w m, sep w -> sep (cstep w m) /\ own_stable w (cstep w m).
Proof.
  intros w m [Hown [Hacc [Hdis Hroots]]]. destruct m as [l c|c]; cbn [cstep].
  - destruct (memb l (acc w) && subsetb (refs c) (acc w)) eqn:Hg.
    2:{ split; [repeat split; assumption|apply own_stable_refl]. }
    apply andb_true_iff in Hg as [Hl Hc]. apply memb_In in Hl. apply subsetb_incl in Hc.
    assert (Hne : forall l', In l' (own w) -> l <> l').
    { intros l' Hl' E. subst. exact (Hdis _ Hl' Hl). }
    split.
    + split; [|split; [|split]]; cbn [st own acc fields].
      * intros l' Hl'. rewrite lookup_update_other by (apply Hne; assumption). apply Hown. assumption.
      * intros l' Hl'. destruct (Nat.eq_dec l l') as [E|E].
        -- subst l'. destruct (Hacc l Hl) as [c0 [Hlk _]]. exists c. split; [|assumption].
           eapply lookup_update_same; eauto.
        -- rewrite lookup_update_other by assumption. apply Hacc. assumption.
      * assumption.
      * assumption.
    + split; [reflexivity|]. split; [reflexivity|]. cbn [st]. intros l' Hl'.
      apply lookup_update_other. apply Hne. assumption.
  - destruct (subsetb (refs c) (acc w)) eqn:Hg.
    2:{ split; [repeat split; assumption|apply own_stable_refl]. }
    apply subsetb_incl in Hg. split.
    + split; [|split; [|split]]; cbn [st own acc fields].
      * intros l' Hl'. destruct (Hown l' Hl') as [c0 [Hlk Hr]]. exists c0. split; [|assumption].
        apply lookup_app_old. assumption.
      * intros l' [E|Hl'].
        -- subst l'. exists c. split; [apply lookup_app_new|]. intros y Hy. right. apply Hg. assumption.
        -- destruct (closed_incl_cons _ _ (length (st w)) _ Hacc Hl') as [c0 [Hlk Hr]].
           exists c0. split; [apply lookup_app_old; assumption|assumption].
      * intros l' Hl' [E|Ha]; [|exact (Hdis _ Hl' Ha)].
        subst l'. destruct (Hown _ Hl') as [c0 [Hlk _]]. apply lookup_some_lt in Hlk. lia.
      * assumption.
    + split; [reflexivity|]. split; [reflexivity|]. cbn [st]. intros l' Hl'.
      destruct (Hown l' Hl') as [c0 [Hlk _]]. rewrite Hlk. apply lookup_app_old. assumption.
Qed.

Lemma run_client_sep : forall ms w, sep w -> sep (run_client w ms) /\ own_stable w (run_client w ms).
Proof.
  unfold run_client. induction ms as [|m ms IH]; intros w Hs; cbn [fold_left].
  - split; [assumption|apply own_stable_refl].
  - destruct (cstep_sep w m Hs) as [Hs' Hst]. destruct (IH _ Hs') as [Hs'' Hst'].
    split; [assumption|]. eapply own_stable_trans; eauto.
Qed.

Lemma abs_state_stable : forall w w' n, sep w -> own_stable w w' -> abs_state n w' = abs_state n w.
Proof.
  intros w w' n [Hown [_ [_ Hroots]]] [H1 [H2 H3]]. unfold abs_state. rewrite H2.
  apply map_ext_in. intros [f it] Hin. cbn [fst snd]. f_equal.
  apply (resolve_agree (st w) (st w') (own w) Hown H3).
  destruct it as [v|l]; cbn [item_refs]; intros x Hx; [destruct Hx|].
  destruct Hx as [E|[]]. subst x. eapply Hroots; eauto.
Qed.

(* client mutations, however many, never change the abstract state of a separated instance *)
Lemma client_noninterference : forall w ms n, sep w -> abs_state n (run_client w ms) = abs_state n w.
Proof.
  intros w ms n Hs. destruct (run_client_sep ms w Hs) as [_ Hst]. apply abs_state_stable; assumption.
Qed.

(* ------------------------------------------------------------------------------- operations *)

Definition arg_ok (w : world) (a : action) : Prop :=
  match a with
  | AStore _ _ arg => In arg (acc w)
  | AWrite arg _ => In arg (acc w)
  | AReturn _ _ => True
  end.

Definition acc_stable (w w' : world) : Prop :=
  incl (acc w) (acc w') /\ forall l, In l (acc w) -> lookup (st w') l = lookup (st w) l.

Lemma acc_stable_refl : forall w, acc_stable w w.
Proof. intro w. split; [apply incl_refl|reflexivity]. Qed.

Lemma alist_set_in : forall (fs : list (pystr * item)) f v g x,
    In (g, x) (alist_set fs f v) -> In (g, x) fs \/ x = v.
Proof.
  induction fs as [|[k y] fs IH]; intros f v g x H; cbn [alist_set] in H.
  - destruct H as [E|[]]. inversion E. right. reflexivity.
  - destruct (pystr_eqb k f).
    + destruct H as [E|H]; [inversion E; right; reflexivity|left; right; assumption].
    + destruct H as [E|H]; [left; left; assumption|].
      destruct (IH _ _ _ _ H) as [H'|H']; [left; right; assumption|right; assumption].
Qed.

(* appending a container without outgoing references as a new location owned by the instance *)
Lemma sep_alloc_own : forall w c f,
    sep w -> refs c = [] ->
    sep (mkW (st w ++ [c]) (length (st w) :: own w) (alist_set (fields w) f (ILoc (length (st w)))) (acc w)).
Proof.
  intros w c f [Hown [Hacc [Hdis Hroots]]] Hr. split; [|split; [|split]]; cbn [st own acc fields].
  - intros l [E|Hl].
    + subst l. exists c. split; [apply lookup_app_new|]. rewrite Hr. intros y [].
    + destruct (closed_incl_cons _ _ (length (st w)) _ Hown Hl) as [c0 [Hlk Hi]].
      exists c0. split; [apply lookup_app_old; assumption|assumption].
  - intros l Hl. destruct (Hacc l Hl) as [c0 [Hlk Hi]]. exists c0. split; [apply lookup_app_old; assumption|assumption].
  - intros l [E|Hl] Ha; [|exact (Hdis _ Hl Ha)].
    subst l. destruct (Hacc _ Ha) as [c0 [Hlk _]]. apply lookup_some_lt in Hlk. lia.
  - intros g l Hin. apply alist_set_in in Hin. destruct Hin as [Hin|E].
    + right. eapply Hroots; eauto.
    + inversion E. left. reflexivity.
Qed.

(* appending a container without outgoing references as a new location handed to the client *)
Lemma sep_alloc_acc : forall w c,
    sep w -> refs c = [] ->
    sep (mkW (st w ++ [c]) (own w) (fields w) (length (st w) :: acc w)).
Proof.
  intros w c [Hown [Hacc [Hdis Hroots]]] Hr. split; [|split; [|split]]; cbn [st own acc fields].
  - intros l Hl. destruct (Hown l Hl) as [c0 [Hlk Hi]]. exists c0. split; [apply lookup_app_old; assumption|assumption].
  - intros l [E|Hl].
    + subst l. exists c. split; [apply lookup_app_new|]. rewrite Hr. intros y [].
    + destruct (closed_incl_cons _ _ (length (st w)) _ Hacc Hl) as [c0 [Hlk Hi]].
      exists c0. split; [apply lookup_app_old; assumption|assumption].
  - intros l Hl [E|Ha]; [|exact (Hdis _ Hl Ha)].
    subst l. destruct (Hown _ Hl) as [c0 [Hlk _]]. apply lookup_some_lt in Hlk. lia.
  - assumption.
Qed.

Lemma acc_stable_app : forall w c o fs,
    sep w -> acc_stable w (mkW (st w ++ [c]) o fs (acc w)).
Proof.
  intros w c o fs [_ [Hacc _]]. split; cbn [st acc]; [apply incl_refl|].
  intros l Hl. destruct (Hacc l Hl) as [c0 [Hlk _]]. rewrite Hlk. apply lookup_app_old. assumption.
Qed.

Lemma acc_stable_app_cons : forall w c o fs,
    sep w -> acc_stable w (mkW (st w ++ [c]) o fs (length (st w) :: acc w)).
Proof.
  intros w c o fs [_ [Hacc _]]. split; cbn [st acc]; [apply incl_tl; apply incl_refl|].
  intros l Hl. destruct (Hacc l Hl) as [c0 [Hlk _]]. rewrite Hlk. apply lookup_app_old. assumption.
Qed.

(* an action whose effect is a copy keeps the separation and leaves every object of the client as it was *)
Lemma exec_action_safe : forall w a,
    sep w -> eff_safe (action_eff a) = true -> shallow_ok_action w a = true ->
    sep (exec_action w a) /\ acc_stable w (exec_action w a).
Proof.
  intros w a Hs He Hsh. destruct a as [f how arg|f how|arg c]; cbn [action_eff] in He.
  - cbn [exec_action]. destruct (lookup (st w) arg) as [c|] eqn:Hlk.
    2:{ split; [assumption|apply acc_stable_refl]. }
    destruct how; try discriminate.
    + cbn [shallow_ok_action] in Hsh. rewrite Hlk in Hsh.
      split; [apply sep_alloc_own; [assumption|apply flatc_refs; assumption]|apply acc_stable_app; assumption].
    + split; [apply sep_alloc_own; [assumption|apply refs_freeze]|apply acc_stable_app; assumption].
  - cbn [exec_action]. destruct (field_loc w f) as [lf|] eqn:Hf.
    2:{ split; [assumption|apply acc_stable_refl]. }
    destruct (lookup (st w) lf) as [c|] eqn:Hlk.
    2:{ split; [assumption|apply acc_stable_refl]. }
    destruct how; try discriminate.
    + cbn [shallow_ok_action] in Hsh. rewrite Hf, Hlk in Hsh.
      split; [apply sep_alloc_acc; [assumption|apply flatc_refs; assumption]|apply acc_stable_app_cons; assumption].
    + split; [apply sep_alloc_acc; [assumption|apply refs_freeze]|apply acc_stable_app_cons; assumption].
  - discriminate.
Qed.

Lemma acc_stable_trans : forall a b c, sep a -> acc_stable a b -> acc_stable b c -> acc_stable a c.
Proof.
  intros a b c _ [H1 H2] [G1 G2]. split.
  - intros x Hx. apply G1. apply H1. assumption.
  - intros l Hl. rewrite G2 by (apply H1; assumption). apply H2. assumption.
Qed.

Lemma exec_safe : forall op w,
    sep w -> summary_safe op = true -> shallow_ok w op = true ->
    sep (exec w op) /\ acc_stable w (exec w op).
Proof.
  unfold exec, summary_safe, summary.
  induction op as [|a op IH]; intros w Hs Hsum Hsh; cbn [fold_left].
  - split; [assumption|apply acc_stable_refl].
  - cbn [map forallb] in Hsum. apply andb_true_iff in Hsum as [Ha Hrest].
    cbn [shallow_ok] in Hsh. apply andb_true_iff in Hsh as [Hsa Hsr].
    destruct (exec_action_safe w a Hs Ha Hsa) as [Hs' Hst].
    destruct (IH _ Hs' Hrest Hsr) as [Hs'' Hst'].
    split; [assumption|]. eapply acc_stable_trans; eauto.
Qed.

(* C19, model level *)
Theorem noninterference : forall w op,
    sepb w = true -> summary_safe op = true -> shallow_ok w op = true ->
    (* the call itself leaves every object the caller holds (in particular every argument) as it was *)
    (forall n a, In a (acc w) -> resolve n (st (exec w op)) (ILoc a) = resolve n (st w) (ILoc a)) /\
    (* and no later sequence of mutations of the arguments, of the results, or of anything else the
       client can reach changes the abstract state of the instance / class *)
    (forall ms n, abs_state n (run_client (exec w op) ms) = abs_state n (exec w op)).
Proof.
  intros w op Hb Hsum Hsh. pose proof (sepb_sound w Hb) as Hs.
  destruct (exec_safe op w Hs Hsum Hsh) as [Hs' [Hincl Hag]]. split.
  - intros n a Ha. destruct Hs as [_ [Hacc _]].
    apply (resolve_agree (st w) (st (exec w op)) (acc w) Hacc Hag).
    intros x [E|[]]. subst x. assumption.
  - intros ms n. apply client_noninterference. assumption.
Qed.

(* results are really handed to the client: after a returning action the client holds one more object *)
Lemma return_gives_result : forall w f how lf c,
    field_loc w f = Some lf -> lookup (st w) lf = Some c ->
    exists r, acc (exec_action w (AReturn f how)) = r :: acc w.
Proof.
  intros w f how lf c Hf Hl. cbn [exec_action]. rewrite Hf, Hl. destruct how; cbn [acc]; eexists; reflexivity.
Qed.

(* --------------------------------------------------------------------------------- witnesses *)

Definition lst (xs : list pyval) : cval := mkC KList (map (fun v => (PNone, IVal v)) xs).
Definition one : pyval := PNum (NInt 1%Z).
Definition poke : pyval := PNum (NInt 99%Z).
Definition fname : pystr := s2p "f"%string.

(* RetainsArg: the caller's list [1] is stored as it is; appending to it changes the instance *)
Definition w_retains : world := mkW [lst [one]] [] [] [0].
Lemma witness_retains :
  let w1 := exec w_retains [AStore fname RetainsArg 0] in
  abs_state 3 (run_client w1 [MWrite 0 (lst [one; poke])]) <> abs_state 3 w1.
Proof. vm_compute. discriminate. Qed.

(* ReturnsInternal: the instance's own list is handed out; appending to the result changes the instance *)
Definition w_returns : world := mkW [lst [one]] [0] [(fname, ILoc 0)] [].
Lemma witness_returns :
  sepb w_returns = true /\
  let w1 := exec w_returns [AReturn fname ReturnsInternal] in
  abs_state 3 (run_client w1 [MWrite 0 (lst [one; poke])]) <> abs_state 3 w1.
Proof. split; [vm_compute; reflexivity|]. vm_compute. discriminate. Qed.

(* WritesArg: the caller's list is not what it was before the call *)
Lemma witness_writes :
  sepb w_retains = true /\
  resolve 3 (st (exec w_retains [AWrite 0 (lst [])])) (ILoc 0) <> resolve 3 (st w_retains) (ILoc 0).
Proof. split; [vm_compute; reflexivity|]. vm_compute. discriminate. Qed.

(* a one-level copy of a container that holds references (an untyped position) still shares them *)
Definition w_shallow : world := mkW [lst [one]; mkC KList [(PNone, ILoc 0)]] [] [] [0; 1].
Lemma witness_shallow :
  sepb w_shallow = true /\ summary_safe [AStore fname Copies 1] = true /\
  shallow_ok w_shallow [AStore fname Copies 1] = false /\
  let w1 := exec w_shallow [AStore fname Copies 1] in
  abs_state 4 (run_client w1 [MWrite 0 (lst [one; poke])]) <> abs_state 4 w1.
Proof.
  split; [vm_compute; reflexivity|]. split; [vm_compute; reflexivity|]. split; [vm_compute; reflexivity|].
  vm_compute. discriminate.
Qed.

(* the same operations with a copy instead are covered by the theorem: non-vacuity *)
Definition w_ok : world := mkW [lst [one]; lst [one; one]] [1] [(fname, ILoc 1)] [0].
Definition op_ok : list action := [AStore (s2p "g"%string) Copies 0; AReturn fname Copies; AReturn fname DeepCopies].
Lemma nonvacuous :
  sepb w_ok = true /\ summary_safe op_ok = true /\ shallow_ok w_ok op_ok = true /\
  acc (exec w_ok op_ok) = [4; 3; 0] /\
  abs_state 3 (run_client (exec w_ok op_ok) [MWrite 0 (lst []); MWrite 3 (lst [poke]); MAlloc (lst []); MWrite 1 (lst [poke])])
  = [(fname, PList [one; one]); (s2p "g"%string, PList [one])].
Proof. repeat split; vm_compute; reflexivity. Qed.
