(* Proofs about the explicit-None bookkeeping of Structure.__setattr__ (Struct/NoneFields.v):
   the effect list translated from the source (Gen/StructNoneFields.v) IS the documented one
   (generated_setattr_nf); with that list an assignment is all-or-nothing on BOTH components of the state
   (setattr_u_atomic); on the attributes it is the [setattr] of Struct/Instance.v (setattr_u_attrs); and a list with
   the marker removed before the hand-over is not atomic (discard_before_handover_not_atomic). *)
From Coq Require Import ZArith NArith String List Bool Lia.
Import ListNotations.
From TP Require Import Base.PyVal Base.PyOps Base.PyOps2 Base.PyObj Fields.FieldAst Fields.SetChain Fields.Doc
  Struct.Shapes Struct.Instance Struct.StructGuardProofs Struct.NoneFields Gen.StructNoneFields.

(* the configuration of Struct/StructGuardProofs.v with the class's _enable_undefined_value switch, the
   attributes the instance holds (self.__dict__ = the keys of [a]) and the Field objects of the class:
   get_all_fields_by_name() maps every field name n to the object "field:<n>", whose `_immutable` attribute is the
   field's immutable=... declaration *)
Definition fobj (n : pystr) : pystr := s2p "field:" ++ n.
Definition fields_dict (l : list pystr) : pyval := PDict (map (fun n => (PStr n, ref (fobj n))) l).

Fixpoint strip_pre (p s : pystr) : option pystr :=
  match p, s with
  | [], _ => Some s
  | x :: p', y :: s' => if N.eqb x y then strip_pre p' s' else None
  | _ :: _, [] => None
  end.

Definition undef_heap (c : classdef) (u instantiated : bool) (a : attrs) : heap :=
  fun o at' =>
    if pystr_eqb o (s2p "self") && pystr_eqb at' (s2p "_enable_undefined_value") then Some (PBool u)
    else if pystr_eqb o (s2p "self") && pystr_eqb at' (s2p "__dict__") then Some (names_dict (map fst a))
    else if pystr_eqb o (s2p "self") && pystr_eqb at' (s2p "get_all_fields_by_name()")
         then Some (fields_dict (field_names c))
    else match strip_pre (s2p "field:") o with
         | Some n => if pystr_eqb at' (s2p "_immutable") then Some (PBool (field_immutable c n)) else None
         | None => struct_heap c instantiated o at'
         end.

Lemma in_fields_dict n l : py_in_dyn (PStr n) (fields_dict l) = Ok (str_in n l).
Proof.
  unfold fields_dict. cbn [py_in_dyn py_hashable']. f_equal. unfold dict_has, str_in.
  induction l as [|x t IH]; [reflexivity|].
  cbn [map dict_get py_eq existsb]. rewrite (pystr_eqb_sym x n).
  destruct (pystr_eqb n x); [reflexivity|exact IH].
Qed.

Lemma get_fields_dict n l :
  PyOpsVersioned.py_dict_get (fields_dict l) (PStr n) PNone = Ok (if str_in n l then ref (fobj n) else PNone).
Proof.
  unfold fields_dict, PyOpsVersioned.py_dict_get. cbn [py_hashable']. f_equal. unfold str_in.
  induction l as [|x t IH]; [reflexivity|].
  cbn [map dict_get py_eq existsb]. rewrite (pystr_eqb_sym x n).
  destruct (pystr_eqb n x) eqn:E; [|exact IH].
  apply pystr_eqb_spec in E. subst x. reflexivity.
Qed.

Lemma strip_fobj n : strip_pre (s2p "field:") (fobj n) = Some n.
Proof. reflexivity. Qed.

(* getattr(self.get_all_fields_by_name().get(key), "_immutable", False) *)
Lemma field_obj_immutable c u inst a n :
  obj_getattr_def (undef_heap c u inst a) (ref (fobj n)) (s2p "_immutable") (PBool false)
  = Ok (PBool (field_immutable c n)).
Proof. reflexivity. Qed.

(* key in self.__dict__ and <the field is immutable>: the new test of the 'ignored None' branch *)
Lemma populated_immutable_test c u inst a n :
  str_in n (field_names c) = true ->
  py_and (t <- Ok (names_dict (map fst a)) ;; py_in_dyn (PStr n) t)
         (fun _ => t <- Ok (fields_dict (field_names c)) ;; t' <- PyOpsVersioned.py_dict_get t (PStr n) PNone ;;
                   t'' <- obj_getattr_def (undef_heap c u inst a) t' (s2p "_immutable") (PBool false) ;;
                   Ok (py_truthy t''))
  = Ok (alist_has a n && field_immutable c n).
Proof.
  intro Hin. cbn [bind]. rewrite in_names_dict, alist_has_keys. unfold py_and. cbn [bind].
  destruct (alist_has a n); [|reflexivity]. cbn [andb].
  rewrite get_fields_dict, Hin. cbn [bind]. rewrite field_obj_immutable. reflexivity.
Qed.

Ltac uh_changes c u :=
  repeat match goal with
  | |- context [undef_heap c u ?i ?aa (s2p "self") (s2p "_trust_supplied_values")] =>
      change (undef_heap c u i aa (s2p "self") (s2p "_trust_supplied_values")) with (@None pyval)
  | |- context [undef_heap c u ?i ?aa (s2p "self") (s2p "_immutable")] =>
      change (undef_heap c u i aa (s2p "self") (s2p "_immutable")) with (Some (PBool (c_immutable c)))
  | |- context [undef_heap c u ?i ?aa (s2p "self") (s2p "_constants")] =>
      change (undef_heap c u i aa (s2p "self") (s2p "_constants")) with (@None pyval)
  | |- context [undef_heap c u ?i ?aa (s2p "self") (s2p "_additional_properties")] =>
      change (undef_heap c u i aa (s2p "self") (s2p "_additional_properties")) with (Some (PBool (c_additional c)))
  | |- context [undef_heap c u ?i ?aa (s2p "self") (s2p "get_all_fields_by_name()")] =>
      change (undef_heap c u i aa (s2p "self") (s2p "get_all_fields_by_name()")) with (Some (fields_dict (field_names c)))
  | |- context [undef_heap c u ?i ?aa (s2p "self") (s2p "__dict__")] =>
      change (undef_heap c u i aa (s2p "self") (s2p "__dict__")) with (Some (names_dict (map fst aa)))
  | |- context [undef_heap c u ?i ?aa (s2p "self") (s2p "_ignore_none")] =>
      change (undef_heap c u i aa (s2p "self") (s2p "_ignore_none")) with (Some (PBool (c_ignore_none c)))
  | |- context [undef_heap c u ?i ?aa (s2p "self") (s2p "_enable_undefined_value")] =>
      change (undef_heap c u i aa (s2p "self") (s2p "_enable_undefined_value")) with (Some (PBool u))
  | |- context [undef_heap c u ?i ?aa (s2p "self") (s2p "__class__")] =>
      change (undef_heap c u i aa (s2p "self") (s2p "__class__")) with (Some (POther ref_tag (s2p "cls")))
  | |- context [undef_heap c u ?i ?aa (s2p "self") (s2p "_required")] =>
      change (undef_heap c u i aa (s2p "self") (s2p "_required")) with (Some (names_list (c_required c)))
  | |- context [undef_heap c u ?i ?aa (s2p "cls") (s2p "_required")] =>
      change (undef_heap c u i aa (s2p "cls") (s2p "_required")) with (Some (names_list (c_required c)))
  | |- context [undef_heap c u ?i ?aa (s2p "TypedPyDefaults") (s2p "additional_properties_default")] =>
      change (undef_heap c u i aa (s2p "TypedPyDefaults") (s2p "additional_properties_default")) with (Some (PBool true))
  | |- context [undef_heap c u ?i ?aa (s2p "TypedPyDefaults") (s2p "allow_none_for_optionals")] =>
      change (undef_heap c u i aa (s2p "TypedPyDefaults") (s2p "allow_none_for_optionals")) with (Some (PBool false))
  | |- context [undef_heap c u ?i ?aa (s2p "TypedPyDefaults") (s2p "uniqueness_features_enabled")] =>
      change (undef_heap c u i aa (s2p "TypedPyDefaults") (s2p "uniqueness_features_enabled")) with (Some (PBool false))
  end.

(* ------------------------------------------------------------------ the generated effect list *)

Lemma generated_setattr_nf : forall c u inst a n v,
    ordinary_name n = true ->
    Structure__setattr_nf (undef_heap c u inst a) (PStr n) v = setattr_nf_decision c u inst a n v.
Proof.
  intros c u inst a n v Hn. unfold ordinary_name in Hn. apply andb_true_iff in Hn. destruct Hn as [Hs Hd].
  apply negb_true_iff in Hs. apply negb_true_iff in Hd.
  unfold Structure__setattr_nf, setattr_nf_decision, is_required.
  unfold obj_getattr_def, obj_getattr, ref.
  unfold py_is_sunder, py_is_dunder. rewrite Hs, Hd.
  change (py_in_dyn (PStr n) (PDict [])) with (@Ok bool false).
  destruct (c_immutable c) eqn:Him, inst, (c_additional c) eqn:Hadd, (c_ignore_none c) eqn:Hign, u;
    repeat (progress (
      try change (pystr_eqb ref_tag ref_tag) with true;
      change (undef_heap c true true a (s2p "self") (s2p "_instantiated")) with (Some (PBool true));
      change (undef_heap c false true a (s2p "self") (s2p "_instantiated")) with (Some (PBool true));
      change (undef_heap c true false a (s2p "self") (s2p "_instantiated")) with (@None pyval);
      change (undef_heap c false false a (s2p "self") (s2p "_instantiated")) with (@None pyval);
      uh_changes c true; uh_changes c false;
      rewrite ?Him, ?Hadd, ?Hign;
      cbn [bind py_truthy py_and py_or py_not py_any py_all existsb forallb negb andb orb
                py_is_none py_is_not_none is_none_val];
      rewrite ?in_fields_dict, ?in_names_list));
    destruct (str_in n (field_names c)) eqn:Hin, (str_in n (c_required c)), v;
    try reflexivity.
  all: cbn [bind py_truthy py_and py_or py_not py_any py_all existsb forallb negb andb orb
                py_is_none py_is_not_none is_none_val].
  all: try reflexivity.
  all: change (py_in_dyn (PStr n) (PDict [])) with (@Ok bool false);
       rewrite in_names_dict, alist_has_keys, get_fields_dict, Hin; unfold py_and; cbn [bind];
       destruct (alist_has a n); cbn [bind andb]; [|reflexivity];
       unfold ref; change (pystr_eqb ref_tag ref_tag) with true; cbv iota;
       match goal with |- context [undef_heap ?cc ?u ?i ?aa (fobj ?nn) (s2p "_immutable")] =>
         change (undef_heap cc u i aa (fobj nn) (s2p "_immutable")) with (Some (PBool (field_immutable cc nn))) end;
       cbn [bind py_truthy]; destruct (field_immutable c n); reflexivity.
Qed.

(* ------------------------------------------------------------------ all-or-nothing on both components *)

Section Atomicity.
  Variable re_match : N -> pystr -> bool.
  Variable e : env.

  Notation run_nf := (run_nf re_match e).
  Notation nf_hand := (nf_hand re_match e).
  Notation setattr_u := (setattr_u re_match e).

  Lemma ustate_eta st : {| u_attrs := u_attrs st; u_none := u_none st |} = st.
  Proof. destruct st; reflexivity. Qed.

  (* marker effects alone never raise *)
  Lemma no_handover_done : forall evs c inst n st,
      no_handover evs = true -> snd (run_nf c inst n st evs) = Done.
  Proof.
    induction evs as [|ev t IH]; intros c inst n st H; [reflexivity|].
    unfold no_handover in H. cbn [existsb] in H. apply negb_true_iff in H. apply orb_false_iff in H as [H1 H2].
    assert (Ht : no_handover t = true) by (unfold no_handover; rewrite H2; reflexivity).
    destruct ev; cbn [is_handover] in H1; try discriminate; cbn [NoneFields.run_nf]; apply IH; exact Ht.
  Qed.

  (* a restoring hand-over that raises leaves the attributes as they were *)
  Lemma nf_hand_restores c inst a n v a' x :
    nf_hand c inst a n v true = (a', Raised x) -> a' = a.
  Proof.
    unfold NoneFields.nf_hand. destruct (nf_chain re_match e c inst a n v) as [a1 [|y]]; intro H; inversion H; reflexivity.
  Qed.

  (* an effect list in which nothing precedes the single restoring hand-over is all-or-nothing:
     a raise leaves the attributes AND the explicit-None markers as they were *)
  Theorem atomic_shape_is_atomic : forall evs c inst n st x,
      nf_atomic_shape evs = true ->
      snd (run_nf c inst n st evs) = Raised x -> fst (run_nf c inst n st evs) = st.
  Proof.
    intros evs c inst n st x Hs Hr. destruct evs as [|ev t]; [discriminate|].
    destruct ev; cbn [nf_atomic_shape] in Hs.
    - cbn [NoneFields.run_nf] in Hr. rewrite (no_handover_done t c inst n _ Hs) in Hr. discriminate.
    - cbn [NoneFields.run_nf] in Hr. rewrite (no_handover_done t c inst n _ Hs) in Hr. discriminate.
    - apply andb_true_iff in Hs as [Hrb Ht]. subst rb. cbn [NoneFields.run_nf] in *.
      destruct (nf_hand c inst (u_attrs st) n v true) as [a' [|y]] eqn:Eh.
      + rewrite (no_handover_done t c inst n _ Ht) in Hr. discriminate.
      + cbn [fst]. rewrite (nf_hand_restores _ _ _ _ _ _ _ Eh). apply ustate_eta.
  Qed.

  Lemma decision_atomic_shape c u inst a n v evs :
    setattr_nf_decision c u inst a n v = Ok evs -> nf_atomic_shape evs = true.
  Proof.
    unfold setattr_nf_decision.
    destruct (c_immutable c && inst); [discriminate|].
    destruct (negb (c_additional c || str_in n (field_names c))); [discriminate|].
    destruct ((c_ignore_none c || u) && is_none_val v && negb (is_required c n)).
    - destruct (str_in n (field_names c) && u); [destruct (alist_has a n && field_immutable c n)|];
        intro H; inversion H; reflexivity.
    - destruct (str_in n (field_names c) && u && negb (is_none_val v)); intro H; inversion H; reflexivity.
  Qed.

  (* Structure.__setattr__ as documented: a rejected assignment leaves attributes and markers unchanged *)
  Theorem setattr_u_atomic : forall c u inst st n v x,
      snd (setattr_u c u inst st n v) = Raised x -> fst (setattr_u c u inst st n v) = st.
  Proof.
    intros c u inst st n v x. unfold NoneFields.setattr_u, run_decision.
    destruct (setattr_nf_decision c u inst (u_attrs st) n v) as [evs|y] eqn:Ed; [|reflexivity].
    apply atomic_shape_is_atomic. exact (decision_atomic_shape _ _ _ _ _ _ _ Ed).
  Qed.

  (* ... and so does the source, through the generated effect list *)
  Theorem generated_setattr_u_atomic : forall c u inst st n v x,
      ordinary_name n = true ->
      snd (run_decision re_match e c inst st n (Structure__setattr_nf (undef_heap c u inst (u_attrs st)) (PStr n) v)) = Raised x ->
      fst (run_decision re_match e c inst st n (Structure__setattr_nf (undef_heap c u inst (u_attrs st)) (PStr n) v)) = st.
  Proof.
    intros c u inst st n v x Hn. rewrite (generated_setattr_nf c u inst (u_attrs st) n v Hn). apply setattr_u_atomic.
  Qed.

  (* on the attributes the two-component model is the [setattr] of Struct/Instance.v (the class seen with
     _ignore_none := _ignore_none or _enable_undefined_value, as Structure.__setattr__ tests it) *)
  Definition with_undefined (c : classdef) (u : bool) : classdef :=
    {| c_name := c_name c; c_ancestors := c_ancestors c; c_fields := c_fields c; c_required := c_required c;
       c_additional := c_additional c; c_ignore_none := c_ignore_none c || u; c_immutable := c_immutable c;
       c_hook := c_hook c |}.

  Lemma run_nf_markers_only : forall t c inst n st,
      no_handover t = true -> u_attrs (fst (run_nf c inst n st t)) = u_attrs st.
  Proof.
    induction t as [|ev t IH]; intros c inst n st H; [reflexivity|].
    unfold no_handover in H. cbn [existsb] in H. apply negb_true_iff in H. apply orb_false_iff in H as [H1 H2].
    assert (Ht : no_handover t = true) by (unfold no_handover; rewrite H2; reflexivity).
    destruct ev; cbn [is_handover] in H1; try discriminate; cbn [NoneFields.run_nf]; rewrite IH by exact Ht; reflexivity.
  Qed.

  (* the refused None marker: both components stay, ValueError *)
  Theorem marker_blocked_raises : forall c u inst st n v,
      marker_blocked c u (u_attrs st) n v = true -> setattr_u c u inst st n v = (st, Raised ValueError).
  Proof.
    intros c u inst st n v Hb. unfold marker_blocked in Hb.
    apply andb_true_iff in Hb as [Hb Hpi]. apply andb_true_iff in Hb as [Hb Hin].
    apply andb_true_iff in Hb as [Hb Hr]. apply andb_true_iff in Hb as [Hu Hv]. subst u.
    unfold NoneFields.setattr_u, run_decision, setattr_nf_decision.
    destruct (c_immutable c && inst); [reflexivity|].
    rewrite Hin, Hv, Hr, Hpi, !orb_true_r. reflexivity.
  Qed.

  Theorem setattr_u_attrs : forall c u inst st n v,
      marker_blocked c u (u_attrs st) n v = false ->
      (u_attrs (fst (setattr_u c u inst st n v)), snd (setattr_u c u inst st n v))
      = setattr re_match e (with_undefined c u) inst (u_attrs st) n v.
  Proof.
    intros c u inst st n v Hb. unfold marker_blocked in Hb.
    unfold NoneFields.setattr_u, run_decision, setattr_nf_decision, setattr, is_required in *.
    cbn [with_undefined c_immutable c_fields c_additional c_ignore_none c_required c_hook].
    rewrite !(in_field_names c n) in *.
    destruct (c_immutable c && inst); [reflexivity|].
    destruct (find_field (c_fields c) n) as [fd|] eqn:Ef; destruct (c_additional c); cbn [orb negb andb];
      try reflexivity;
      destruct ((c_ignore_none c || u) && is_none_val v && negb (str_in n (c_required c))) eqn:Ei.
    all: try (destruct u; [|reflexivity]; rewrite orb_true_r in Ei; cbn [andb] in Ei, Hb; rewrite Ei in Hb;
              cbn [andb] in Hb; rewrite Hb; reflexivity).
    all: try (destruct u; reflexivity).
    all: cbn [NoneFields.run_nf]; unfold NoneFields.nf_hand, nf_chain; rewrite Ef.
    all: try (cbn [NoneFields.run_nf fst snd u_attrs]; reflexivity).
    all: destruct (vset re_match e (fd_field fd) v) as [nf|y]; [|reflexivity].
    all: destruct (fd_immutable fd && alist_has (u_attrs st) n); [reflexivity|].
    all: cbv zeta; destruct (inst && negb (hook_ok (c_hook c) (alist_set (u_attrs st) n nf))); [reflexivity|].
    all: destruct (u && negb (is_none_val v)); reflexivity.
  Qed.

  (* the other order: the marker removed BEFORE the hand-over.  A rejected assignment to a field that held an
     explicit None then loses the marker although it raises *)
  Theorem discard_before_handover_not_atomic : forall c inst n st v x,
      str_in n (u_none st) = true ->
      snd (run_nf c inst n st [NfHandover v true]) = Raised x ->
      snd (run_nf c inst n st [NfDiscard; NfHandover v true]) = Raised x /\
      fst (run_nf c inst n st [NfDiscard; NfHandover v true]) <> st.
  Proof.
    intros c inst n st v x Hin Hr. cbn [NoneFields.run_nf u_attrs u_none] in *.
    destruct (nf_hand c inst (u_attrs st) n v true) as [a' [|y]] eqn:Eh; [discriminate|].
    cbn [snd fst] in *. split; [exact Hr|].
    intro Heq. apply (f_equal u_none) in Heq. cbn [u_none] in Heq.
    assert (Hno : str_in n (nf_del n (u_none st)) = false).
    { unfold nf_del, str_in. generalize (u_none st). intro l. induction l as [|y0 l IH]; [reflexivity|].
      cbn [filter]. destruct (pystr_eqb y0 n) eqn:E; cbn [negb]; [exact IH|].
      cbn [existsb]. rewrite IH. rewrite orb_false_r.
      destruct (pystr_eqb n y0) eqn:E2; [|reflexivity].
      apply pystr_eqb_spec in E2. subst y0. rewrite pystr_eqb_refl in E. discriminate. }
    rewrite Heq in Hno. congruence.
  Qed.
End Atomicity.
