(* C19 — aliasing model.  A small store: locations hold container values (list / dict / set) whose
   elements are either plain values or references to other locations, so that sharing between the
   caller's objects and the state of an instance / class is expressible.

   Every public operation of typedpy is described by an EFFECT SUMMARY (which argument it may write,
   what it retains inside the instance / class, whether its result aliases internal state) and is given
   executable semantics on the store according to the kind of each effect.

   No proofs here (Struct/AliasProofs.v). *)
From Coq Require Import String List Bool Arith NArith.
Import ListNotations.
From TP Require Import Base.PyVal.

(* ------------------------------------------------------------------------------------ store *)

Definition loc := nat.

Inductive item :=
| IVal (v : pyval)          (* an unshared value, owned inline by its container *)
| ILoc (l : loc).           (* a reference to a (possibly shared) container *)

Inductive ckind := KList | KDict | KSet.

(* a container: kind + (key, element) pairs; the key is PNone for lists and sets *)
Record cval := mkC { ck : ckind; elems : list (pyval * item) }.

Definition store := list cval.

Definition item_refs (it : item) : list loc := match it with ILoc l => [l] | IVal _ => [] end.
Definition refs (c : cval) : list loc := flat_map (fun p => item_refs (snd p)) (elems c).

Definition lookup (s : store) (l : loc) : option cval := nth_error s l.

Fixpoint update (s : store) (l : loc) (c : cval) : store :=
  match s, l with
  | [], _ => []
  | _ :: t, O => c :: t
  | x :: t, S l' => x :: update t l' c
  end.

Definition memb (x : loc) (l : list loc) : bool := existsb (Nat.eqb x) l.
Definition subsetb (a b : list loc) : bool := forallb (fun x => memb x b) a.

(* the abstract (sharing-free) value denoted by an item: what any observation of it can depend on *)
Fixpoint resolve (n : nat) (s : store) (it : item) : pyval :=
  match it with
  | IVal v => v
  | ILoc l =>
      match n with
      | O => POther (s2p "fuel"%string) []
      | S n' =>
          match lookup s l with
          | None => POther (s2p "dangling"%string) []
          | Some c =>
              let xs := map (fun p => (fst p, resolve n' s (snd p))) (elems c) in
              match ck c with
              | KList => PList (map snd xs)
              | KSet => PSet false (map snd xs)
              | KDict => PDict xs
              end
          end
      end
  end.

(* a container all of whose elements are inline values (what a typed collection of scalars holds) *)
Definition flatc (c : cval) : bool :=
  forallb (fun p => match snd p with IVal _ => true | ILoc _ => false end) (elems c).

(* the deep copy of a container: every nested container becomes an inline, unshared value *)
Definition freeze (n : nat) (s : store) (c : cval) : cval :=
  mkC (ck c) (map (fun p => (fst p, IVal (resolve n s (snd p)))) (elems c)).

(* ------------------------------------------------------------------------------------ world *)

(* own: locations that make up the internal state of the instance / class;
   fields: its named roots;  acc: every location the client (caller) can reach *)
Record world := mkW { st : store; own : list loc; fields : list (pystr * item); acc : list loc }.

Definition abs_state (n : nat) (w : world) : list (pystr * pyval) :=
  map (fun p => (fst p, resolve n (st w) (snd p))) (fields w).

(* ------------------------------------------------------------------------- client mutations *)

(* what a client can do with the objects it holds: overwrite the content of a container it can
   reach with anything built from values and containers it can reach; create new containers *)
Inductive mut :=
| MWrite (l : loc) (c : cval)
| MAlloc (c : cval).

Definition cstep (w : world) (m : mut) : world :=
  match m with
  | MWrite l c =>
      if memb l (acc w) && subsetb (refs c) (acc w)
      then mkW (update (st w) l c) (own w) (fields w) (acc w)
      else w
  | MAlloc c =>
      if subsetb (refs c) (acc w)
      then mkW (st w ++ [c]) (own w) (fields w) (length (st w) :: acc w)
      else w
  end.

Definition run_client (w : world) (ms : list mut) : world := fold_left cstep ms w.

(* ----------------------------------------------------------------------------------- effects *)

Inductive eff :=
| Copies            (* one-level copy: a fresh container, element references are shared *)
| DeepCopies        (* a fresh container, nothing reachable from it is shared *)
| RetainsArg        (* the callee keeps the caller's object itself *)
| ReturnsInternal   (* the result is (or contains) an object of the internal state *)
| WritesArg         (* the callee modifies the caller's object in place *)
| UnknownEff.       (* the source site was not recognised by the generator: fail closed *)

Definition eff_eqb (a b : eff) : bool :=
  match a, b with
  | Copies, Copies | DeepCopies, DeepCopies | RetainsArg, RetainsArg
  | ReturnsInternal, ReturnsInternal | WritesArg, WritesArg | UnknownEff, UnknownEff => true
  | _, _ => false
  end.

Definition eff_safe (e : eff) : bool := match e with Copies | DeepCopies => true | _ => false end.
Definition eff_deep (e : eff) : bool := match e with DeepCopies => true | _ => false end.

(* one step of an operation *)
Inductive action :=
| AStore (f : pystr) (how : eff) (arg : loc)   (* take the caller's container [arg] into field f *)
| AReturn (f : pystr) (how : eff)              (* hand the client a result produced from field f *)
| AWrite (arg : loc) (c : cval).               (* overwrite the caller's container *)

Definition action_eff (a : action) : eff :=
  match a with AStore _ h _ => h | AReturn _ h => h | AWrite _ _ => WritesArg end.

Definition summary (op : list action) : list eff := map action_eff op.
Definition summary_safe (op : list action) : bool := forallb eff_safe (summary op).

Definition field_loc (w : world) (f : pystr) : option loc :=
  match alist_get (fields w) f with Some (ILoc l) => Some l | _ => None end.

Definition fuel_of (s : store) : nat := S (length s).

Definition exec_action (w : world) (a : action) : world :=
  match a with
  | AStore f how arg =>
      match lookup (st w) arg with
      | None => w
      | Some c =>
          match how with
          | Copies =>
              mkW (st w ++ [c]) (length (st w) :: own w) (alist_set (fields w) f (ILoc (length (st w)))) (acc w)
          | DeepCopies =>
              mkW (st w ++ [freeze (fuel_of (st w)) (st w) c]) (length (st w) :: own w)
                  (alist_set (fields w) f (ILoc (length (st w)))) (acc w)
          | _ => (* RetainsArg and everything unrecognised: the caller's object itself is stored *)
              mkW (st w) (own w) (alist_set (fields w) f (ILoc arg)) (acc w)
          end
      end
  | AReturn f how =>
      match field_loc w f with
      | None => w
      | Some lf =>
          match lookup (st w) lf with
          | None => w
          | Some c =>
              match how with
              | Copies => mkW (st w ++ [c]) (own w) (fields w) (length (st w) :: acc w)
              | DeepCopies =>
                  mkW (st w ++ [freeze (fuel_of (st w)) (st w) c]) (own w) (fields w) (length (st w) :: acc w)
              | _ => mkW (st w) (own w) (fields w) (lf :: acc w)    (* the internal object is handed out *)
              end
          end
      end
  | AWrite arg c => mkW (update (st w) arg c) (own w) (fields w) (acc w)
  end.

Definition exec (w : world) (op : list action) : world := fold_left exec_action op w.

(* side condition of the one-level copies: what is copied holds no references (a typed collection of
   scalars; nested typed collections are themselves stored through their own Copies step) *)
Definition shallow_ok_action (w : world) (a : action) : bool :=
  match a with
  | AStore _ Copies arg => match lookup (st w) arg with Some c => flatc c | None => true end
  | AReturn f Copies =>
      match field_loc w f with
      | Some lf => match lookup (st w) lf with Some c => flatc c | None => true end
      | None => true
      end
  | _ => true
  end.

Fixpoint shallow_ok (w : world) (op : list action) : bool :=
  match op with
  | [] => true
  | a :: t => shallow_ok_action w a && shallow_ok (exec_action w a) t
  end.

(* ------------------------------------------------------------------------------- separation *)

Definition ltb_all (ls : list loc) (n : nat) : bool := forallb (fun l => Nat.ltb l n) ls.

Definition closedb (s : store) (ls : list loc) : bool :=
  forallb (fun l => match lookup s l with Some c => subsetb (refs c) ls | None => false end) ls.

Definition disjointb (a b : list loc) : bool := forallb (fun x => negb (memb x b)) a.

Definition roots_inb (fs : list (pystr * item)) (ls : list loc) : bool :=
  forallb (fun p => subsetb (item_refs (snd p)) ls) fs.

(* the state an instance is in after construction from typed fields: its internal objects are closed
   under reachability and none of them is reachable by the client *)
Definition sepb (w : world) : bool :=
  closedb (st w) (own w) && closedb (st w) (acc w) && disjointb (own w) (acc w)
  && roots_inb (fields w) (own w).

Definition args_okb (w : world) (op : list action) : bool :=
  forallb (fun a => match a with
                    | AStore _ _ arg => memb arg (acc w)
                    | AWrite arg _ => memb arg (acc w)
                    | AReturn _ _ => true
                    end) op.

(* =====================================================================================
   Type-level effect summaries of typedpy's public operations (what the correspondence harness checks
   against observed behaviour).  The summary of an operation at a field type is computed from the
   SITE facts generated from the source (Gen/AliasSites.v). *)

Inductive aty :=
| TScalar (num_or_str : bool)      (* Integer/Float/Number/String (true) or Boolean and other scalars (false) *)
| TAny                             (* Anything / an untyped position: handed by reference by design *)
| TArray (items : option aty)
| TArrayPos (items : list aty)
| TMap (value : option aty)        (* keys are hashable scalars *)
| TSet (typed : bool)
| TTuple (items : list aty)
| TDeque (items : option aty)
| TStruct (fs : list aty)          (* a nested Structure class with fields of these types *)
| TOpt (t : aty).                  (* AnyOf[t, None] *)

(* inside the property's scope: no untyped position at any depth *)
Fixpoint typed_inside (t : aty) : bool :=
  match t with
  | TScalar _ => true
  | TAny => false
  | TArray None | TMap None | TDeque None => false
  | TArray (Some i) | TDeque (Some i) | TMap (Some i) | TOpt i => typed_inside i
  | TSet b => b
  | TArrayPos l | TTuple l | TStruct l =>
      (fix all (l : list aty) : bool := match l with [] => true | x :: r => typed_inside x && all r end) l
  end.

Record sites := mkSites {
  s_liststruct_init : eff;          (* _ListStruct.__init__ : how the incoming list is taken *)
  s_dictstruct_init : eff;          (* _DictStruct.__init__ *)
  s_array_set_wraps : bool;         (* Array.__set__ stores a _ListStruct built from the value *)
  s_map_set_wraps : bool;           (* Map.__set__ stores a _DictStruct built from the value *)
  s_array_ser_scalar : eff;         (* Array.serialize, items is a Number/String: result *)
  s_array_ser_items : eff;          (* Array.serialize, other single item field: result (element-wise rebuild?) *)
  s_array_ser_noitems : eff;        (* Array.serialize, no items *)
  s_map_ser_items : eff;            (* Map.serialize with [key, value] items *)
  s_regular_ser_list : eff;         (* serialize_val on an Array field *)
  s_regular_ser_map : eff;          (* serialize_val on a Map field *)
  s_convert_dict : eff;             (* convert_dict: how the input document is taken *)
  s_convert_step : eff;             (* _convert: each step *)
  s_code_required : eff;            (* schema_to_struct_code: schema["required"] *)
  s_schema_required : eff;          (* structure_to_schema: the class's _required list *)
  s_schema_default : eff;           (* structure_to_schema: a field's default placed into the schema *)
  s_trusted_array : eff             (* trusted deserialization of an Array of scalars *)
}.

Inductive opid :=
| OCtor | OSetattr | ODeser | ODeserTrusted | OSer | OSerFast | OSerMixed.

(* what an instance keeps of a value it is given (constructor, setattr, deserialization) depends on the owner kind,
   the declared type AND the shape of the value: Struct/AliasIntake.v *)

(* does the document produced by the fast serializer contain an object of the instance? *)
Fixpoint fast_live (sv : sites) (t : aty) : bool :=
  match t with
  | TScalar _ => false
  | TAny => false
  | TArray None => negb (eff_safe (s_array_ser_noitems sv))
  | TArray (Some (TScalar true)) => negb (eff_safe (s_array_ser_scalar sv))
  | TArray (Some i) => negb (eff_safe (s_array_ser_items sv)) || fast_live sv i
  | TArrayPos l | TTuple l | TStruct l =>
      (fix any (l : list aty) : bool := match l with [] => false | x :: r => fast_live sv x || any r end) l
  | TMap None => true
  | TMap (Some i) => negb (eff_safe (s_map_ser_items sv)) || fast_live sv i
  | TSet _ => false
  | TDeque None => true
  | TDeque (Some i) => fast_live sv i
  | TOpt i => fast_live sv i
  end.

(* the regular serializer rebuilds every typed collection element-wise; nested structures of a
   FastSerializable class are serialized by their own fast serializer ([nested_fast]) *)
Fixpoint regular_live (nested_fast : bool) (sv : sites) (t : aty) : bool :=
  match t with
  | TScalar _ | TAny | TSet _ => false
  | TArray None | TDeque None => negb (eff_safe (s_regular_ser_list sv))
  | TMap None => negb (eff_safe (s_regular_ser_map sv))
  | TArray (Some i) | TDeque (Some i) => negb (eff_safe (s_regular_ser_list sv)) || regular_live nested_fast sv i
  | TMap (Some i) => negb (eff_safe (s_regular_ser_map sv)) || regular_live nested_fast sv i
  | TOpt i => regular_live nested_fast sv i
  | TArrayPos l =>
      negb (eff_safe (s_regular_ser_list sv)) ||
      (fix any (l : list aty) : bool := match l with [] => false | x :: r => regular_live nested_fast sv x || any r end) l
  | TTuple l =>
      (fix any (l : list aty) : bool := match l with [] => false | x :: r => regular_live nested_fast sv x || any r end) l
  | TStruct l =>
      if nested_fast
      then (fix any (l : list aty) : bool := match l with [] => false | x :: r => fast_live sv x || any r end) l
      else (fix any (l : list aty) : bool := match l with [] => false | x :: r => regular_live nested_fast sv x || any r end) l
  end.

(* trusted deserialization hands the document's lists of scalars to the instance as they are *)
Fixpoint trusted_retains (sv : sites) (t : aty) : bool :=
  match t with
  | TArray (Some (TScalar _)) => negb (eff_safe (s_trusted_array sv))
  | TArray (Some i) => trusted_retains sv i
  | TOpt i => trusted_retains sv i
  | TStruct l =>
      (fix any (l : list aty) : bool := match l with [] => false | x :: r => trusted_retains sv x || any r end) l
  | _ => false
  end.

(* predicted observation: (argument written, argument retained, result live); the intake operations
   (OCtor, OSetattr, ODeser) are predicted by AliasIntake.retains, which also looks at the value *)
Definition predict (sv : sites) (op : opid) (t : aty) : bool * bool * bool :=
  match op with
  | OCtor | OSetattr | ODeser => (false, false, false)
  | ODeserTrusted => (false, trusted_retains sv t, false)
  | OSer => (false, false, regular_live false sv t)
  | OSerMixed => (false, false, regular_live true sv t)
  | OSerFast => (false, false, fast_live sv t)
  end.

(* schema / code-generation / conversion operations: shape-level summaries *)
Inductive sop :=
| SCodeRequired (default_in_required : bool)       (* schema_to_struct_code on a schema whose required list names a property with a default *)
| SSchemaRequired (touches : bool)                 (* structure_to_schema on a class with a defaulted / renamed / dropped field *)
| SSchemaDefault (mutable_default : bool)          (* structure_to_schema on a class whose field has a list/dict default *)
| SConvertDict
| SVersionedDeser (typed_or_immutable : bool).                                 (* Deserializer of a Versioned class: a field of the input document, typed or not *)

Definition predict_sop (sv : sites) (o : sop) : bool * bool * bool :=
  match o with
  | SCodeRequired b => (b && negb (eff_safe (s_code_required sv)), false, false)
  | SSchemaRequired b => (b && negb (eff_safe (s_schema_required sv)), false, false)
  | SSchemaDefault b => (false, false, b && negb (eff_safe (s_schema_default sv)))
  | SConvertDict =>
      (false, false, negb (eff_deep (s_convert_dict sv)) || negb (eff_deep (s_convert_step sv)))
  | SVersionedDeser _ =>
      (* the document is deep-copied by convert_dict before anything is taken from it: not even an untyped value is shared *)
      (negb (eff_safe (s_convert_dict sv)), negb (eff_deep (s_convert_dict sv)), false)
  end.

(* the sites whose recorded effect is outside {Copies, DeepCopies}: the defects the model predicts *)
Definition unsafe_sites (sv : sites) : list (pystr * eff) :=
  filter (fun p => negb (eff_safe (snd p)))
    [ (s2p "_ListStruct.__init__"%string, s_liststruct_init sv);
      (s2p "_DictStruct.__init__"%string, s_dictstruct_init sv);
      (s2p "Array.__set__"%string, if s_array_set_wraps sv then Copies else RetainsArg);
      (s2p "Map.__set__"%string, if s_map_set_wraps sv then Copies else RetainsArg);
      (s2p "Array.serialize/scalar-items"%string, s_array_ser_scalar sv);
      (s2p "Array.serialize/field-items"%string, s_array_ser_items sv);
      (s2p "Map.serialize/items"%string, s_map_ser_items sv);
      (s2p "serialize_val/list"%string, s_regular_ser_list sv);
      (s2p "serialize_val/map"%string, s_regular_ser_map sv);
      (s2p "convert_dict"%string, s_convert_dict sv);
      (s2p "_convert"%string, s_convert_step sv);
      (s2p "schema_to_struct_code/required"%string, s_code_required sv);
      (s2p "structure_to_schema/_required"%string, s_schema_required sv);
      (s2p "structure_to_schema/default"%string, s_schema_default sv);
      (s2p "trusted/Array"%string, s_trusted_array sv) ].
