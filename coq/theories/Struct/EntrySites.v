(* HOW each validating entry point produces the instance it returns, as a table read off the source
   on every run (Gen/EntrySites.v, harness/genmods/c01_entry_sites.py), and the model of the entry
   points PARAMETRIC in such a table: an entry point whose row is safe behaves as in Struct/Entry.v
   (it funnels into the validating constructor / hands back the same attributes); one whose row is
   not hands out what the trusted path hands out: the keyword arguments as they are, plus the flag.
   Executable; no proofs here. *)
From Coq Require Import ZArith NArith String List Bool.
Import ListNotations.
From TP Require Import Base.PyVal Fields.FieldAst Fields.SetChain Fields.Doc Fields.Domain
  Struct.Shapes Struct.Instance Struct.Entry.
Local Open Scope string_scope.

Inductive exit_kind :=
| XCtor                        (* return <cls>(...) / self.__class__(...): the validating constructor *)
| XDelegate (fn : pystr)       (* return <another listed function>(...), the opt-in parameter passed on unchanged *)
| XTrustedOptIn                (* from_trusted_data(...) under `direct_trusted_mapping and ...` (parameter, default False):
                                  the documented opt-in the property excludes *)
| XTrusted                     (* from_trusted_data / the trusted flag on any other path *)
| XSelf                        (* return self *)
| XRawCopy                     (* r = cls.__new__(cls); r.__dict__.update(self.__dict__); return r *)
| XSkipCopy (cleaned : bool)   (* __new__; _skip_validation = True; setattr(r, k, deepcopy(v)) for all; [delattr flag] *)
| XStateDict                   (* {name: ... for declared fields if name in self.__dict__} [+ the internal `_none_fields`] *)
| XOther.                      (* not recognised *)

Definition site_table := list (pystr * list exit_kind).

Definition site_row (t : site_table) (fn : pystr) : list exit_kind :=
  match alist_get t fn with Some r => r | None => [XOther] end.

(* a function every return of which is the validating constructor (directly or through another such
   function) or the excluded opt-in, and that has at least one constructing return *)
Fixpoint ctor_fn_ok (fuel : nat) (t : site_table) (fn : pystr) : bool :=
  match fuel with
  | O => false
  | S n =>
      let r := site_row t fn in
      forallb (fun k => match k with
                        | XCtor | XTrustedOptIn => true
                        | XDelegate g => ctor_fn_ok n t g
                        | _ => false
                        end) r &&
      existsb (fun k => match k with XCtor | XDelegate _ => true | _ => false end) r
  end.

Definition fn_clone := s2p "shallow_clone_with_overrides".
Definition fn_cast := s2p "cast_to".
Definition fn_from_other := s2p "from_other_class".
Definition fn_deepcopy := s2p "__deepcopy__".
Definition fn_copy := s2p "__copy__".
Definition fn_getstate := s2p "__getstate__".
Definition fn_deser_api := s2p "Deserializer.deserialize".
Definition fn_deser_fn := s2p "deserialize_structure".

Definition copy_fn_ok (t : site_table) : bool :=
  match site_row t fn_copy with [XRawCopy] => true | _ => false end.

Definition deepcopy_fn_ok (t : site_table) : bool :=
  let r := site_row t fn_deepcopy in
  forallb (fun k => match k with XSelf | XSkipCopy true => true | _ => false end) r &&
  existsb (fun k => match k with XSkipCopy true => true | _ => false end) r.

(* [unp]: unpickling stores the state into a fresh __dict__ and otherwise sets typedpy's internal entries only
   (the interpreter's default, or Structure.__setstate__ of the recognised shape: __dict__.update(state), a default
   for `_none_fields`, `_instantiated` = True; no __reduce__ / __getnewargs__ on Structure) *)
Definition pickle_fn_ok (t : site_table) (unp : bool) : bool :=
  unp && match site_row t fn_getstate with [XStateDict] => true | _ => false end.

Definition entry_site_ok (t : site_table) (unp : bool) (en : entry) : bool :=
  match en with
  | ECtor _ _ | EWrap _ _ _ => true                  (* the constructor itself *)
  | EDeser _ _ => ctor_fn_ok 4 t fn_deser_api && ctor_fn_ok 4 t fn_deser_fn
  | EFromOther _ _ | EFromMapping _ _ _ => ctor_fn_ok 4 t fn_from_other
  | EClone _ => ctor_fn_ok 4 t fn_clone
  | ECastTo _ => ctor_fn_ok 4 t fn_cast
  | ECopy => copy_fn_ok t
  | EDeepCopy => deepcopy_fn_ok t
  | EPickle => pickle_fn_ok t unp
  end.

Definition sites_ok (t : site_table) (unp : bool) : bool :=
  ctor_fn_ok 4 t fn_deser_api && ctor_fn_ok 4 t fn_deser_fn && ctor_fn_ok 4 t fn_from_other &&
  ctor_fn_ok 4 t fn_clone && ctor_fn_ok 4 t fn_cast &&
  copy_fn_ok t && deepcopy_fn_ok t && pickle_fn_ok t unp.

(* what Structure.from_trusted_data(None, **kw) hands out: the flag, then every keyword stored as is *)
Definition flag_trusted := s2p "_trust_supplied_values".
Definition flag_skip := s2p "_skip_validation".

Definition trusted_instance (c : classdef) (kw : kwargs) : pyval :=
  PStruct (c_name c) ((flag_trusted, PBool true) :: kw).

Section WithOracle.
  Variable re_match : N -> pystr -> bool.
  Variable e : env.
  Variable t : site_table.
  Variable unp : bool.

  Definition run_entry_sites (cur : pyval) (en : entry) : res pyval :=
    if entry_site_ok t unp en then run_entry re_match e cur en
    else
      match entry_plan e cur en with
      | PConstruct c kw => if has_dup (map fst kw) then Raise Unmodelled else Ok (trusted_instance c kw)
      | PValue (PStruct cn a) => Ok (PStruct cn ((flag_skip, PBool true) :: a))
      | PValue v => Ok v
      | PRaise x => Raise x
      end.

  Fixpoint run_chain_sites (cur : pyval) (ch : list entry) : res pyval :=
    match ch with
    | [] => Ok cur
    | en :: tl => x <- run_entry_sites cur en ;; run_chain_sites x tl
    end.
End WithOracle.

(* ------------------------------------------------------------------ the witnesses' environment:
   Loose declares a = Anything; Strict(Loose) re-declares a = Integer, closed, a required *)
Definition wit_loose : classdef :=
  {| c_name := s2p "Loose"; c_ancestors := [];
     c_fields := [ {| fd_name := s2p "a"; fd_field := FAnything; fd_immutable := false; fd_default := None |} ];
     c_required := []; c_additional := false; c_ignore_none := false; c_immutable := false; c_hook := HookNone |}.
Definition wit_strict : classdef :=
  {| c_name := s2p "Strict"; c_ancestors := [s2p "Loose"];
     c_fields := [ {| fd_name := s2p "a"; fd_field := FNumber KInteger SAny no_numc; fd_immutable := false; fd_default := None |} ];
     c_required := [s2p "a"]; c_additional := false; c_ignore_none := false; c_immutable := false; c_hook := HookNone |}.
Definition wit_env : env := [wit_loose; wit_strict].
Definition wit_bad : kwargs := [(s2p "a", PStr (s2p "x"))].
Definition wit_loose_inst : pyval := PStruct (s2p "Loose") wit_bad.
Definition wit_strict_inst : pyval := PStruct (s2p "Strict") [(s2p "a", PNum (NInt 1%Z))].

(* for each entry kind: a current instance that is valid and an entry whose result must be rejected *)
Inductive site_kind := KDeser | KFromOther | KFromMapping | KClone | KCast | KCopy | KDeepCopy | KPickle.

Definition wit_cur (k : site_kind) : pyval :=
  match k with
  | KDeser | KFromMapping => PNone
  | KFromOther | KCast => wit_loose_inst
  | KClone | KCopy | KDeepCopy | KPickle => wit_strict_inst
  end.

Definition wit_entry (k : site_kind) : entry :=
  match k with
  | KDeser => EDeser (s2p "Strict") wit_bad
  | KFromOther => EFromOther (s2p "Strict") []
  | KFromMapping => EFromMapping (s2p "Strict") wit_bad []
  | KClone => EClone wit_bad
  | KCast => ECastTo (s2p "Strict")
  | KCopy => ECopy
  | KDeepCopy => EDeepCopy
  | KPickle => EPickle
  end.
