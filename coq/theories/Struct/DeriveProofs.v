(* Proofs about the derivation operators (Struct/Derive.v): C12. *)
From Coq Require Import ZArith NArith String Ascii Bool Lia List.
Import ListNotations.
From TP Require Import Base.PyVal Fields.FieldAst Fields.SetChain Struct.Define Struct.DefineProofs Struct.Derive.

(* the environment knows the root class `Structure` (as in genv0) *)
Definition base_ok (g : genv) : Prop :=
  exists ks, find_klass g n_Structure = Some ks /\ k_mro ks = [n_Structure] /\ k_own ks = [].

Lemma base_ok_genv0 : base_ok genv0.
Proof. eexists. split; [vm_compute; reflexivity|]. split; reflexivity. Qed.

Lemma base_ok_cons g k : base_ok g -> k_name k <> n_Structure -> base_ok (k :: g).
Proof.
  intros [ks [H1 H2]] Hne. exists ks. split; [|exact H2].
  cbn [find_klass]. destruct (pystr_eqb (k_name k) n_Structure) eqn:E.
  - apply pystr_eqb_spec in E. contradiction.
  - exact H1.
Qed.

Lemma existsb_has_default ms x :
  NoDup (map fst ms) ->
  existsb (fun nm : pystr * member => pystr_eqb (fst nm) x && has_default (snd nm)) ms = member_has_default ms x.
Proof.
  unfold member_has_default. induction ms as [|[n m] t IH]; cbn [existsb alist_get map fst snd]; intro Hnd.
  - reflexivity.
  - inversion Hnd as [|? ? Hn Hd]; subst. destruct (pystr_eqb n x) eqn:E; cbn [andb orb].
    + apply pystr_eqb_spec in E; subst.
      assert (Hf : existsb (fun nm : pystr * member => pystr_eqb (fst nm) x && has_default (snd nm)) t = false).
      { apply not_true_is_false. intro Ht. apply existsb_exists in Ht as [[n' m'] [Hin Hb]].
        cbn [fst snd] in Hb. apply andb_true_iff in Hb as [Hb _]. apply pystr_eqb_spec in Hb; subst.
        apply Hn. apply in_map_iff. exists (x, m'). auto. }
      rewrite Hf. apply orb_false_r.
    + apply IH. exact Hd.
Qed.

Lemma all_required_seed_spec ms :
  all_required_seed ms = map fst (filter (fun nm => negb (has_default (snd nm))) ms).
Proof.
  induction ms as [|[n m] t IH]; cbn [all_required_seed filter snd]; [reflexivity|].
  destruct (has_default m); cbn [negb map fst]; rewrite IH; reflexivity.
Qed.

(* the class dict an operator builds: the documented members, the documented _required seed *)
Lemma derive_stmt_spec inh k o cn s :
  derive_stmt inh k o cn = Ok s ->
  exists ms, doc_fields o (k_all k) = Ok ms /\
             s = derived_stmt (derived_name o cn k) (effective_ignore_none inh k) ms
                              (doc_required o (k_all k) (k_required k)).
Proof.
  unfold derive_stmt. destruct o as [| | |ns|ns]; cbn [doc_fields doc_required]; intro H.
  - inversion H. eexists; split; reflexivity.
  - inversion H. rewrite all_required_seed_spec. eexists; split; reflexivity.
  - inversion H. eexists; split; reflexivity.
  - destruct (forallb _ ns); [|discriminate]. inversion H. eexists; split; reflexivity.
  - destruct (forallb _ ns); [|discriminate]. inversion H. eexists; split; reflexivity.
Qed.

(* every operator builds a class dict whenever the documented field set exists (no operator/source
   combination fails on its own) *)
Lemma derive_stmt_total inh k o cn :
  is_ok (doc_fields o (k_all k)) = true -> is_ok (derive_stmt inh k o cn) = true.
Proof.
  unfold derive_stmt. destruct o as [| | |ns|ns]; cbn [doc_fields]; try reflexivity;
    destruct (forallb _ ns); intro H; try reflexivity; discriminate.
Qed.

Lemma derive_stmt_bad_name_omit inh k ns cn :
  forallb (fun n => alist_has (k_all k) n) ns = false -> derive_stmt inh k (OpOmit ns) cn = Raise TypeError.
Proof. unfold derive_stmt. intros ->. reflexivity. Qed.

Lemma derive_stmt_bad_name_pick inh k ns cn :
  forallb (fun n => alist_has (k_all k) n) ns = false -> derive_stmt inh k (OpPick ns) cn = Raise TypeError.
Proof. unfold derive_stmt. intros ->. reflexivity. Qed.

Section DeriveProofs.
  Variable re_match : N -> pystr -> bool.
  Variable e : env.
  Variable gd : guards.

  Notation define := (define re_match e gd).
  Notation derive := (derive re_match e gd).
  Notation derive_chain := (derive_chain re_match e gd).

  Lemma base_info_root g : base_ok g -> base_info gd g [n_Structure] [] false = Ok [].
  Proof.
    intros [ks [Hf _]]. cbn [base_info]. rewrite Hf. rewrite pystr_eqb_refl, orb_true_r. reflexivity.
  Qed.

  Lemma mro_of_root g name : base_ok g -> mro_of g name [n_Structure] = Ok [name; n_Structure].
  Proof.
    intros [ks [Hf [Hm _]]]. unfold mro_of. cbn [has_dup_str str_in existsb orb mros_of]. rewrite Hf.
    cbn [bind]. rewrite Hm. vm_compute. reflexivity.
  Qed.

  Lemma fields_of_root g : base_ok g -> fields_of_mro g [n_Structure] = [].
  Proof.
    intros [ks [Hf [_ Ho]]]. unfold fields_of_mro. cbn [rev app fold_left]. unfold own_of. rewrite Hf, Ho.
    destruct (k_is_struct ks); reflexivity.
  Qed.

  (* Everything C12 says about one derivation, in one statement. *)
  Theorem derive_spec g k o cn k' :
    base_ok g ->
    derive g k o cn = Ok k' ->
    exists ms,
      doc_fields o (k_all k) = Ok ms /\
      k_all k' = ms /\ k_own k' = ms /\
      NoDup (map fst ms) /\
      k_required k' = filter (fun x => negb (member_has_default ms x))
                             (dedup_str (doc_required o (k_all k) (k_required k))) /\
      k_mro k' = [derived_name o cn k; n_Structure] /\
      k_name k' = derived_name o cn k /\
      k_ignore_none k' = effective_ignore_none (bases_ignore_none g k) k.
  Proof.
    intros Hb H. unfold Derive.derive in H. apply bind_ok in H as [s [Hs H]].
    apply derive_stmt_spec in Hs as [ms [Hdoc Hs]]. subst s.
    apply (define_inv re_match e gd) in H. destruct H as [Hnd Hown Hbp _ _ Hmro _ Hall _ _ _ _ Hname _ _ Hign _].
    cbn [derived_stmt s_members s_bases s_name s_required s_optional s_ignore_none] in *.
    unfold as_objs in *. rewrite build_members_objs in Hown. inversion Hown as [Hown']. clear Hown.
    assert (Hnames : map fst (map (fun nm : pystr * member => (fst nm, SObj (snd nm))) ms) = map fst ms).
    { rewrite map_map. reflexivity. }
    rewrite Hnames in Hnd. apply has_dup_false_NoDup in Hnd.
    rewrite (mro_of_root g _ Hb) in Hmro. inversion Hmro as [Hmro']. clear Hmro.
    rewrite <- Hmro' in Hall. cbn [tl_str] in Hall. unfold all_fields in Hall.
    rewrite (fields_of_root g Hb) in Hall. rewrite <- Hown' in Hall. rewrite update_members_nil in Hall by exact Hnd.
    destruct Hbp as [bp [Hbp [Hreq _]]]. rewrite (base_info_root g Hb) in Hbp. inversion Hbp; subst bp. clear Hbp.
    cbn [bases_required filter map app] in Hreq.
    unfold own_required in Hreq. cbn [derived_stmt s_required s_optional is_some opt_list] in Hreq.
    rewrite req_fold_predefined in Hreq. rewrite <- Hown' in Hreq.
    exists ms. repeat split; try assumption; try (symmetry; assumption).
    rewrite Hreq. rewrite dedup_str_NoDup_id by (apply NoDup_filter, NoDup_dedup_str).
    apply filter_ext_in. intros x _. rewrite existsb_has_default by exact Hnd. reflexivity.
  Qed.

  (* when the source's _required is well-formed the result is literally the documented one *)
  Lemma filter_all_true {A} (f : A -> bool) l : forallb f l = true -> filter f l = l.
  Proof.
    induction l as [|x t IH]; cbn [forallb filter]; [reflexivity|].
    intro H. apply andb_true_iff in H as [H1 H2]. rewrite H1, IH by exact H2. reflexivity.
  Qed.

  (* ---------------------------------------------------------------- retained members are the source's *)

  Lemma alist_get_filter_names {A} (p : pystr -> bool) (l : list (pystr * A)) n :
    alist_get (filter (fun nm => p (fst nm)) l) n = if p n then alist_get l n else None.
  Proof.
    induction l as [|[k x] t IH]; cbn [filter alist_get fst].
    - destruct (p n); reflexivity.
    - destruct (p k) eqn:Ek; cbn [alist_get].
      + destruct (pystr_eqb k n) eqn:E; [apply pystr_eqb_spec in E; subst; rewrite Ek; reflexivity | exact IH].
      + destruct (pystr_eqb k n) eqn:E; [apply pystr_eqb_spec in E; subst; rewrite Ek in *; exact IH | exact IH].
  Qed.

  Lemma alist_get_pick_list (src : members) l x :
    alist_get (flat_map (fun n => match alist_get src n with Some m => [(n, m)] | None => [] end) l) x =
    if str_in x l then alist_get src x else None.
  Proof.
    induction l as [|n t IH]; cbn [flat_map]; [reflexivity|].
    unfold str_in in *. cbn [existsb]. rewrite (pystr_eqb_sym x n).
    destruct (alist_get src n) as [m|] eqn:Hn; cbn [app alist_get].
    - destruct (pystr_eqb n x) eqn:E; cbn [orb].
      + apply pystr_eqb_spec in E; subst. symmetry; exact Hn.
      + exact IH.
    - destruct (pystr_eqb n x) eqn:E; cbn [orb].
      + apply pystr_eqb_spec in E; subst. rewrite IH, Hn. destruct (existsb _ t); reflexivity.
      + exact IH.
  Qed.

  Definition retained (o : op) (n : pystr) : bool :=
    match o with
    | OpOmit ns => negb (str_in n ns)
    | OpPick ns => str_in n ns
    | _ => true
    end.

  Lemma str_in_dedup x l : str_in x (dedup_str l) = str_in x l.
  Proof.
    destruct (str_in x l) eqn:E.
    - apply str_in_In. apply In_dedup_str. apply str_in_In. exact E.
    - apply str_in_false. rewrite In_dedup_str. apply str_in_false. exact E.
  Qed.

  Lemma doc_fields_get o src ms n :
    doc_fields o src = Ok ms -> alist_get ms n = if retained o n then alist_get src n else None.
  Proof.
    destruct o as [| | |ns|ns]; cbn [doc_fields retained]; intro H;
      try (inversion H; subst; reflexivity).
    - destruct (forallb _ ns); [|discriminate]. inversion H; subst.
      apply (alist_get_filter_names (fun x => negb (str_in x ns))).
    - destruct (forallb _ ns); [|discriminate]. inversion H; subst. unfold pick_members.
      rewrite alist_get_pick_list. rewrite str_in_dedup. reflexivity.
  Qed.

  Lemma doc_fields_names o src ms n :
    doc_fields o src = Ok ms -> (In n (map fst ms) <-> In n (map fst src) /\ retained o n = true).
  Proof.
    intro H. rewrite <- !alist_has_In. unfold alist_has. rewrite (doc_fields_get o src ms n H).
    destruct (retained o n); destruct (alist_get src n); intuition congruence.
  Qed.

  Lemma doc_fields_all_named src ns ms n :
    doc_fields (OpPick ns) src = Ok ms -> In n ns -> In n (map fst src).
  Proof.
    cbn [doc_fields]. destruct (forallb _ ns) eqn:E; [|discriminate]. intros _ Hin.
    rewrite forallb_forall in E. apply alist_has_In. apply E. exact Hin.
  Qed.

  (* ---------------------------------------------------------------- well-formed _required *)

  Definition req_wf (ms : members) (req : list pystr) : Prop :=
    NoDup req /\ forall n, In n req -> member_has_default ms n = false.

  Lemma req_wfb_spec ms req : req_wfb ms req = true <-> req_wf ms req.
  Proof.
    unfold req_wfb, req_wf. rewrite andb_true_iff, negb_true_iff, forallb_forall. split.
    - intros [H1 H2]. split; [apply has_dup_false_NoDup; exact H1|].
      intros n Hin. apply negb_true_iff. apply H2. exact Hin.
    - intros [H1 H2]. split; [apply NoDup_has_dup_false; exact H1|].
      intros n Hin. apply negb_true_iff. apply H2. exact Hin.
  Qed.

  Lemma member_has_default_sub o src ms n :
    doc_fields o src = Ok ms -> member_has_default src n = false -> member_has_default ms n = false.
  Proof.
    intros H Hs. unfold member_has_default in *. rewrite (doc_fields_get o src ms n H).
    destruct (retained o n); [exact Hs | reflexivity].
  Qed.

  Lemma NoDup_map_fst_filter {A B} (f : A * B -> bool) (l : list (A * B)) :
    NoDup (map fst l) -> NoDup (map fst (filter f l)).
  Proof.
    induction l as [|x t IH]; cbn [map filter]; intro H; [constructor|].
    inversion H as [|? ? Hn Hd]; subst. destruct (f x); cbn [map]; [constructor|]; auto.
    intro Hin. apply Hn. apply in_map_iff in Hin as [y [Hy Hin]]. apply filter_In in Hin as [Hin _].
    apply in_map_iff. exists y. auto.
  Qed.

  Lemma doc_required_wf o src req ms :
    NoDup (map fst src) -> req_wf src req -> doc_fields o src = Ok ms ->
    req_wf ms (doc_required o src req).
  Proof.
    intros Hnd [Hrn Hrd] Hdoc. destruct o as [| | |ns|ns]; cbn [doc_required].
    - split; [constructor | intros n []].
    - cbn [doc_fields] in Hdoc. inversion Hdoc; subst ms. split.
      + apply NoDup_map_fst_filter. exact Hnd.
      + intros n Hin. apply in_map_iff in Hin as [[n' m] [Hn Hin]]. cbn [fst] in Hn. subst n'.
        apply filter_In in Hin as [Hin Hd]. cbn [snd] in Hd. unfold member_has_default.
        rewrite (In_alist_get_NoDup src n m Hnd Hin). apply negb_true_iff. exact Hd.
    - cbn [doc_fields] in Hdoc. inversion Hdoc; subst ms. split; assumption.
    - split; [apply NoDup_filter; exact Hrn|]. intros n Hin. apply filter_In in Hin as [Hin _].
      eapply member_has_default_sub; [exact Hdoc | apply Hrd; exact Hin].
    - split; [apply NoDup_filter; exact Hrn|]. intros n Hin. apply filter_In in Hin as [Hin _].
      eapply member_has_default_sub; [exact Hdoc | apply Hrd; exact Hin].
  Qed.

  (* one derivation from a well-formed source: exactly the documented sets, and well-formed again *)
  Theorem derive_documented g k o cn k' :
    base_ok g -> NoDup (map fst (k_all k)) -> req_wf (k_all k) (k_required k) ->
    derive g k o cn = Ok k' ->
    doc_step o (k_all k, k_required k) = Ok (k_all k', k_required k') /\
    NoDup (map fst (k_all k')) /\ req_wf (k_all k') (k_required k').
  Proof.
    intros Hb Hnd Hwf H. destruct (derive_spec g k o cn k' Hb H) as [ms [Hdoc [Hall [_ [Hnd' [Hreq _]]]]]].
    pose proof (doc_required_wf o _ _ ms Hnd Hwf Hdoc) as [Hdn Hdd].
    assert (Heq : k_required k' = doc_required o (k_all k) (k_required k)).
    { rewrite Hreq. rewrite dedup_str_NoDup_id by exact Hdn. apply filter_all_true.
      apply forallb_forall. intros x Hx. apply negb_true_iff. apply Hdd. exact Hx. }
    unfold doc_step. cbn [fst snd]. rewrite Hdoc. cbn [bind]. rewrite Hall, Heq.
    split; [reflexivity|]. split; [exact Hnd'|]. split; assumption.
  Qed.

  Lemma prefix_not_structure o x : op_prefix o ++ x <> n_Structure.
  Proof. destruct o; cbn; intro H; inversion H. Qed.

  Definition names_ok (ops : list (op * option pystr)) : Prop :=
    Forall (fun oc => snd oc <> Some n_Structure) ops.

  Lemma derived_name_not_structure o cn k : cn <> Some n_Structure -> derived_name o cn k <> n_Structure.
  Proof.
    unfold derived_name. destruct cn as [n|]; intro H; [congruence | apply prefix_not_structure].
  Qed.

  (* any number of successive derivations: the fold of the documented set operations *)
  Theorem derive_chain_documented ops : forall g k k',
    base_ok g -> names_ok ops -> NoDup (map fst (k_all k)) -> req_wf (k_all k) (k_required k) ->
    derive_chain g k ops = Ok k' ->
    doc_chain (map fst ops) (k_all k, k_required k) = Ok (k_all k', k_required k').
  Proof.
    induction ops as [|[o cn] t IH]; intros g k k' Hb Hn Hnd Hwf H; cbn [Derive.derive_chain map fst doc_chain] in *.
    - inversion H; subst. reflexivity.
    - apply bind_ok in H as [k1 [H1 H]].
      destruct (derive_documented g k o cn k1 Hb Hnd Hwf H1) as [Hs [Hnd1 Hwf1]].
      rewrite Hs. cbn [bind]. inversion Hn as [|? ? Hcn Hn']; subst. cbn [snd] in Hcn.
      apply (IH (k1 :: g)); try assumption.
      apply base_ok_cons; [exact Hb|].
      destruct (derive_spec g k o cn k1 Hb H1) as [ms [_ [_ [_ [_ [_ [_ [Hname _]]]]]]]].
      rewrite Hname. apply derived_name_not_structure. exact Hcn.
  Qed.

  (* ---------------------------------------------------------------- not a subclass *)

  Lemma app_neq_self (p x : pystr) : p <> [] -> p ++ x <> x.
  Proof.
    intros Hp H. apply (f_equal (@length N)) in H. rewrite app_length in H.
    destruct p; [contradiction | cbn in H; lia].
  Qed.

  Lemma default_name_fresh o k : derived_name o None k <> k_name k.
  Proof. unfold derived_name. apply app_neq_self. destruct o; cbn; discriminate. Qed.

  Theorem derive_not_subclass g k o cn k' :
    base_ok g -> derive g k o cn = Ok k' ->
    derived_name o cn k <> k_name k -> k_name k <> n_Structure ->
    is_subclass k' k = false.
  Proof.
    intros Hb H Hne Hs. destruct (derive_spec g k o cn k' Hb H) as [ms [_ [_ [_ [_ [_ [Hmro _]]]]]]].
    unfold is_subclass. rewrite Hmro. apply str_in_false. intros [Hin|[Hin|[]]]; congruence.
  Qed.

  (* ---------------------------------------------------------------- bad names *)

  Theorem derive_bad_name g k ns cn n :
    In n ns -> ~ In n (field_names k) ->
    derive g k (OpOmit ns) cn = Raise TypeError /\ derive g k (OpPick ns) cn = Raise TypeError.
  Proof.
    intros Hin Hnot.
    assert (Hf : forallb (fun n => alist_has (k_all k) n) ns = false).
    { apply not_true_is_false. intro Ht. rewrite forallb_forall in Ht. apply Hnot.
      apply alist_has_In. apply Ht. exact Hin. }
    unfold Derive.derive. rewrite (derive_stmt_bad_name_omit _ k ns cn Hf), (derive_stmt_bad_name_pick _ k ns cn Hf).
    split; reflexivity.
  Qed.

  (* ---------------------------------------------------------------- the source is untouched *)

  Theorem derive_source_unchanged g k o cn k' :
    base_ok g -> derive g k o cn = Ok k' -> derived_name o cn k <> k_name k ->
    forall n, n <> derived_name o cn k -> find_klass (k' :: g) n = find_klass g n.
  Proof.
    intros Hb H _ n Hn. destruct (derive_spec g k o cn k' Hb H) as [ms [_ [_ [_ [_ [_ [_ [Hname _]]]]]]]].
    cbn [find_klass]. rewrite Hname. destruct (pystr_eqb (derived_name o cn k) n) eqn:E; [|reflexivity].
    apply pystr_eqb_spec in E. congruence.
  Qed.

  (* ---------------------------------------------------------------- no operator fails on its own *)

  Theorem derive_total g k o cn :
    is_ok (doc_fields o (k_all k)) = true ->
    (forall s, derive_stmt (bases_ignore_none g k) k o cn = Ok s -> is_ok (define g s) = true) ->
    is_ok (derive g k o cn) = true.
  Proof.
    intros Hdoc Hdef. unfold Derive.derive.
    pose proof (derive_stmt_total (bases_ignore_none g k) k o cn Hdoc) as Hs.
    destruct (derive_stmt (bases_ignore_none g k) k o cn) as [s|x] eqn:Es; [|discriminate].
    cbn [bind]. apply Hdef. reflexivity.
  Qed.

  (* ---------------------------------------------------------------- _ignore_none as the classes SEE it *)

  Lemma resolve_ignore_none_opt g mro :
    resolve_ignore_none g mro = match inherited_ignore_none g mro with Some b => b | None => false end.
  Proof.
    induction mro as [|c t IH]; cbn [resolve_ignore_none inherited_ignore_none]; [reflexivity|].
    destruct (find_klass g c) as [kc|]; [|exact IH]. destruct (k_ignore_none kc); [reflexivity|exact IH].
  Qed.

  (* getattr(Derived, '_ignore_none', False) = getattr(Source, '_ignore_none', False), whether the source set
     the attribute itself or inherits it *)
  Theorem derive_ignore_none_effective g k o cn k' :
    base_ok g -> resolve_ignore_none g [n_Structure] = false ->
    find_klass g (k_name k) = Some k -> k_mro k = k_name k :: tl_str (k_mro k) ->
    derived_name o cn k <> n_Structure ->
    derive g k o cn = Ok k' ->
    resolve_ignore_none (k' :: g) (k_mro k') = resolve_ignore_none g (k_mro k).
  Proof.
    intros Hb Hroot Hfind Hmro Hne H.
    destruct (derive_spec g k o cn k' Hb H) as [ms [_ [_ [_ [_ [_ [Hm [Hname Hign]]]]]]]].
    rewrite Hm, Hmro. cbn [resolve_ignore_none find_klass]. rewrite Hname, pystr_eqb_refl, Hfind, Hign.
    unfold effective_ignore_none, bases_ignore_none.
    destruct (k_ignore_none k) as [b|]; [reflexivity|].
    rewrite (resolve_ignore_none_opt g (tl_str (k_mro k))).
    destruct (inherited_ignore_none g (tl_str (k_mro k))) as [b|]; [reflexivity|].
    destruct (pystr_eqb (derived_name o cn k) n_Structure) eqn:E.
    - apply pystr_eqb_spec in E. contradiction.
    - cbn [resolve_ignore_none] in Hroot. exact Hroot.
  Qed.

End DeriveProofs.

