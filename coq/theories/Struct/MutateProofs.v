(* Proofs for property C03 over the instance model (Struct/Instance.v, Struct/Mutate.v). *)
From Coq Require Import ZArith QArith NArith String Ascii Bool Lia List.
Import ListNotations.
From TP Require Import Base.PyVal Fields.FieldAst Fields.SetChain Fields.Doc Struct.Shapes Struct.Instance
  Struct.Mutate.
Local Open Scope Z_scope.

(* ------------------------------------------------------------------ association lists *)

Lemma pystr_eqb_sym a b : pystr_eqb a b = pystr_eqb b a.
Proof.
  destruct (pystr_eqb a b) eqn:E.
  - apply pystr_eqb_spec in E; subst. symmetry; apply pystr_eqb_refl.
  - destruct (pystr_eqb b a) eqn:E2; [|reflexivity].
    apply pystr_eqb_spec in E2; subst. rewrite pystr_eqb_refl in E; discriminate.
Qed.

Lemma alist_get_set {A} (a : list (pystr * A)) n v k :
  alist_get (alist_set a n v) k = if pystr_eqb n k then Some v else alist_get a k.
Proof.
  induction a as [|[k' v'] t IH]; cbn [alist_set alist_get].
  - reflexivity.
  - destruct (pystr_eqb k' n) eqn:E.
    + apply pystr_eqb_spec in E; subst k'. cbn [alist_get]. destruct (pystr_eqb n k); reflexivity.
    + cbn [alist_get]. destruct (pystr_eqb k' k) eqn:E2.
      * apply pystr_eqb_spec in E2; subst k'. rewrite pystr_eqb_sym in E. rewrite E. reflexivity.
      * apply IH.
Qed.

Lemma alist_has_set {A} (a : list (pystr * A)) n v k :
  alist_has (alist_set a n v) k = pystr_eqb n k || alist_has a k.
Proof. unfold alist_has. rewrite alist_get_set. destruct (pystr_eqb n k); reflexivity. Qed.

Lemma alist_get_del {A} (a : list (pystr * A)) n k :
  alist_get (alist_del a n) k = if pystr_eqb n k then None else alist_get a k.
Proof.
  induction a as [|[k' v'] t IH]; cbn [alist_del alist_get].
  - destruct (pystr_eqb n k); reflexivity.
  - destruct (pystr_eqb k' n) eqn:E.
    + apply pystr_eqb_spec in E; subst k'. rewrite IH. destruct (pystr_eqb n k); reflexivity.
    + cbn [alist_get]. destruct (pystr_eqb k' k) eqn:E2.
      * apply pystr_eqb_spec in E2; subst k'. rewrite pystr_eqb_sym in E. rewrite E. reflexivity.
      * apply IH.
Qed.

Lemma alist_has_del {A} (a : list (pystr * A)) n k :
  alist_has (alist_del a n) k = negb (pystr_eqb n k) && alist_has a k.
Proof. unfold alist_has. rewrite alist_get_del. destruct (pystr_eqb n k); reflexivity. Qed.

Lemma alist_has_keys {A} (a : list (pystr * A)) n : alist_has a n = str_in n (map fst a).
Proof.
  unfold alist_has, str_in. induction a as [|[k' v'] t IH]; cbn [alist_get map fst existsb].
  - reflexivity.
  - rewrite (pystr_eqb_sym n k'). destruct (pystr_eqb k' n); [reflexivity | exact IH].
Qed.

Lemma keys_set {A} (a : list (pystr * A)) n v :
  map fst (alist_set a n v) = if alist_has a n then map fst a else map fst a ++ [n].
Proof.
  induction a as [|[k' v'] t IH]; cbn [alist_set map fst].
  - reflexivity.
  - unfold alist_has. cbn [alist_get]. destruct (pystr_eqb k' n) eqn:E.
    + reflexivity.
    + cbn [map fst]. rewrite IH. unfold alist_has. destruct (alist_get t n); reflexivity.
Qed.

Lemma has_dup_app1 l n : has_dup (l ++ [n]) = has_dup l || str_in n l.
Proof.
  induction l as [|x l IH]; cbn [app has_dup].
  - reflexivity.
  - rewrite IH. unfold str_in. rewrite existsb_app. cbn [existsb].
    rewrite (pystr_eqb_sym x n).
    destruct (existsb (pystr_eqb x) l), (pystr_eqb n x), (has_dup l), (existsb (pystr_eqb n) l); reflexivity.
Qed.

Lemma nodup_set {A} (a : list (pystr * A)) n v :
  has_dup (map fst (alist_set a n v)) = has_dup (map fst a).
Proof.
  rewrite keys_set. destruct (alist_has a n) eqn:E; [reflexivity|].
  rewrite has_dup_app1. rewrite <- alist_has_keys, E. apply orb_false_r.
Qed.

Lemma nodup_del {A} (a : list (pystr * A)) n :
  has_dup (map fst a) = false -> has_dup (map fst (alist_del a n)) = false.
Proof.
  induction a as [|[k' v'] t IH]; cbn [alist_del map fst has_dup]; intro H.
  - reflexivity.
  - apply orb_false_iff in H as [H1 H2].
    destruct (pystr_eqb k' n); [exact (IH H2)|].
    cbn [map fst has_dup]. apply orb_false_iff; split; [|exact (IH H2)].
    rewrite <- alist_has_keys in *. rewrite alist_has_del, H1. apply andb_false_r.
Qed.

Lemma forallb_set {A} (P : pystr * A -> bool) a n v :
  forallb P a = true -> P (n, v) = true -> forallb P (alist_set a n v) = true.
Proof.
  intros Ha Hn. induction a as [|[k' v'] t IH]; cbn [alist_set forallb].
  - rewrite Hn. reflexivity.
  - cbn [forallb] in Ha. apply andb_true_iff in Ha as [H1 H2].
    destruct (pystr_eqb k' n) eqn:E.
    + apply pystr_eqb_spec in E; subst k'. cbn [forallb]. rewrite Hn, H2. reflexivity.
    + cbn [forallb]. rewrite H1, (IH H2). reflexivity.
Qed.

Lemma forallb_del {A} (P : pystr * A -> bool) a n :
  forallb P a = true -> forallb P (alist_del a n) = true.
Proof.
  induction a as [|[k' v'] t IH]; cbn [alist_del forallb]; intro H.
  - reflexivity.
  - apply andb_true_iff in H as [H1 H2].
    destruct (pystr_eqb k' n); [exact (IH H2)|]. cbn [forallb]. rewrite H1, (IH H2). reflexivity.
Qed.

Lemma str_in_neq n r l : str_in n l = false -> In r l -> pystr_eqb n r = false.
Proof.
  unfold str_in. intros H Hin. destruct (pystr_eqb n r) eqn:E; [|reflexivity].
  assert (existsb (pystr_eqb n) l = true) by (apply existsb_exists; exists r; split; assumption).
  congruence.
Qed.

Lemma find_field_names l n : find_field l n = None -> str_in n (map fd_name l) = false.
Proof.
  unfold str_in. induction l as [|d t IH]; cbn [find_field map existsb]; intro H.
  - reflexivity.
  - rewrite (pystr_eqb_sym n (fd_name d)). destruct (pystr_eqb (fd_name d) n); [discriminate|].
    exact (IH H).
Qed.

Lemma find_field_name l n fd : find_field l n = Some fd -> fd_name fd = n.
Proof.
  induction l as [|d t IH]; cbn [find_field]; intro H; [discriminate|].
  destruct (pystr_eqb (fd_name d) n) eqn:E.
  - inversion H; subst. apply pystr_eqb_spec; exact E.
  - exact (IH H).
Qed.

(* ------------------------------------------------------------------ the hook *)

Lemma hook_ok_ext h (a a' : attrs) :
  (forall x, In x (hook_names h) -> alist_get a' x = alist_get a x) -> hook_ok h a' = hook_ok h a.
Proof.
  intro H. destruct h as [|x y|x]; cbn [hook_ok hook_names] in *.
  - reflexivity.
  - rewrite (H x), (H y); [reflexivity | right; left; reflexivity | left; reflexivity].
  - unfold alist_has. rewrite (H x); [reflexivity | left; reflexivity].
Qed.

Lemma hook_ok_nonfield c (a : attrs) n v :
  hook_wf c = true -> find_field (c_fields c) n = None ->
  hook_ok (c_hook c) (alist_set a n v) = hook_ok (c_hook c) a.
Proof.
  intros Hwf Hnf. apply hook_ok_ext. intros x Hx. rewrite alist_get_set.
  unfold hook_wf in Hwf. rewrite forallb_forall in Hwf. specialize (Hwf x Hx).
  apply find_field_names in Hnf. unfold field_names in Hwf.
  destruct (pystr_eqb n x) eqn:E; [|reflexivity].
  apply pystr_eqb_spec in E; subst x. congruence.
Qed.

Section Main.
  Variable re_match : N -> pystr -> bool.
  Variable e : env.

  Notation struct_ok := (struct_ok re_match e).
  Notation setattr := (setattr re_match e).
  Notation mstep := (mstep re_match e).
  Notation run_ops := (run_ops re_match e).
  Notation vset := (vset re_match e).
  Notation docb := (docb re_match e).
  Notation assign_safe := (assign_safe re_match e).
  Notation step_safe := (step_safe re_match e).
  Notation step_good := (step_good re_match e).
  Notation hist_safe := (hist_safe re_match e).
  Notation run_trace := (run_trace re_match e).

  Definition attr_ok (c : classdef) (p : pystr * pyval) : bool :=
    match find_field (c_fields c) (fst p) with
    | Some fd => match docb (fd_field fd) (snd p) with Some _ => true | None => false end
    | None => c_additional c
    end.

  Lemma struct_ok_unfold c a :
    struct_ok c a =
    forallb (fun r => alist_has a r) (c_required c) && forallb (attr_ok c) a &&
    negb (has_dup (map fst a)) && hook_ok (c_hook c) a.
  Proof. reflexivity. Qed.

  (* storing an acceptable value under any name keeps the instance valid, provided the hook accepts *)
  Lemma struct_ok_set c a n v :
    struct_ok c a = true -> attr_ok c (n, v) = true -> hook_ok (c_hook c) (alist_set a n v) = true ->
    struct_ok c (alist_set a n v) = true.
  Proof.
    rewrite !struct_ok_unfold. intros H Hv Hh.
    apply andb_true_iff in H as [H H4]. apply andb_true_iff in H as [H H3].
    apply andb_true_iff in H as [H1 H2].
    rewrite Hh, nodup_set, H3, (forallb_set _ _ _ _ H2 Hv). rewrite !andb_true_r.
    apply forallb_forall. intros r Hr. rewrite forallb_forall in H1.
    rewrite alist_has_set, (H1 r Hr). apply orb_true_r.
  Qed.

  Lemma struct_ok_del c a n :
    struct_ok c a = true -> is_required c n = false -> hook_ok (c_hook c) (alist_del a n) = true ->
    struct_ok c (alist_del a n) = true.
  Proof.
    rewrite !struct_ok_unfold. intros H Hr Hh.
    apply andb_true_iff in H as [H H4]. apply andb_true_iff in H as [H H3].
    apply andb_true_iff in H as [H1 H2]. apply negb_true_iff in H3.
    rewrite Hh, (nodup_del _ n H3), (forallb_del _ _ n H2). rewrite !andb_true_r.
    apply forallb_forall. intros r Hin. rewrite forallb_forall in H1.
    rewrite alist_has_del, (H1 r Hin). unfold is_required in Hr.
    rewrite (str_in_neq _ _ _ Hr Hin). reflexivity.
  Qed.

  Lemma struct_ok_hook c a : struct_ok c a = true -> hook_ok (c_hook c) a = true.
  Proof. rewrite struct_ok_unfold. intro H. apply andb_true_iff in H as [_ H]. exact H. Qed.

  (* ---------------------------------------------------------------- one assignment *)

  Lemma setattr_good c a n v :
    hook_wf c = true -> struct_ok c a = true -> assign_safe c a n v = true ->
    step_good c a (fst (setattr c true a n v)) (snd (setattr c true a n v)).
  Proof.
    intros Hwf Hok Hs. unfold Instance.setattr, Mutate.assign_safe in *.
    destruct (c_immutable c) eqn:Ei; cbn [andb orb] in *; [reflexivity|].
    destruct (find_field (c_fields c) n) as [fd|] eqn:Ef.
    - destruct (c_ignore_none c && is_none_val v && negb (is_required c n)); cbn [orb fst snd] in *;
        [exact Hok|].
      destruct (vset (fd_field fd) v) as [nf|x] eqn:Ev; cbn [fst snd]; [|reflexivity].
      destruct (fd_immutable fd && alist_has a n); cbn [orb fst snd] in *; [reflexivity|].
      destruct (hook_ok (c_hook c) (alist_set a n nf)) eqn:Hh; cbn [negb orb fst snd step_good] in *; [|reflexivity].
      apply struct_ok_set; [exact Hok | | exact Hh].
      unfold attr_ok. cbn [fst snd]. rewrite Ef. unfold is_some in Hs.
      destruct (docb (fd_field fd) nf); [reflexivity | discriminate].
    - destruct (c_additional c) eqn:Ea; cbn [fst snd]; [|reflexivity].
      destruct (c_ignore_none c && is_none_val v && negb (is_required c n)); cbn [fst snd step_good];
        [exact Hok|].
      apply struct_ok_set; [exact Hok | |].
      + unfold attr_ok. cbn [fst]. rewrite Ef. exact Ea.
      + rewrite (hook_ok_nonfield c a n v Hwf Ef). apply struct_ok_hook; exact Hok.
  Qed.

  (* exactness for a mutable class: when [assign_safe] fails, the assignment is NOT good *)
  Lemma setattr_bad c a n v :
    struct_ok c a = true -> assign_safe c a n v = false ->
    ~ step_good c a (fst (setattr c true a n v)) (snd (setattr c true a n v)).
  Proof.
    intros Hok Hs. unfold Instance.setattr, Mutate.assign_safe in *.
    destruct (c_immutable c) eqn:Ei; cbn [andb orb] in *; [discriminate|].
    destruct (find_field (c_fields c) n) as [fd|] eqn:Ef; [|discriminate].
    destruct (c_ignore_none c && is_none_val v && negb (is_required c n)); cbn [orb] in *; [discriminate|].
    destruct (vset (fd_field fd) v) as [nf|x] eqn:Ev; [|discriminate].
    destruct (fd_immutable fd && alist_has a n); cbn [orb] in *; [discriminate|].
    destruct (hook_ok (c_hook c) (alist_set a n nf)) eqn:Eh; cbn [negb orb fst snd step_good] in *; [|discriminate].
    - (* stored an invalid normal form *)
      intro Hg. rewrite struct_ok_unfold in Hg.
      apply andb_true_iff in Hg as [Hg _]. apply andb_true_iff in Hg as [Hg _].
      apply andb_true_iff in Hg as [_ Hg]. rewrite forallb_forall in Hg.
      assert (Hin : In (n, nf) (alist_set a n nf)).
      { clear. induction a as [|[k' v'] t IH]; cbn [alist_set]; [left; reflexivity|].
        destruct (pystr_eqb k' n) eqn:E; [apply pystr_eqb_spec in E; subst; left; reflexivity | right; exact IH]. }
      specialize (Hg _ Hin). unfold attr_ok in Hg. cbn [fst snd] in Hg. rewrite Ef in Hg.
      unfold is_some in Hs. destruct (docb (fd_field fd) nf); discriminate.
  Qed.

  (* ---------------------------------------------------------------- one deletion *)

  (* del x[n] is validated and atomic, whatever the class, the state and the name *)
  Lemma delitem_good c a n :
    struct_ok c a = true ->
    step_good c a (fst (mstep c a (DelItem n))) (snd (mstep c a (DelItem n))).
  Proof.
    intro Hok. cbn [Instance.mstep].
    destruct (c_immutable c || field_immutable c n) eqn:Ei; cbn [orb fst snd]; [reflexivity|].
    destruct (is_required c n) eqn:Er; cbn [fst snd orb]; [reflexivity|].
    destruct (alist_has a n); cbn [fst snd step_good]; [|reflexivity].
    destruct (hook_ok (c_hook c) (alist_del a n)) eqn:Eh; cbn [fst snd step_good]; [|reflexivity].
    apply struct_ok_del; assumption.
  Qed.

  (* ---------------------------------------------------------------- one step *)

  Theorem step_safe_good c a op :
    hook_wf c = true -> struct_ok c a = true -> step_safe c a op = true ->
    step_good c a (fst (mstep c a op)) (snd (mstep c a op)).
  Proof.
    intros Hwf Hok Hs. destruct op as [n v|n|n s base]; cbn [Instance.mstep Mutate.step_safe] in *.
    - apply setattr_good; assumption.
    - apply delitem_good; exact Hok.
    - destruct s as [g| | |]; try discriminate.
      destruct (g && (c_immutable c || field_immutable c n)); cbn [orb fst snd] in *; [reflexivity|].
      destruct base as [nv|x]; cbn [fst snd]; [|reflexivity].
      apply setattr_good; assumption.
  Qed.

  Lemma step_safe_split c a op :
    step_safe c a op = op_shape_safe op && value_safe re_match e c a op.
  Proof.
    destruct op as [n v|n|n s base]; cbn [Mutate.step_safe op_shape_safe Mutate.value_safe andb]; try reflexivity.
    destruct s; reflexivity.
  Qed.

  (* the same, in the form of the statement: success => valid, failure => unchanged *)
  Corollary step_safe_cases c a op a' r :
    hook_wf c = true -> struct_ok c a = true -> step_safe c a op = true -> mstep c a op = (a', r) ->
    (r = Done -> struct_ok c a' = true) /\ (forall x, r = Raised x -> a' = a).
  Proof.
    intros Hwf Hok Hs Hm. pose proof (step_safe_good c a op Hwf Hok Hs) as G. rewrite Hm in G.
    cbn [fst snd] in G. split; [intro; subst r; exact G | intros x Hx; subst r; exact G].
  Qed.

  (* the state stays valid across a safe step, whatever the outcome *)
  Lemma step_safe_valid c a op :
    hook_wf c = true -> struct_ok c a = true -> step_safe c a op = true ->
    struct_ok c (fst (mstep c a op)) = true.
  Proof.
    intros Hwf Hok Hs. pose proof (step_safe_good c a op Hwf Hok Hs) as G.
    destruct (snd (mstep c a op)); cbn [step_good] in G; [exact G | rewrite G; exact Hok].
  Qed.

  (* exact characterisation for assignments and deletions *)
  Theorem setattr_exact c a n v :
    hook_wf c = true -> struct_ok c a = true ->
    (step_good c a (fst (mstep c a (SetAttr n v))) (snd (mstep c a (SetAttr n v)))
     <-> step_safe c a (SetAttr n v) = true).
  Proof.
    intros Hwf Hok. cbn [Instance.mstep Mutate.step_safe]. split.
    - intro G. destruct (assign_safe c a n v) eqn:Es; [reflexivity|].
      exfalso. exact (setattr_bad c a n v Hok Es G).
    - apply setattr_good; assumption.
  Qed.

  Theorem delitem_exact c a n :
    struct_ok c a = true ->
    (step_good c a (fst (mstep c a (DelItem n))) (snd (mstep c a (DelItem n)))
     <-> step_safe c a (DelItem n) = true).
  Proof.
    intro Hok. split; [intros _; reflexivity | intros _; apply delitem_good; exact Hok].
  Qed.

  (* the hook rejecting a stored value, explicitly: validation passed, the value was stored, the hook raised,
     the previous entry was put back *)
  Theorem hook_failure_atomic c a n v fd nf :
    c_immutable c = false -> find_field (c_fields c) n = Some fd ->
    (c_ignore_none c && is_none_val v && negb (is_required c n)) = false ->
    vset (fd_field fd) v = Ok nf -> (fd_immutable fd && alist_has a n) = false ->
    hook_ok (c_hook c) (alist_set a n nf) = false ->
    mstep c a (SetAttr n v) = (a, Raised ValueError).
  Proof.
    intros Hi Hf Hn Hv Him Hh. cbn [Instance.mstep]. unfold Instance.setattr.
    rewrite Hi, Hf, Hn, Hv, Him, Hh. reflexivity.
  Qed.

  (* failure atomicity needs no condition on the value at all: ANY assignment, deletion or call of a
     copy-mutate-reassign mutator that raises leaves the attributes exactly as they were *)
  Lemma setattr_raise_unchanged c a n v a' x :
    setattr c true a n v = (a', Raised x) -> a' = a.
  Proof.
    unfold Instance.setattr.
    destruct (c_immutable c && true); [intro H; inversion H; reflexivity|].
    destruct (find_field (c_fields c) n) as [fd|].
    - destruct (c_ignore_none c && is_none_val v && negb (is_required c n)); [intro H; inversion H|].
      destruct (vset (fd_field fd) v) as [nf|y]; [|intro H; inversion H; reflexivity].
      destruct (fd_immutable fd && alist_has a n); [intro H; inversion H; reflexivity|].
      destruct (true && negb (hook_ok (c_hook c) (alist_set a n nf))); intro H; inversion H; reflexivity.
    - destruct (c_additional c); [|intro H; inversion H; reflexivity].
      destruct (c_ignore_none c && is_none_val v && negb (is_required c n)); intro H; inversion H.
  Qed.

  Theorem failure_atomic c a op a' x :
    op_shape_safe op = true -> mstep c a op = (a', Raised x) -> a' = a.
  Proof.
    intros Hs. destruct op as [n v|n|n s base]; cbn [Instance.mstep].
    - apply setattr_raise_unchanged.
    - destruct (c_immutable c || field_immutable c n || is_required c n); [intro H; inversion H; reflexivity|].
      destruct (alist_has a n); [|intro H; inversion H; reflexivity].
      destruct (hook_ok (c_hook c) (alist_del a n)); intro H; inversion H; reflexivity.
    - destruct s as [g| | |]; try discriminate.
      destruct (g && (c_immutable c || field_immutable c n)); [intro H; inversion H; reflexivity|].
      destruct base as [nv|y]; [apply setattr_raise_unchanged | intro H; inversion H; reflexivity].
  Qed.

  (* ---------------------------------------------------------------- histories *)

  Lemma run_ops_cons c a op ops :
    run_ops c a (op :: ops) = run_ops c (fst (mstep c a op)) ops.
  Proof. reflexivity. Qed.

  Definition tstep_good (c : classdef) (s : tstep) : Prop :=
    step_good c (t_pre s) (t_post s) (t_out s) /\ struct_ok c (t_pre s) = true /\ struct_ok c (t_post s) = true.

  Theorem history_safe c :
    hook_wf c = true ->
    forall ops a, struct_ok c a = true -> hist_safe c a ops = true ->
      struct_ok c (run_ops c a ops) = true /\ Forall (tstep_good c) (run_trace c a ops).
  Proof.
    intro Hwf. induction ops as [|op ops IH]; intros a Hok Hs.
    - split; [exact Hok | constructor].
    - cbn [Mutate.hist_safe] in Hs. apply andb_true_iff in Hs as [H1 H2].
      pose proof (step_safe_valid c a op Hwf Hok H1) as Hv.
      destruct (IH _ Hv H2) as [Hfin Htr].
      rewrite run_ops_cons. split; [exact Hfin|].
      cbn [Mutate.run_trace]. constructor; [|exact Htr].
      unfold tstep_good. cbn [t_pre t_post t_out].
      split; [apply step_safe_good; assumption | split; assumption].
  Qed.

  (* failed steps are stutters: the history without them reaches the same state *)
  Fixpoint drop_failed (c : classdef) (a : attrs) (ops : list mop) : list mop :=
    match ops with
    | [] => []
    | op :: t =>
        let r := mstep c a op in
        if is_raised (snd r) then drop_failed c (fst r) t else op :: drop_failed c (fst r) t
    end.

  Theorem failed_steps_stutter c :
    hook_wf c = true ->
    forall ops a, struct_ok c a = true -> hist_safe c a ops = true ->
      run_ops c a (drop_failed c a ops) = run_ops c a ops.
  Proof.
    intro Hwf. induction ops as [|op ops IH]; intros a Hok Hs; [reflexivity|].
    cbn [Mutate.hist_safe] in Hs. apply andb_true_iff in Hs as [H1 H2].
    pose proof (step_safe_valid c a op Hwf Hok H1) as Hv.
    pose proof (step_safe_good c a op Hwf Hok H1) as G.
    cbn [drop_failed]. rewrite (run_ops_cons c a op ops).
    destruct (snd (mstep c a op)) eqn:Er; cbn [is_raised step_good] in *.
    - rewrite run_ops_cons. apply IH; assumption.
    - rewrite <- (IH _ Hv H2). rewrite G. reflexivity.
  Qed.

  (* hook-free classes: a state-independent condition on the operations suffices *)
  Lemma assign_safe_nohook c a n v :
    c_hook c = HookNone -> assign_safe c [] n v = true -> assign_safe c a n v = true.
  Proof.
    intros Hh. unfold Mutate.assign_safe. rewrite Hh. cbn [hook_ok].
    destruct (c_immutable c); cbn [orb]; [reflexivity|].
    destruct (find_field (c_fields c) n) as [fd|]; [|reflexivity].
    destruct (c_ignore_none c && is_none_val v && negb (is_required c n)); cbn [orb]; [reflexivity|].
    destruct (vset (fd_field fd) v); [|reflexivity].
    unfold alist_has at 1. cbn [alist_get negb]. rewrite andb_false_r. cbn [orb].
    intro H. rewrite H. rewrite !orb_true_r. reflexivity.
  Qed.

  Lemma op_safe_nohook_step c a op :
    c_hook c = HookNone -> op_safe_nohook re_match e c op = true -> step_safe c a op = true.
  Proof.
    intros Hh Hs. destruct op as [n v|n|n s base]; cbn [Mutate.op_safe_nohook Mutate.step_safe] in *.
    - apply assign_safe_nohook; assumption.
    - reflexivity.
    - destruct s as [g| | |]; try discriminate.
      destruct base as [nv|x]; [|apply orb_true_r].
      rewrite (assign_safe_nohook c a n nv Hh Hs). apply orb_true_r.
  Qed.

  Lemma hist_safe_nohook c : c_hook c = HookNone ->
    forall ops a, forallb (op_safe_nohook re_match e c) ops = true -> hist_safe c a ops = true.
  Proof.
    intro Hh. induction ops as [|op ops IH]; intros a H; [reflexivity|].
    cbn [forallb] in H. apply andb_true_iff in H as [H1 H2].
    cbn [Mutate.hist_safe]. rewrite (op_safe_nohook_step c a op Hh H1), (IH _ H2). reflexivity.
  Qed.

  Lemma hook_wf_nohook c : c_hook c = HookNone -> hook_wf c = true.
  Proof. intro H. unfold hook_wf. rewrite H. reflexivity. Qed.

  Theorem history_safe_nohook c :
    c_hook c = HookNone ->
    forall ops a, struct_ok c a = true -> forallb (op_safe_nohook re_match e c) ops = true ->
      struct_ok c (run_ops c a ops) = true /\ Forall (tstep_good c) (run_trace c a ops).
  Proof.
    intros Hh ops a Hok Hs.
    apply (history_safe c (hook_wf_nohook c Hh)); [exact Hok | apply hist_safe_nohook; assumption].
  Qed.
End Main.

(* ------------------------------------------------------------------ witnesses *)

(* a step that violates C03: it returns normally and leaves an invalid instance, or raises and leaves
   a changed one (decidable for the closed witnesses below via the boolean [attrs_same]) *)
Definition violates (c : classdef) (a : attrs) (op : mop) : Prop :=
  struct_ok no_re [] c a = true /\
  ~ step_good no_re [] c a (fst (mstep no_re [] c a op)) (snd (mstep no_re [] c a op)).

Theorem unsafe_shape_witness : forall s, shape_safe s = false -> violates (w_class HookNone) w_state (w_op s).
Proof.
  intros s Hs. split; [vm_compute; reflexivity|].
  destruct s as [g| | |]; [discriminate | | |]; vm_compute; discriminate.
Qed.

Theorem unsafe_entry_witness : forall (t : mutator_table) p,
    In p (unsafe_entries t) -> violates (w_class HookNone) w_state (w_op (snd p)).
Proof.
  intros t p Hin. unfold unsafe_entries in Hin. apply filter_In in Hin as [_ H].
  apply unsafe_shape_witness. apply negb_true_iff; exact H.
Qed.

(* the two former holes, on the closed witnesses that used to violate the statement: an assignment the hook
   rejects (x.i = 9 with i <= j required) and a deletion the hook rejects (del x['i'] with i required to be set)
   raise ValueError and leave the instance exactly as it was *)
Theorem hook_rejection_atomic :
  struct_ok no_re [] (w_class w_hook) w_state = true /\
  mstep no_re [] (w_class w_hook) w_state w_hook_op = (w_state, Raised ValueError).
Proof. split; vm_compute; reflexivity. Qed.

Theorem del_hook_rejection_atomic :
  struct_ok no_re [] (w_class w_del_hook) w_state = true /\
  mstep no_re [] (w_class w_del_hook) w_state w_del_op = (w_state, Raised ValueError).
Proof. split; vm_compute; reflexivity. Qed.
