(* C13 — the declaration spellings typedpy accepts, and their conversion to Field objects.

   Executable model, no proofs.  Two stages, as in the running system:

   1. [pyeval]: what the Python expression written in the class body evaluates to BEFORE typedpy's
      metaclass sees it ([pyobj]): plain types (int), typing / PEP 585 aliases (origin + __args__: both
      `typing.List[int]` and `list[int]` have origin list), typing.Union objects (with typing's own flattening
      and de-duplication), PEP 604 `types.UnionType` objects, typedpy Field classes, Field instances (built by
      constructor calls, by `Cls[...]` = FieldMeta/_CollectionMeta/_JSONSchemaDraft4ReuseMeta.__getitem__, or
      by `|` = _or_fields), Structure classes, None.
   2. typedpy's conversion of such an object to a Field, which depends on WHERE the object occurs:
      [tli]           get_typing_lib_info  (argument of a typing/PEP 585 generic, non-simple annotation)
      [getitem_conv]  FieldMeta.__getitem__ (inside Array[...], AnyOf[...], operand of |)
      [ctor_item]     _map_to_field / Tuple.__init__ (items=/fields= of a constructor call)
      [annot_obj] / [assign_obj]   add_annotations_to_class_dict / plain class attribute.

   The builtin -> Field class table is GENERATED (Gen/TypeMapping.v) from typedpy/structures/type_mapping.py.
   Transcribed from typedpy/structures/structures.py (add_annotations_to_class_dict, get_typing_lib_info,
   _get_mapped_args, _mapped_type_of_mapped_args, FieldMeta.__getitem__, _or_fields, Field.__init__,
   _instantiate_fields_if_needed, _apply_default_and_update_required_...), fields/collections_impl.py
   (_CollectionMeta), fields/multified_wrappers.py, fields/{array,set_field,tuple_field,map_field}.py. *)
From Coq Require Import ZArith NArith String List Bool. Import ListNotations.
From TP Require Import Base.PyVal Fields.FieldAst Fields.SetChain Gen.TypeMapping Gen.AnnotGuards.
Local Open Scope string_scope.

(* ------------------------------------------------------------------ syntax of spellings *)
Inductive tyexpr :=
| TName (n : pystr)                       (* a class that is not a typedpy class, or typing.Any/typing.Union: int, list, complex *)
| TNone                                   (* None *)
| TBare (tn : pystr)                      (* typing.List, typing.Dict ... unsubscripted *)
| TTyping (tn : pystr) (args : list tyexpr)   (* typing.List[T], typing.Dict[K, V], typing.Tuple[A, B] ... *)
| TPep585 (o : pystr) (args : list tyexpr)    (* list[T], dict[K, V], tuple[A, B], collections.deque[T] *)
| TOptional (a : tyexpr)                  (* typing.Optional[T] *)
| TUnion (args : list tyexpr)             (* typing.Union[A, B, ...] *)
| TOr (a b : tyexpr)                      (* A | B *)
| TFieldCls (c : pystr)                   (* Integer *)
| TInst (f : field)                       (* a constructor call written out in full: Integer(), Integer(minimum=3) *)
| TFunc (f : field) (stringified : bool)  (* the NAME of a parameterless function declared `-> Field` that returns f;
                                             stringified: its return annotation is a string (`-> "Field"`, or the
                                             module has `from __future__ import annotations`) *)
| TStruct (c : pystr)                     (* a Structure class *)
| TSub (c : pystr) (args : list tyexpr)   (* Array[T], Map[K, V], AnyOf[A, B] *)
| TCtor1 (c : pystr) (item : tyexpr) (sz : sizec) (uniq : bool)                     (* Array(items=T, ...) *)
| TCtorN (c : pystr) (items : list tyexpr) (sz : sizec) (uniq : bool) (additional : option bool).
                                          (* Array(items=[A, B], ...), Map(items=[K, V]), AnyOf(fields=[A, B]) *)

(* ------------------------------------------------------------------ the objects they evaluate to *)
Inductive pyobj :=
| OType (n : pystr)
| ONone
| ONoneType
| OGeneric (o : pystr) (args : list pyobj)      (* args = []: the bare typing alias *)
| OUnion (args : list pyobj)                    (* typing.Union[...] *)
| OUnionType (args : list pyobj)                (* types.UnionType (PEP 604 on plain types) *)
| OFieldCls (c : pystr)
| OFieldInst (f : field)
| OStruct (c : pystr)
| OFunc (f : field) (stringified : bool).       (* a function object (is_function_returning_field) *)

(* is_function_returning_field(F): WHERE the declared return type is read from is re-read from the source on every run
   (Gen/AnnotGuards.v func_return_rule): get_type_hints resolves a string annotation, signature().return_annotation
   does not (the string "Field" is not the class Field: the function is then just a callable) *)
Definition func_recognised (stringified : bool) : bool :=
  match func_return_rule with
  | FuncRawAnnotation => negb stringified
  | _ => true
  end.

Inductive fv := FVCls (c : pystr) | FVInst (f : field).      (* a Field class object / a Field instance *)
Inductive items_arg := IOne (v : fv) | IMany (l : list fv).

(* ------------------------------------------------------------------ typedpy's field classes *)
Inductive multi := MAllOf | MAnyOf | MOneOf | MNot.
Inductive fcls :=
| CNum (k : numkind) (s : sign) | CString | CBoolean | CAnything | CNoneField
| CSeq (k : seqkind) | CSet (imm : bool) | CTuple | CMap | CMulti (m : multi) | CUnmodelled.

Definition class_table : list (pystr * fcls) :=
  [ (s2p "Number", CNum KNumber SAny); (s2p "Integer", CNum KInteger SAny); (s2p "Float", CNum KFloat SAny);
    (s2p "Positive", CNum KNumber SPositive); (s2p "Negative", CNum KNumber SNegative);
    (s2p "NonPositive", CNum KNumber SNonPositive); (s2p "NonNegative", CNum KNumber SNonNegative);
    (s2p "PositiveInt", CNum KInteger SPositive); (s2p "NegativeInt", CNum KInteger SNegative);
    (s2p "NonPositiveInt", CNum KInteger SNonPositive); (s2p "NonNegativeInt", CNum KInteger SNonNegative);
    (s2p "PositiveFloat", CNum KFloat SPositive); (s2p "NegativeFloat", CNum KFloat SNegative);
    (s2p "NonPositiveFloat", CNum KFloat SNonPositive); (s2p "NonNegativeFloat", CNum KFloat SNonNegative);
    (s2p "String", CString); (s2p "Boolean", CBoolean); (s2p "Anything", CAnything); (s2p "NoneField", CNoneField);
    (s2p "Array", CSeq SeqList); (s2p "Deque", CSeq SeqDeque); (s2p "Set", CSet false); (s2p "ImmutableSet", CSet true);
    (s2p "Tuple", CTuple); (s2p "Map", CMap);
    (s2p "AllOf", CMulti MAllOf); (s2p "AnyOf", CMulti MAnyOf); (s2p "OneOf", CMulti MOneOf); (s2p "NotField", CMulti MNot) ].

Definition classify (c : pystr) : fcls :=
  match alist_get class_table c with Some k => k | None => CUnmodelled end.

Definition is_tuple_cls (c : pystr) : bool := match classify c with CTuple => true | _ => false end.
Definition is_anyof_cls (c : pystr) : bool := match classify c with CMulti MAnyOf => true | _ => false end.
Definition is_coll_cls (c : pystr) : bool :=      (* Array, Deque, Set, ImmutableSet: Cls[T] = Cls(items=T) *)
  match classify c with CSeq _ | CSet _ => true | _ => false end.
Definition is_one_item_cls (c : pystr) : bool :=  (* ... and Tuple: Tuple[T] = Tuple(items=T) *)
  is_coll_cls c || is_tuple_cls c.

(* marker for "the class statement succeeds but the Field object is malformed" (an un-instantiated Field class
   among Tuple.items: what Tuple(items=<one Field class>) produced before its repair; the model produces it nowhere,
   the harness still recognises such an object should it ever be observed) *)
Definition defective : exn := OtherExn (s2p "defective:Tuple.items=[class]").
(* marker for "the annotation is silently ignored: the class has no such field" *)
Definition ignored : exn := OtherExn (s2p "annotation-ignored").

(* cls() *)
Definition inst0 (c : pystr) : res field :=
  match classify c with
  | CNum k s => Ok (FNumber k s no_numc)
  | CString => Ok (FString no_strc)
  | CBoolean => Ok FBoolean
  | CAnything => Ok FAnything
  | CNoneField => Ok FNone
  | CSeq k => Ok (FSeqAny k no_sizec false)
  | CSet i => Ok (FSet i None no_sizec)
  | CMap => Ok (FMapAny no_sizec)
  | CTuple | CMulti _ => Raise TypeError           (* required argument missing *)
  | CUnmodelled => Raise Unmodelled
  end.

Definition inst (v : fv) : res field := match v with FVCls c => inst0 c | FVInst f => Ok f end.

(* isinstance(item, TypedField) and not item._ty.__hash__ : list, deque, dict, set *)
Definition hashable_item (f : field) : bool :=
  match f with
  | FSeqAny _ _ _ | FSeqEach _ _ _ _ | FSeqPos _ _ _ _ _ | FMapAny _ | FMapKV _ _ _ | FSet false _ _ => false
  | _ => true
  end.

Definition mk_multi (m : multi) (fs : list field) : field :=
  match m with MAllOf => FAllOf fs | MAnyOf => FAnyOf fs | MOneOf => FOneOf fs | MNot => FNot fs end.

(* cls(items=..., minItems=, maxItems=, uniqueItems=, additionalItems=) / cls(fields=[...]) *)
Definition construct (c : pystr) (it : items_arg) (sz : sizec) (uniq : bool) (add : option bool) : res field :=
  match classify c with
  | CSeq k =>
      match it with
      | IOne v => f <- inst v ;; Ok (FSeqEach k f sz uniq)
      | IMany l => fs <- mapM inst l ;; Ok (FSeqPos k fs sz uniq add)
      end
  | CSet i =>
      match it with
      | IOne v | IMany [v] => f <- inst v ;; if hashable_item f then Ok (FSet i (Some f) sz) else Raise TypeError
      | IMany _ => Raise TypeError
      end
  | CTuple =>
      match it with
      | IOne v => f <- inst v ;; Ok (FTuple [f] uniq)     (* Tuple.__init__: a Field class is instantiated *)
      | IMany l => fs <- mapM inst l ;; Ok (FTuple fs uniq)
      end
  | CMap =>
      match it with
      | IMany [k; v] => kf <- inst k ;; vf <- inst v ;;
                        if hashable_item kf then Ok (FMapKV kf vf sz) else Raise TypeError
      | _ => Raise TypeError
      end
  | CMulti m =>
      match it with
      | IMany l => fs <- mapM inst l ;;
                   match m, fs with MAnyOf, [] => Raise TypeError | _, _ => Ok (mk_multi m fs) end
      | IOne _ => Raise TypeError
      end
  | CUnmodelled => Raise Unmodelled
  | _ => Raise TypeError                            (* scalar classes take no items *)
  end.

(* ------------------------------------------------------------------ generated tables *)
Definition convert_basic (n : pystr) : option pystr := alist_get type_mapping n.   (* convert_basic_types *)
Definition typing_origin (tn : pystr) : option pystr := alist_get typing_origins tn.

(* ------------------------------------------------------------------ get_typing_lib_info *)
Definition is_some {A} (o : option A) : bool := match o with Some _ => true | None => false end.

(* _get_mapped_args after the list comprehension: the `if not all(mapped_args)` part *)
Fixpoint fill_union (args : list pyobj) (rs : list (option fv)) : res (list fv) :=
  match args, rs with
  | a :: args', Some v :: rs' => vs <- fill_union args' rs' ;; Ok (v :: vs)
  | a :: args', None :: rs' =>
      match a with
      | OType _ => Raise Unmodelled      (* Field[<arbitrary class>]: implicit typed wrapper, not in the field AST *)
      | _ => Raise TypeError
      end
  | _, _ => Ok []
  end.

Definition fill (is_union : bool) (args : list pyobj) (rs : list (option fv)) : res (list fv) :=
  if forallb is_some rs then fill_union args rs
  else if is_union then fill_union args rs else Raise TypeError.

(* _mapped_type_of_mapped_args *)
Definition finish (c : pystr) (args : list pyobj) (rs : list (option fv)) : res (option fv) :=
  margs <- fill (is_anyof_cls c) args rs ;;
  match margs with
  | [] => f <- inst0 c ;; Ok (Some (FVInst f))
  | _ => f <- (if is_anyof_cls c then construct c (IMany margs) no_sizec false None
               else construct c (match margs with [v] => IOne v | _ => IMany margs end) no_sizec false None) ;;
         Ok (Some (FVInst f))
  end.

Fixpoint tli (o : pyobj) : res (option fv) :=
  let tli_list := fix go (l : list pyobj) : res (list (option fv)) :=
      match l with [] => Ok [] | x :: t => y <- tli x ;; ys <- go t ;; Ok (y :: ys) end in
  match o with
  | ONoneType => Ok (Some (FVInst FNone))
  | OFieldInst f => Ok (Some (FVInst f))
  | OFieldCls c => f <- inst0 c ;; Ok (Some (FVInst f))
  | OStruct c => Ok (Some (FVInst (FClassRef c)))
  | OType n => Ok (option_map FVCls (convert_basic n))      (* not generic: the table, which holds CLASSES *)
  | ONone | OUnionType _ | OFunc _ _ => Ok None            (* not generic, not in the table *)
  | OGeneric og args =>
      match convert_basic og with
      | None => Raise TypeError
      | Some c => rs <- tli_list args ;; finish c args rs
      end
  | OUnion args =>
      match convert_basic (s2p "typing.Union") with
      | None => Raise TypeError
      | Some c => rs <- tli_list args ;; finish c args rs
      end
  end.

Definition opt_inst (r : option fv) : res (option field) :=
  match r with None => Ok None | Some v => f <- inst v ;; Ok (Some f) end.

(* get_typing_lib_info followed by the instantiation every consumer but Tuple(items=<one class>) performs *)
Definition tli_f (o : pyobj) : res (option field) := r <- tli o ;; opt_inst r.

(* ------------------------------------------------------------------ FieldMeta.__getitem__(cls, val) *)
Definition getitem_conv (o : pyobj) : res field :=
  match o with
  | OFieldInst f => Ok f
  | OFieldCls c => inst0 c
  | OStruct c => Ok (FClassRef c)
  | ONone => Ok FNone
  | OFunc f s => if func_recognised s then Ok f else Raise TypeError      (* val() / "Unsupported field type" *)
  | OUnionType (OStruct _ :: _) | OUnionType (OFieldCls _ :: _) =>
      Raise Unmodelled     (* convert_field_type_if_possible returns the object itself: unbounded recursion *)
  | _ =>
      let r := (x <- tli o ;; match x with Some v => inst v | None => Raise TypeError end) in
      match r with
      | Raise TypeError =>                  (* except TypeError: wrap an arbitrary class, else re-raise *)
          match o with OType _ | ONoneType => Raise Unmodelled | _ => Raise TypeError end
      | _ => r
      end
  end.

(* _map_to_field(item) as used by Array/Deque/Set/Map/AnyOf...; Tuple.__init__ has its own loop *)
Definition ctor_item (c : pystr) (o : pyobj) : res fv :=
  match o with
  | OFieldInst f => Ok (FVInst f)
  | OFieldCls k => Ok (FVCls k)
  | OStruct k => if is_tuple_cls c then Raise TypeError else Ok (FVInst (FClassRef k))
  | ONone => Raise Unmodelled              (* items=None / a None entry: "no items" *)
  | OType n => if is_tuple_cls c && pystr_eqb n (s2p "typing.Union") then Raise Unmodelled else Raise TypeError
  | _ => if is_tuple_cls c then Raise Unmodelled   (* Tuple.__init__ reads item.__mro__: AttributeError on aliases *)
         else Raise TypeError
  end.

(* Cls[a, b, ...] *)
Definition subscript (c : pystr) (objs : list pyobj) : res field :=
  match classify c with
  | CSeq _ | CSet _ | CTuple | CMap =>
      fs <- mapM getitem_conv objs ;;
      match fs with
      | [f] => construct c (IOne (FVInst f)) no_sizec false None
      | _ => construct c (IMany (map FVInst fs)) no_sizec false None
      end
  | CMulti _ => fs <- mapM getitem_conv objs ;; construct c (IMany (map FVInst fs)) no_sizec false None
  | _ => Raise Unmodelled
  end.

(* ------------------------------------------------------------------ typing.Union[...] normalisation *)
Fixpoint pyobj_eqb (a b : pyobj) {struct a} : bool :=
  let fix eqs (l1 l2 : list pyobj) {struct l1} : bool :=
      match l1, l2 with
      | [], [] => true
      | x :: t, y :: u => pyobj_eqb x y && eqs t u
      | _, _ => false
      end in
  match a, b with
  | OType x, OType y => pystr_eqb x y
  | ONone, ONone | ONoneType, ONoneType => true
  | OGeneric x l1, OGeneric y l2 => pystr_eqb x y && eqs l1 l2
  | OUnion l1, OUnion l2 => eqs l1 l2
  | OUnionType l1, OUnionType l2 => eqs l1 l2
  | OFieldCls x, OFieldCls y => pystr_eqb x y
  | OStruct x, OStruct y => pystr_eqb x y
  | _, _ => false                        (* two Field instances are two objects *)
  end.

Definition flatten_union (l : list pyobj) : list pyobj :=
  flat_map (fun o => match o with OUnion m | OUnionType m => m | _ => [o] end) l.

Fixpoint dedup_objs (seen l : list pyobj) : list pyobj :=
  match l with
  | [] => []
  | x :: t => if existsb (pyobj_eqb x) seen then dedup_objs seen t else x :: dedup_objs (x :: seen) t
  end.

Definition none_to_nonetype (o : pyobj) : pyobj := match o with ONone => ONoneType | _ => o end.

Definition mk_union (l : list pyobj) : pyobj :=
  match dedup_objs [] (flatten_union (map none_to_nonetype l)) with
  | [x] => x
  | l' => OUnion l'
  end.

(* typing keeps the members exactly as written: nothing to flatten, nothing to de-duplicate, >= 2 members *)
Fixpoint nodup_objs (seen l : list pyobj) : bool :=
  match l with
  | [] => true
  | x :: t => negb (existsb (pyobj_eqb x) seen) && nodup_objs (x :: seen) t
  end.
Definition is_ounion (o : pyobj) : bool := match o with OUnion _ | OUnionType _ => true | _ => false end.
Definition keeps_as_written (l : list pyobj) : bool :=
  let l1 := map none_to_nonetype l in
  negb (existsb is_ounion l1) && nodup_objs [] l1 && Nat.leb 2 (length l1).

(* ------------------------------------------------------------------ the | operator *)
Definition plain_type_like (o : pyobj) : bool :=
  match o with OType _ | ONone | OStruct _ => true | _ => false end.

Definition is_union_form (o : pyobj) : bool :=
  match o with OType n => pystr_eqb n (s2p "typing.Union") | _ => false end.

Definition py_or (oa ob : pyobj) : res pyobj :=
  match oa with
  | OFieldCls _ | OFieldInst _ =>                         (* FieldMeta.__or__ / Field.__or__ -> _or_fields *)
      match ob with
      | OFieldCls _ | OFieldInst _ | OStruct _ => f <- subscript (s2p "AnyOf") [oa; ob] ;; Ok (OFieldInst f)
      | OType n => match convert_basic n with
                   | Some c => f <- subscript (s2p "AnyOf") [oa; OFieldCls c] ;; Ok (OFieldInst f)
                   | None => Raise TypeError
                   end
      | _ => Raise TypeError
      end
  | _ =>
      (* typing.Union itself (the bare special form) as an operand: "Plain typing.Union is not valid as type argument" *)
      if is_union_form oa || is_union_form ob then Raise TypeError else
      if plain_type_like oa && (plain_type_like ob || match ob with OFieldCls _ => true | _ => false end)
      then Ok (OUnionType [oa; ob])                        (* type.__or__: a types.UnionType *)
      else Raise Unmodelled
  end.

(* ------------------------------------------------------------------ stage 1 *)
Definition is_tnone (t : tyexpr) : bool := match t with TNone => true | _ => false end.

Fixpoint pyeval (t : tyexpr) : res pyobj :=
  let evals := fix go (l : list tyexpr) : res (list pyobj) :=
      match l with [] => Ok [] | x :: u => y <- pyeval x ;; ys <- go u ;; Ok (y :: ys) end in
  match t with
  | TName n => Ok (OType n)
  | TNone => Ok ONone
  | TBare tn => match typing_origin tn with Some o => Ok (OGeneric o []) | None => Raise Unmodelled end
  | TTyping tn args =>
      match typing_origin tn with
      | Some o => if match convert_basic o with Some c => is_anyof_cls c | None => false end then Raise Unmodelled
                  else objs <- evals args ;; Ok (OGeneric o (map none_to_nonetype objs))
      | None => Raise Unmodelled
      end
  | TPep585 o args =>
      if match convert_basic o with Some c => is_anyof_cls c | None => false end then Raise Unmodelled
      else objs <- evals args ;; Ok (OGeneric o objs)
  | TOptional a => o <- pyeval a ;; Ok (mk_union [o; ONoneType])
  | TUnion args => objs <- evals args ;; Ok (mk_union objs)
  | TOr a b => oa <- pyeval a ;; ob <- pyeval b ;; py_or oa ob
  | TFieldCls c => Ok (OFieldCls c)
  | TInst f => Ok (OFieldInst f)
  | TFunc f s => Ok (OFunc f s)
  | TStruct c => Ok (OStruct c)
  | TSub c args => objs <- evals args ;; f <- subscript c objs ;; Ok (OFieldInst f)
  | TCtor1 c item sz uniq =>
      o <- pyeval item ;; v <- ctor_item c o ;; f <- construct c (IOne v) sz uniq None ;; Ok (OFieldInst f)
  | TCtorN c items sz uniq add =>
      objs <- evals items ;; vs <- mapM (ctor_item c) objs ;; f <- construct c (IMany vs) sz uniq add ;;
      Ok (OFieldInst f)
  end.

(* ------------------------------------------------------------------ conversions of a spelling, per context *)
(* annotation `a: s` (add_annotations_to_class_dict): None = the annotation is ignored, no field *)
Definition convert_opt (s : tyexpr) : res (option field) := o <- pyeval s ;; tli_f o.

(* ... except that a bare function name as the WHOLE annotation is a "simple field annotation" when recognised
   (is_simple_field_annotation -> _instantiate_fields_if_needed calls it); not recognised, it goes through
   get_typing_lib_info like any other object: not in the table, ignored *)
Definition annot_obj (o : pyobj) : res (option field) :=
  match o with
  | OFunc f s => if func_recognised s then Ok (Some f) else Ok None
  | _ => tli_f o
  end.
Definition convert_annot (s : tyexpr) : res (option field) := o <- pyeval s ;; annot_obj o.
Definition is_func_obj (o : pyobj) : bool := match o with OFunc _ _ => true | _ => false end.
Definition is_func (s : tyexpr) : bool := match pyeval s with Ok o => is_func_obj o | Raise _ => false end.

Definition convert (s : tyexpr) : res field :=
  r <- convert_opt s ;; match r with Some f => Ok f | None => Raise ignored end.

(* inside Cls[...] and as an operand of | *)
Definition convert_sub (s : tyexpr) : res field := o <- pyeval s ;; getitem_conv o.

(* plain class attribute `a = s` (StructMeta.__new__): only Field classes/instances and Structure classes *)
Definition assign_obj (o : pyobj) : res (option field) :=
  match o with
  | OFieldInst f => Ok (Some f)
  | OFieldCls c => f <- inst0 c ;; Ok (Some f)
  | OStruct c => Ok (Some (FClassRef c))
  | OType n => if pystr_eqb n (s2p "typing.Union") then Ok None         (* a special form, not a class *)
               else Raise TypeError                                     (* "assigned a non-Typedpy type" *)
  | OGeneric _ _ | OUnion _ | ONoneType => Raise TypeError
  | ONone | OUnionType _ => Ok None                                     (* just a class attribute *)
  | OFunc f s => if func_recognised s then Ok (Some f) else Ok None     (* _instantiate_fields_if_needed / a method *)
  end.
Definition convert_assign (s : tyexpr) : res (option field) := o <- pyeval s ;; assign_obj o.

(* ------------------------------------------------------------------ side conditions of the equivalence *)
(* denotes a field in every context *)
Definition good_obj (o : pyobj) : bool := match tli_f o with Ok (Some _) => true | _ => false end.
Definition good (s : tyexpr) : bool := match pyeval s with Ok o => good_obj o | Raise _ => false end.
Definition member_ok (s : tyexpr) : bool := is_tnone s || good s.

(* evaluates to a Field class, Field instance or Structure class *)
Definition fieldy_obj (o : pyobj) : bool :=
  match o with OFieldCls _ | OFieldInst _ | OStruct _ => true | _ => false end.
Definition fieldy (s : tyexpr) : bool := match pyeval s with Ok o => fieldy_obj o | Raise _ => false end.
Definition is_struct_obj (o : pyobj) : bool := match o with OStruct _ => true | _ => false end.
Definition evals_struct (s : tyexpr) : bool := match pyeval s with Ok o => is_struct_obj o | Raise _ => false end.
Definition ctor_items_ok (c : pystr) (l : list tyexpr) : bool :=
  forallb fieldy l && (negb (is_tuple_cls c) || negb (existsb evals_struct l)).

Definition or_left (s : tyexpr) : bool :=
  match pyeval s with Ok (OFieldCls _) | Ok (OFieldInst _) => true | _ => false end.
Definition or_right (s : tyexpr) : bool :=
  match pyeval s with
  | Ok (OFieldCls _) | Ok (OFieldInst _) | Ok (OStruct _) => true
  | Ok (OType n) => is_some (convert_basic n)
  | _ => false
  end.

Definition union_written (l : list tyexpr) : bool :=
  match mapM pyeval l with Ok objs => keeps_as_written objs | Raise _ => false end.

Definition evals_none (s : tyexpr) : bool := match pyeval s with Ok ONone => true | _ => false end.
Definition no_none (l : list tyexpr) : bool := negb (existsb evals_none l).

(* Cls[a, b, ...] and Cls(items=[a, b, ...]) / Cls(fields=[...]) mean the same for this class and arity *)
Definition many_ok (c : pystr) (n : nat) : bool :=
  match classify c with
  | CSeq _ => Nat.leb 2 n
  | CTuple => Nat.leb 1 n
  | CMap => Nat.eqb n 2
  | CMulti _ => true
  | _ => false
  end.

Definition or_right_ok (s : tyexpr) : bool :=
  match pyeval s with
  | Ok (OFieldCls _) | Ok (OFieldInst _) | Ok (OStruct _) => true
  | Ok (OType n) => match convert_basic n with Some c => is_ok (inst0 c) | None => false end
  | _ => false
  end.

(* ------------------------------------------------------------------ declarations and classes *)
Definition is_optional_anyof (f : field) : bool :=
  match f with FAnyOf fs => existsb (fun g => match g with FNone => true | _ => false end) fs | _ => false end.

(* _handle_typing_optional only runs on the non-simple branch of add_annotations_to_class_dict *)
Definition marks_optional (s : tyexpr) : bool :=
  match pyeval s with
  | Ok o => negb (fieldy_obj o) && match tli_f o with Ok (Some f) => is_optional_anyof f | _ => false end
  | Raise _ => false
  end.

Definition is_fnone (f : field) : bool := match f with FNone => true | _ => false end.

(* a member of a Union that denotes NoneField: None itself, or a spelling converted to NoneField (NoneField, NoneField()) *)
Definition member_none (a : tyexpr) : bool :=
  is_tnone a || match convert a with Ok f => is_fnone f | Raise _ => false end.

Record decl := {
  d_name : pystr;
  d_annot : bool;                 (* `a: s` (true) or `a = s` (false) *)
  d_ty : tyexpr;
  d_eq : option pyval;            (* `a: s = d` (annotation form only) *)
  d_kw : option pyval;            (* default=d in the outermost constructor call of s *)
  d_opt : bool }.                 (* a is listed in _optional *)

Record fres := { fr_name : pystr; fr_field : field; fr_default : option pyval; fr_optional : bool }.

Section Decl.
  Variable re_match : N -> pystr -> bool.
  Variable e : env.

  (* Field._try_default_value: the exception class is preserved *)
  Definition try_default (f : field) (d : pyval) : res unit := _ <- vset re_match e f d ;; Ok tt.

  (* Field.__init__: `if default:` — a falsy default is not validated here.  WHICH test guards the validation is
     read from the source on every run (Gen/AnnotGuards.v init_default_rule: `if default:` / `if default is not None:`) *)
  Definition init_validates (d : pyval) : bool :=
    match init_default_rule with
    | InitDefaultIfNotNone => match d with PNone => false | _ => true end
    | _ => py_truthy d
    end.
  Definition init_default (f : field) (kw : option pyval) : res unit :=
    match kw with Some d => if init_validates d then try_default f d else Ok tt | None => Ok tt end.

  (* "Got a mutable value as default": isinstance(default, <the tuple in the source>), Gen/AnnotGuards.v *)
  Definition is_mutable_default (d : pyval) : bool :=
    match d with
    | PList _ => str_in (s2p "list") mutable_default_types
    | PDict _ => str_in (s2p "dict") mutable_default_types
    | PSet false _ => str_in (s2p "set") mutable_default_types
    | _ => false
    end.

  (* WHERE a default given with `=` is processed depends on what the annotation evaluated to:
       PathClass       a Field CLASS (`a: Integer = d`, `a: int = d` via the table): the class is instantiated with
                       default=d (_instantiate_fields_if_needed / _type_with_default_value_if_exists), i.e. Field.__init__;
       PathTypingInst  a typing generic / Union converted to a Field INSTANCE: _type_with_default_value_if_exists calls
                       _try_default_value(d) right away;
       PathInst        a Field instance / Structure class written as such: nothing yet.
     Then _apply_default_and_update_required_... (all three): if the field has no truthy _default so far, a list / dict /
     set default is refused ("mutable value as default"), any other is validated and stored. *)
  Inductive decl_path := PathClass | PathTypingInst | PathInst | PathFunc.
  Definition decl_path_of (o : pyobj) : decl_path :=
    match o with
    | OFunc _ _ => PathFunc            (* F(default=d): the function takes no parameters *)
    | OFieldCls _ => PathClass
    | OFieldInst _ | OStruct _ => PathInst
    | _ => match tli o with Ok (Some (FVCls _)) => PathClass | _ => PathTypingInst end
    end.

  Definition apply_default (f : field) (cur : option pyval) (d : pyval) : res (option pyval) :=
    let body := if is_mutable_default d then Raise ValueError else _ <- try_default f d ;; Ok (Some d) in
    match cur with
    | Some k => if py_truthy k then Ok cur else body
    | None => body
    end.

  Definition eq_default (path : decl_path) (f : field) (kw eq : option pyval) : res (option pyval) :=
    match eq with
    | None => Ok kw
    | Some d =>
        match path with
        | PathInst => apply_default f kw d
        | PathClass => _ <- (if init_validates d then try_default f d else Ok tt) ;; apply_default f (Some d) d
        | PathTypingInst => _ <- try_default f d ;; apply_default f None d
        | PathFunc => Raise TypeError
        end
    end.

  Definition decl_result (d : decl) : res (option fres) :=
    o <- pyeval (d_ty d) ;;
    _ <- match o with OFieldInst f => init_default f (d_kw d) | _ => Ok tt end ;;
    r <- (if d_annot d then annot_obj o else assign_obj o) ;;
    match r with
    | None => Ok None
    | Some f =>
        let kw := match o with
                  | OFieldInst _ => match d_kw d with Some PNone => None | x => x end
                  | _ => None
                  end in
        dv <- eq_default (decl_path_of o) f kw (if d_annot d then d_eq d else None) ;;
        Ok (Some {| fr_name := d_name d; fr_field := f; fr_default := dv;
                    fr_optional := d_opt d || (d_annot d && marks_optional (d_ty d)) |})
    end.

  Fixpoint somes {A} (l : list (option A)) : list A :=
    match l with [] => [] | Some x :: t => x :: somes t | None :: t => somes t end.

  Definition has_default (r : fres) : bool :=
    match fr_default r with Some PNone | None => false | Some _ => true end.

  (* the class: its fields (with defaults) and its _required (no predefined _required, base Structure) *)
  Definition class_result (ds : list decl) : res (list fres * list pystr) :=
    rs <- mapM decl_result ds ;;
    let fs := somes rs in
    Ok (fs, map fr_name (filter (fun r => negb (has_default r) && negb (fr_optional r)) fs)).

  (* ---------------------------------------------------------------- from __future__ import annotations *)
  (* The compiler stores every annotation as its source text; _evaluate_if_future_annotations evaluates the text
     (same module globals, same frame locals: the object [pyeval] describes) only under the guard read from the
     source (Gen/AnnotGuards.v future_rule: today `isinstance(v, str) and len(v) < 50`).  A text that is not evaluated
     stays a str: not a Field, not generic, not in the type table — get_typing_lib_info returns None and the
     annotation is IGNORED (a `= d` next to it stays a plain class attribute).  [len] = length of the stored text. *)
  Definition future_evaluated (len : Z) : bool :=
    match future_rule with
    | FutureEvalBelow n => (len <? n)%Z
    | FutureEvalAlways => true
    | FutureUnrecognised => true
    end.

  Definition decl_result_future (len : Z) (d : decl) : res (option fres) :=
    if d_annot d && negb (future_evaluated len) then Ok None else decl_result d.

  Definition class_result_future (ds : list (Z * decl)) : res (list fres * list pystr) :=
    rs <- mapM (fun p => decl_result_future (fst p) (snd p)) ds ;;
    let fs := somes rs in
    Ok (fs, map fr_name (filter (fun r => negb (has_default r) && negb (fr_optional r)) fs)).
End Decl.
