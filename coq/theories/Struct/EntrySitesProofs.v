(* C01 for every entry-site table (Struct/EntrySites.v): a table that satisfies [sites_ok] makes the
   parametric model coincide with Struct/Entry.v, hence sound; a table that does not has an entry
   point which hands out an invalid instance from valid inputs (constructed witness). *)
From Coq Require Import ZArith NArith String List Bool Lia.
Import ListNotations.
From TP Require Import Base.PyVal Fields.FieldAst Fields.SetChain Fields.Doc Fields.Domain
  Struct.Shapes Struct.Instance Struct.Entry Struct.InstanceProofs Struct.EntrySites.
Local Open Scope string_scope.

Lemma sites_ok_split t unp :
  sites_ok t unp = true ->
  ctor_fn_ok 4 t fn_deser_api = true /\ ctor_fn_ok 4 t fn_deser_fn = true /\
  ctor_fn_ok 4 t fn_from_other = true /\ ctor_fn_ok 4 t fn_clone = true /\ ctor_fn_ok 4 t fn_cast = true /\
  copy_fn_ok t = true /\ deepcopy_fn_ok t = true /\ pickle_fn_ok t unp = true.
Proof.
  unfold sites_ok. intro H.
  destruct (ctor_fn_ok 4 t fn_deser_api); [| discriminate H].
  destruct (ctor_fn_ok 4 t fn_deser_fn); [| discriminate H].
  destruct (ctor_fn_ok 4 t fn_from_other); [| discriminate H].
  destruct (ctor_fn_ok 4 t fn_clone); [| discriminate H].
  destruct (ctor_fn_ok 4 t fn_cast); [| discriminate H].
  destruct (copy_fn_ok t); [| discriminate H].
  destruct (deepcopy_fn_ok t); [| discriminate H].
  destruct (pickle_fn_ok t unp); [| discriminate H].
  repeat split; reflexivity.
Qed.

Lemma sites_ok_entry t unp en : sites_ok t unp = true -> entry_site_ok t unp en = true.
Proof.
  intro H. apply sites_ok_split in H.
  destruct H as (H1 & H2 & H3 & H4 & H5 & H6 & H7 & H8).
  destruct en; cbn [entry_site_ok]; try reflexivity; try assumption.
  rewrite H1, H2. reflexivity.
Qed.

Lemma sites_not_ok_entry t unp :
  sites_ok t unp = false -> exists k, entry_site_ok t unp (wit_entry k) = false.
Proof.
  unfold sites_ok. intro H.
  destruct (ctor_fn_ok 4 t fn_deser_api) eqn:E1;
    [| exists KDeser; cbn [wit_entry entry_site_ok]; rewrite E1; reflexivity ].
  destruct (ctor_fn_ok 4 t fn_deser_fn) eqn:E2;
    [| exists KDeser; cbn [wit_entry entry_site_ok]; rewrite E1, E2; reflexivity ].
  destruct (ctor_fn_ok 4 t fn_from_other) eqn:E3;
    [| exists KFromOther; cbn [wit_entry entry_site_ok]; exact E3 ].
  destruct (ctor_fn_ok 4 t fn_clone) eqn:E4;
    [| exists KClone; cbn [wit_entry entry_site_ok]; exact E4 ].
  destruct (ctor_fn_ok 4 t fn_cast) eqn:E5;
    [| exists KCast; cbn [wit_entry entry_site_ok]; exact E5 ].
  destruct (copy_fn_ok t) eqn:E6;
    [| exists KCopy; cbn [wit_entry entry_site_ok]; exact E6 ].
  destruct (deepcopy_fn_ok t) eqn:E7;
    [| exists KDeepCopy; cbn [wit_entry entry_site_ok]; exact E7 ].
  destruct (pickle_fn_ok t unp) eqn:E8;
    [| exists KPickle; cbn [wit_entry entry_site_ok]; exact E8 ].
  cbn in H. discriminate H.
Qed.

Section Sites.
  Variable re_match : N -> pystr -> bool.
  Variable e : env.
  Variable t : site_table.
  Variable unp : bool.

  Lemma run_entry_sites_eq cur en :
    entry_site_ok t unp en = true -> run_entry_sites re_match e t unp cur en = run_entry re_match e cur en.
  Proof. intro H. unfold run_entry_sites. rewrite H. reflexivity. Qed.

  Lemma run_chain_sites_eq : sites_ok t unp = true ->
    forall ch cur, run_chain_sites re_match e t unp cur ch = run_chain re_match e cur ch.
  Proof.
    intro Hok. induction ch as [|en tl IH]; intro cur; cbn [run_chain_sites run_chain]; [reflexivity|].
    rewrite (run_entry_sites_eq cur en (sites_ok_entry t unp en Hok)).
    destruct (run_entry re_match e cur en) as [x|x]; cbn [bind]; [apply IH | reflexivity].
  Qed.

  (* every single entry point, for every safe table *)
  Theorem entry_sites_sound cur en x :
    sites_ok t unp = true ->
    entry_dom re_match e cur en = true ->
    (match entry_plan e cur en with PValue _ => inst_ok re_match e cur = true | _ => True end) ->
    run_entry_sites re_match e t unp cur en = Ok x -> inst_ok re_match e x = true.
  Proof.
    intros Hok Hdom Hcur Hrun.
    rewrite (run_entry_sites_eq cur en (sites_ok_entry t unp en Hok)) in Hrun.
    exact (entry_sound re_match e cur en x Hdom Hcur Hrun).
  Qed.

  (* every chain, of any length, for every safe table *)
  Theorem chain_sites_sound ch x0 x :
    sites_ok t unp = true ->
    inst_ok re_match e x0 = true -> chain_dom re_match e x0 ch = true ->
    run_chain_sites re_match e t unp x0 ch = Ok x -> inst_ok re_match e x = true.
  Proof.
    intros Hok H0 Hdom Hrun. rewrite (run_chain_sites_eq Hok) in Hrun.
    exact (chain_sound re_match e ch x0 x H0 Hdom Hrun).
  Qed.
End Sites.

(* the inputs of the witnesses are legitimate: the current instance is valid (or there is none) *)
Lemma wit_cur_valid re_match k :
  wit_cur k = PNone \/ inst_ok re_match wit_env (wit_cur k) = true.
Proof. destruct k; (left; reflexivity) || (right; vm_compute; reflexivity). Qed.

(* an entry point whose row is not safe hands out an invalid instance *)
Theorem site_unsafe_witness re_match t unp k :
  entry_site_ok t unp (wit_entry k) = false ->
  exists x, run_entry_sites re_match wit_env t unp (wit_cur k) (wit_entry k) = Ok x /\
            inst_ok re_match wit_env x = false.
Proof.
  intro H. unfold run_entry_sites. rewrite H.
  destruct k; vm_compute; eexists; split; reflexivity.
Qed.

(* hence: a table is safe, or the model parametrised by it violates C01 on a concrete input *)
Theorem sites_characterisation re_match t unp :
  sites_ok t unp = false ->
  exists k x, (wit_cur k = PNone \/ inst_ok re_match wit_env (wit_cur k) = true) /\
              run_entry_sites re_match wit_env t unp (wit_cur k) (wit_entry k) = Ok x /\
              inst_ok re_match wit_env x = false.
Proof.
  intro H. destruct (sites_not_ok_entry t unp H) as [k Hk].
  destruct (site_unsafe_witness re_match t unp k Hk) as [x [Hr Hx]].
  exists k, x. split; [apply wit_cur_valid | split; assumption].
Qed.
