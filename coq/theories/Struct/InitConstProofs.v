(* Constant fields in the GENERATED constructor (Gen/InitSrc.v) against the model extension Struct/InitConstModel.v
   [construct_k]: a constant named by the caller is refused with ValueError, the others are assigned after the extra
   keyword arguments and `_none_fields`, before the defaults and the bound arguments. *)
From Coq Require Import ZArith QArith NArith String Ascii Bool Lia List.
Import ListNotations.
From TP Require Import Base.PyVal Base.PyOps Base.PyOps2 Base.PyObj Base.PyOpsInit
     Fields.FieldAst Fields.SetChain Struct.Shapes Struct.Instance Struct.InitModel Struct.InitConstModel
     Struct.InstanceProofs Struct.InitSrcProofs Gen.InitSrc.
From TP Require Base.PyOpsVersioned Base.PyOpsFields Base.PyOpsDerive.
Local Open Scope Z_scope.

Section Consts.
  Variable re_match : N -> pystr -> bool.
  Variable e : env.
  Variable msg_of : pystr -> pyval -> exn -> pystr.
  Variable bind_msg hook_msg : pystr.
  Variable repr_str : pystr -> pystr.
  Variable dumps : list pystr -> pystr.
  Variable sig_order : kwargs -> kwargs.

  Definition W (c : classdef) : world := MW re_match e msg_of bind_msg hook_msg repr_str dumps sig_order c.
  Definition WK (c : classdef) (K : kwargs) : world :=
    model_world_k re_match e msg_of bind_msg hook_msg repr_str dumps sig_order c K.
  Definition rsets := run_sets re_match e msg_of.
  Definition msa := model_setattr re_match e msg_of.

  (* ---------------------------------------------------------------- the constants loop *)
  Definition const_text (c : classdef) (n : pystr) : pystr :=
    (c_name c ++ s2p ":  " ++ n ++ s2p " is defined as a constant. It cannot be set.")%list.

  Fixpoint run_consts (c : classdef) (kw K : kwargs) (s : istate) : istate * (unit + pyexc) :=
    match K with
    | [] => (s, inl tt)
    | (n, v) :: t =>
        if alist_has kw n then (s, inr (mk_exc ValueError (const_text c n)))
        else match msa c (PStr n) v s with
             | (s', inl _) => run_consts c kw t s'
             | (s', inr x) => (s', inr x)
             end
    end.

  Definition const_body (c : classdef) (h : heap) (kwargs : pyval) : pyval * pyval -> unit -> M unit :=
    fun '(fname, cval) (_ : unit) =>
      (c0 <~ (lift (py_in_dyn fname kwargs)) ;;
       if c0 then (t42 <~ self_getattr h (s2p "__class__") ;;
                   t43 <~ lift (obj_getattr h t42 (s2p "__name__")) ;;
                   t44 <~ lift (PyOpsDerive.py_format t43) ;;
                   t45 <~ lift (PyOpsDerive.py_format fname) ;;
                   raiseM (mk_exc ValueError (t44 ++ (s2p ":  ") ++ t45 ++ (s2p " is defined as a constant. It cannot be set."))%list))
       else (_ <~ w_setattr (W c) fname cval ;; (ret tt))).

  Lemma consts_loop c ff kw : forall K s,
      names_plain K = true -> inv s ->
      for_acc (const_body c (init_heap c ff) (PDict (pairs kw))) (pairs K) tt s = run_consts c kw K s.
  Proof.
    induction K as [|[n v] t IH]; intros s HK Hs; [reflexivity|].
    cbn [names_plain forallb fst] in HK. apply andb_true_iff in HK. destruct HK as [Hn Ht].
    cbn [pairs map for_acc fst snd run_consts]. fold (pairs t). unfold bindM at 1.
    unfold const_body at 1. rewrite in_pairs. unfold lift at 1. unfold bindM at 1. unfold ret at 1.
    destruct (alist_has kw n).
    - destruct Hs as [Hk _]. rewrite (bindM_ok _ _ _ _ _ (self_class c ff s Hk)).
      rewrite (bindM_ok _ _ s s (PStr (c_name c)) eq_refl).
      rewrite (bindM_ok _ _ s s (c_name c) eq_refl).
      rewrite (bindM_ok _ _ s s n eq_refl). reflexivity.
    - unfold bindM at 1. cbn [w_setattr W MW model_world]. unfold msa.
      pose proof (model_setattr_inv re_match e msg_of bind_msg repr_str c n v s Hn Hs) as H1.
      destruct (model_setattr re_match e msg_of c (PStr n) v s) as [s1 [[]|x]]; cbn [fst] in H1; [|reflexivity].
      cbn [ret]. apply IH; assumption.
  Qed.

  Lemma run_consts_set_consts c kw : forall K s,
      names_plain K = true -> keys_ok s = true -> instantiated s = false ->
      match set_consts re_match e c (public s) K kw with
      | Ok a' => exists s', run_consts c kw K s = (s', inl tt) /\ public s' = a' /\ keys_ok s' = true /\ instantiated s' = false
      | Raise x => exists s' m, run_consts c kw K s = (s', inr (mk_exc x m))
      end.
  Proof.
    induction K as [|[n v] t IH]; intros s HK Hk Hi.
    - exists s. repeat split; auto.
    - cbn [names_plain forallb fst] in HK. apply andb_true_iff in HK. destruct HK as [Hn Ht].
      cbn [set_consts run_consts]. destruct (alist_has kw n); [eexists; eexists; reflexivity|].
      rewrite (setattr_public re_match e c s n v Hn).
      unfold msa, model_setattr. rewrite (plain_not_internal n Hn). rewrite Hi.
      destruct (setattr_keys re_match e msg_of bind_msg repr_str c s n v Hn Hk Hi) as [K1 [K2 _]].
      destruct (setattr re_match e c false s n v) as [s1 o]. cbn [fst snd] in *.
      destruct o as [|x]; [|eexists; eexists; reflexivity].
      apply IH; assumption.
  Qed.

  (* ---------------------------------------------------------------- Signature.bind without the constants *)
  Definition bdict (b ex : kwargs) : pyval :=
    PDict (pairs b ++ match ex with [] => [] | _ => [(PStr n_kwargs, PDict (pairs ex))] end).

  Lemma bind_result_k c ff K kw :
    (t15 <~ self_getattr (init_heap_k c ff K) (s2p "__signature__") ;;
     t16 <~ w_bind (WK c K) t15 (PTuple []) (kw_dict kw) ;; ret t16) [] =
    model_bind_k bind_msg sig_order c K (PTuple []) (kw_dict kw) [].
  Proof.
    rewrite (bindM_ok _ _ [] [] (ref (s2p "sig")) eq_refl). unfold bindM. cbn [w_bind WK model_world_k].
    destruct (model_bind_k bind_msg sig_order c K (PTuple []) (kw_dict kw) []) as [s [a|x]]; reflexivity.
  Qed.

  Lemma model_bind_k_cases c K kw :
    sig_order (bound_k c K kw) = bound_k c K kw ->
    model_bind_k bind_msg sig_order c K (PTuple []) (kw_dict kw) [] =
    if has_dup (map fst kw) then ([], inr (mk_exc Unmodelled []))
    else if negb (bind_ok_k c K kw) then ([], inr (mk_exc TypeError bind_msg))
    else ([], inl (bdict (bound_k c K kw) (extras_k c K kw))).
  Proof.
    intro Hord. unfold model_bind_k. change (kw_dict kw) with (PDict (pairs kw)). cbv beta iota. rewrite kwargs_of_pairs.
    destruct (has_dup (map fst kw)); [reflexivity|]. destruct (bind_ok_k c K kw); cbn [negb]; [|reflexivity].
    rewrite Hord. unfold bdict. destruct (extras_k c K kw); [|reflexivity].
    fold (pairs (bound_k c K kw)). rewrite app_nil_r. reflexivity.
  Qed.

  Lemma extras_phase_gen c b ex :
    alist_has b n_kwargs = false ->
    (c0 <~ lift (py_in_dyn (PStr (s2p "kwargs")) (bdict b ex)) ;;
     (if c0
      then
        (t23 <~ lift (py_getitem_dyn (bdict b ex) (PStr (s2p "kwargs"))) ;;
         t24 <~ lift (PyOpsVersioned.py_dict_items t23) ;;
         _ <~ for_acc (fun '(v_name_25, v_val_26) (_ : unit) => (_ <~ w_setattr (W c) v_name_25 v_val_26 ;; ret tt)) t24 tt ;;
         (t27 <~ lift (PyOpsVersioned.py_delitem (bdict b ex) (PStr (s2p "kwargs"))) ;; ret t27))
      else ret (bdict b ex))) [] =
    match rsets c ex [] with
    | (s1, inl _) => (s1, inl (PDict (pairs b)))
    | (s1, inr x) => (s1, inr x)
    end.
  Proof.
    intro Hb. change (s2p "kwargs") with n_kwargs. unfold bdict.
    destruct ex as [|p ex].
    - rewrite app_nil_r. rewrite in_pairs, Hb. reflexivity.
    - set (E := p :: ex).
      assert (H1 : py_in_dyn (PStr n_kwargs) (PDict (pairs b ++ [(PStr n_kwargs, PDict (pairs E))])) = Ok true).
      { cbn [py_in_dyn py_hashable']. unfold dict_has. rewrite dict_get_app_last by exact Hb. reflexivity. }
      rewrite H1. rewrite (bindM_ok _ _ [] [] true eq_refl).
      assert (H2 : py_getitem_dyn (PDict (pairs b ++ [(PStr n_kwargs, PDict (pairs E))])) (PStr n_kwargs) = Ok (PDict (pairs E))).
      { unfold py_getitem_dyn, py_dict_getitem. cbn [py_hashable']. rewrite dict_get_app_last by exact Hb. reflexivity. }
      rewrite H2. rewrite (bindM_ok _ _ [] [] (PDict (pairs E)) eq_refl).
      rewrite (bindM_ok _ _ [] [] (pairs E) eq_refl).
      unfold bindM at 1. unfold W. rewrite plain_loop. unfold rsets.
      destruct (run_sets re_match e msg_of c E []) as [s1 [[]|x]]; [|reflexivity].
      assert (H3 : PyOpsVersioned.py_delitem (PDict (pairs b ++ [(PStr n_kwargs, PDict (pairs E))])) (PStr n_kwargs)
                   = Ok (PDict (pairs b))).
      { unfold PyOpsVersioned.py_delitem. cbn [py_hashable']. unfold dict_has.
        rewrite dict_get_app_last by exact Hb. rewrite dict_del_app_last by exact Hb. reflexivity. }
      rewrite H3. reflexivity.
  Qed.

  Lemma has_bound_k c K kw n :
    alist_has (bound_k c K kw) n = str_in n (field_names c) && negb (alist_has K n) && alist_has kw n.
  Proof.
    unfold bound_k, sig_field, is_field.
    assert (H : alist_get (filter (fun p => str_in (fst p) (field_names c) && negb (alist_has K (fst p))) kw) n =
                if str_in n (field_names c) && negb (alist_has K n) then alist_get kw n else None)
      by apply (alist_get_filter (fun k => str_in k (field_names c) && negb (alist_has K k)) kw n).
    unfold alist_has at 1. rewrite H. unfold alist_has at 3.
    destruct (str_in n (field_names c) && negb (alist_has K n)); reflexivity.
  Qed.

  Lemma filter_plain (q : pystr * pyval -> bool) kw :
    forallb (fun p => plain (fst p) && negb (undefined_ref (snd p))) kw = true ->
    names_plain (filter q kw) = true /\ no_undefined (filter q kw) = true.
  Proof.
    intro H. unfold names_plain, no_undefined.
    split; apply forallb_forall; intros p Hp; apply filter_In in Hp; destruct Hp as [Hp _];
      pose proof (proj1 (forallb_forall _ _) H p Hp) as Hq; cbv beta in Hq; apply andb_true_iff in Hq; tauto.
  Qed.

  Lemma dflt_ext (a b : kwargs) : forall fs,
      (forall fd, In fd fs -> fd_default fd <> None -> alist_has a (fd_name fd) = alist_has b (fd_name fd)) ->
      dflt a fs = dflt b fs.
  Proof.
    induction fs as [|fd t IH]; intro H; [reflexivity|].
    cbn [dflt flat_map]. fold (dflt a t). fold (dflt b t).
    rewrite (IH (fun fd' Hi => H fd' (or_intror Hi))). f_equal.
    destruct (fd_default fd) as [d|] eqn:Ed; [|reflexivity].
    rewrite (H fd (or_introl eq_refl)); [reflexivity|]. rewrite Ed. discriminate.
  Qed.

  Theorem generated_init_constants : forall c K kw,
      init_dom_k c K kw = true -> sig_order (bound_k c K kw) = bound_k c K kw ->
      view c (Structure__init (init_heap_k c true K) (WK c K) (PTuple []) (kw_dict kw) []) = construct_k re_match e c K kw.
  Proof.
    intros c K kw Hdom Hord.
    unfold init_dom_k in Hdom. apply andb_true_iff in Hdom. destruct Hdom as [Hdom HKd].
    apply andb_true_iff in Hdom. destruct Hdom as [Hdom HK].
    unfold init_dom in Hdom. apply andb_true_iff in Hdom. destruct Hdom as [Hdom Hnd].
    apply andb_true_iff in Hdom. destruct Hdom as [Hkw Hfs]. apply negb_true_iff in Hnd.
    destruct (filter_plain (fun p => negb (sig_field c K p)) kw Hkw) as [Hex _].
    destruct (filter_plain (sig_field c K) kw Hkw) as [Hbn Hbu].
    fold (extras_k c K kw) in Hex. fold (bound_k c K kw) in Hbn, Hbu.
    assert (FF : field_facts c) by (split; assumption).
    unfold Structure__init, construct_k.
    change (w_setattr (WK c K)) with (w_setattr (W c)).
    change (w_call (WK c K)) with (w_call (W c)).
    change (w_super (WK c K)) with (w_super (W c)).
    rewrite (bindM_ok _ _ [] [] false eq_refl).
    unfold bindM at 1. unfold tryM at 1. rewrite bind_result_k. rewrite (model_bind_k_cases c K kw Hord).
    destruct (has_dup (map fst kw)); [reflexivity|].
    destruct (bind_ok_k c K kw); cbn [negb]; [|reflexivity].
    assert (Hbk : alist_has (bound_k c K kw) n_kwargs = false).
    { rewrite has_bound_k. destruct (str_in n_kwargs (field_names c)) eqn:E; [|reflexivity].
      apply str_in_true in E. unfold field_names in E. apply in_map_iff in E. destruct E as [fd [E1 E2]].
      pose proof (proj1 (forallb_forall _ _) Hfs fd E2) as Hq. cbv beta in Hq.
      apply andb_true_iff in Hq. destruct Hq as [Hq _]. apply andb_true_iff in Hq. destruct Hq as [_ Hq].
      rewrite E1, pystr_eqb_refl in Hq. discriminate Hq. }
    unfold bindM at 1. rewrite (extras_phase_gen c _ _ Hbk).
    pose proof (run_sets_set_all re_match e msg_of bind_msg repr_str c (extras_k c K kw) [] Hex eq_refl eq_refl) as R0.
    change (public []) with (@nil (pystr * pyval)) in R0. unfold rsets.
    destruct (set_all re_match e c [] (extras_k c K kw)) as [a0|x0].
    2:{ destruct R0 as [s1 [m R1]]. rewrite R1. reflexivity. }
    destruct R0 as [s1 [R1 [R2 [R3 [R4 _]]]]]. rewrite R1. cbv beta iota. cbn [bind].
    (* the names of the fields that take their default *)
    change (self_query (init_heap_k c true K) (s2p "get_all_fields_by_name")) with (self_query (init_heap c true) (s2p "get_all_fields_by_name")).
    rewrite (bindM_ok _ _ _ _ _ (self_gafbn c true s1 R3)).
    rewrite (bindM_ok _ _ s1 s1 (fpairs (c_fields c)) eq_refl).
    set (B := bound_k c K kw).
    assert (HD : forall fd, In fd (c_fields c) ->
              find_field (c_fields c) (fd_name fd) = Some fd /\ fd_default fd <> Some PNone /\
              py_in_dyn (PStr (fd_name fd)) (PDict (pairs B)) = Ok (alist_has B (fd_name fd))).
    { intros fd Hfd. split; [apply find_field_in; assumption|]. split.
      - pose proof (proj1 (forallb_forall _ _) Hfs fd Hfd) as Hq. cbv beta in Hq.
        apply andb_true_iff in Hq. destruct Hq as [_ Hq]. intro E. rewrite E in Hq. discriminate Hq.
      - apply in_pairs. }
    match goal with |- context [filterMM ?f (fpairs (c_fields c))] =>
      change (filterMM f (fpairs (c_fields c))) with (filterMM (dflt_pick c (init_heap c true) (PDict (pairs B))) (fpairs (c_fields c))) end.
    rewrite (bindM_ok _ _ s1 s1 _ (comp_defaults c true B (PDict (pairs B)) (c_fields c) s1 HD)).
    assert (HE : dflt B (c_fields c) = defaults_of c kw).
    { apply dflt_ext. intros fd Hfd Hdn. unfold B. rewrite has_bound_k, (str_in_field c fd Hfd).
      pose proof (proj1 (forallb_forall _ _) HKd fd Hfd) as Hq. cbv beta in Hq.
      destruct (alist_has K (fd_name fd)); [|reflexivity].
      cbn [negb orb] in Hq. destruct (fd_default fd); [discriminate Hq | exfalso; apply Hdn; reflexivity]. }
    rewrite HE.
    (* _none_fields *)
    rewrite (bindM_ok _ _ _ _ _ (internal_store re_match e msg_of bind_msg hook_msg repr_str dumps sig_order c n_none_fields (PSet false []) s1 eq_refl R4)).
    set (s2 := alist_set s1 n_none_fields (PSet false [])).
    assert (K2 : keys_ok s2 = true) by (apply keys_ok_set; [exact R3 | reflexivity]).
    assert (I2 : instantiated s2 = false) by (unfold s2; rewrite instantiated_set; [exact R4 | reflexivity]).
    assert (P2 : public s2 = a0) by (unfold s2; rewrite public_set_internal; [exact R2 | reflexivity]).
    (* the constants *)
    assert (HC : self_getattr_def (init_heap_k c true K) (s2p "_constants") (PDict []) s2 = (s2, inl (PDict (pairs K)))).
    { unfold self_getattr_def. rewrite (keys_ok_get s2 (s2p "_constants") K2 eq_refl eq_refl). reflexivity. }
    rewrite (bindM_ok _ _ _ _ _ HC).
    rewrite (bindM_ok _ _ s2 s2 (pairs K) eq_refl).
    unfold bindM at 1.
    change (for_acc _ (pairs K) tt s2) with (for_acc (const_body c (init_heap c true) (PDict (pairs kw))) (pairs K) tt s2).
    rewrite (consts_loop c true kw K s2 HK (conj K2 I2)).
    pose proof (run_consts_set_consts c kw K s2 HK K2 I2) as RC. rewrite P2 in RC.
    destruct (set_consts re_match e c a0 K kw) as [ak|xk].
    2:{ destruct RC as [s' [m RC1]]. rewrite RC1. reflexivity. }
    destruct RC as [sk [RC1 [RC2 [RC3 RC4]]]]. rewrite RC1. cbv beta iota. cbn [bind].
    (* the defaults *)
    unfold bindM at 1.
    change (Structure__set_defaults (init_heap_k c true K) (WK c K)) with (Structure__set_defaults (init_heap c true) (W c)).
    unfold W. rewrite set_defaults_run.
    2:{ intros p Hp. destruct (dflt_sound kw (c_fields c) p Hp) as [fd [H1 [H2 H3]]].
        exists fd. rewrite <- H2. split; [apply find_field_in; assumption | exact H3]. }
    pose proof (run_sets_set_all re_match e msg_of bind_msg repr_str c (defaults_of c kw) sk (defaults_plain c kw FF) RC3 RC4) as RD. rewrite RC2 in RD.
    destruct (set_all re_match e c ak (defaults_of c kw)) as [a1|x1].
    2:{ destruct RD as [s3 [m RD1]]. rewrite RD1. reflexivity. }
    destruct RD as [s3 [RD1 [RD2 [RD3 [RD4 _]]]]]. rewrite RD1. cbv beta iota. cbn [bind].
    (* fail-fast assignment of the bound arguments *)
    rewrite bindM_assoc.
    rewrite (bindM_ok _ _ s3 s3 true eq_refl). cbv beta iota.
    rewrite bindM_assoc. rewrite (bindM_ok _ _ s3 s3 (pairs B) eq_refl).
    rewrite bindM_assoc. unfold bindM at 1.
    change (for_acc _ (pairs B) tt s3) with
        (for_acc (ff_body re_match e msg_of bind_msg hook_msg repr_str dumps sig_order c (init_heap c true)) (pairs B) tt s3).
    rewrite (ff_loop re_match e msg_of bind_msg hook_msg repr_str dumps sig_order c true B s3 Hbn Hbu (conj RD3 RD4)).
    pose proof (run_sets_set_all re_match e msg_of bind_msg repr_str c B s3 Hbn RD3 RD4) as RB. rewrite RD2 in RB.
    destruct (set_all re_match e c a1 B) as [a2|x2].
    2:{ destruct RB as [s4 [m RB1]]. rewrite RB1. cbv beta iota. cbn [view]. rewrite rewrap_cls. reflexivity. }
    destruct RB as [s4 [RB1 [RB2 [RB3 [RB4 _]]]]]. rewrite RB1. cbv beta iota. cbn [bind].
    rewrite (bindM_ok _ _ s4 s4 tt eq_refl).
    unfold bindM at 1. fold (MW re_match e msg_of bind_msg hook_msg repr_str dumps sig_order c). rewrite validate_step. rewrite RB2.
    destruct (hook_ok (c_hook c) a2); [|reflexivity].
    rewrite (bindM_ok _ _ _ _ _ (internal_store re_match e msg_of bind_msg hook_msg repr_str dumps sig_order c n_instantiated (PBool true) s4 eq_refl RB4)).
    rewrite (bindM_ok _ _ _ _ tt eq_refl).
    rewrite (bindM_ok _ _ _ _ PNone eq_refl).
    cbn [ret view]. rewrite public_set_internal by reflexivity. rewrite RB2. reflexivity.
  Qed.
End Consts.

(* the model extension: without constants it is [construct]; a constant named by the caller is refused *)
Lemma sig_field_nil c p : sig_field c [] p = is_field c p.
Proof. unfold sig_field. cbn. apply andb_true_r. Qed.

Lemma forallb_ext' {A} (f g : A -> bool) : (forall a, f a = g a) -> forall l, forallb f l = forallb g l.
Proof. intros H l. induction l as [|x t IH]; [reflexivity|]. cbn [forallb]. rewrite H, IH. reflexivity. Qed.

Theorem construct_k_nil : forall re_match e c kw, construct_k re_match e c [] kw = Instance.construct re_match e c kw.
Proof.
  intros. unfold construct_k, Instance.construct, bind_ok_k, bind_ok, extras_k, bound_k.
  rewrite (filter_ext _ (fun p => negb (str_in (fst p) (field_names c))) (fun p => f_equal negb (sig_field_nil c p))).
  rewrite (filter_ext _ (fun p => str_in (fst p) (field_names c)) (sig_field_nil c)).
  rewrite (forallb_ext' _ (fun p => str_in (fst p) (field_names c)) (sig_field_nil c)).
  cbn [set_consts]. destruct (has_dup (map fst kw)); [reflexivity|].
  destruct (forallb _ (c_required c) && _); cbn [negb]; [|reflexivity].
  destruct (set_all re_match e c [] _) as [a0|x]; reflexivity.
Qed.

Theorem set_consts_guard : forall re_match e c a K kw r,
    set_consts re_match e c a K kw = Ok r -> forallb (fun p => negb (alist_has kw (fst p))) K = true.
Proof.
  intros re_match e c a K. revert a. induction K as [|[n v] t IH]; intros a kw r H; [reflexivity|].
  cbn [set_consts] in H. cbn [forallb fst]. destruct (alist_has kw n); [discriminate H|]. cbn [negb andb].
  destruct (setattr re_match e c false a n v) as [a' [|x]]; [|discriminate H]. exact (IH a' kw r H).
Qed.

(* a construction that names a constant never returns an instance *)
Theorem construct_k_refuses_constant : forall re_match e c K kw n,
    alist_has K n = true -> alist_has kw n = true -> is_ok (construct_k re_match e c K kw) = false.
Proof.
  intros re_match e c K kw n HK Hkw. unfold construct_k.
  destruct (has_dup (map fst kw)); [reflexivity|]. destruct (negb (bind_ok_k c K kw)); [reflexivity|].
  destruct (set_all re_match e c [] (extras_k c K kw)) as [a0|x]; [|reflexivity]. cbn [bind].
  destruct (set_consts re_match e c a0 K kw) as [ak|x] eqn:E; [|reflexivity]. exfalso.
  pose proof (set_consts_guard re_match e c a0 K kw ak E) as G.
  unfold alist_has in HK. destruct (alist_get K n) as [v|] eqn:Eg; [|discriminate HK].
  assert (In' : exists p, In p K /\ fst p = n).
  { clear -Eg. induction K as [|[k x] t IH]; [discriminate Eg|]. cbn [alist_get] in Eg.
    destruct (pystr_eqb k n) eqn:Ek.
    - apply pystr_eqb_spec in Ek. exists (k, x). split; [left; reflexivity|exact Ek].
    - destruct (IH Eg) as [p [H1 H2]]. exists p. split; [right; exact H1|exact H2]. }
  destruct In' as [p [H1 H2]]. pose proof (proj1 (forallb_forall _ _) G p H1) as Hq. cbv beta in Hq.
  rewrite H2, Hkw in Hq. discriminate Hq.
Qed.

Definition exk_cls : classdef :=
  {| c_name := s2p "Foo"; c_ancestors := [];
     c_fields := [ {| fd_name := s2p "a"; fd_field := FNumber KInteger SAny no_numc; fd_immutable := false; fd_default := None |};
                   {| fd_name := s2p "k"; fd_field := FAnything; fd_immutable := false; fd_default := None |};
                   {| fd_name := s2p "d"; fd_field := FNumber KFloat SAny no_numc; fd_immutable := false;
                      fd_default := Some (PNum (NInt 2)) |} ];
     c_required := [s2p "a"]; c_additional := true; c_ignore_none := false; c_immutable := false; c_hook := HookNone |}.
Definition exk_K : kwargs := [(s2p "k", PStr (s2p "v1"))].

Example init_dom_k_satisfiable :
  init_dom_k exk_cls exk_K [(s2p "a", PNum (NInt 1))] = true /\
  init_dom_k exk_cls exk_K [(s2p "a", PNum (NInt 1)); (s2p "k", PNum (NInt 3))] = true /\
  construct_k (fun _ _ => true) [exk_cls] exk_cls exk_K [(s2p "a", PNum (NInt 1))] =
    Ok (PStruct (s2p "Foo") [(s2p "k", PStr (s2p "v1")); (s2p "d", PNum (NFlt 1 1)); (s2p "a", PNum (NInt 1))]) /\
  construct_k (fun _ _ => true) [exk_cls] exk_cls exk_K [(s2p "a", PNum (NInt 1)); (s2p "k", PNum (NInt 3))] = Raise ValueError.
Proof. repeat split; vm_compute; reflexivity. Qed.

Print Assumptions generated_init_constants.
Print Assumptions construct_k_nil.
Print Assumptions construct_k_refuses_constant.
Print Assumptions init_dom_k_satisfiable.
