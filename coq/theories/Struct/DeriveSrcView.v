(* How the model-level description of a class ([klass], Struct/Define.v) is seen as the Python-level objects the
   GENERATED translations of the derivation operators (Gen/DeriveSrc.v) work on, and how the Python-level result
   -- the request `type(name, (Structure,), cls_dict)` -- is read back as a model-level class statement.
   Used by Struct/DeriveSrcProofs.v.  Executable; no proofs here.

   The source class is the object "clazz" of the heap:
     isinstance(clazz, StructMeta)   k_is_struct k
     clazz.__name__                  k_name k
     clazz.__dict__                  any entries [pre], then "_fields" (the own field names), then any entries
                                     [post]; pre / post stand for everything else a class dict holds (__module__,
                                     _required, _ignore_none, the field objects, _additional_properties, ...) and
                                     are only required not to use the two keys _init_class_dict copies
     clazz._ignore_none              present iff the class body set it or a base class has it ([inh]: what the
                                     bases give): the class's own value, else the inherited one
     clazz._enable_undefined_value   present iff the class sees the attribute ([eu]: own or inherited value)
     clazz._field_by_name            name -> the Field / Constant OBJECT "field:<name>", in the order of k_all k
     clazz._required                 k_required k
   The object "field:<n>" has the attribute _default iff member n is a Field (a Constant has none): None when
   the field has no default, the default otherwise. *)
From Coq Require Import ZArith NArith String Ascii Bool List.
Import ListNotations.
From TP Require Import Base.PyVal Base.PyOps Base.PyOps2 Base.PyObj Base.PyOpsDerive
     Fields.FieldAst Fields.SetChain Struct.Define Struct.Derive.

(* a dict with str keys, from an association list *)
Definition skeys (l : list (pystr * pyval)) : list (pyval * pyval) := map (fun p => (PStr (fst p), snd p)) l.
Definition dv_names (l : list pystr) : pyval := PList (map PStr l).

Definition o_clazz : pystr := s2p "clazz".
Definition fld_prefix : pystr := s2p "field:".
Definition fld_obj (n : pystr) : pystr := fld_prefix ++ n.
Definition fld_ref (n : pystr) : pyval := ref (fld_obj n).

Fixpoint strip_prefix (p s : pystr) : option pystr :=
  match p, s with
  | [], _ => Some s
  | x :: p', y :: s' => if N.eqb x y then strip_prefix p' s' else None
  | _ :: _, [] => None
  end.

(* Field._default *)
Definition default_view (d : option defval) : pyval :=
  match d with
  | None => PNone
  | Some (DLit v) => v
  | Some (DFactory _) => POther (s2p "callable") []
  end.

Definition n_fields : pystr := s2p "_fields".
Definition n_ignore_none : pystr := s2p "_ignore_none".
Definition n_defaults : pystr := s2p "_defaults".
Definition n_required : pystr := s2p "_required".

(* the keys _init_class_dict copies from the source's own __dict__ *)
Definition included_attrs : list pystr := [n_fields; n_defaults].

Definition own_core (k : klass) : list (pystr * pyval) := [(n_fields, dv_names (map fst (k_own k)))].

(* what _init_class_dict returns: the copied keys, then _ignore_none ([ign]) and _enable_undefined_value ([eu])
   as the class sees them *)
Definition init_core (k : klass) (ign eu : option bool) : list (pystr * pyval) :=
  own_core k ++ match ign with Some b => [(n_ignore_none, PBool b)] | None => [] end
             ++ match eu with Some b => [(n_enable_undefined, PBool b)] | None => [] end.

Definition own_dict (k : klass) (pre post : list (pystr * pyval)) : list (pystr * pyval) :=
  pre ++ own_core k ++ post.

Definition field_by_name (k : klass) : list (pystr * pyval) :=
  map (fun nm => (fst nm, fld_ref (fst nm))) (k_all k).

Definition klass_heap (k : klass) (inh eu : option bool) (pre post : list (pystr * pyval)) : heap :=
  fun o a =>
    if pystr_eqb o o_clazz then
      if pystr_eqb a (isinstance_attr (s2p "StructMeta")) then Some (PBool (k_is_struct k))
      else if pystr_eqb a (s2p "__name__") then Some (PStr (k_name k))
      else if pystr_eqb a (s2p "__dict__") then Some (PDict (skeys (own_dict k pre post)))
      else if pystr_eqb a (s2p "_field_by_name") then Some (PDict (skeys (field_by_name k)))
      else if pystr_eqb a n_required then Some (dv_names (k_required k))
      else if pystr_eqb a n_ignore_none then
        match effective_ignore_none inh k with Some b => Some (PBool b) | None => None end
      else if pystr_eqb a n_enable_undefined then
        match eu with Some b => Some (PBool b) | None => None end
      else None
    else
      match strip_prefix fld_prefix o with
      | Some n =>
          if pystr_eqb a (s2p "_default") then
            match alist_get (k_all k) n with
            | Some (MField f) => Some (default_view (fo_default f))
            | _ => None
            end
          else None
      | None => None
      end.

(* ------------------------------------------------------------------ the arguments *)

(* Partial[Foo] / Partial[Foo, "Name"]  (also AllFieldsRequired, Extend) *)
Definition class_arg (cname : option pystr) : pyval :=
  match cname with
  | None => ref o_clazz
  | Some n => PTuple [ref o_clazz; PStr n]
  end.

(* the names of Omit / Pick, given as a tuple or as a list *)
Definition names_arg (as_list : bool) (ns : list pystr) : pyval :=
  if as_list then PList (map PStr ns) else PTuple (map PStr ns).

(* Omit[Foo, names] / Omit[Foo, names, "Name"]  (also Pick) *)
Definition sel_arg (as_list : bool) (ns : list pystr) (cname : option pystr) : pyval :=
  PTuple (ref o_clazz :: names_arg as_list ns :: match cname with Some n => [PStr n] | None => [] end).

(* Foo.omit( *names, class_name=...): the keyword defaults to "" *)
Definition class_name_kw (cname : option pystr) : pyval :=
  PStr (match cname with Some n => n | None => [] end).

(* the classes Partial, Omit, ... themselves (the `cls` of the metaclass method; never inspected) *)
Definition op_class (o : op) : pyval := ref (op_prefix o).

(* ------------------------------------------------------------------ reading the result back *)

Definition decode_member (k : klass) (v : pyval) : option member :=
  match v with
  | POther t name =>
      if pystr_eqb t ref_tag then
        match strip_prefix fld_prefix name with
        | Some n => alist_get (k_all k) n
        | None => None
        end
      else None
  | _ => None
  end.

Fixpoint decode_names (l : list pyval) : option (list pystr) :=
  match l with
  | [] => Some []
  | PStr s :: t => match decode_names t with Some r => Some (s :: r) | None => None end
  | _ => None
  end.

Record dec := { dc_members : members; dc_required : option (list pystr); dc_ignore : option bool;
                dc_undefined : option bool }.

Definition dec_empty : dec := {| dc_members := []; dc_required := None; dc_ignore := None; dc_undefined := None |}.
Definition dec_add_member (nm : pystr * member) (d : dec) : dec :=
  {| dc_members := nm :: dc_members d; dc_required := dc_required d; dc_ignore := dc_ignore d;
     dc_undefined := dc_undefined d |}.
Definition dec_set_required (r : list pystr) (d : dec) : dec :=
  {| dc_members := dc_members d; dc_required := Some r; dc_ignore := dc_ignore d; dc_undefined := dc_undefined d |}.
Definition dec_set_ignore (b : bool) (d : dec) : dec :=
  {| dc_members := dc_members d; dc_required := dc_required d; dc_ignore := Some b; dc_undefined := dc_undefined d |}.
Definition dec_set_undefined (b : bool) (d : dec) : dec :=
  {| dc_members := dc_members d; dc_required := dc_required d; dc_ignore := dc_ignore d; dc_undefined := Some b |}.

(* the entries of the class dict, in order: "_required" must be a list of names, "_ignore_none" and
   "_enable_undefined_value" a bool,
   "_fields" is overwritten by StructMeta.__new__ whatever it holds, every other entry must be one of the
   source's Field / Constant objects (it becomes a member, in dict order); anything else is not a class
   statement of the model *)
Fixpoint decode_entries (k : klass) (kv : list (pyval * pyval)) : res dec :=
  match kv with
  | [] => Ok dec_empty
  | (PStr key, v) :: t =>
      r <- decode_entries k t ;;
      if pystr_eqb key n_required then
        match v with
        | PList l => match decode_names l with Some ns => Ok (dec_set_required ns r) | None => Raise Unmodelled end
        | _ => Raise Unmodelled
        end
      else if pystr_eqb key n_ignore_none then
        match v with PBool b => Ok (dec_set_ignore b r) | _ => Raise Unmodelled end
      else if pystr_eqb key n_enable_undefined then
        match v with PBool b => Ok (dec_set_undefined b r) | _ => Raise Unmodelled end
      else if pystr_eqb key n_fields then Ok r
      else match decode_member k v with
           | Some m => Ok (dec_add_member (key, m) r)
           | None => Raise Unmodelled
           end
  | _ => Raise Unmodelled
  end.

(* type(name, (Structure,), cls_dict) as the class statement `class name(Structure): <cls_dict>` *)
Definition decode_newclass (k : klass) (v : pyval) : res classstmt :=
  match v with
  | PTuple [PStr tag; PStr name; PTuple [POther t b]; PDict kv] =>
      if pystr_eqb tag new_class_tag && pystr_eqb t ref_tag && pystr_eqb b n_Structure then
        d <- decode_entries k kv ;;
        Ok {| s_name := name; s_bases := [n_Structure]; s_members := as_objs (dc_members d);
              s_required := dc_required d; s_optional := None; s_additional := None;
              s_ignore_none := dc_ignore d; s_attrs := undefined_attrs (dc_undefined d); s_keys_of := [] |}
      else Raise Unmodelled
  | _ => Raise Unmodelled
  end.

(* the VALUE of "_enable_undefined_value" in the class dict handed to type(...) (a class statement only says
   `name = <bool>`): None when the dict has no such entry *)
Definition newclass_undefined (k : klass) (v : pyval) : res (option bool) :=
  match v with
  | PTuple [PStr tag; PStr name; PTuple [POther t b]; PDict kv] =>
      if pystr_eqb tag new_class_tag && pystr_eqb t ref_tag && pystr_eqb b n_Structure then
        d <- decode_entries k kv ;; Ok (dc_undefined d)
      else Raise Unmodelled
  | _ => Raise Unmodelled
  end.

(* ------------------------------------------------------------------ side conditions *)

(* pre / post use none of the copied keys *)
Definition others_ok (l : list (pystr * pyval)) : bool :=
  forallb (fun kv => negb (str_in (fst kv) included_attrs)) l.

(* the source is a Structure class whose field names are distinct and legal (what [define] guarantees) *)
Definition src_ok (k : klass) : bool :=
  k_is_struct k && negb (has_dup_str (field_names k)) &&
  forallb (fun n => negb (bad_field_name n)) (field_names k).

(* `_default = None` means "no default": a Field object never holds Some (DLit None)
   ([field_init] / [apply_eq_default] normalise) *)
Definition defaults_normal (k : klass) : bool :=
  forallb (fun nm => match snd nm with
                     | MField f => match fo_default f with Some (DLit PNone) => false | _ => true end
                     | MConst _ => true
                     end) (k_all k).

(* an explicit EMPTY class name: Structure.omit / pick treat "" as "no name given" *)
Definition name_given (cname : option pystr) : bool :=
  match cname with Some [] => false | _ => true end.

(* the side conditions of an operator: AllFieldsRequired reads `_default is None`; Omit / Pick treat an
   empty explicit name as absent *)
Definition op_ok (k : klass) (o : op) (cname : option pystr) : bool :=
  match o with
  | OpAllRequired => defaults_normal k
  | OpOmit _ | OpPick _ => name_given cname
  | _ => true
  end.
