(* The validating entry points of C01 as one datatype, and chains of them.
   Every entry point either funnels into the keyword constructor ([construct] of Struct/Instance.v)
   with keyword arguments computed from the current instance, or is a copy:
     - keyword construction                      cls( **kw)
     - Deserializer(cls).deserialize(doc) /
       deserialize_structure(cls, doc)            cls( **kw') with kw' whatever the pre-processing of the
                                                  document yields (deserialize_structure_internal ends in
                                                  cls( **kwargs)); the model is parametric in kw'
     - cls.from_other_class(src, **over)          src = the current instance, or a mapping
     - x.shallow_clone_with_overrides( **over)
     - x.cast_to(cls)
     - copy.copy / copy.deepcopy                  value preserving
     - pickle round trip                          __getstate__ keeps the declared fields only
   The trusted entry points (from_trusted_data, trust_supplied_values, direct_trusted_mapping) are
   not constructors of [entry].  Executable; no proofs here. *)
From Coq Require Import ZArith QArith NArith String Ascii Bool Lia List.
Import ListNotations.
From TP Require Import Base.PyVal Fields.FieldAst Fields.SetChain Fields.Doc Fields.Domain Struct.Shapes Struct.Instance.
Local Open Scope Z_scope.

Inductive entry :=
| ECtor (cls : pystr) (kw : kwargs)
| EDeser (cls : pystr) (kw : kwargs)
| EFromOther (cls : pystr) (over : kwargs)             (* source = current instance *)
| EFromMapping (cls : pystr) (src over : kwargs)       (* source = a dict *)
| EClone (over : kwargs)
| ECastTo (cls : pystr)
| EWrap (cls : pystr) (n : pystr) (kw : kwargs)        (* cls( **kw, n=<current instance>): nesting *)
| ECopy
| EDeepCopy
| EPickle.

(* getattr(x, k) when hasattr(x, k): the stored value, else (k being a field of x's class) the
   field's default, else None.  [None]: no such attribute. *)
Definition getattr_opt (cd : classdef) (a : attrs) (k : pystr) : option pyval :=
  match alist_get a k with
  | Some v => Some v
  | None =>
      match find_field (c_fields cd) k with
      | Some fd => Some (match fd_default fd with Some d => d | None => PNone end)
      | None => None
      end
  end.

Definition not_none (v : pyval) : bool := negb (is_none_val v).

(* cast_to(cls'): getattr(x, f, None) for every field f of the target, None values left out *)
Definition cast_kwargs (cd c' : classdef) (a : attrs) : kwargs :=
  flat_map (fun k => match getattr_opt cd a k with
                     | Some v => if not_none v then [(k, v)] else []
                     | None => []
                     end) (field_names c').

(* {**base, **over}: an overridden name keeps its place and takes the new value, new names are appended *)
Definition merge_kw (base over : kwargs) : kwargs :=
  fold_left (fun acc p => alist_set acc (fst p) (snd p)) over base.

(* shallow_clone_with_overrides: getattr of every field of the class, None values left out, then the overrides
   merged in ({**fields, **kw}: the order in which the source hands the keywords to the constructor) *)
Definition clone_kwargs (cd : classdef) (a : attrs) (over : kwargs) : kwargs :=
  merge_kw (cast_kwargs cd cd a) over.

(* from_other_class(src): every field of cls that src has (None included), then the overrides *)
Definition from_other_kwargs (cd c : classdef) (a : attrs) (over : kwargs) : kwargs :=
  flat_map (fun k => if alist_has over k then []
                     else match getattr_opt cd a k with
                          | Some v => [(k, v)]
                          | None => []
                          end) (field_names c)
  ++ over.

(* from_other_class(mapping): mapping.get(k) for EVERY field of cls, then the overrides *)
Definition from_mapping_kwargs (c : classdef) (src over : kwargs) : kwargs :=
  flat_map (fun k => if alist_has over k then []
                     else [(k, match alist_get src k with Some v => v | None => PNone end)])
           (field_names c)
  ++ over.

Section WithOracle.
  Variable re_match : N -> pystr -> bool.
  Variable e : env.

  (* what the entry point hands to which constructor; [inl] = it is a copy; [inr exn] = it raises
     before constructing *)
  Inductive plan :=
  | PConstruct (c : classdef) (kw : kwargs)
  | PValue (v : pyval)
  | PRaise (x : exn).

  Definition with_class (cn : pystr) (k : classdef -> plan) : plan :=
    match find_class e cn with Some c => k c | None => PRaise Unmodelled end.

  Definition with_instance (cur : pyval) (k : classdef -> attrs -> plan) : plan :=
    match cur with
    | PStruct cn a => with_class cn (fun cd => k cd a)
    | _ => PRaise Unmodelled
    end.

  Definition entry_plan (cur : pyval) (en : entry) : plan :=
    match en with
    | ECtor cn kw | EDeser cn kw => with_class cn (fun c => PConstruct c kw)
    | EFromOther cn over =>
        with_class cn (fun c => with_instance cur (fun cd a => PConstruct c (from_other_kwargs cd c a over)))
    | EFromMapping cn src over => with_class cn (fun c => PConstruct c (from_mapping_kwargs c src over))
    | EClone over => with_instance cur (fun cd a => PConstruct cd (clone_kwargs cd a over))
    | ECastTo cn =>
        with_class cn (fun c' => with_instance cur (fun cd a =>
          if is_instance_of e (c_name cd) (c_name c') || is_instance_of e (c_name c') (c_name cd)
          then PConstruct c' (cast_kwargs cd c' a)
          else PRaise TypeError))
    | EWrap cn n kw => with_class cn (fun c => PConstruct c (kw ++ [(n, cur)]))
    | ECopy | EDeepCopy => with_instance cur (fun cd a => PValue (PStruct (c_name cd) a))
    | EPickle =>
        with_instance cur (fun cd a =>
          PValue (PStruct (c_name cd) (filter (fun p => str_in (fst p) (field_names cd)) a)))
    end.

  Definition run_entry (cur : pyval) (en : entry) : res pyval :=
    match entry_plan cur en with
    | PConstruct c kw => construct re_match e c kw
    | PValue v => Ok v
    | PRaise x => Raise x
    end.

  Fixpoint run_chain (cur : pyval) (ch : list entry) : res pyval :=
    match ch with
    | [] => Ok cur
    | en :: t => x <- run_entry cur en ;; run_chain x t
    end.

  (* ---------------------------------------------------------------- validity of an instance *)

  Definition inst_ok (v : pyval) : bool :=
    match v with
    | PStruct cn a => match find_class e cn with Some c => struct_ok re_match e c a | None => false end
    | _ => false
    end.

  (* ---------------------------------------------------------------- the statement's domain *)

  Definition conf (f : field) (v : pyval) : bool :=
    match docb re_match e f v with Some _ => true | None => false end.

  (* [stable f v]: wherever f puts a collection-level constraint (uniqueItems, minItems/maxItems of a
     Set or Map) on elements it normalises, the constraint also holds of the NORMALISED elements.
     The code checks these constraints on the supplied elements only (array.py / set_field.py /
     map_field.py validate size and uniqueness before converting the items). *)
  Fixpoint stable (f : field) (v : pyval) {struct f} : bool :=
    match f with
    | FSeqEach k g _ u =>
        match seq_items k v with
        | Some l => forallb (stable g) l &&
                    (negb u || match all_some (map (docb re_match e g) l) with
                               | Some r => py_unique r
                               | None => true
                               end)
        | None => true
        end
    | FSeqPos k gs _ u _ =>
        match seq_items k v with
        | Some l =>
            (fix pos (fs : list field) (vs : list pyval) {struct fs} : bool :=
               match fs, vs with
               | g :: fs', x :: vs' => stable g x && pos fs' vs'
               | _, _ => true
               end) gs l &&
            (negb u || match docb re_match e f v with
                       | Some nf => match seq_items k nf with Some r => py_unique r | None => true end
                       | None => true
                       end)
        | None => true
        end
    | FSet _ (Some g) sz =>
        match v with
        | PSet _ l => forallb (stable g) l &&
                      match all_some (map (docb re_match e g) l) with
                      | Some r => size_ok sz (lenZ (py_dedup r))
                      | None => true
                      end
        | _ => true
        end
    | FTuple gs u =>
        match v with
        | PTuple l =>
            match gs with
            | [g] => forallb (stable g) l
            | _ => (fix pos (fs : list field) (vs : list pyval) {struct fs} : bool :=
                      match fs, vs with
                      | g :: fs', x :: vs' => stable g x && pos fs' vs'
                      | _, _ => true
                      end) gs l
            end &&
            (negb u || match docb re_match e f v with
                       | Some (PTuple r) => py_unique r
                       | _ => true
                       end)
        | _ => true
        end
    | FMapKV kf vf sz =>
        match v with
        | PDict kv =>
            forallb (fun p => stable kf (fst p) && stable vf (snd p)) kv &&
            match docb re_match e f v with
            | Some (PDict kv') => size_ok sz (lenZ kv')
            | _ => true
            end
        | _ => true
        end
    | FAnyOf fs => forallb (fun g => stable g v) fs
    | _ => true
    end.

  Definition arg_ok (c : classdef) (p : pystr * pyval) : bool :=
    match find_field (c_fields c) (fst p) with
    | Some fd => dom (fd_field fd) (snd p) && stable (fd_field fd) (snd p)
    | None => true
    end.

  Definition kw_ok (c : classdef) (kw : kwargs) : bool := forallb (arg_ok c) kw.

  Definition defaults_ok (c : classdef) : bool :=
    forallb (fun fd => match fd_default fd with
                       | Some d => arg_ok c (fd_name fd, d)
                       | None => true
                       end) (c_fields c).

  (* the hook and _required speak about declared fields only (needed for the pickle round trip,
     which keeps the declared fields and drops everything else) *)
  Definition class_wf (c : classdef) : bool :=
    match c_hook c with
    | HookNone => true
    | HookLe x y => str_in x (field_names c) && str_in y (field_names c)
    | HookNeverNone x => str_in x (field_names c)
    end &&
    forallb (fun r => str_in r (field_names c)) (c_required c).

  Definition entry_dom (cur : pyval) (en : entry) : bool :=
    match entry_plan cur en with
    | PConstruct c kw => kw_ok c kw && defaults_ok c
    | PValue _ =>
        match cur with
        | PStruct cn _ => match find_class e cn with Some c => class_wf c | None => true end
        | _ => true
        end
    | PRaise _ => true
    end.

  (* every value that reaches a constructor along the chain is in the statement's domain *)
  Fixpoint chain_dom (cur : pyval) (ch : list entry) : bool :=
    match ch with
    | [] => true
    | en :: t =>
        entry_dom cur en &&
        match run_entry cur en with
        | Ok x => chain_dom x t
        | Raise _ => true
        end
    end.

  (* ---------------------------------------------------------------- nested instances *)

  (* the Structure instances nested in the supplied values / in the class defaults are valid *)
  Definition vals_deep (kw : kwargs) : bool := forallb (fun p => deep_valid re_match e (snd p)) kw.

  Definition entry_vals_deep (en : entry) : bool :=
    match en with
    | ECtor _ kw | EDeser _ kw | EClone kw | EFromOther _ kw | EWrap _ _ kw => vals_deep kw
    | EFromMapping _ s o => vals_deep s && vals_deep o
    | ECastTo _ | ECopy | EDeepCopy | EPickle => true
    end.

  Definition class_defaults_deep (c : classdef) : bool :=
    forallb (fun fd => match fd_default fd with Some d => deep_valid re_match e d | None => true end) (c_fields c).

  Definition env_defaults_deep : bool := forallb class_defaults_deep e.

  Fixpoint chain_vals_deep (ch : list entry) : bool :=
    match ch with [] => true | en :: t => entry_vals_deep en && chain_vals_deep t end.
End WithOracle.
