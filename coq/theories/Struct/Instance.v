(* Instance-level model: Structure.__init__ (keyword construction), Structure.__setattr__,
   Structure.__delitem__, the other validating entry points that funnel into the constructor,
   and mutation through the wrapper values of Array/Map/Deque fields.
   An instance is [PStruct cls attrs]: the public part of instance.__dict__ (order is not
   significant; comparisons are order-free).  Executable; no proofs here. *)
From Coq Require Import ZArith QArith NArith String Ascii Bool Lia List.
Import ListNotations.
From TP Require Import Base.PyVal Fields.FieldAst Fields.SetChain Fields.Doc Struct.Shapes.
Local Open Scope Z_scope.

Definition attrs := list (pystr * pyval).

Definition field_names (c : classdef) : list pystr := map fd_name (c_fields c).

Definition is_required (c : classdef) (n : pystr) : bool := str_in n (c_required c).

(* the class's __validate__ hook (a small decidable language, realised as real methods) *)
Definition hook_ok (h : hook) (a : attrs) : bool :=
  match h with
  | HookNone => true
  | HookLe x y =>
      match alist_get a x, alist_get a y with
      | Some (PNum (NInt p)), Some (PNum (NInt q)) => p <=? q
      | _, _ => true
      end
  | HookNeverNone x => alist_has a x
  end.

Definition is_none_val (v : pyval) : bool := match v with PNone => true | _ => false end.

Section WithOracle.
  Variable re_match : N -> pystr -> bool.
  Variable e : env.

  (* ------------------------------------------------------------ Structure.__setattr__ *)

  Inductive outcome :=
  | Done                      (* returned normally *)
  | Raised (x : exn).

  (* [setattr c instantiated a n v]: new attrs and outcome.  Field.__set__ stores first and runs
     __validate__ afterwards; Structure.__setattr__ puts the previous entry back when the descriptor
     chain raises, so a rejected assignment leaves the attributes as they were. *)
  Definition setattr (c : classdef) (instantiated : bool) (a : attrs) (n : pystr) (v : pyval)
    : attrs * outcome :=
    if c_immutable c && instantiated then (a, Raised ValueError)
    else
      match find_field (c_fields c) n with
      | None =>
          if c_additional c then
            if c_ignore_none c && is_none_val v && negb (is_required c n) then (a, Done)
            else (alist_set a n v, Done)
          else (a, Raised ValueError)
      | Some fd =>
          if c_ignore_none c && is_none_val v && negb (is_required c n) then (a, Done)
          else
            match vset re_match e (fd_field fd) v with
            | Raise x => (a, Raised x)
            | Ok nf =>
                if fd_immutable fd && alist_has a n then (a, Raised ValueError)
                else
                  let a' := alist_set a n nf in
                  if instantiated && negb (hook_ok (c_hook c) a') then (a, Raised ValueError)
                  else (a', Done)
            end
      end.

  (* ------------------------------------------------------------ Structure.__init__ (keywords) *)

  Definition kwargs := list (pystr * pyval).

  Fixpoint set_all (c : classdef) (a : attrs) (kw : kwargs) : res attrs :=
    match kw with
    | [] => Ok a
    | (n, v) :: t =>
        match setattr c false a n v with
        | (a', Done) => set_all c a' t
        | (_, Raised x) => Raise x
        end
    end.

  Definition defaults_of (c : classdef) (kw : kwargs) : kwargs :=
    flat_map (fun fd => match fd_default fd with
                        | Some d => if alist_has kw (fd_name fd) then [] else [(fd_name fd, d)]
                        | None => []
                        end) (c_fields c).

  Fixpoint has_dup (l : list pystr) : bool :=
    match l with
    | [] => false
    | x :: t => str_in x t || has_dup t
    end.

  (* Signature.bind: every required name supplied; unknown names only with additional properties *)
  Definition bind_ok (c : classdef) (kw : kwargs) : bool :=
    forallb (fun r => alist_has kw r) (c_required c) &&
    (c_additional c || forallb (fun p => str_in (fst p) (field_names c)) kw).

  Definition construct (c : classdef) (kw : kwargs) : res pyval :=
    if has_dup (map fst kw) then Raise Unmodelled      (* not expressible as a Python call *)
    else if negb (bind_ok c kw) then Raise TypeError
    else
      let extras := filter (fun p => negb (str_in (fst p) (field_names c))) kw in
      let bound := filter (fun p => str_in (fst p) (field_names c)) kw in
      a0 <- set_all c [] extras ;;
      a1 <- set_all c a0 (defaults_of c kw) ;;
      a2 <- set_all c a1 bound ;;
      if hook_ok (c_hook c) a2 then Ok (PStruct (c_name c) a2) else Raise ValueError.

  (* ------------------------------------------------------------ validity (spec side of C01/C03) *)

  Definition struct_ok (c : classdef) (a : attrs) : bool :=
    forallb (fun r => alist_has a r) (c_required c) &&
    forallb (fun p => match find_field (c_fields c) (fst p) with
                      | Some fd => match docb re_match e (fd_field fd) (snd p) with Some _ => true | None => false end
                      | None => c_additional c
                      end) a &&
    negb (has_dup (map fst a)) &&
    hook_ok (c_hook c) a.

  (* every Structure instance reachable inside a value is valid for its own class *)
  Fixpoint deep_valid (v : pyval) : bool :=
    match v with
    | PList l | PTuple l | PDeque l | PSet _ l => forallb deep_valid l
    | PDict kv => forallb (fun p => deep_valid (fst p) && deep_valid (snd p)) kv
    | PStruct cn a =>
        match find_class e cn with
        | Some c => struct_ok c a
        | None => false
        end &&
        forallb (fun p => deep_valid (snd p)) a
    | _ => true
    end.

  (* ------------------------------------------------------------ other validating entry points *)

  (* shallow_clone_with_overrides: current field values (non-None) overridden by the keywords *)
  Definition clone_with (c : classdef) (a : attrs) (over : kwargs) : res pyval :=
    let cur := filter (fun p => str_in (fst p) (field_names c) && negb (alist_has over (fst p))) a in
    construct c (cur ++ over).

  (* cast_to(cls'): field values of the target class that are set on the instance *)
  Definition cast_to (c' : classdef) (a : attrs) : res pyval :=
    construct c' (filter (fun p => str_in (fst p) (field_names c')) a).

  (* from_other_class(source, overrides) with the source's attributes given as an association list *)
  Definition from_other (c : classdef) (src : kwargs) (over : kwargs) : res pyval :=
    let taken := filter (fun p => str_in (fst p) (field_names c) && negb (alist_has over (fst p))) src in
    construct c (taken ++ over).

  (* ------------------------------------------------------------ mutation (C03 / C04) *)

  Inductive mop :=
  | SetAttr (n : pystr) (v : pyval)
  | DelItem (n : pystr)                                   (* del x[n] *)
  | WrapMut (n : pystr) (s : shape) (base : res pyval).   (* a mutator of the wrapper value of field n;
                                                             [base] = what the base type's method yields on a
                                                             plain copy of the current value: the new container
                                                             or the exception (CPython is the oracle here) *)

  Definition field_immutable (c : classdef) (n : pystr) : bool :=
    match find_field (c_fields c) n with Some fd => fd_immutable fd | None => false end.

  Definition mstep (c : classdef) (a : attrs) (op : mop) : attrs * outcome :=
    match op with
    | SetAttr n v => setattr c true a n v
    | DelItem n =>
        (* refused on an immutable class / field and for a required name; otherwise the entry is removed,
           __validate__ runs on the result and a rejection puts the entry back *)
        if c_immutable c || field_immutable c n || is_required c n then (a, Raised ValueError)
        else if alist_has a n then
               if hook_ok (c_hook c) (alist_del a n) then (alist_del a n, Done) else (a, Raised ValueError)
             else (a, Raised KeyError)
    | WrapMut n s base =>
        let frozen := c_immutable c || field_immutable c n in
        match s with
        | CopyMutateReassign guard =>
            if guard && frozen then (a, Raised ValueError)
            else match base with
                 | Raise x => (a, Raised x)
                 | Ok nv => setattr c true a n nv
                 end
        | GuardThenInPlace =>
            if frozen then (a, Raised ValueError)
            else match base with
                 | Raise x => (a, Raised x)
                 | Ok nv => (alist_set a n nv, Done)
                 end
        | NotOverridden | Unrecognised =>
            match base with
            | Raise x => (a, Raised x)
            | Ok nv => (alist_set a n nv, Done)
            end
        end
    end.

  Definition run_ops (c : classdef) (a : attrs) (ops : list mop) : attrs :=
    fold_left (fun st op => fst (mstep c st op)) ops a.
End WithOracle.
