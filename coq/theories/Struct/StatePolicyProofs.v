(* The pickle round trip under the __getstate__ policy read from the source. *)
From Coq Require Import String.
From Coq Require Import ZArith NArith Bool List.
Import ListNotations.
From TP Require Import Base.PyVal Fields.FieldAst Fields.SetChain Struct.Shapes Struct.Instance Struct.EqHash Struct.EqHashProofs Struct.StatePolicy.

(* a policy that keeps every declared name present in __dict__ is the round trip of Struct/EqHash.v *)
Lemma pickle_rt_pol_safe sp c x :
  state_policy_safe sp = true -> pickle_rt_pol sp c x = Some (pickle_rt c x).
Proof.
  destruct sp as [f g v i r]. destruct f, g, v, i, r; simpl; intro H; try discriminate H. reflexivity.
Qed.

(* hence the copy is equal to the original, with the same string, whenever only declared fields are stored *)
Lemma pickle_pol_eq num_str str_repr enum_vrepr sp c undef x :
  state_policy_safe sp = true -> pickle_safe c x = true ->
  exists y, pickle_rt_pol sp c x = Some y /\
            inst_eq c undef y x = true /\ inst_eq c undef x y = true /\
            inst_str num_str str_repr enum_vrepr y = inst_str num_str str_repr enum_vrepr x.
Proof.
  intros S P. exists (pickle_rt c x). split; [exact (pickle_rt_pol_safe sp c x S) |].
  exact (pickle_eq num_str str_repr enum_vrepr c undef x P).
Qed.

(* a __getstate__ that keeps only truthy values loses a stored 0 *)
Definition gs_class : classdef :=
  {| c_name := s2p "A"; c_ancestors := [];
     c_fields := [{| fd_name := s2p "n"; fd_field := FNumber KNumber SAny no_numc; fd_immutable := false; fd_default := None |}];
     c_required := [s2p "n"]; c_additional := false; c_ignore_none := false; c_immutable := false; c_hook := HookNone |}.

Lemma getstate_truthy_refuted :
  exists x y, pickle_safe gs_class x = true /\
              pickle_rt_pol {| sp_fields := GsAllFields; sp_filter := GsTruthy; sp_value := GsFieldValue;
                               sp_internal := GsNonesKept; sp_restore := GsRestoreInstantiated |} gs_class x = Some y /\
              inst_eq gs_class true y x = false.
Proof.
  exists {| i_cls := s2p "A"; i_attrs := [(s2p "n", PNum (NInt 0))]; i_nones := Some []; i_live := true |}.
  eexists. split; [vm_compute; reflexivity |]. split; [reflexivity |]. vm_compute. reflexivity.
Qed.

(* a state without `_none_fields` loses the None-marked names (the unpickled copy is unequal to the original);
   rebuilding without __setstate__ loses `_instantiated` (the unpickled copy is not live: an immutable class
   accepts assignment, __validate__ no longer runs) *)
Lemma state_without_nones_refuted :
  exists x y, pickle_safe gs_class x = true /\
              pickle_rt_pol {| sp_fields := GsAllFields; sp_filter := GsInDict; sp_value := GsFieldValue;
                               sp_internal := GsNoInternal; sp_restore := GsRestoreInstantiated |} gs_class x = Some y /\
              inst_eq gs_class true y x = false.
Proof.
  exists {| i_cls := s2p "A"; i_attrs := []; i_nones := Some [s2p "n"]; i_live := true |}.
  eexists. split; [vm_compute; reflexivity |]. split; [reflexivity |]. vm_compute. reflexivity.
Qed.

Lemma default_restore_not_live :
  forall sp c x y, sp_restore sp = GsRestoreDefault -> pickle_rt_pol sp c x = Some y -> i_live y = false.
Proof.
  intros sp c x y R. unfold pickle_rt_pol, restored_internals. rewrite R.
  destruct (sp_fields sp), (sp_value sp), (sp_internal sp), (sp_filter sp); intro H; inversion H; reflexivity.
Qed.

Lemma safe_restore_live :
  forall sp c x y, state_policy_safe sp = true -> pickle_rt_pol sp c x = Some y ->
                   i_live y = true /\ nones_list y = nones_list x.
Proof.
  intros sp c x y S H. rewrite (pickle_rt_pol_safe sp c x S) in H. inversion H. split; reflexivity.
Qed.
