(* The pickle round trip under the __getstate__ policy read from the source. *)
From Coq Require Import String.
From Coq Require Import ZArith NArith Bool List.
Import ListNotations.
From TP Require Import Base.PyVal Fields.FieldAst Fields.SetChain Struct.Shapes Struct.Instance Struct.EqHash Struct.EqHashProofs Struct.StatePolicy.

(* a policy that keeps every declared name present in __dict__ is the round trip of Struct/EqHash.v *)
Lemma pickle_rt_pol_safe sp c x :
  state_policy_safe sp = true -> pickle_rt_pol sp c x = Some (pickle_rt c x).
Proof.
  destruct sp as [f g v]. destruct f, g, v; simpl; intro H; try discriminate H. reflexivity.
Qed.

(* hence the copy is equal to the original, with the same string, whenever only declared fields are stored
   and no name is None-marked *)
Lemma pickle_pol_eq num_str str_repr enum_vrepr sp c undef x :
  state_policy_safe sp = true -> pickle_safe c x = true ->
  exists y, pickle_rt_pol sp c x = Some y /\
            inst_eq c undef y x = true /\ inst_eq c undef x y = true /\
            inst_str num_str str_repr enum_vrepr y = inst_str num_str str_repr enum_vrepr x.
Proof.
  intros S P. exists (pickle_rt c x). split; [exact (pickle_rt_pol_safe sp c x S) |].
  exact (pickle_eq num_str str_repr enum_vrepr c undef x P).
Qed.

(* a __getstate__ that keeps only truthy values loses a stored 0 *)
Definition gs_class : classdef :=
  {| c_name := s2p "A"; c_ancestors := [];
     c_fields := [{| fd_name := s2p "n"; fd_field := FNumber KNumber SAny no_numc; fd_immutable := false; fd_default := None |}];
     c_required := [s2p "n"]; c_additional := false; c_ignore_none := false; c_immutable := false; c_hook := HookNone |}.

Lemma getstate_truthy_refuted :
  exists x y, pickle_safe gs_class x = true /\
              pickle_rt_pol {| sp_fields := GsAllFields; sp_filter := GsTruthy; sp_value := GsFieldValue |} gs_class x = Some y /\
              inst_eq gs_class true y x = false.
Proof.
  exists {| i_cls := s2p "A"; i_attrs := [(s2p "n", PNum (NInt 0))]; i_nones := Some []; i_live := true |}.
  eexists. split; [vm_compute; reflexivity |]. split; [reflexivity |]. vm_compute. reflexivity.
Qed.
