(* The entry-site table as GENERATED from /repo's working tree (Gen/EntrySites.v): re-checked by the
   kernel on every run.  A source edit that makes some validating entry point return an instance by
   another route than the validating constructor / the recognised copy idioms turns its row unsafe and
   this lemma stops type-checking; Struct/EntrySitesProofs.v (sites_characterisation) then says which
   concrete input the parametric model gets wrong. *)
From Coq Require Import List ZArith Bool NArith String. Import ListNotations.
From TP Require Import Base.PyVal Struct.Entry Struct.EntrySites Gen.EntrySites.

Lemma entry_sites_today : sites_ok entry_sites default_unpickle = true.
Proof. vm_compute. reflexivity. Qed.
