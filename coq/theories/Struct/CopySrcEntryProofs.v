(* The copy entry points of C01 (Struct/Entry.v ECopy / EDeepCopy / EPickle: the rows `__copy__`, `__deepcopy__`,
   `__getstate__` of Gen/EntrySites.v) on GENERATED text: Gen/EqHashSrc.v (py2v_eqhash) translates Structure.__copy__,
   __deepcopy__, __getstate__ / __setstate__, and Struct/EqHashSrcProofs.v proves them equal to copy_inst /
   deepcopy_inst / pickle_rt of Struct/EqHash.v.  Here: the public part of those results IS what [run_entry] returns
   for the copy entries, for every class of the environment and every instance. *)
From Coq Require Import ZArith QArith NArith String Ascii Bool Lia List.
Import ListNotations.
From TP Require Import Base.PyVal Base.PyObj Base.PyOpsEqHash Fields.FieldAst Fields.SetChain Struct.Shapes
     Struct.Instance Struct.Entry Struct.EqHash Struct.StructGuardProofs Gen.EqHashSrc Struct.EqHashSrcProofs.
Local Open Scope Z_scope.

(* a constructed instance of the C01 model as an instance of the C11 model: live, with an empty `_none_fields` *)
Definition inst_of (cn : pystr) (a : attrs) : inst := {| i_cls := cn; i_attrs := a; i_nones := Some []; i_live := true |}.
(* what C01 sees of an instance: its class and its public attributes *)
Definition inst_public (x : inst) : pyval := PStruct (i_cls x) (i_attrs x).

Section CopyEntries.
  Variable re_match : N -> pystr -> bool.
  Variable e : env.
  Variable W : world.

  Theorem generated_copy_is_entry : forall cd a t,
      find_class e (c_name cd) = Some cd -> keys_ok (inst_of (c_name cd) a) = true ->
      exists y, Src_Structure_copy W (inst_obj (inst_of (c_name cd) a) t) = Ok (inst_obj y t) /\
                run_entry re_match e (PStruct (c_name cd) a) ECopy = Ok (inst_public y).
  Proof.
    intros cd a t Hd K. exists (copy_inst (inst_of (c_name cd) a)). split.
    - exact (Src_copy_is_copy_inst W _ t K).
    - unfold run_entry, entry_plan, with_instance, with_class. rewrite Hd. reflexivity.
  Qed.

  Theorem generated_deepcopy_is_entry : forall cd a t memo,
      find_class e (c_name cd) = Some cd -> keys_ok (inst_of (c_name cd) a) = true ->
      alist_has a n_skip_validation = false ->
      class_field (w_heap W) (c_name cd) n_immutable = None ->
      exists y, Src_Structure_deepcopy W (inst_obj (inst_of (c_name cd) a) t) memo = Ok (inst_obj y t) /\
                run_entry re_match e (PStruct (c_name cd) a) EDeepCopy = Ok (inst_public y).
  Proof.
    intros cd a t memo Hd K NS CF. exists (deepcopy_inst (inst_of (c_name cd) a)). split.
    - exact (Src_deepcopy_is_deepcopy_inst W _ t memo K NS CF).
    - rewrite deepcopy_inst_id. unfold run_entry, entry_plan, with_instance, with_class. rewrite Hd. reflexivity.
  Qed.

  (* the pickle round trip: the model's EPickle is [pickle_rt] (whose tie to the generated __getstate__ / __setstate__ is
     C11_src_getstate / C11_src_setstate / C11_src_unpickle) *)
  Theorem pickle_entry_is_pickle_rt : forall cd a,
      find_class e (c_name cd) = Some cd ->
      run_entry re_match e (PStruct (c_name cd) a) EPickle = Ok (inst_public (pickle_rt cd (inst_of (c_name cd) a))).
  Proof.
    intros cd a Hd. unfold run_entry, entry_plan, with_instance, with_class. rewrite Hd.
    unfold inst_public, pickle_rt, inst_of. cbn [i_cls i_attrs]. f_equal. f_equal.
    apply filter_ext. intro p. apply in_field_names.
  Qed.
End CopyEntries.

Print Assumptions generated_copy_is_entry.
Print Assumptions generated_deepcopy_is_entry.
Print Assumptions pickle_entry_is_pickle_rt.
