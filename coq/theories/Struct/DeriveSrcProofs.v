(* The tie between the GENERATED translation of the derivation operators (Gen/DeriveSrc.v: what
   PartialMeta / AllFieldsRequiredMeta / ExtendMeta / OmitMeta / PickMeta.__getitem__, Structure.omit,
   Structure.pick, _init_class_dict and Structure.get_all_fields_by_name say NOW) and the hand-written model
   on which the C12 theorems are proved: Struct/Derive.v [derive_stmt].
   For EVERY source class description k, every other content of its class dict (pre / post), every class
   name and every name list: running the generated function on the Python-level view of k
   (Struct/DeriveSrcView.v [klass_heap], [class_arg], [sel_arg]) and reading the resulting
   `type(name, (Structure,), cls_dict)` request back as a class statement ([decode_newclass]) gives exactly
   [derive_stmt k op cname] -- the same statement, or the same exception. *)
From Coq Require Import ZArith NArith String Ascii Bool Lia List.
Import ListNotations.
From TP Require Import Base.PyVal Base.PyOps Base.PyOps2 Base.PyObj Base.PyOpsDerive
     Fields.FieldAst Fields.SetChain Struct.Define Struct.DefineProofs Struct.Derive
     Gen.DeriveSrc Struct.DeriveSrcView.

(* ------------------------------------------------------------------ dicts with str keys *)

Lemma py_eq_str a b : py_eq (PStr a) (PStr b) = pystr_eqb a b.
Proof. reflexivity. Qed.

Lemma skeys_app a b : skeys (a ++ b) = skeys a ++ skeys b.
Proof. apply map_app. Qed.

Lemma dict_get_skeys l n : dict_get (skeys l) (PStr n) = alist_get l n.
Proof.
  induction l as [|[k v] t IH]; [reflexivity|].
  cbn [skeys map fst snd dict_get alist_get]. rewrite py_eq_str. destruct (pystr_eqb k n); [reflexivity|exact IH].
Qed.

Lemma dict_set_skeys l n v : dict_set (skeys l) (PStr n) v = skeys (alist_set l n v).
Proof.
  induction l as [|[k x] t IH]; [reflexivity|].
  cbn [skeys map fst snd dict_set alist_set]. rewrite py_eq_str.
  destruct (pystr_eqb k n); [reflexivity|]. cbn [map fst snd]. f_equal. exact IH.
Qed.

Lemma py_setitem_skeys l n v : py_setitem (PDict (skeys l)) (PStr n) v = Ok (PDict (skeys (alist_set l n v))).
Proof. cbn [py_setitem py_hashable']. rewrite dict_set_skeys. reflexivity. Qed.

Lemma py_in_dyn_skeys n l : py_in_dyn (PStr n) (PDict (skeys l)) = Ok (alist_has l n).
Proof. cbn [py_in_dyn py_hashable']. unfold dict_has, alist_has. rewrite dict_get_skeys. reflexivity. Qed.

Lemma py_subscript_skeys l n :
  py_subscript (PDict (skeys l)) (PStr n) = match alist_get l n with Some v => Ok v | None => Raise KeyError end.
Proof. cbn [py_subscript]. unfold py_dict_getitem. cbn [py_hashable']. rewrite dict_get_skeys. reflexivity. Qed.

Lemma py_dict_items_skeys l :
  py_dict_items (PDict (skeys l)) = Ok (map (fun p => PTuple [PStr (fst p); snd p]) l).
Proof. cbn [py_dict_items]. unfold skeys. rewrite map_map. reflexivity. Qed.

Lemma py_in_strs n ns : py_in (PStr n) (map PStr ns) = str_in n ns.
Proof.
  unfold py_in, str_in. induction ns as [|x t IH]; [reflexivity|].
  cbn [map existsb]. rewrite py_eq_str, IH. reflexivity.
Qed.

Lemma py_in_names n b ns : py_in_dyn (PStr n) (names_arg b ns) = Ok (str_in n ns).
Proof. destruct b; cbn [names_arg py_in_dyn]; unfold py_in_lit; rewrite py_in_strs; reflexivity. Qed.

Lemma py_in_tuple n ns : py_in_dyn (PStr n) (PTuple (map PStr ns)) = Ok (str_in n ns).
Proof. exact (py_in_names n false ns). Qed.

Lemma decode_names_strs l : decode_names (map PStr l) = Some l.
Proof. induction l as [|x t IH]; [reflexivity|]. cbn [map decode_names]. rewrite IH. reflexivity. Qed.

(* ------------------------------------------------------------------ association lists *)

Lemma alist_get_app {A} (a b : list (pystr * A)) n :
  alist_get (a ++ b) n = match alist_get a n with Some v => Some v | None => alist_get b n end.
Proof.
  induction a as [|[k v] t IH]; [reflexivity|].
  cbn [app alist_get]. destruct (pystr_eqb k n); [reflexivity|exact IH].
Qed.

Lemma alist_set_same_val {A} (l : list (pystr * A)) n v : alist_get l n = Some v -> alist_set l n v = l.
Proof.
  induction l as [|[k x] t IH]; cbn [alist_get alist_set]; [discriminate|].
  destruct (pystr_eqb k n) eqn:E.
  - intro H. inversion H; subst. apply pystr_eqb_spec in E. reflexivity.
  - intro H. f_equal. apply IH. exact H.
Qed.

Lemma alist_set_fresh {A} (l : list (pystr * A)) n v : alist_has l n = false -> alist_set l n v = l ++ [(n, v)].
Proof.
  intro H. apply alist_set_absent. intro Hin. apply alist_has_In in Hin. congruence.
Qed.

(* replacing the entry in the middle *)
Lemma alist_set_mid {A} (a b : list (pystr * A)) n x y :
  alist_has a n = false -> alist_set (a ++ (n, x) :: b) n y = a ++ (n, y) :: b.
Proof.
  induction a as [|[k v] t IH]; cbn [app alist_set]; intro H.
  - rewrite pystr_eqb_refl. reflexivity.
  - unfold alist_has in H. cbn [alist_get] in H. destruct (pystr_eqb k n) eqn:E; [discriminate|].
    f_equal. apply IH. exact H.
Qed.

Lemma alist_has_app {A} (a b : list (pystr * A)) n : alist_has (a ++ b) n = alist_has a n || alist_has b n.
Proof. unfold alist_has. rewrite alist_get_app. destruct (alist_get a n); reflexivity. Qed.

Lemma filter_all {A} (p : A -> bool) l : forallb p l = true -> filter p l = l.
Proof.
  induction l as [|x t IH]; cbn [forallb filter]; [reflexivity|]. intro H.
  apply andb_true_iff in H as [H1 H2]. rewrite H1. f_equal. auto.
Qed.

Lemma filter_filter {A} (p q : A -> bool) l : filter p (filter q l) = filter (fun x => q x && p x) l.
Proof.
  induction l as [|x t IH]; [reflexivity|]. cbn [filter]. destruct (q x); cbn [filter andb].
  - destruct (p x); [f_equal|]; exact IH.
  - exact IH.
Qed.

Lemma filter_map_fst {A} (p : pystr -> bool) (l : list (pystr * A)) :
  map fst (filter (fun nm => p (fst nm)) l) = filter p (map fst l).
Proof.
  induction l as [|[n m] t IH]; [reflexivity|]. cbn [filter map fst]. destruct (p n); cbn [map fst]; [f_equal|]; exact IH.
Qed.

Lemma filter_map {A B} (f : A -> B) (p : B -> bool) l : filter p (map f l) = map f (filter (fun x => p (f x)) l).
Proof.
  induction l as [|x t IH]; [reflexivity|]. cbn [filter map]. destruct (p (f x)); cbn [map]; [f_equal|]; exact IH.
Qed.

(* filtering commutes with order-preserving de-duplication *)
Lemma filter_dedup_str p l : filter p (dedup_str l) = dedup_str (filter p l).
Proof.
  induction l as [|x t IH]; [reflexivity|]. cbn [dedup_str filter].
  destruct (p x) eqn:Hp; cbn [dedup_str].
  - f_equal. rewrite <- IH, !filter_filter. apply filter_ext. intro y. apply andb_comm.
  - rewrite <- IH, filter_filter. apply filter_ext. intro y.
    destruct (pystr_eqb y x) eqn:E; cbn [negb andb]; [|reflexivity].
    apply pystr_eqb_spec in E; subst. symmetry; exact Hp.
Qed.

(* ------------------------------------------------------------------ loops *)

Fixpoint afoldM {S A} (g : S -> A -> res S) (l : list A) (s : S) : res S :=
  match l with
  | [] => Ok s
  | x :: t => s' <- g s x ;; afoldM g t s'
  end.

Lemma afoldM_app {S A} (g : S -> A -> res S) a b s : afoldM g (a ++ b) s = (x <- afoldM g a s ;; afoldM g b x).
Proof.
  revert s. induction a as [|x t IH]; intro s; [reflexivity|].
  cbn [app afoldM]. destruct (g s x); cbn [bind]; [apply IH|reflexivity].
Qed.

Lemma afoldM_ok {S A} (g : S -> A -> S) l s :
  afoldM (fun s x => Ok (g s x)) l s = Ok (fold_left g l s).
Proof. revert s. induction l as [|x t IH]; intro s; [reflexivity|]. cbn [afoldM bind fold_left]. apply IH. Qed.

Definition dict_of (a : list (pystr * pyval)) : pyval := PDict (skeys a).
Definition item_of (p : pystr * pyval) : pyval := PTuple [PStr (fst p); snd p].

(* for n, v in <dict>.items():  the loop state is a dict with str keys *)
Lemma foldM_items (f : pyval -> pyval -> res pyval) g l :
  (forall acc p, In p l -> f (dict_of acc) (item_of p) = (a <- g acc p ;; Ok (dict_of a))) ->
  forall acc, py_foldM f (map item_of l) (dict_of acc) = (a <- afoldM g l acc ;; Ok (dict_of a)).
Proof.
  induction l as [|p t IH]; intros H acc; [reflexivity|].
  cbn [map py_foldM afoldM]. rewrite (H acc p (or_introl eq_refl)).
  destruct (g acc p) as [a|x]; cbn [bind]; [|reflexivity].
  apply IH. intros acc' p' Hin. apply H. right. exact Hin.
Qed.

(* for n in <names>:  the same, over a sequence of str *)
Lemma foldM_names (f : pyval -> pyval -> res pyval) g ns :
  (forall acc n, f (dict_of acc) (PStr n) = (a <- g acc n ;; Ok (dict_of a))) ->
  forall acc, py_foldM f (map PStr ns) (dict_of acc) = (a <- afoldM g ns acc ;; Ok (dict_of a)).
Proof.
  intro H. induction ns as [|n t IH]; intro acc; [reflexivity|].
  cbn [map py_foldM afoldM]. rewrite H. destruct (g acc n) as [a|x]; cbn [bind]; [apply IH|reflexivity].
Qed.

(* a loop that only checks *)
Lemma foldM_check (f : pyval -> pyval -> res pyval) (c : pystr -> bool) x ns :
  (forall n, f PNone (PStr n) = if c n then Ok PNone else Raise x) ->
  py_foldM f (map PStr ns) PNone = if forallb c ns then Ok PNone else Raise x.
Proof.
  intro H. induction ns as [|n t IH]; [reflexivity|].
  cbn [map py_foldM forallb]. rewrite H. destruct (c n); cbn [bind andb]; [exact IH|reflexivity].
Qed.

Lemma filterM_names (c : pyval -> res bool) (p : pystr -> bool) l :
  (forall n, c (PStr n) = Ok (p n)) -> py_filterM c (map PStr l) = Ok (map PStr (filter p l)).
Proof.
  intro H. induction l as [|x t IH]; [reflexivity|].
  cbn [map py_filterM filter]. rewrite H, IH. cbn [bind]. destruct (p x); reflexivity.
Qed.

(* ------------------------------------------------------------------ pure folds over association lists *)

(* d[n] = v for the selected entries, all new and distinct: they are appended in order *)
Lemma fold_set_filter (p : pystr -> bool) (l acc : list (pystr * pyval)) :
  NoDup (map fst l) -> (forall n, In n (map fst l) -> alist_has acc n = false) ->
  fold_left (fun a nv => if p (fst nv) then alist_set a (fst nv) (snd nv) else a) l acc =
  acc ++ filter (fun nv => p (fst nv)) l.
Proof.
  revert acc. induction l as [|[n v] t IH]; intros acc Hnd Hfr; cbn [fold_left filter fst snd].
  - rewrite app_nil_r. reflexivity.
  - cbn [map fst] in Hnd, Hfr. inversion Hnd as [|? ? Hn Hd]; subst.
    destruct (p n).
    + rewrite alist_set_fresh by (apply Hfr; left; reflexivity).
      rewrite IH; [rewrite <- app_assoc; reflexivity | exact Hd |].
      intros x Hx. rewrite alist_has_app. rewrite (Hfr x (or_intror Hx)). cbn [orb].
      unfold alist_has. cbn [alist_get]. destruct (pystr_eqb n x) eqn:E; [|reflexivity].
      apply pystr_eqb_spec in E; subst. contradiction.
    + apply IH; [exact Hd|]. intros x Hx. apply Hfr. right. exact Hx.
Qed.

(* d[n] = F n over a list of names with repetitions: first occurrences, in order *)
Lemma fold_set_dedup (F : pystr -> pyval) ns : forall acc,
  (forall n, In n ns -> alist_get acc n = None \/ alist_get acc n = Some (F n)) ->
  fold_left (fun a n => alist_set a n (F n)) ns acc =
  acc ++ map (fun n => (n, F n)) (dedup_str (filter (fun n => negb (alist_has acc n)) ns)).
Proof.
  induction ns as [|x t IH]; intros acc H; cbn [fold_left filter].
  - cbn [dedup_str map]. rewrite app_nil_r. reflexivity.
  - destruct (alist_has acc x) eqn:Hx; cbn [negb].
    + destruct (H x (or_introl eq_refl)) as [Hg|Hg]; [unfold alist_has in Hx; rewrite Hg in Hx; discriminate|].
      rewrite (alist_set_same_val _ _ _ Hg). apply IH. intros n Hn. apply H. right. exact Hn.
    + rewrite (alist_set_fresh _ _ _ Hx). rewrite IH.
      * cbn [dedup_str map]. rewrite <- app_assoc. cbn [app]. do 3 f_equal.
        rewrite filter_dedup_str, filter_filter. f_equal. apply filter_ext. intro y.
        rewrite alist_has_app. unfold alist_has at 2. cbn [alist_get].
        rewrite (pystr_eqb_sym x y). destruct (alist_has acc y), (pystr_eqb y x); reflexivity.
      * intros n Hn. rewrite alist_get_app. cbn [alist_get].
        destruct (H n (or_intror Hn)) as [Hg|Hg]; rewrite Hg; [|right; reflexivity].
        destruct (pystr_eqb x n) eqn:E; [apply pystr_eqb_spec in E; subst; right; reflexivity | left; reflexivity].
Qed.

(* ------------------------------------------------------------------ the heap of a class *)

Section Heap.
  Variable k : klass.
  Variable inh : option bool.
  Variable eu : option bool.
  Variables pre post : list (pystr * pyval).
  Notation h := (klass_heap k inh eu pre post).

  Lemma getattr_ref (hh : heap) n a :
    obj_getattr hh (ref n) a = match hh n a with Some v => Ok v | None => Raise AttributeError end.
  Proof. reflexivity. Qed.

  Lemma getattr_def_ref (hh : heap) n a d :
    obj_getattr_def hh (ref n) a d = Ok (match hh n a with Some v => v | None => d end).
  Proof. reflexivity. Qed.

  Lemma heap_isinstance : obj_isinstance h (ref o_clazz) (s2p "StructMeta") = Ok (k_is_struct k).
  Proof. unfold obj_isinstance, ref. change (pystr_eqb ref_tag ref_tag) with true. cbv iota.
         change (h o_clazz (isinstance_attr (s2p "StructMeta"))) with (Some (PBool (k_is_struct k))).
         reflexivity. Qed.

  Lemma heap_name : obj_getattr h (ref o_clazz) (s2p "__name__") = Ok (PStr (k_name k)).
  Proof. reflexivity. Qed.

  Lemma heap_dict : obj_getattr h (ref o_clazz) (s2p "__dict__") = Ok (dict_of (own_dict k pre post)).
  Proof. reflexivity. Qed.

  Lemma heap_field_by_name : obj_getattr h (ref o_clazz) (s2p "_field_by_name") = Ok (dict_of (field_by_name k)).
  Proof. reflexivity. Qed.

  Lemma heap_required : obj_getattr h (ref o_clazz) (s2p "_required") = Ok (dv_names (k_required k)).
  Proof. reflexivity. Qed.

  Lemma heap_required_def d :
    obj_getattr_def h (ref o_clazz) (s2p "_required") d = Ok (dv_names (k_required k)).
  Proof. reflexivity. Qed.

  Lemma strip_fld n : strip_prefix fld_prefix (fld_obj n) = Some n.
  Proof. reflexivity. Qed.

  (* hasattr(clazz, "_ignore_none") / clazz._ignore_none: the own or the inherited setting *)
  Lemma heap_has_ignore :
    obj_hasattr h (ref o_clazz) (s2p "_ignore_none") =
    Ok (match effective_ignore_none inh k with Some _ => true | None => false end).
  Proof.
    unfold obj_hasattr, ref. change (pystr_eqb ref_tag ref_tag) with true. cbv iota.
    change (h o_clazz (s2p "_ignore_none")) with
      (match effective_ignore_none inh k with Some b => Some (PBool b) | None => None end).
    destruct (effective_ignore_none inh k); reflexivity.
  Qed.

  Lemma heap_get_ignore b :
    effective_ignore_none inh k = Some b -> obj_getattr h (ref o_clazz) (s2p "_ignore_none") = Ok (PBool b).
  Proof.
    intro H. rewrite getattr_ref.
    change (h o_clazz (s2p "_ignore_none")) with
      (match effective_ignore_none inh k with Some b => Some (PBool b) | None => None end).
    rewrite H. reflexivity.
  Qed.

  (* hasattr(clazz, "_enable_undefined_value") / clazz._enable_undefined_value *)
  Lemma heap_has_undefined :
    obj_hasattr h (ref o_clazz) (s2p "_enable_undefined_value") =
    Ok (match eu with Some _ => true | None => false end).
  Proof.
    unfold obj_hasattr, ref. change (pystr_eqb ref_tag ref_tag) with true. cbv iota.
    change (h o_clazz (s2p "_enable_undefined_value")) with
      (match eu with Some b => Some (PBool b) | None => None end).
    destruct eu; reflexivity.
  Qed.

  Lemma heap_get_undefined b :
    eu = Some b -> obj_getattr h (ref o_clazz) (s2p "_enable_undefined_value") = Ok (PBool b).
  Proof.
    intro H. rewrite getattr_ref.
    change (h o_clazz (s2p "_enable_undefined_value")) with
      (match eu with Some b => Some (PBool b) | None => None end).
    rewrite H. reflexivity.
  Qed.

  (* getattr(v, "_default", None): a Constant has no _default *)
  Lemma heap_default n :
    obj_getattr_def h (fld_ref n) (s2p "_default") PNone =
    Ok (match alist_get (k_all k) n with
        | Some (MField f) => default_view (fo_default f)
        | _ => PNone
        end).
  Proof.
    unfold fld_ref. rewrite getattr_def_ref.
    change (h (fld_obj n) (s2p "_default")) with
      (match alist_get (k_all k) n with Some (MField f) => Some (default_view (fo_default f)) | _ => None end).
    destruct (alist_get (k_all k) n) as [[f|v]|]; reflexivity.
  Qed.

  Lemma decode_fld n : decode_member k (fld_ref n) = alist_get (k_all k) n.
  Proof. reflexivity. Qed.
End Heap.

Lemma setitem_dict a n v : py_setitem (dict_of a) (PStr n) v = Ok (dict_of (alist_set a n v)).
Proof. apply py_setitem_skeys. Qed.
Lemma in_dict n a : py_in_dyn (PStr n) (dict_of a) = Ok (alist_has a n).
Proof. apply py_in_dyn_skeys. Qed.
Lemma subscript_dict a n :
  py_subscript (dict_of a) (PStr n) = match alist_get a n with Some v => Ok v | None => Raise KeyError end.
Proof. apply py_subscript_skeys. Qed.
Lemma items_dict a : py_dict_items (dict_of a) = Ok (map item_of a).
Proof. apply py_dict_items_skeys. Qed.

(* ------------------------------------------------------------------ _init_class_dict, get_all_fields_by_name *)

Definition copy_step (acc : list (pystr * pyval)) (p : pystr * pyval) : list (pystr * pyval) :=
  if str_in (fst p) included_attrs then alist_set acc (fst p) (snd p) else acc.

Lemma include_set :
  py_set_display [PStr (s2p "_fields"); PStr (s2p "_defaults")] =
  Ok (PSet false (map PStr included_attrs)).
Proof. reflexivity. Qed.

Lemma in_included n : py_in_dyn (PStr n) (PSet false (map PStr included_attrs)) = Ok (str_in n included_attrs).
Proof. cbn [py_in_dyn]. unfold py_in_hashed. cbn [py_hashable']. rewrite py_in_strs. reflexivity. Qed.

Lemma copy_others l acc : others_ok l = true -> fold_left copy_step l acc = acc.
Proof.
  revert acc. induction l as [|[n v] t IH]; intros acc H; [reflexivity|].
  cbn [others_ok forallb fst] in H. apply andb_true_iff in H as [H1 H2]. apply negb_true_iff in H1.
  cbn [fold_left]. unfold copy_step at 2. cbn [fst snd]. rewrite H1. apply IH. exact H2.
Qed.

Lemma copy_core k : fold_left copy_step (own_core k) [] = own_core k.
Proof. reflexivity. Qed.

Lemma core_no_ignore k : alist_has (own_core k) n_ignore_none = false.
Proof. reflexivity. Qed.

Section Common.
  Variable k : klass.
  Variable inh : option bool.
  Variable eu : option bool.
  Variables pre post : list (pystr * pyval).
  Hypothesis Hpre : others_ok pre = true.
  Hypothesis Hpost : others_ok post = true.
  Notation h := (klass_heap k inh eu pre post).
  Notation ign := (effective_ignore_none inh k).

  (* _init_class_dict(clazz): exactly "_fields", and "_ignore_none" when the class has the attribute -- set by
     its own body or inherited *)
  Lemma init_class_dict_src : init_class_dict h (ref o_clazz) = Ok (dict_of (init_core k ign eu)).
  Proof.
    unfold init_class_dict. rewrite include_set. cbn [bind]. rewrite heap_dict. cbn [bind].
    rewrite items_dict. cbn [bind]. change (PDict []) with (dict_of []).
    rewrite (foldM_items _ (fun acc p => Ok (copy_step acc p))).
    - rewrite afoldM_ok. cbn [bind]. unfold own_dict. rewrite !fold_left_app.
      rewrite (copy_others pre) by exact Hpre. rewrite copy_core. rewrite (copy_others post) by exact Hpost.
      rewrite heap_has_ignore. unfold init_core. destruct ign as [b|] eqn:Ei; cbn [bind].
      + rewrite (heap_get_ignore k inh eu pre post b Ei). cbn [bind].
        change (PStr (s2p "_ignore_none")) with (PStr n_ignore_none). rewrite setitem_dict. cbn [bind].
        rewrite (alist_set_fresh _ _ _ (core_no_ignore k)).
        rewrite heap_has_undefined. destruct eu as [c|] eqn:Eu; cbn [bind].
        * rewrite (heap_get_undefined k inh (Some c) pre post c eq_refl). cbn [bind].
          change (PStr (s2p "_enable_undefined_value")) with (PStr n_enable_undefined). rewrite setitem_dict.
          reflexivity.
        * rewrite app_nil_r. reflexivity.
      + rewrite heap_has_undefined. destruct eu as [c|] eqn:Eu; cbn [bind].
        * rewrite (heap_get_undefined k inh (Some c) pre post c eq_refl). cbn [bind].
          change (PStr (s2p "_enable_undefined_value")) with (PStr n_enable_undefined). rewrite setitem_dict.
          reflexivity.
        * reflexivity.
    - intros acc [n v] _. unfold item_of. cbn [fst snd py_unpack py_iter_items bind length Nat.eqb].
      rewrite in_included. cbn [bind]. unfold copy_step. cbn [fst snd].
      destruct (str_in n included_attrs); [rewrite setitem_dict|]; reflexivity.
  Qed.

  Lemma get_all_fields_src : Structure_get_all_fields_by_name h (ref o_clazz) = Ok (dict_of (field_by_name k)).
  Proof. unfold Structure_get_all_fields_by_name. rewrite heap_field_by_name. reflexivity. Qed.
End Common.

(* ------------------------------------------------------------------ names *)

Definition reserved (n : pystr) : bool :=
  pystr_eqb n n_required || pystr_eqb n n_ignore_none || pystr_eqb n n_fields || pystr_eqb n n_enable_undefined.

Lemma reserved_us n : match n with a :: _ => N.eqb a us | [] => false end = false -> reserved n = false.
Proof.
  unfold reserved.
  change n_required with (us :: s2p "required"). change n_ignore_none with (us :: s2p "ignore_none").
  change n_fields with (us :: s2p "fields"). change n_enable_undefined with (us :: s2p "enable_undefined_value").
  destruct n as [|a t]; [reflexivity|]. intro H. cbn [pystr_eqb]. rewrite H. reflexivity.
Qed.

Lemma not_bad_not_reserved n : bad_field_name n = false -> reserved n = false.
Proof. unfold bad_field_name. intro H. apply orb_false_iff in H as [H _]. apply reserved_us. exact H. Qed.

Lemma reserved_spec n :
  reserved n = false ->
  pystr_eqb n_required n = false /\ pystr_eqb n_ignore_none n = false /\ pystr_eqb n_fields n = false.
Proof.
  unfold reserved. intro H. apply orb_false_iff in H as [H _]. apply orb_false_iff in H as [H H3].
  apply orb_false_iff in H as [H1 H2].
  rewrite (pystr_eqb_sym n_required), (pystr_eqb_sym n_ignore_none), (pystr_eqb_sym n_fields). auto.
Qed.

Lemma reserved_undefined n : reserved n = false -> pystr_eqb n_enable_undefined n = false.
Proof.
  unfold reserved. intro H. apply orb_false_iff in H as [_ H]. rewrite pystr_eqb_sym. exact H.
Qed.

Lemma core_fresh k ign eu n : reserved n = false -> alist_has (init_core k ign eu) n = false.
Proof.
  intro H. pose proof (reserved_undefined n H) as H4.
  apply reserved_spec in H as [_ [H2 H3]]. unfold init_core, own_core, alist_has.
  destruct ign; destruct eu; cbn [app alist_get]; rewrite H3, ?H2, ?H4; reflexivity.
Qed.

Lemma src_ok_spec k :
  src_ok k = true ->
  k_is_struct k = true /\ NoDup (field_names k) /\ (forall n, In n (field_names k) -> reserved n = false).
Proof.
  unfold src_ok. intro H. apply andb_true_iff in H as [H H3]. apply andb_true_iff in H as [H1 H2].
  split; [exact H1|]. split.
  - apply has_dup_false_NoDup. apply negb_true_iff. exact H2.
  - intros n Hn. rewrite forallb_forall in H3. apply not_bad_not_reserved. apply negb_true_iff. apply H3. exact Hn.
Qed.

(* ------------------------------------------------------------------ the entries of the Field objects *)

Definition fld_entries (ns : list pystr) : list (pystr * pyval) := map (fun n => (n, fld_ref n)) ns.

Lemma field_by_name_entries k : field_by_name k = fld_entries (field_names k).
Proof. unfold field_by_name, fld_entries, field_names. rewrite map_map. reflexivity. Qed.

Lemma fld_entries_names ns : map fst (fld_entries ns) = ns.
Proof. unfold fld_entries. rewrite map_map. cbn [fst]. apply map_id. Qed.

Lemma fld_entries_filter p ns : filter (fun nv => p (fst nv)) (fld_entries ns) = fld_entries (filter p ns).
Proof. unfold fld_entries. rewrite filter_map. reflexivity. Qed.

Lemma fld_entries_get k n :
  alist_get (field_by_name k) n = if alist_has (k_all k) n then Some (fld_ref n) else None.
Proof.
  unfold field_by_name, alist_has. induction (k_all k) as [|[x m] t IH]; [reflexivity|].
  cbn [map fst alist_get]. destruct (pystr_eqb x n) eqn:E; [|exact IH].
  apply pystr_eqb_spec in E; subst. reflexivity.
Qed.

Definition members_of (k : klass) (ns : list pystr) : members :=
  flat_map (fun n => match alist_get (k_all k) n with Some m => [(n, m)] | None => [] end) ns.

Lemma members_of_sub k (l : members) :
  NoDup (field_names k) -> (forall nm, In nm l -> In nm (k_all k)) -> members_of k (map fst l) = l.
Proof.
  intros Hnd. induction l as [|[n m] t IH]; intro H; [reflexivity|].
  cbn [map fst members_of flat_map]. rewrite (In_alist_get_NoDup (k_all k) n m Hnd (H _ (or_introl eq_refl))).
  cbn [app]. f_equal. apply IH. intros nm Hin. apply H. right. exact Hin.
Qed.

Lemma members_of_all k : NoDup (field_names k) -> members_of k (field_names k) = k_all k.
Proof. intro Hnd. apply (members_of_sub k (k_all k) Hnd). auto. Qed.

Lemma members_of_filter k p :
  NoDup (field_names k) -> members_of k (filter p (field_names k)) = filter (fun nm => p (fst nm)) (k_all k).
Proof.
  intro Hnd. unfold field_names. rewrite <- filter_map_fst. apply (members_of_sub k _ Hnd).
  intros nm Hin. apply filter_In in Hin. tauto.
Qed.

(* ------------------------------------------------------------------ reading the class dict back *)

Definition stmt_of (name : pystr) (d : dec) : classstmt :=
  {| s_name := name; s_bases := [n_Structure]; s_members := as_objs (dc_members d);
     s_required := dc_required d; s_optional := None; s_additional := None;
     s_ignore_none := dc_ignore d; s_attrs := undefined_attrs (dc_undefined d); s_keys_of := [] |}.

Lemma decode_newclass_eq k name entries :
  decode_newclass k (new_class (PStr name) (PTuple [ref (s2p "Structure")]) (dict_of entries)) =
  (d <- decode_entries k (skeys entries) ;; Ok (stmt_of name d)).
Proof. reflexivity. Qed.

Lemma stmt_of_eq name d ign eu ms req :
  dc_members d = ms -> dc_required d = Some req -> dc_ignore d = ign -> dc_undefined d = eu ->
  stmt_of name d = derived_stmt_eu name ign eu ms req.
Proof.
  intros H1 H2 H3 H4. unfold stmt_of, derived_stmt_eu, with_undefined, derived_stmt.
  cbn [s_name s_bases s_members s_required s_optional s_additional s_ignore_none s_attrs s_keys_of].
  rewrite H1, H2, H3, H4, app_nil_r. reflexivity.
Qed.

Definition with_ignore (o : option bool) (d : dec) : dec :=
  match o with Some b => dec_set_ignore b d | None => d end.
Definition with_undef (o : option bool) (d : dec) : dec :=
  match o with Some b => dec_set_undefined b d | None => d end.

Lemma decode_core k ign eu rest :
  decode_entries k (skeys (init_core k ign eu ++ rest)) =
  (r <- decode_entries k (skeys rest) ;; Ok (with_ignore ign (with_undef eu r))).
Proof.
  unfold init_core, own_core, with_ignore, with_undef. destruct ign as [b|]; destruct eu as [c|];
    cbn [app skeys map fst snd decode_entries];
    change (pystr_eqb n_fields n_required) with false; change (pystr_eqb n_fields n_ignore_none) with false;
    change (pystr_eqb n_fields n_enable_undefined) with false;
    change (pystr_eqb n_fields n_fields) with true;
    change (pystr_eqb n_ignore_none n_required) with false; change (pystr_eqb n_ignore_none n_ignore_none) with true;
    change (pystr_eqb n_enable_undefined n_required) with false;
    change (pystr_eqb n_enable_undefined n_ignore_none) with false;
    change (pystr_eqb n_enable_undefined n_enable_undefined) with true;
    cbv iota; fold (skeys rest); destruct (decode_entries k (skeys rest)); reflexivity.
Qed.

Lemma decode_required k l rest :
  decode_entries k (skeys ((n_required, dv_names l) :: rest)) =
  (r <- decode_entries k (skeys rest) ;; Ok (dec_set_required l r)).
Proof.
  cbn [skeys map fst snd decode_entries]. change (pystr_eqb n_required n_required) with true. cbv iota.
  unfold dv_names. rewrite decode_names_strs. reflexivity.
Qed.

Lemma decode_flds k ns rest :
  (forall n, In n ns -> reserved n = false) -> (forall n, In n ns -> alist_has (k_all k) n = true) ->
  decode_entries k (skeys (fld_entries ns ++ rest)) =
  (r <- decode_entries k (skeys rest) ;; Ok (fold_right dec_add_member r (members_of k ns))).
Proof.
  induction ns as [|n t IH]; intros Hr Hf.
  - cbn [fld_entries map app members_of flat_map fold_right]. destruct (decode_entries k (skeys rest)); reflexivity.
  - cbn [fld_entries map app skeys fst snd decode_entries]. fold (fld_entries t). fold (skeys (fld_entries t ++ rest)).
    rewrite IH; [| intros x Hx; apply Hr; right; exact Hx | intros x Hx; apply Hf; right; exact Hx].
    destruct (reserved_spec n (Hr n (or_introl eq_refl))) as [H1 [H2 H3]].
    pose proof (reserved_undefined n (Hr n (or_introl eq_refl))) as H4.
    rewrite (pystr_eqb_sym n n_required), (pystr_eqb_sym n n_ignore_none), (pystr_eqb_sym n n_fields),
            (pystr_eqb_sym n n_enable_undefined), H1, H2, H3, H4.
    rewrite decode_fld. cbn [members_of flat_map].
    pose proof (Hf n (or_introl eq_refl)) as Hn. unfold alist_has in Hn.
    destruct (alist_get (k_all k) n) as [m|]; [|discriminate].
    destruct (decode_entries k (skeys rest)); reflexivity.
Qed.

Lemma dc_members_fold r ms : dc_members (fold_right dec_add_member r ms) = ms ++ dc_members r.
Proof. induction ms as [|x t IH]; [reflexivity|]. cbn [fold_right dec_add_member dc_members app]. rewrite IH. reflexivity. Qed.
Lemma dc_required_fold r ms : dc_required (fold_right dec_add_member r ms) = dc_required r.
Proof. induction ms as [|x t IH]; [reflexivity|]. exact IH. Qed.
Lemma dc_ignore_fold r ms : dc_ignore (fold_right dec_add_member r ms) = dc_ignore r.
Proof. induction ms as [|x t IH]; [reflexivity|]. exact IH. Qed.
Lemma dc_undefined_fold r ms : dc_undefined (fold_right dec_add_member r ms) = dc_undefined r.
Proof. induction ms as [|x t IH]; [reflexivity|]. exact IH. Qed.

(* ------------------------------------------------------------------ small closed computations *)

Lemma tup2_len_ne a b : (t <- py_len (PTuple [a; b]) ;; py_ne t (zint 2)) = Ok false.
Proof. reflexivity. Qed.
Lemma tup2_sub0 a b : py_subscript (PTuple [a; b]) (zint 0) = Ok a.
Proof. reflexivity. Qed.
Lemma tup2_sub1 a b : py_subscript (PTuple [a; b]) (zint 1) = Ok b.
Proof. reflexivity. Qed.
Lemma tup3_sub0 a b c : py_subscript (PTuple [a; b; c]) (zint 0) = Ok a.
Proof. reflexivity. Qed.
Lemma tup2_len_range a b :
  (t <- py_len (PTuple [a; b]) ;; py_and (py_lt (zint 1) t) (fun _ => py_lt t (zint 4))) = Ok true.
Proof. reflexivity. Qed.
Lemma tup3_len_range a b c :
  (t <- py_len (PTuple [a; b; c]) ;; py_and (py_lt (zint 1) t) (fun _ => py_lt t (zint 4))) = Ok true.
Proof. reflexivity. Qed.
Lemma list1_sub0 a : py_subscript (PList [a]) (zint 0) = Ok a.
Proof. reflexivity. Qed.

Lemma isinst_tuple l : isinstance1 (PTuple l) K_tuple = true.
Proof. reflexivity. Qed.
Lemma isinst_str s : isinstance1 (PStr s) K_str = true.
Proof. reflexivity. Qed.
Lemma isinst_ref n c : isinstance1 (ref n) c = false.
Proof. destruct c; reflexivity. Qed.

Lemma fold_set_all (l acc : list (pystr * pyval)) :
  NoDup (map fst l) -> (forall n, In n (map fst l) -> alist_has acc n = false) ->
  fold_left (fun a nv => alist_set a (fst nv) (snd nv)) l acc = acc ++ l.
Proof.
  intros H1 H2. pose proof (fold_set_filter (fun _ => true) l acc H1 H2) as H. cbv beta iota in H.
  rewrite H. f_equal. apply filter_all. apply forallb_forall. reflexivity.
Qed.

Lemma core_no_required k ign eu : alist_has (init_core k ign eu) n_required = false.
Proof. unfold init_core, own_core. destruct ign; destruct eu; reflexivity. Qed.

Lemma flds_no_required ns : (forall n, In n ns -> reserved n = false) -> alist_has (fld_entries ns) n_required = false.
Proof.
  intro H. destruct (alist_has (fld_entries ns) n_required) eqn:E; [|reflexivity].
  apply alist_has_In in E. rewrite fld_entries_names in E. apply H in E. discriminate.
Qed.

Lemma core_req_fresh k ign eu x n : reserved n = false -> alist_has (init_core k ign eu ++ [(n_required, x)]) n = false.
Proof.
  intro H. rewrite alist_has_app, (core_fresh k ign eu n H). destruct (reserved_spec n H) as [H1 _].
  unfold alist_has. cbn [alist_get orb]. rewrite H1. reflexivity.
Qed.

Lemma decode_flds_end k ns :
  (forall n, In n ns -> reserved n = false) -> (forall n, In n ns -> alist_has (k_all k) n = true) ->
  decode_entries k (skeys (fld_entries ns)) = Ok (fold_right dec_add_member dec_empty (members_of k ns)).
Proof.
  intros H1 H2. rewrite <- (app_nil_r (fld_entries ns)). rewrite (decode_flds k ns [] H1 H2). reflexivity.
Qed.

Lemma fbn_has k n : alist_has (field_by_name k) n = alist_has (k_all k) n.
Proof. unfold alist_has at 1. rewrite fld_entries_get. destruct (alist_has (k_all k) n); reflexivity. Qed.

Lemma star_names b ns : py_star_args (names_arg b ns) = Ok (PTuple (map PStr ns)).
Proof. destruct b; reflexivity. Qed.

(* ------------------------------------------------------------------ the loop of AllFieldsRequired *)

Definition allreq_step (k : klass) (acc : list (pystr * pyval)) (p : pystr * pyval) : res (list (pystr * pyval)) :=
  let d := match alist_get (k_all k) (fst p) with
           | Some (MField fo) => default_view (fo_default fo)
           | _ => PNone
           end in
  let acc1 := alist_set acc (fst p) (snd p) in
  if py_is_none d then
    l0 <- match alist_get acc1 n_required with Some x => Ok x | None => Raise KeyError end ;;
    l1 <- py_list_append l0 (PStr (fst p)) ;;
    Ok (alist_set acc1 n_required l1)
  else Ok acc1.

Lemma allreq_afold k : forall (ms : members) A seed B,
  (forall nm, In nm ms -> alist_get (k_all k) (fst nm) = Some (snd nm)) ->
  NoDup (map fst ms) ->
  (forall n, In n (map fst ms) ->
             alist_has A n = false /\ alist_has B n = false /\ pystr_eqb n_required n = false) ->
  alist_has A n_required = false ->
  forallb (fun nm => match snd nm with
                     | MField f => match fo_default f with Some (DLit PNone) => false | _ => true end
                     | MConst _ => true
                     end) ms = true ->
  afoldM (allreq_step k) (fld_entries (map fst ms)) (A ++ (n_required, dv_names seed) :: B) =
  Ok (A ++ (n_required, dv_names (seed ++ all_required_seed ms)) :: B ++ fld_entries (map fst ms)).
Proof.
  induction ms as [|[n m] t IH]; intros A seed B Hget Hnd Hfr HA Hnorm.
  - cbn [map fld_entries afoldM all_required_seed]. rewrite !app_nil_r. reflexivity.
  - cbn [map fst fld_entries afoldM]. fold (fld_entries (map fst t)).
    unfold allreq_step at 1. cbn [fst snd].
    pose proof (Hget (n, m) (or_introl eq_refl)) as Hm. cbn [fst snd] in Hm. rewrite Hm.
    cbn [forallb snd] in Hnorm. apply andb_true_iff in Hnorm as [Hn0 Hnorm].
    inversion Hnd as [|? ? Hnotin Hnd']; subst.
    destruct (Hfr n (or_introl eq_refl)) as [HAn [HBn Hrn]].
    assert (Hfresh : alist_has (A ++ (n_required, dv_names seed) :: B) n = false).
    { rewrite alist_has_app, HAn. unfold alist_has. cbn [alist_get orb]. rewrite Hrn. exact HBn. }
    assert (Hfr' : forall x, In x (map fst t) ->
                   alist_has A x = false /\ alist_has (B ++ [(n, fld_ref n)]) x = false /\ pystr_eqb n_required x = false).
    { intros x Hx. destruct (Hfr x (or_intror Hx)) as [H1 [H2 H3]]. split; [exact H1|]. split; [|exact H3].
      rewrite alist_has_app, H2. unfold alist_has. cbn [alist_get orb].
      destruct (pystr_eqb n x) eqn:E; [|reflexivity]. apply pystr_eqb_spec in E; subst. contradiction. }
    assert (Hget' : forall nm, In nm t -> alist_get (k_all k) (fst nm) = Some (snd nm)).
    { intros nm Hin. apply Hget. right. exact Hin. }
    rewrite (alist_set_fresh _ _ _ Hfresh). rewrite <- app_assoc. cbn [app].
    cbn [all_required_seed].
    assert (Hd : py_is_none (match m with MField fo => default_view (fo_default fo) | MConst _ => PNone end) =
                 negb (has_default m)).
    { destruct m as [fo|c]; [|reflexivity]. cbn [has_default]. destruct (fo_default fo) as [d|]; [|reflexivity].
      destruct d as [v|v]; [|reflexivity]. destruct v; try reflexivity. discriminate. }
    rewrite Hd. destruct (has_default m); cbn [negb].
    + cbn [afoldM bind].
      rewrite (IH A seed (B ++ [(n, fld_ref n)]) Hget' Hnd' Hfr' HA Hnorm).
      rewrite <- app_assoc. reflexivity.
    + assert (Hreq : alist_get (A ++ (n_required, dv_names seed) :: B ++ [(n, fld_ref n)]) n_required = Some (dv_names seed)).
      { rewrite alist_get_app. unfold alist_has in HA. destruct (alist_get A n_required); [discriminate|].
        cbn [alist_get]. rewrite pystr_eqb_refl. reflexivity. }
      rewrite Hreq. cbn [bind dv_names py_list_append].
      rewrite (alist_set_mid A _ n_required _ _ HA).
      change (PList (map PStr seed ++ [PStr n])) with (PList (map PStr seed ++ map PStr [n])).
      rewrite <- map_app. fold (dv_names (seed ++ [n])). cbn [afoldM bind].
      rewrite (IH A (seed ++ [n]) (B ++ [(n, fld_ref n)]) Hget' Hnd' Hfr' HA Hnorm).
      rewrite <- !app_assoc. reflexivity.
Qed.

(* ------------------------------------------------------------------ the loop of Structure.pick *)

Definition pick_step (k : klass) (acc : list (pystr * pyval)) (n : pystr) : res (list (pystr * pyval)) :=
  if alist_has (k_all k) n then Ok (alist_set acc n (fld_ref n)) else Raise TypeError.

Lemma pick_afold k ns : forall acc,
  afoldM (pick_step k) ns acc =
  if forallb (fun n => alist_has (k_all k) n) ns
  then Ok (fold_left (fun a n => alist_set a n (fld_ref n)) ns acc) else Raise TypeError.
Proof.
  induction ns as [|n t IH]; intro acc; [reflexivity|].
  cbn [afoldM forallb fold_left]. unfold pick_step at 1. destruct (alist_has (k_all k) n); cbn [bind andb]; [apply IH|reflexivity].
Qed.

Section Operators.
  Variable k : klass.
  Variable inh : option bool.
  Variable eu : option bool.
  Variables pre post : list (pystr * pyval).
  Hypothesis Hpre : others_ok pre = true.
  Hypothesis Hpost : others_ok post = true.
  Hypothesis Hsrc : src_ok k = true.
  Notation h := (klass_heap k inh eu pre post).
  Notation ign := (effective_ignore_none inh k).

  Ltac guard_steps Hs :=
    repeat (progress (
      cbn [py_or py_and py_not bind negb orb py_isinstance existsb obj_isinstance];
      rewrite ?isinst_tuple, ?isinst_str, ?isinst_ref, ?tup2_len_ne, ?tup2_sub0, ?tup2_sub1, ?tup3_sub0,
              ?tup2_len_range, ?tup3_len_range, ?heap_isinstance, ?Hs)).

  Ltac finish_stmt Hnd :=
    cbn [skeys map decode_entries bind derive_stmt_eu derive_stmt derived_name op_prefix];
    f_equal; apply stmt_of_eq; unfold with_ignore, with_undef;
    [ destruct ign; destruct eu; cbn [dec_set_ignore dec_set_undefined dec_set_required dc_members];
      rewrite ?dc_members_fold; cbn [dec_set_ignore dec_set_undefined dec_set_required dc_members dec_empty]; rewrite ?app_nil_r
    | destruct ign; destruct eu; cbn [dec_set_ignore dec_set_undefined dec_set_required dc_required];
      rewrite ?dc_required_fold; reflexivity
    | destruct ign; destruct eu; cbn [dec_set_ignore dec_set_undefined dec_set_required dc_ignore];
      rewrite ?dc_ignore_fold; reflexivity
    | destruct ign; destruct eu; cbn [dec_set_ignore dec_set_undefined dec_set_required dc_undefined];
      rewrite ?dc_undefined_fold; reflexivity ].

  (* the common beginning of every operator body: _init_class_dict, then the loop over the field objects *)
  Ltac start_body :=
    rewrite (init_class_dict_src k inh eu pre post Hpre Hpost); cbn [bind].

  Ltac unpack_item :=
    unfold item_of; cbn [fst snd py_unpack py_iter_items bind length Nat.eqb].

  (* Partial[Foo] / Partial[Foo, "Name"]: the class dict is what _init_class_dict copies, every field
     object, then _required = [] *)
  Ltac partial_body Hnd Hres :=
    start_body;
    rewrite get_all_fields_src; cbn [bind]; rewrite items_dict; cbn [bind];
    rewrite (foldM_items _ (fun acc p => Ok (alist_set acc (fst p) (snd p))));
    [| intros acc [n' v'] _; unpack_item; rewrite setitem_dict; reflexivity ];
    rewrite afoldM_ok; cbn [bind]; rewrite field_by_name_entries;
    rewrite fold_set_all;
    [| rewrite fld_entries_names; exact Hnd
     | intros n' Hn'; rewrite fld_entries_names in Hn'; apply core_fresh; apply Hres; exact Hn' ];
    change (PStr (s2p "_required")) with (PStr n_required); change (PList []) with (dv_names []);
    rewrite setitem_dict; cbn [bind];
    rewrite alist_set_fresh by (rewrite alist_has_app, core_no_required, (flds_no_required _ Hres); reflexivity);
    rewrite decode_newclass_eq; rewrite <- app_assoc; rewrite decode_core, decode_flds, decode_required;
    [| exact Hres | intros n' Hn'; apply alist_has_In; exact Hn' ];
    finish_stmt Hnd; rewrite (members_of_all k Hnd); reflexivity.

  Theorem Partial_src_is_model : forall cname,
      (x <- PartialMeta_getitem h (op_class OpPartial) (class_arg cname) ;; decode_newclass k x) =
      derive_stmt_eu inh eu k OpPartial cname.
  Proof.
    intro cname. destruct (src_ok_spec k Hsrc) as [Hs [Hnd Hres]].
    unfold PartialMeta_getitem. destruct cname as [n|]; unfold class_arg.
    - guard_steps Hs.
      cbn [py_unpack py_iter_items length Nat.eqb bind].
      partial_body Hnd Hres.
    - guard_steps Hs.
      rewrite heap_name. cbn [bind py_format py_unpack py_iter_items length Nat.eqb].
      partial_body Hnd Hres.
  Qed.

  (* Extend[Foo] / Extend[Foo, "Name"]: _required is the source's, then every field object *)
  Ltac extend_body Hnd Hres :=
    start_body;
    rewrite heap_required_def; cbn [bind];
    change (PStr (s2p "_required")) with (PStr n_required);
    rewrite setitem_dict; cbn [bind]; rewrite (alist_set_fresh _ _ _ (core_no_required k ign eu));
    rewrite get_all_fields_src; cbn [bind]; rewrite items_dict; cbn [bind];
    rewrite (foldM_items _ (fun acc p => Ok (alist_set acc (fst p) (snd p))));
    [| intros acc [n' v'] _; unpack_item; rewrite setitem_dict; reflexivity ];
    rewrite afoldM_ok; cbn [bind]; rewrite field_by_name_entries;
    rewrite fold_set_all;
    [| rewrite fld_entries_names; exact Hnd
     | intros n' Hn'; rewrite fld_entries_names in Hn'; apply core_req_fresh; apply Hres; exact Hn' ];
    rewrite decode_newclass_eq; rewrite <- app_assoc; cbn [app];
    rewrite decode_core, decode_required, decode_flds_end;
    [| exact Hres | intros n' Hn'; apply alist_has_In; exact Hn' ];
    finish_stmt Hnd; rewrite (members_of_all k Hnd); reflexivity.

  Theorem Extend_src_is_model : forall cname,
      (x <- ExtendMeta_getitem h (op_class OpExtend) (class_arg cname) ;; decode_newclass k x) =
      derive_stmt_eu inh eu k OpExtend cname.
  Proof.
    intro cname. destruct (src_ok_spec k Hsrc) as [Hs [Hnd Hres]].
    unfold ExtendMeta_getitem. destruct cname as [n|]; unfold class_arg.
    - guard_steps Hs.
      cbn [py_unpack py_iter_items length Nat.eqb bind].
      extend_body Hnd Hres.
    - guard_steps Hs.
      rewrite heap_name. cbn [bind py_format py_unpack py_iter_items length Nat.eqb].
      extend_body Hnd Hres.
  Qed.

  (* AllFieldsRequired[Foo] / [Foo, "Name"]: _required = [] first, then every field object, its name appended
     to _required when its getattr(v, "_default", None) is None (a Constant has no _default) *)
  Hypothesis Hnorm : defaults_normal k = true.

  Ltac allreq_loop_step :=
    let acc := fresh "acc" in let p := fresh "p" in let Hin := fresh "Hin" in
    let n := fresh "n" in let m := fresh "m" in let Hp := fresh "Hp" in
    intros acc p Hin; unfold field_by_name in Hin; apply in_map_iff in Hin as [[n m] [Hp _]]; subst p;
    cbn [fst snd]; unpack_item; rewrite setitem_dict; cbn [bind]; rewrite heap_default;
    unfold allreq_step; cbn [fst snd bind];
    match goal with |- context [py_is_none ?d] => destruct (py_is_none d); [|reflexivity] end;
    change (PStr (s2p "_required")) with (PStr n_required); rewrite subscript_dict;
    match goal with |- context [alist_get ?a n_required] => destruct (alist_get a n_required) as [?x|]; [|reflexivity] end;
    cbn [bind];
    match goal with |- context [py_list_append ?x ?y] => destruct (py_list_append x y) as [?l1|?e]; [|reflexivity] end;
    cbn [bind]; rewrite setitem_dict; reflexivity.

  Ltac allreq_body Hnd Hres :=
    start_body;
    change (PStr (s2p "_required")) with (PStr n_required); change (PList []) with (dv_names []);
    rewrite setitem_dict; cbn [bind]; rewrite (alist_set_fresh _ _ _ (core_no_required k ign eu));
    rewrite get_all_fields_src; cbn [bind]; rewrite items_dict; cbn [bind];
    rewrite (foldM_items _ (allreq_step k)); [| allreq_loop_step ];
    rewrite field_by_name_entries; unfold field_names; cbn [app];
    rewrite (allreq_afold k (k_all k) (init_core k ign eu) [] []);
    [| intros [n' m'] Hin'; cbn [fst snd]; apply (In_alist_get_NoDup _ _ _ Hnd Hin')
     | exact Hnd
     | intros n' Hn'; split; [apply core_fresh; apply Hres; exact Hn' | split; [reflexivity | apply (reserved_spec n' (Hres n' Hn'))]]
     | apply core_no_required
     | exact Hnorm ];
    fold (field_names k); cbn [derive_stmt bind app];
    rewrite decode_newclass_eq;
    rewrite decode_core, decode_required, decode_flds_end;
    [| exact Hres | intros n' Hn'; apply alist_has_In; exact Hn' ];
    finish_stmt Hnd; rewrite (members_of_all k Hnd); reflexivity.

  Theorem AllFieldsRequired_src_is_model : forall cname,
      (x <- AllFieldsRequiredMeta_getitem h (op_class OpAllRequired) (class_arg cname) ;; decode_newclass k x) =
      derive_stmt_eu inh eu k OpAllRequired cname.
  Proof.
    intro cname. destruct (src_ok_spec k Hsrc) as [Hs [Hnd Hres]].
    unfold AllFieldsRequiredMeta_getitem. destruct cname as [n|]; unfold class_arg.
    - guard_steps Hs.
      cbn [py_unpack py_iter_items length Nat.eqb bind].
      allreq_body Hnd Hres.
    - guard_steps Hs.
      rewrite heap_name. cbn [bind py_format py_unpack py_iter_items length Nat.eqb].
      allreq_body Hnd Hres.
  Qed.

  (* ---------------------------------------------------------------- Structure.omit / Structure.pick *)

  (* the class name: `class_name if class_name else f"Omit{cls.__name__}"` *)
  Definition name_or (prefix cn : pystr) : pystr := match cn with [] => prefix ++ k_name k | _ => cn end.

  Definition omit_model (ns : list pystr) (name : pystr) : res classstmt :=
    if forallb (fun n => alist_has (k_all k) n) ns
    then Ok (derived_stmt_eu name ign eu (filter (fun nm => negb (str_in (fst nm) ns)) (k_all k))
                          (filter (fun x => negb (str_in x ns)) (k_required k)))
    else Raise TypeError.

  Definition pick_model (ns : list pystr) (name : pystr) : res classstmt :=
    if forallb (fun n => alist_has (k_all k) n) ns
    then Ok (derived_stmt_eu name ign eu (pick_members (k_all k) ns) (filter (fun x => str_in x ns) (k_required k)))
    else Raise TypeError.

  Lemma filter_fields_sub (p : pystr -> bool) :
    (forall n, In n (field_names k) -> reserved n = false) ->
    (forall n, In n (filter p (field_names k)) -> reserved n = false) /\
    (forall n, In n (filter p (field_names k)) -> alist_has (k_all k) n = true).
  Proof.
    intro Hres. split; intros n Hn; apply filter_In in Hn as [Hn _]; [apply Hres; exact Hn | apply alist_has_In; exact Hn].
  Qed.

  Lemma Structure_omit_src : forall ns cn,
      (x <- Structure_omit h (ref o_clazz) (PTuple (map PStr ns)) (PStr cn) ;; decode_newclass k x) =
      omit_model ns (name_or (s2p "Omit") cn).
  Proof.
    intros ns cn. destruct (src_ok_spec k Hsrc) as [Hs [Hnd Hres]].
    unfold Structure_omit. start_body.
    rewrite heap_required. cbn [bind dv_names py_iter_items].
    rewrite (filterM_names _ (fun x => negb (str_in x ns))).
    2: { intro n. rewrite py_in_tuple. reflexivity. }
    cbn [bind]. change (PStr (s2p "_required")) with (PStr n_required).
    match goal with |- context [PList (map PStr ?l)] => change (PList (map PStr l)) with (dv_names l) end.
    rewrite setitem_dict. cbn [bind]. rewrite (alist_set_fresh _ _ _ (core_no_required k ign eu)).
    rewrite (foldM_check _ (fun n => alist_has (k_all k) n) TypeError).
    2: { intro n. rewrite get_all_fields_src. cbn [bind]. rewrite in_dict, fbn_has. cbn [py_not bind].
         destruct (alist_has (k_all k) n); reflexivity. }
    unfold omit_model. destruct (forallb (fun n => alist_has (k_all k) n) ns); [|reflexivity].
    cbn [bind]. rewrite get_all_fields_src. cbn [bind]. rewrite items_dict. cbn [bind].
    rewrite (foldM_items _ (fun acc p => Ok (if negb (str_in (fst p) ns) then alist_set acc (fst p) (snd p) else acc))).
    2: { intros acc [n' v'] _. unpack_item. rewrite py_in_tuple. cbn [py_not bind].
         destruct (negb (str_in n' ns)); [rewrite setitem_dict|]; reflexivity. }
    rewrite afoldM_ok. cbn [bind]. rewrite field_by_name_entries.
    rewrite (fold_set_filter (fun n => negb (str_in n ns))).
    2: { rewrite fld_entries_names. exact Hnd. }
    2: { intros n' Hn'. rewrite fld_entries_names in Hn'. apply core_req_fresh. apply Hres. exact Hn'. }
    pose proof (fld_entries_filter (fun n => negb (str_in n ns)) (field_names k)) as Hf. cbv beta in Hf.
    rewrite Hf. clear Hf.
    destruct (filter_fields_sub (fun n => negb (str_in n ns)) Hres) as [Hres' Hhas'].
    match goal with |- context [dict_of ?e] =>
      assert (Hfin : forall name,
                 (x <- Ok (new_class (PStr name) (PTuple [ref (s2p "Structure")]) (dict_of e)) ;; decode_newclass k x) =
                 Ok (derived_stmt_eu name ign eu (filter (fun nm => negb (str_in (fst nm) ns)) (k_all k))
                                  (filter (fun x => negb (str_in x ns)) (k_required k))))
    end.
    { intro name. cbn [bind]. rewrite decode_newclass_eq. rewrite <- app_assoc. cbn [app].
      rewrite decode_core, decode_required, (decode_flds_end _ _ Hres' Hhas').
      cbn [skeys map decode_entries bind]. f_equal. apply stmt_of_eq; unfold with_ignore, with_undef.
      - destruct ign; destruct eu; cbn [dec_set_ignore dec_set_undefined dec_set_required dc_members];
          rewrite dc_members_fold; cbn [dec_empty dc_members]; rewrite app_nil_r; exact (members_of_filter k (fun n => negb (str_in n ns)) Hnd).
      - destruct ign; destruct eu; reflexivity.
      - destruct ign; destruct eu; cbn [dec_set_ignore dec_set_undefined dec_set_required dc_ignore]; rewrite ?dc_ignore_fold; reflexivity.
      - destruct ign; destruct eu; cbn [dec_set_ignore dec_set_undefined dec_set_required dc_undefined]; rewrite ?dc_undefined_fold; reflexivity. }
    destruct cn as [|a t]; cbn [py_truthy length Nat.eqb negb bind]; rewrite ?heap_name;
      cbn [bind py_format name_or]; apply Hfin.
  Qed.

  Lemma Structure_pick_src : forall ns cn,
      (x <- Structure_pick h (ref o_clazz) (PTuple (map PStr ns)) (PStr cn) ;; decode_newclass k x) =
      pick_model ns (name_or (s2p "Pick") cn).
  Proof.
    intros ns cn. destruct (src_ok_spec k Hsrc) as [Hs [Hnd Hres]].
    unfold Structure_pick. start_body.
    rewrite get_all_fields_src. cbn [bind py_iter_items].
    rewrite (foldM_names _ (pick_step k)).
    2: { intros acc n. rewrite in_dict, fbn_has. cbn [py_not bind]. unfold pick_step.
         destruct (alist_has (k_all k) n) eqn:Hn; cbn [negb]; [|reflexivity].
         rewrite subscript_dict, fld_entries_get, Hn. cbn [bind]. rewrite setitem_dict. reflexivity. }
    rewrite pick_afold. unfold pick_model.
    destruct (forallb (fun n => alist_has (k_all k) n) ns) eqn:Hall; [|reflexivity].
    cbn [bind].
    assert (Hin : forall n, In n ns -> In n (field_names k)).
    { intros n Hn. rewrite forallb_forall in Hall. apply alist_has_In. apply Hall. exact Hn. }
    rewrite fold_set_dedup.
    2: { intros n Hn. left. pose proof (core_fresh k ign eu n (Hres n (Hin n Hn))) as Hc. unfold alist_has in Hc.
         destruct (alist_get (init_core k ign eu) n); [discriminate|reflexivity]. }
    rewrite (filter_all (fun n => negb (alist_has (init_core k ign eu) n)) ns).
    2: { apply forallb_forall. intros n Hn. rewrite (core_fresh k ign eu n (Hres n (Hin n Hn))). reflexivity. }
    fold (fld_entries (dedup_str ns)).
    assert (Hres' : forall n, In n (dedup_str ns) -> reserved n = false).
    { intros n Hn. apply Hres, Hin. apply In_dedup_str. exact Hn. }
    assert (Hhas' : forall n, In n (dedup_str ns) -> alist_has (k_all k) n = true).
    { intros n Hn. apply alist_has_In, Hin. apply In_dedup_str. exact Hn. }
    rewrite heap_required. cbn [bind dv_names py_iter_items].
    rewrite (filterM_names _ (fun x => str_in x ns)).
    2: { intro n. rewrite py_in_tuple. reflexivity. }
    cbn [bind]. change (PStr (s2p "_required")) with (PStr n_required).
    match goal with |- context [PList (map PStr ?l)] => change (PList (map PStr l)) with (dv_names l) end.
    rewrite setitem_dict. cbn [bind].
    rewrite alist_set_fresh by (rewrite alist_has_app, core_no_required, (flds_no_required _ Hres'); reflexivity).
    match goal with |- context [dict_of ?e] =>
      assert (Hfin : forall name,
                 (x <- Ok (new_class (PStr name) (PTuple [ref (s2p "Structure")]) (dict_of e)) ;; decode_newclass k x) =
                 Ok (derived_stmt_eu name ign eu (pick_members (k_all k) ns) (filter (fun x => str_in x ns) (k_required k))))
    end.
    { intro name. cbn [bind]. rewrite decode_newclass_eq. rewrite <- app_assoc.
      rewrite decode_core, (decode_flds _ _ _ Hres' Hhas'), decode_required.
      cbn [skeys map decode_entries bind]. f_equal. apply stmt_of_eq; unfold with_ignore, with_undef.
      - destruct ign; destruct eu; cbn [dec_set_ignore dec_set_undefined dc_members];
          rewrite dc_members_fold; cbn [dec_set_required dec_empty dc_members]; rewrite app_nil_r; reflexivity.
      - destruct ign; destruct eu; cbn [dec_set_ignore dec_set_undefined dc_required]; rewrite dc_required_fold; reflexivity.
      - destruct ign; destruct eu; cbn [dec_set_ignore dec_set_undefined dc_ignore]; rewrite ?dc_ignore_fold; reflexivity.
      - destruct ign; destruct eu; cbn [dec_set_ignore dec_set_undefined dc_undefined]; rewrite ?dc_undefined_fold; reflexivity. }
    destruct cn as [|a t]; cbn [py_truthy length Nat.eqb negb bind]; rewrite ?heap_name;
      cbn [bind py_format name_or]; apply Hfin.
  Qed.

  Lemma omit_model_eq ns cname :
    omit_model ns (derived_name (OpOmit ns) cname k) = derive_stmt_eu inh eu k (OpOmit ns) cname.
  Proof.
    unfold omit_model, derive_stmt_eu. cbn [derive_stmt].
    destruct (forallb (fun n => alist_has (k_all k) n) ns); reflexivity.
  Qed.

  Lemma pick_model_eq ns cname :
    pick_model ns (derived_name (OpPick ns) cname k) = derive_stmt_eu inh eu k (OpPick ns) cname.
  Proof.
    unfold pick_model, derive_stmt_eu. cbn [derive_stmt].
    destruct (forallb (fun n => alist_has (k_all k) n) ns); reflexivity.
  Qed.

  Lemma name_or_given prefix cname :
    name_given cname = true ->
    name_or prefix (match cname with Some n => n | None => [] end) =
    match cname with Some n => n | None => prefix ++ k_name k end.
  Proof. destruct cname as [[|a t]|]; [discriminate|reflexivity|reflexivity]. Qed.

  Lemma name_or_prefixed a p : name_or (a :: p) ((a :: p) ++ k_name k) = (a :: p) ++ k_name k.
  Proof. reflexivity. Qed.

  (* Foo.omit( *names, class_name=...) *)
  Theorem Structure_omit_src_is_model : forall ns cname,
      name_given cname = true ->
      (x <- Structure_omit h (ref o_clazz) (PTuple (map PStr ns)) (class_name_kw cname) ;; decode_newclass k x) =
      derive_stmt_eu inh eu k (OpOmit ns) cname.
  Proof.
    intros ns cname Hg. unfold class_name_kw. rewrite Structure_omit_src, (name_or_given _ _ Hg).
    apply omit_model_eq.
  Qed.

  Theorem Structure_pick_src_is_model : forall ns cname,
      name_given cname = true ->
      (x <- Structure_pick h (ref o_clazz) (PTuple (map PStr ns)) (class_name_kw cname) ;; decode_newclass k x) =
      derive_stmt_eu inh eu k (OpPick ns) cname.
  Proof.
    intros ns cname Hg. unfold class_name_kw. rewrite Structure_pick_src, (name_or_given _ _ Hg).
    apply pick_model_eq.
  Qed.

  (* Omit[Foo, names] / Omit[Foo, names, "Name"], the names as a tuple or a list *)
  Lemma OmitMeta_src : forall b ns cname,
      (x <- OmitMeta_getitem h (op_class (OpOmit ns)) (sel_arg b ns cname) ;; decode_newclass k x) =
      omit_model ns (name_or (s2p "Omit") (match cname with Some n => n | None => s2p "Omit" ++ k_name k end)).
  Proof.
    intros b ns cname. destruct (src_ok_spec k Hsrc) as [Hs _].
    unfold OmitMeta_getitem, sel_arg. destruct cname as [n|]; guard_steps Hs;
      cbn [py_unpack py_iter_items length Nat.leb firstn skipn app bind py_truthy Nat.eqb negb];
      rewrite ?list1_sub0, ?heap_name; cbn [bind py_format]; rewrite star_names; cbn [bind];
      match goal with |- context [Structure_omit ?hh ?c ?f ?nm] =>
        replace (x <- (t <- Structure_omit hh c f nm ;; Ok t) ;; decode_newclass k x)
          with (x <- Structure_omit hh c f nm ;; decode_newclass k x)
          by (destruct (Structure_omit hh c f nm); reflexivity)
      end;
      apply Structure_omit_src.
  Qed.

  Lemma PickMeta_src : forall b ns cname,
      (x <- PickMeta_getitem h (op_class (OpPick ns)) (sel_arg b ns cname) ;; decode_newclass k x) =
      pick_model ns (name_or (s2p "Pick") (match cname with Some n => n | None => s2p "Pick" ++ k_name k end)).
  Proof.
    intros b ns cname. destruct (src_ok_spec k Hsrc) as [Hs _].
    unfold PickMeta_getitem, sel_arg. destruct cname as [n|]; guard_steps Hs;
      cbn [py_unpack py_iter_items length Nat.leb firstn skipn app bind py_truthy Nat.eqb negb];
      rewrite ?list1_sub0, ?heap_name; cbn [bind py_format]; rewrite star_names; cbn [bind];
      match goal with |- context [Structure_pick ?hh ?c ?f ?nm] =>
        replace (x <- (t <- Structure_pick hh c f nm ;; Ok t) ;; decode_newclass k x)
          with (x <- Structure_pick hh c f nm ;; decode_newclass k x)
          by (destruct (Structure_pick hh c f nm); reflexivity)
      end;
      apply Structure_pick_src.
  Qed.

  Theorem Omit_src_is_model : forall b ns cname,
      name_given cname = true ->
      (x <- OmitMeta_getitem h (op_class (OpOmit ns)) (sel_arg b ns cname) ;; decode_newclass k x) =
      derive_stmt_eu inh eu k (OpOmit ns) cname.
  Proof.
    intros b ns cname Hg. rewrite OmitMeta_src, <- omit_model_eq. f_equal.
    destruct cname as [[|a t]|]; [discriminate|reflexivity|reflexivity].
  Qed.

  Theorem Pick_src_is_model : forall b ns cname,
      name_given cname = true ->
      (x <- PickMeta_getitem h (op_class (OpPick ns)) (sel_arg b ns cname) ;; decode_newclass k x) =
      derive_stmt_eu inh eu k (OpPick ns) cname.
  Proof.
    intros b ns cname Hg. rewrite PickMeta_src, <- pick_model_eq. f_equal.
    destruct cname as [[|a t]|]; [discriminate|reflexivity|reflexivity].
  Qed.

  (* DISAGREEMENT between the source and the hand-written model: an explicit EMPTY class name.
     Structure.omit / pick test `if class_name`, so Omit[Foo, names, ""] is Omit[Foo, names] (class "OmitFoo"),
     whereas [derived_name] keeps the empty name. *)
  Theorem Omit_src_empty_name : forall b ns,
      (x <- OmitMeta_getitem h (op_class (OpOmit ns)) (sel_arg b ns (Some [])) ;; decode_newclass k x) =
      derive_stmt_eu inh eu k (OpOmit ns) None.
  Proof. intros b ns. rewrite OmitMeta_src, <- omit_model_eq. reflexivity. Qed.

  Theorem Pick_src_empty_name : forall b ns,
      (x <- PickMeta_getitem h (op_class (OpPick ns)) (sel_arg b ns (Some [])) ;; decode_newclass k x) =
      derive_stmt_eu inh eu k (OpPick ns) None.
  Proof. intros b ns. rewrite PickMeta_src, <- pick_model_eq. reflexivity. Qed.
End Operators.

(* ------------------------------------------------------------------ a class that is not a Structure class *)

Section NotStructure.
  Variable k : klass.
  Variable inh : option bool.
  Variable eu : option bool.
  Variables pre post : list (pystr * pyval).
  Hypothesis Hns : k_is_struct k = false.
  Notation h := (klass_heap k inh eu pre post).

  Ltac guard_steps :=
    repeat (progress (
      cbn [py_or py_and py_not bind negb orb py_isinstance existsb obj_isinstance];
      rewrite ?isinst_tuple, ?isinst_str, ?isinst_ref, ?tup2_len_ne, ?tup2_sub0, ?tup2_sub1, ?tup3_sub0,
              ?tup2_len_range, ?tup3_len_range, ?heap_isinstance, ?Hns)).

  (* every operator refuses it with TypeError (the model's [derive_stmt] is only about Structure classes) *)
  Theorem operators_src_not_structure : forall b ns cname,
      PartialMeta_getitem h (op_class OpPartial) (class_arg cname) = Raise TypeError /\
      AllFieldsRequiredMeta_getitem h (op_class OpAllRequired) (class_arg cname) = Raise TypeError /\
      ExtendMeta_getitem h (op_class OpExtend) (class_arg cname) = Raise TypeError /\
      OmitMeta_getitem h (op_class (OpOmit ns)) (sel_arg b ns cname) = Raise TypeError /\
      PickMeta_getitem h (op_class (OpPick ns)) (sel_arg b ns cname) = Raise TypeError.
  Proof.
    intros b ns cname.
    unfold PartialMeta_getitem, AllFieldsRequiredMeta_getitem, ExtendMeta_getitem, OmitMeta_getitem,
      PickMeta_getitem, class_arg, sel_arg.
    destruct cname as [n|]; repeat split; guard_steps; reflexivity.
  Qed.
End NotStructure.

(* ------------------------------------------------------------------ every operator at once; [derive] *)

(* the subscription  Op[...]  an operator of the model stands for (names of Omit / Pick as a list or a tuple) *)
Definition run_operator (h : heap) (o : op) (as_list : bool) (cname : option pystr) : res pyval :=
  match o with
  | OpPartial => PartialMeta_getitem h (op_class o) (class_arg cname)
  | OpAllRequired => AllFieldsRequiredMeta_getitem h (op_class o) (class_arg cname)
  | OpExtend => ExtendMeta_getitem h (op_class o) (class_arg cname)
  | OpOmit ns => OmitMeta_getitem h (op_class o) (sel_arg as_list ns cname)
  | OpPick ns => PickMeta_getitem h (op_class o) (sel_arg as_list ns cname)
  end.

Theorem operators_src_is_model : forall k inh eu pre post o as_list cname,
    others_ok pre = true -> others_ok post = true -> src_ok k = true -> op_ok k o cname = true ->
    (x <- run_operator (klass_heap k inh eu pre post) o as_list cname ;; decode_newclass k x) = derive_stmt_eu inh eu k o cname.
Proof.
  intros k inh eu pre post o b cname Hpre Hpost Hsrc Hop. destruct o as [| | |ns|ns]; cbn [run_operator op_ok] in *.
  - apply Partial_src_is_model; assumption.
  - apply AllFieldsRequired_src_is_model; assumption.
  - apply Extend_src_is_model; assumption.
  - apply Omit_src_is_model; assumption.
  - apply Pick_src_is_model; assumption.
Qed.

(* StructMeta.__new__ ([define]) runs its two guards over `_enable_undefined_value = <bool>` (a known class
   attribute, not a type) and nothing else: the class it builds is the one built without the attribute *)
Lemma define_with_undefined re_match e gd g eu s :
  define re_match e gd g (with_undefined eu s) = define re_match e gd g s.
Proof.
  unfold define, with_undefined.
  cbn [s_name s_bases s_members s_required s_optional s_additional s_ignore_none s_attrs s_keys_of].
  replace (existsb non_typedpy_assignment (undefined_attrs eu ++ s_attrs s))
    with (existsb non_typedpy_assignment (s_attrs s)) by (destruct eu; reflexivity).
  replace (existsb invalid_const (undefined_attrs eu ++ s_attrs s))
    with (existsb invalid_const (s_attrs s)) by (destruct eu; reflexivity).
  reflexivity.
Qed.

(* the model's [derive] IS: the source's operator, then StructMeta.__new__ ([define]) on the class dict it built;
   the class object's `_ignore_none` attribute is what its own body or its bases in g say, its
   `_enable_undefined_value` attribute ([eu]) is carried into the class dict and does not alter what [define]
   builds *)
Theorem derive_is_source_then_define : forall re_match e gd g k eu pre post o as_list cname,
    others_ok pre = true -> others_ok post = true -> src_ok k = true -> op_ok k o cname = true ->
    derive re_match e gd g k o cname =
    (x <- run_operator (klass_heap k (bases_ignore_none g k) eu pre post) o as_list cname ;;
     s <- decode_newclass k x ;; define re_match e gd g s).
Proof.
  intros re_match e gd g k eu pre post o b cname Hpre Hpost Hsrc Hop. unfold derive.
  pose proof (operators_src_is_model k (bases_ignore_none g k) eu pre post o b cname Hpre Hpost Hsrc Hop) as H.
  unfold derive_stmt_eu in H.
  destruct (run_operator (klass_heap k (bases_ignore_none g k) eu pre post) o b cname) as [x|ex]; cbn [bind] in *.
  - rewrite H. destruct (derive_stmt (bases_ignore_none g k) k o cname) as [s|ex]; cbn [bind]; [|reflexivity].
    rewrite define_with_undefined. reflexivity.
  - destruct (derive_stmt (bases_ignore_none g k) k o cname) as [s|ex']; cbn [bind] in *; [discriminate|].
    inversion H. reflexivity.
Qed.

(* ------------------------------------------------------------------ the side conditions are satisfiable *)

Definition ex_f_int : field := FNumber KInteger SAny no_numc.
Definition ex_f_str : field := FString no_strc.

(* class Foo(Structure): a: Integer; b: String = "x"; c: Integer; _required = ['a']; _ignore_none = True *)
Definition ex_foo_stmt : classstmt :=
  {| s_name := s2p "Foo"; s_bases := [n_Structure];
     s_members := [(s2p "a", SDecl ex_f_int false None None);
                   (s2p "b", SDecl ex_f_str false None (Some (DLit (PStr (s2p "x")))));
                   (s2p "c", SDecl ex_f_int false None None)];
     s_required := Some [s2p "a"]; s_optional := None; s_additional := None; s_ignore_none := Some true;
     s_attrs := []; s_keys_of := [] |}.

Definition ex_foo : klass :=
  Eval vm_compute in
    match define (fun _ _ => true) [] default_guards genv0 ex_foo_stmt with Ok k => k | Raise _ => builtin [] end.

(* the rest of Foo.__dict__: __module__, _required, the field objects, _additional_properties, ... *)
Definition ex_pre : list (pystr * pyval) :=
  [(s2p "__module__", PStr (s2p "m")); (s2p "b", fld_ref (s2p "b")); (n_required, dv_names [s2p "a"]);
   (n_ignore_none, PBool true); (s2p "a", fld_ref (s2p "a"))].
Definition ex_post : list (pystr * pyval) :=
  [(s2p "_additional_properties", PBool false); (s2p "_constants", PDict []); (s2p "_field_by_name", PDict [])].

Example side_conditions_satisfiable :
  others_ok ex_pre = true /\ others_ok ex_post = true /\ src_ok ex_foo = true /\ defaults_normal ex_foo = true /\
  op_ok ex_foo (OpPick [s2p "c"; s2p "a"; s2p "c"]) (Some (s2p "P")) = true /\
  (* and the two sides really compute a class statement there *)
  is_ok (derive_stmt None ex_foo (OpPick [s2p "c"; s2p "a"; s2p "c"]) (Some (s2p "P"))) = true /\
  is_ok (x <- run_operator (klass_heap ex_foo None None ex_pre ex_post) OpAllRequired false None ;; decode_newclass ex_foo x) = true.
Proof. repeat split; vm_compute; reflexivity. Qed.

(* class Sub(Base): a: Integer; k = Constant(5)   with   class Base(Structure): _ignore_none = True *)
Definition ex_sub_stmt : classstmt :=
  {| s_name := s2p "Sub"; s_bases := [n_Structure];
     s_members := [(s2p "a", SDecl ex_f_int false None None); (s2p "k", SConst (PNum (NInt 5)))];
     s_required := None; s_optional := None; s_additional := None; s_ignore_none := None;
     s_attrs := []; s_keys_of := [] |}.

Definition ex_sub : klass :=
  Eval vm_compute in
    match define (fun _ _ => true) [] default_guards genv0 ex_sub_stmt with Ok k => k | Raise _ => builtin [] end.

(* an inherited _ignore_none reaches the derived class, and a Constant member is no obstacle to
   AllFieldsRequired (it is listed in _required, as in the source) *)
Example inherited_ignore_none_and_constant :
  src_ok ex_sub = true /\ k_ignore_none ex_sub = None /\
  match x <- run_operator (klass_heap ex_sub (Some true) None [] []) OpAllRequired false None ;; decode_newclass ex_sub x with
  | Ok s => s_ignore_none s = Some true /\ s_required s = Some [s2p "a"; s2p "k"]
  | Raise _ => False
  end /\
  match x <- run_operator (klass_heap ex_sub None None [] []) OpPartial false None ;; decode_newclass ex_sub x with
  | Ok s => s_ignore_none s = None
  | Raise _ => False
  end.
Proof. vm_compute. repeat split; reflexivity. Qed.

(* the disagreement on an explicit empty class name, on that class: the source names the class "OmitFoo",
   the hand-written model "" *)
Example empty_name_disagreement :
  let src := (x <- run_operator (klass_heap ex_foo None None ex_pre ex_post) (OpOmit [s2p "c"]) false (Some []) ;;
              decode_newclass ex_foo x) in
  let model := derive_stmt None ex_foo (OpOmit [s2p "c"]) (Some []) in
  match src, model with
  | Ok s, Ok m => s_name s = s2p "OmitFoo" /\ s_name m = [] /\ s_members s = s_members m /\ s_required s = s_required m
  | _, _ => False
  end.
Proof. vm_compute. repeat split; reflexivity. Qed.

(* class Foo(Structure) with _enable_undefined_value = True / = False (own or inherited): every operator hands
   type(...) a class dict with `_enable_undefined_value` holding the source's value; a source without the
   attribute yields a dict without it *)
Example enable_undefined_carried :
  forall o, In o [OpPartial; OpAllRequired; OpExtend; OpOmit [s2p "c"]; OpPick [s2p "a"]] ->
  (x <- run_operator (klass_heap ex_foo None (Some true) ex_pre ex_post) o false None ;; newclass_undefined ex_foo x)
    = Ok (Some true) /\
  (x <- run_operator (klass_heap ex_foo None (Some false) ex_pre ex_post) o true None ;; newclass_undefined ex_foo x)
    = Ok (Some false) /\
  (x <- run_operator (klass_heap ex_foo None None ex_pre ex_post) o false None ;; newclass_undefined ex_foo x)
    = Ok None /\
  match x <- run_operator (klass_heap ex_foo None (Some true) ex_pre ex_post) o false None ;; decode_newclass ex_foo x with
  | Ok s => s_attrs s = [(n_enable_undefined, UBool)]
  | Raise _ => False
  end.
Proof.
  intros o [H|[H|[H|[H|[H|[]]]]]]; subst o; vm_compute; repeat split; reflexivity.
Qed.

Print Assumptions Partial_src_is_model.
Print Assumptions define_with_undefined.
Print Assumptions enable_undefined_carried.
Print Assumptions AllFieldsRequired_src_is_model.
Print Assumptions Extend_src_is_model.
Print Assumptions Structure_omit_src_is_model.
Print Assumptions Structure_pick_src_is_model.
Print Assumptions Omit_src_is_model.
Print Assumptions Pick_src_is_model.
Print Assumptions Omit_src_empty_name.
Print Assumptions Pick_src_empty_name.
Print Assumptions init_class_dict_src.
Print Assumptions get_all_fields_src.
Print Assumptions operators_src_not_structure.
Print Assumptions operators_src_is_model.
Print Assumptions derive_is_source_then_define.
Print Assumptions side_conditions_satisfiable.
Print Assumptions inherited_ignore_none_and_constant.
Print Assumptions empty_name_disagreement.
