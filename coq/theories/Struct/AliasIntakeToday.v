(* The intake theorems of Struct/AliasIntakeProofs.v at the tables GENERATED from the current source tree
   (Gen/AliasTables.v: the isinstance exemptions of Structure.__setattr__ / Field.__set__ /
   ImmutableMixin._get_defensive_copy_if_needed and the copies of the wrappers' __init__; Gen/AliasSites.v:
   the copy sites of the wrappers and of the collection fields).  Re-checked by the kernel on every run:
   these lemmas stop compiling as soon as an exemption for a type through which a mutable object is
   reachable (a wrapper that is not itself immutable, tuple, list, ...) comes back, or a wrapper's __init__
   stops copying.  No model here. *)
From Coq Require Import List Bool. Import ListNotations.
From TP Require Import Struct.Alias Struct.AliasIntake Struct.AliasIntakeProofs Gen.AliasSites Gen.AliasTables.

Lemma today_struct_gate_ok : struct_gate_ok copy_tables = true.
Proof. vm_compute. reflexivity. Qed.

Lemma today_field_gates_ok : field_gates_ok copy_tables = true.
Proof. vm_compute. reflexivity. Qed.

Lemma today_sites_intake_ok : sites_intake_ok alias_sites = true.
Proof. vm_compute. reflexivity. Qed.

(* an ImmutableStructure keeps nothing of its constructor arguments / of the deserialized document, for every
   declared field type and every value *)
Theorem immstruct_safe_today : forall deser t v,
    retains alias_sites copy_tables OwnImmStruct deser t v = false.
Proof. intros deser t v. apply immstruct_safe. exact today_struct_gate_ok. Qed.

(* ... nor does a field declared immutable, at every nesting depth *)
Theorem immfield_safe_today : forall deser t v,
    retains alias_sites copy_tables OwnImmField deser t v = false.
Proof. intros deser t v. apply immfield_safe; [exact today_sites_intake_ok | exact today_field_gates_ok]. Qed.

Print Assumptions immstruct_safe_today.
Print Assumptions immfield_safe_today.
