(* C04 — capability / handle model of immutability (DESIGN §6 C04).

   The world is (abstract internal state of ONE field of an instance, the handles the client holds).
   The internal state is a tree of runtime objects [obj]; a handle is
     - [Detached]   : a copy or an immutable scalar — using it cannot reach the internal state;
     - [Guarded p]  : a reference to the internal object at path p that protects itself: a typedpy
                      wrapper whose immutability guard is on (its mutators follow the GENERATED shapes
                      of Gen/Tables.v), or a tuple / frozenset / ImmutableStructure;
     - [Live p]     : an alias of the plain mutable internal object at path p (list, dict, set, deque,
                      mutable Structure, or a wrapper whose guard is off — F5).
   Which handle an accessor returns, and what a mutator does, is COMPUTED from the generated tables
   carried by [cfg] (override shapes, accessor shapes, immutable-type tuples, structural facts) —
   nothing about a particular method is hard-coded here.

   No proofs in this file. *)
From Coq Require Import List ZArith Bool NArith String. Import ListNotations.
From TP Require Import Base.PyVal Struct.Shapes.
Local Open Scope string_scope.

(* ------------------------------------------------------------------ runtime objects *)
Inductive okind := KList | KDeque | KDict | KSet | KFrozen | KTuple | KStruct | KImmStruct.

(* whose instance a wrapper's [_instance] is *)
Inductive binding :=
| BReal                 (* the instance under consideration *)
| BTemp                 (* the temporary Structure() used during validation of nested collections (F5) *)
| BInner (imm : bool).  (* a nested Structure / ImmutableStructure instance that owns the wrapper *)

Inductive wrapinfo :=
| NoWrap
| Wrap (guard_on : bool) (b : binding).   (* _ListStruct/_DequeStruct/_DictStruct; guard_on = _is_immutable() *)

Inductive obj :=
| Atom (z : Z)
| Box (k : okind) (w : wrapinfo) (elems : list obj).

Definition path := list nat.

Inductive handle := Detached | Guarded (p : path) | Live (p : path).

Definition okind_eqb (a b : okind) : bool :=
  match a, b with
  | KList, KList | KDeque, KDeque | KDict, KDict | KSet, KSet | KFrozen, KFrozen | KTuple, KTuple
  | KStruct, KStruct | KImmStruct, KImmStruct => true
  | _, _ => false
  end.

Definition wrapper_kind (k : okind) : bool :=
  match k with KList | KDeque | KDict => true | _ => false end.

(* ------------------------------------------------------------------ configuration (generated + class facts) *)
Record cfg := {
  c_struct_imm : bool;                         (* the class is an ImmutableStructure *)
  c_field_imm : bool;                          (* the field is declared immutable (ImmutableField / immutable=True) *)
  c_muts : okind -> mutator_table;             (* wrapper classes: mutator -> override shape *)
  c_inplace : okind -> list pystr;             (* mutators whose override also applies the base op to self *)
  c_accs : okind -> accessor_table;            (* wrapper classes: accessor -> shape, return kind *)
  c_base_accs : okind -> list (pystr * retkind);  (* plain base types *)
  c_base_muts : okind -> list pystr;           (* plain base types *)
  c_types_get : list pystr; c_copies_get : bool;          (* Field.__get__ *)
  c_types_set : list pystr; c_copies_set : bool;          (* Field.__set__ *)
  c_types_setattr : list pystr; c_copies_setattr : bool;  (* Structure.__setattr__ *)
  c_types_mixin : list pystr; c_copies_mixin : bool;      (* ImmutableMixin._get_defensive_copy_if_needed *)
  c_get_field_flag : bool;                     (* Field.__get__ honours the field's own immutable flag *)
  c_delitem_guarded : bool;                    (* Structure.__delitem__ refuses on immutables *)
  c_unpickle_keeps : bool;                     (* an unpickled instance still has _instantiated *)
  c_nested_bound : bool;                       (* nested wrappers are bound to the real instance *)
  c_init_copies : okind -> bool;               (* the wrapper's __init__ defensively copies its input *)
  c_map_custom_deepcopy : bool                 (* Map sets _custom_deep_copy_implementation *)
}.

(* ------------------------------------------------------------------ isinstance against the generated tuples *)
Definition tynames (o : obj) : list pystr :=
  match o with
  | Atom _ => [s2p "int"]
  | Box k (Wrap g _) _ =>
      (* "ImmutableMixin[immutable]": the pseudo name the generated tables use for the test
         `isinstance(v, ImmutableMixin) and v._is_immutable()` *)
      s2p "ImmutableMixin" :: (if g then [s2p "ImmutableMixin[immutable]"] else [])
      ++ match k with KList => [s2p "list"] | KDeque => [s2p "deque"] | KDict => [s2p "dict"] | _ => [] end
  | Box KList NoWrap _ => [s2p "list"]
  | Box KDeque NoWrap _ => [s2p "deque"]
  | Box KDict NoWrap _ => [s2p "dict"]
  | Box KSet NoWrap _ => [s2p "set"]
  | Box KFrozen NoWrap _ => [s2p "frozenset"]
  | Box KTuple NoWrap _ => [s2p "tuple"]
  | Box KStruct NoWrap _ => [s2p "Structure"]
  | Box KImmStruct NoWrap _ => [s2p "ImmutableStructure"; s2p "Structure"]
  end.

Definition passes (types : list pystr) (o : obj) : bool :=
  existsb (fun t => str_in t types) (tynames o).

Definition fresh_tyname (k : okind) : pystr :=
  match k with
  | KList => s2p "list" | KDeque => s2p "deque" | KDict => s2p "dict" | KSet => s2p "set"
  | KFrozen => s2p "frozenset" | KTuple => s2p "tuple" | KStruct => s2p "Structure"
  | KImmStruct => s2p "ImmutableStructure"
  end.

(* ------------------------------------------------------------------ tree access *)
Fixpoint get_at (o : obj) (p : path) : option obj :=
  match p with
  | [] => Some o
  | i :: p' =>
      match o with
      | Box _ _ es => match nth_error es i with Some c => get_at c p' | None => None end
      | Atom _ => None
      end
  end.

Fixpoint upd_nth {A} (l : list A) (i : nat) (f : A -> A) : list A :=
  match l, i with
  | [], _ => []
  | x :: t, O => f x :: t
  | x :: t, S j => x :: upd_nth t j f
  end.

(* an in-place mutation of the container at p: its contents become [new] *)
Fixpoint set_elems_at (o : obj) (p : path) (new : list obj) : obj :=
  match p with
  | [] => match o with Box k w _ => Box k w new | a => a end
  | i :: p' =>
      match o with
      | Box k w es => Box k w (upd_nth es i (fun c => set_elems_at c p' new))
      | a => a
      end
  end.

Fixpoint path_eqb (a b : path) : bool :=
  match a, b with
  | [], [] => true
  | x :: a', y :: b' => Nat.eqb x y && path_eqb a' b'
  | _, _ => false
  end.

(* ------------------------------------------------------------------ handing out references *)
(* deeply immutable: a scalar, or a tuple / frozenset of deeply immutable objects — holding a reference
   to it is as good as holding a copy (deepcopy itself returns such objects unchanged) *)
Fixpoint inert (o : obj) : bool :=
  match o with
  | Atom _ => true
  | Box k w es =>
      match k, w with
      | (KFrozen | KTuple), NoWrap =>
          (fix all (l : list obj) : bool := match l with [] => true | c :: t => inert c && all t end) es
      | _, _ => false
      end
  end.

(* a reference to the internal object c (at path q) *)
Definition mk_ref (c : obj) (q : path) : handle :=
  if inert c then Detached else
  match c with
  | Atom _ => Detached                                   (* immutable scalar *)
  | Box _ (Wrap true _) _ => Guarded q
  | Box (KFrozen | KTuple | KImmStruct) NoWrap _ => Guarded q
  | Box _ _ _ => Live q
  end.

(* deepcopy returns the object itself: an ImmutableStructure instance (Structure.__deepcopy__), and a
   tuple all of whose items are such or deeply immutable (copy._deepcopy_tuple) *)
Fixpoint copy_self (o : obj) : bool :=
  match o with
  | Atom _ => true
  | Box k w es =>
      match k, w with
      | KImmStruct, NoWrap => true
      | KTuple, NoWrap =>
          (fix all (l : list obj) : bool := match l with [] => true | c :: t => (inert c || copy_self c) && all t end) es
      | _, _ => false
      end
  end.

Definition getattr_name : pystr := s2p "getattr".
Definition getitem_name : pystr := s2p "__getitem__".
Definition delitem_name : pystr := s2p "__delitem__".
Definition setattr_name : pystr := s2p "__setattr__".

(* _get_defensive_copy_if_needed of a wrapper whose _is_immutable() is g: Some true = the object itself *)
Definition defensive_raw (c : cfg) (g : bool) (o : obj) : bool :=
  negb (g && c_copies_mixin c && negb (passes (c_types_mixin c) o)).

(* Does accessor [a], applied to an object of kind k / wrap w, hand out the contained object [ch] itself
   (Some true), a copy of it (Some false), or is it not an accessor of that object (None)? *)
Definition acc_policy0 (c : cfg) (k : okind) (w : wrapinfo) (a : pystr) (ch : obj) : option bool :=
  match w with
  | Wrap g _ =>
      match alist_get (c_accs c k) a with
      | None => None
      | Some (ANotOverridden, _) | Some (AUnrecognised, _) => Some true
      | Some (ADefensiveResult, RElem) | Some (ADefensiveElems, _) => Some (defensive_raw c g ch)
      | Some (ADefensiveResult, RFresh) =>
          (* the fresh container returned by the base method is what goes through the defensive copy *)
          Some (negb (g && c_copies_mixin c && negb (str_in (fresh_tyname k) (c_types_mixin c))))
      | Some (AIterProxy, _) =>
          if g then
            (* elements come through self[i], i.e. the wrapper's own __getitem__ *)
            match alist_get (c_accs c k) getitem_name with
            | Some (ADefensiveResult, RElem) => Some (defensive_raw c g ch)
            | _ => Some true
            end
          else Some true
      | Some (ADeepCopyIfImm, _) => Some (negb g)
      end
  | NoWrap =>
      match k with
      | KImmStruct =>
          if pystr_eqb a getattr_name
          then Some (negb (c_copies_get c && negb (passes (c_types_get c) ch)))   (* Field.__get__, instance immutable *)
          else None
      | KStruct => if pystr_eqb a getattr_name then Some true else None
      | _ => if alist_has (c_base_accs c k) a then Some true else None
      end
  end.

(* Structure.__deepcopy__ returns an ImmutableStructure instance itself: a "copy" of one is a reference *)
Definition acc_policy (c : cfg) (k : okind) (w : wrapinfo) (a : pystr) (ch : obj) : option bool :=
  match acc_policy0 c k w a ch with
  | Some false => Some (copy_self ch)
  | r => r
  end.

Definition acc_child (c : cfg) (k : okind) (w : wrapinfo) (a : pystr) (ch : obj) (q : path) : option handle :=
  match acc_policy c k w a ch with
  | None => None
  | Some true => Some (mk_ref ch q)
  | Some false => Some Detached
  end.

(* Field.__get__ on the instance itself *)
Definition read_raw (c : cfg) (o : obj) : bool :=
  let imm := c_struct_imm c || (c_get_field_flag c && c_field_imm c) in
  negb (imm && c_copies_get c && negb (passes (c_types_get c) o)) || copy_self o.

Definition read_handle (c : cfg) (o : obj) : handle :=
  if read_raw c o then mk_ref o [] else Detached.

(* ------------------------------------------------------------------ the world and the client's operations *)
Record world := {
  w_field : option obj;          (* stored value of the field; None once deleted *)
  w_inst : bool;                 (* the instance carries _instantiated *)
  w_handles : list handle;       (* handles the client holds, oldest first *)
  w_alias : list path            (* internal objects that are the very objects passed to the constructor *)
}.

Definition abs (w : world) : option obj := w_field w.

Inductive op :=
| OSetAttr (v : obj)                        (* x.f = v (v: what would be stored) *)
| ODelAttr                                  (* del x.f *)
| ODelItem                                  (* del x['f'] *)
| ORead                                     (* h = x.f *)
| OAcc (h : nat) (a : pystr) (i : nat)      (* apply accessor a to handle h and take the i-th contained object *)
| OMut (h : nat) (m : pystr) (new : list obj)   (* call mutator m on handle h; if it acts in place the contents become new *)
| OCtorArg (p : path) (new : list obj)      (* mutate, in place, the object originally passed to the constructor *)
| OUnpickle.                                (* continue with pickle.loads(pickle.dumps(x)) *)

Inductive outcome := Raised | Done.
Inductive meffect := MRaise | MNoop | MInPlace.

Definition is_some {A} (o : option A) : bool := match o with Some _ => true | None => false end.

(* does x.f = v raise?  Structure.__setattr__ (immutable class, instantiated) then Field.__set__ (immutable
   field already present) *)
Definition setattr_raises (c : cfg) (w : world) : bool :=
  (c_struct_imm c && w_inst w) || (c_field_imm c && is_some (w_field w)).

Definition mut_effect (c : cfg) (w : world) (o : obj) (m : pystr) : meffect :=
  match o with
  | Atom _ => MRaise
  | Box k (Wrap g b) _ =>
      match alist_get (c_muts c k) m with
      | None => MRaise
      | Some (CopyMutateReassign guard) =>
          if guard && g then MRaise
          else match b with
               | BReal => if setattr_raises c w then MRaise else MInPlace
               | BInner imm => if imm then MRaise else MInPlace
               | BTemp => if str_in m (c_inplace c k) then MInPlace else MNoop
               end
      | Some GuardThenInPlace => if g then MRaise else MInPlace
      | Some NotOverridden | Some Unrecognised => MInPlace
      end
  | Box k NoWrap _ =>
      match k with
      | KFrozen | KTuple => MRaise
      | KImmStruct =>
          if pystr_eqb m delitem_name then (if c_delitem_guarded c then MRaise else MInPlace) else MRaise
      | KStruct => if pystr_eqb m delitem_name || pystr_eqb m setattr_name then MInPlace else MRaise
      | _ => if str_in m (c_base_muts c k) then MInPlace else MRaise
      end
  end.

Definition push (w : world) (h : handle) : world :=
  {| w_field := w_field w; w_inst := w_inst w; w_handles := (w_handles w ++ [h])%list; w_alias := w_alias w |}.

Definition set_field (w : world) (f : option obj) : world :=
  {| w_field := f; w_inst := w_inst w; w_handles := w_handles w; w_alias := w_alias w |}.

(* the field object was replaced: old references no longer point into the state *)
Definition replace_field (w : world) (f : option obj) : world :=
  {| w_field := f; w_inst := w_inst w; w_handles := map (fun _ => Detached) (w_handles w); w_alias := [] |}.

Definition handle_path (h : handle) : option path :=
  match h with Detached => None | Guarded p | Live p => Some p end.

Definition inplace_at (w : world) (root : obj) (p : path) (new : list obj) : world :=
  set_field w (Some (set_elems_at root p new)).

Definition step (c : cfg) (w : world) (o : op) : world * outcome :=
  match o with
  | OSetAttr v => if setattr_raises c w then (w, Raised) else (replace_field w (Some v), Done)
  | ODelAttr => (w, Raised)         (* the descriptor has no __delete__: AttributeError *)
  | ODelItem =>
      if c_delitem_guarded c && (c_struct_imm c || c_field_imm c) then (w, Raised)
      else match w_field w with None => (w, Raised) | Some _ => (replace_field w None, Done) end
  | ORead =>
      match w_field w with
      | None => (push w Detached, Done)
      | Some root => (push w (read_handle c root), Done)
      end
  | OAcc h a i =>
      match nth_error (w_handles w) h with
      | None => (w, Raised)
      | Some hd =>
          match handle_path hd with
          | None => (push w Detached, Done)
          | Some p =>
              match w_field w with
              | None => (w, Raised)
              | Some root =>
                  match get_at root p with
                  | Some (Box k wi es) =>
                      match nth_error es i with
                      | None => (w, Raised)
                      | Some ch =>
                          match acc_child c k wi a ch (p ++ [i])%list with
                          | None => (w, Raised)
                          | Some nh => (push w nh, Done)
                          end
                      end
                  | _ => (w, Raised)
                  end
              end
          end
      end
  | OMut h m new =>
      match nth_error (w_handles w) h with
      | None => (w, Raised)
      | Some hd =>
          match handle_path hd with
          | None => (w, Done)                               (* a copy changes, the state does not *)
          | Some p =>
              match w_field w with
              | None => (w, Raised)
              | Some root =>
                  match get_at root p with
                  | None => (w, Raised)
                  | Some target =>
                      match mut_effect c w target m with
                      | MRaise => (w, Raised)
                      | MNoop => (w, Done)
                      | MInPlace => (inplace_at w root p new, Done)
                      end
                  end
              end
          end
      end
  | OCtorArg p new =>
      if existsb (path_eqb p) (w_alias w)
      then match w_field w with Some root => (inplace_at w root p new, Done) | None => (w, Done) end
      else (w, Done)
  | OUnpickle =>
      ({| w_field := w_field w; w_inst := w_inst w && c_unpickle_keeps c;
          w_handles := map (fun _ => Detached) (w_handles w); w_alias := [] |}, Done)
  end.

Definition run (c : cfg) (ops : list op) (w : world) : world :=
  fold_left (fun w o => fst (step c w o)) ops w.

(* the run together with the outcome of the LAST operation (what the correspondence compares) *)
Fixpoint run_last (c : cfg) (ops : list op) (w : world) (last : outcome) : world * outcome :=
  match ops with
  | [] => (w, last)
  | o :: t => let '(w', r) := step c w o in run_last c t w' r
  end.

(* ------------------------------------------------------------------ safety predicates (boolean) *)
Definition acc_names (c : cfg) (k : okind) (w : wrapinfo) : list pystr :=
  match w with
  | Wrap _ _ => map fst (c_accs c k)
  | NoWrap =>
      match k with
      | KStruct | KImmStruct => [getattr_name]
      | _ => map fst (c_base_accs c k)
      end
  end.

(* the object protects itself and everything any accessor hands out from it *)
Fixpoint protecting (c : cfg) (o : obj) : bool :=
  match o with
  | Atom _ => true
  | Box k w es =>
      (match k, w with
       | (KList | KDeque | KDict), Wrap true _ => true
       | (KFrozen | KTuple), NoWrap => true
       | KImmStruct, NoWrap => c_delitem_guarded c
       | _, _ => false
       end)
      && (fix kids (l : list obj) : bool :=
            match l with
            | [] => true
            | ch :: t =>
                (if existsb (fun a => match acc_policy c k w a ch with Some true => true | _ => false end)
                            (acc_names c k w)
                 then protecting c ch else true)      (* some accessor hands out ch itself *)
                && kids t
            end) es
  end.

Definition shape_guarded_strict (s : shape) : bool :=
  match s with CopyMutateReassign true | GuardThenInPlace => true | _ => false end.

Definition wrapper_kinds : list okind := [KList; KDeque; KDict].

Definition mutator_ok (c : cfg) (m : pystr) : bool :=
  forallb (fun k => match alist_get (c_muts c k) m with
                    | None => true
                    | Some s => shape_guarded_strict s
                    end) wrapper_kinds.

(* an operation whose entry point is guard-shaped in the generated tables *)
Definition op_ok (c : cfg) (o : op) : bool :=
  match o with
  | OMut _ m _ => mutator_ok c m
  | ODelItem => c_delitem_guarded c
  | OUnpickle => c_unpickle_keeps c
  | _ => true
  end.

Definition handle_safe (c : cfg) (root : obj) (h : handle) : bool :=
  match h with
  | Detached => true
  | Guarded p => match get_at root p with Some o => protecting c o | None => false end
  | Live _ => false
  end.

Definition world_safe (c : cfg) (w : world) : bool :=
  (c_struct_imm c || c_field_imm c) && w_inst w
  && match w_alias w with [] => true | _ => false end
  && match w_field w with
     | None => false
     | Some root => (negb (read_raw c root) || protecting c root) && forallb (handle_safe c root) (w_handles w)
     end.

(* every entry point is guard-shaped: then every operation is ok *)
Definition tables_guarded (c : cfg) : bool :=
  forallb (fun k => forallb (fun e => shape_guarded_strict (snd e)) (c_muts c k)) wrapper_kinds
  && c_delitem_guarded c && c_unpickle_keeps c.

Definition has_live (w : world) : bool :=
  existsb (fun h => match h with Live _ => true | _ => false end) (w_handles w).

(* ------------------------------------------------------------------ class shapes: what the constructor stores *)
(* A field declaration as far as immutability is concerned.  Containers hold two items. *)
Inductive decl :=
| DAtom                      (* Integer / String ... *)
| DArr (d : decl)            (* Array[d] *)
| DDeq (d : decl)            (* Deque[d] *)
| DMap (d : decl)            (* Map[String, d] *)
| DSet                       (* Set[Integer] *)
| DISet                      (* ImmutableSet[Integer] *)
| DTup (d : decl)            (* Tuple[d, Integer] *)
| DRaw (o : obj)             (* Anything, holding the plain python data o *)
| DMapRaw (o : obj)          (* Map() without items, both values the plain python data o *)
| DArrRaw (o : obj)          (* Array() without items, both elements the plain python data o *)
| DDeqRaw (o : obj)          (* Deque() without items, both elements the plain python data o *)
| DArrPre (o : obj)          (* Array(items=[Integer]) positional prefix + one free-form element o *)
| DRef (imm : bool).         (* a field of class Inner / IInner { a = Integer; l = Array[Integer] } *)

(* guard and binding of a wrapper created at nesting depth [depth] (0 = the field's own value) *)
Definition wrap_at (c : cfg) (depth : nat) : wrapinfo :=
  match depth with
  | O => Wrap (c_struct_imm c || c_field_imm c) BReal
  | S _ =>
      if c_nested_bound c then Wrap (c_struct_imm c || c_field_imm c) BReal
      else Wrap (c_field_imm c) BTemp        (* only the field's flag is propagated to nested item fields *)
  end.

Fixpoint build (c : cfg) (depth : nat) (d : decl) : obj :=
  match d with
  | DAtom => Atom 1
  | DArr d' => Box KList (wrap_at c depth) [build c (S depth) d'; build c (S depth) d']
  | DDeq d' => Box KDeque (wrap_at c depth) [build c (S depth) d'; build c (S depth) d']
  | DMap d' => Box KDict (wrap_at c depth) [build c (S depth) d'; build c (S depth) d']
  | DSet => Box KSet NoWrap [Atom 1; Atom 2]
  | DISet => Box KFrozen NoWrap [Atom 1; Atom 2]
  | DTup d' => Box KTuple NoWrap [build c (S depth) d'; Atom 7]
  | DRaw o => o
  | DMapRaw o => Box KDict (wrap_at c depth) [o; o]
  | DArrRaw o => Box KList (wrap_at c depth) [o; o]
  | DDeqRaw o => Box KDeque (wrap_at c depth) [o; o]
  | DArrPre o => Box KList (wrap_at c depth) [Atom 1; o]
  | DRef false => Box KStruct NoWrap [Atom 1; Box KList (Wrap false (BInner false)) [Atom 1; Atom 0]]
  | DRef true => Box KImmStruct NoWrap [Atom 1; Box KList (Wrap true (BInner true)) [Atom 1; Atom 0]]
  end.

Definition is_box (o : obj) : bool := match o with Box _ _ _ => true | Atom _ => false end.

(* Which internal objects ARE the objects the caller passed in?
   ImmutableStructure: Structure.__setattr__ deep-copies the incoming value unless its type is in the tuple.
   Immutable field: the collection fields rebuild their containers and the wrappers' __init__ / the nested
   immutable item fields deep-copy the contents — except _DictStruct.__init__ (no copy) for a Map without
   item fields, whose Field.__set__ deep copy is switched off by _custom_deep_copy_implementation. *)
(* the types of the value as the caller passes it (before any wrapping) *)
Definition incoming_tynames (d : decl) : list pystr :=
  match d with
  | DAtom => [s2p "int"]
  | DArr _ | DArrRaw _ | DArrPre _ => [s2p "list"] | DDeq _ | DDeqRaw _ => [s2p "deque"]
  | DMap _ | DMapRaw _ => [s2p "dict"]
  | DSet | DISet => [s2p "set"] | DTup _ => [s2p "tuple"]
  | DRaw o => tynames o
  | DRef false => [s2p "Structure"] | DRef true => [s2p "ImmutableStructure"; s2p "Structure"]
  end.

(* is the incoming value let through un-copied by Structure.__setattr__ of an immutable class? *)
Definition incoming_passes (c : cfg) (d : decl) : bool :=
  match d with
  | DAtom | DRef true => false      (* sharing an immutable object is not an alias that can be used *)
  | _ => existsb (fun t => str_in t (c_types_setattr c)) (incoming_tynames d)
  end.

(* an UNTYPED Array / Deque (no item field rebuilds or copies the elements): the free-form elements are the caller's
   own objects unless _ListStruct / _DequeStruct.__init__ defensively copies its input, or Field.__set__ deep-copies
   the wrapper (it does not when an immutable wrapper is in its tuple of types handed on as they are) *)
Definition raw_seq_alias (c : cfg) (k : okind) (o : obj) (ps : list path) : list path :=
  if c_field_imm c && c_init_copies c k then []
  else if c_field_imm c && c_copies_set c && negb (str_in (s2p "ImmutableMixin[immutable]") (c_types_set c)) then []
  else if is_box o then ps else [].

(* what is aliased when nothing above the field copies *)
Fixpoint field_level_alias (c : cfg) (d : decl) : list path :=
  match d with
  | DMapRaw o =>
      if c_field_imm c && c_init_copies c KDict then []
      else if c_field_imm c && c_copies_set c && negb (c_map_custom_deepcopy c) then []
      else if is_box o then [[0]; [1]] else []
  | DMap d' =>
      (* _DictStruct.__init__ does not copy and Map switches Field.__set__'s deep copy off: whatever the
         value field keeps of the caller's objects stays *)
      if c_field_imm c && c_init_copies c KDict then []
      else if c_field_imm c && c_copies_set c && negb (c_map_custom_deepcopy c) then []
      else (map (cons 0) (field_level_alias c d') ++ map (cons 1) (field_level_alias c d'))%list
  | DArrRaw o => raw_seq_alias c KList o [[0]; [1]]
  | DDeqRaw o => raw_seq_alias c KDeque o [[0]; [1]]
  | DArrPre o => raw_seq_alias c KList o [[1]]
  | DRaw o => if c_field_imm c && c_copies_set c && negb (passes (c_types_set c) o) then []
              else if is_box o then [[]] else []
  | DRef false => if c_field_imm c && c_copies_set c then [] else [[]]
  | _ => []
  end.

Definition ctor_alias (c : cfg) (d : decl) : list path :=
  if c_struct_imm c then
    (if c_copies_setattr c then (if incoming_passes c d then field_level_alias c d else [])
     else field_level_alias c d)
  else field_level_alias c d.

Definition world_of (c : cfg) (d : decl) : world :=
  {| w_field := Some (build c 0 d); w_inst := true; w_handles := []; w_alias := ctor_alias c d |}.

(* ------------------------------------------------------------------ the no-subclass clause *)
(* A class hierarchy as a tree: a class is one of typedpy's own roots or a user class with bases. *)
Inductive root := RStructure | RFinal | RImmutable | RField | RImmField | RObject.
Inductive cls := Root (r : root) | User (bases : list cls).

Definition root_name (r : root) : pystr :=
  match r with
  | RStructure => s2p "Structure" | RFinal => s2p "FinalStructure" | RImmutable => s2p "ImmutableStructure"
  | RField => s2p "Field" | RImmField => s2p "ImmutableField" | RObject => s2p "object"
  end.

Record final_cfg := {
  f_sealed : list pystr;        (* names X tested by is_sub_class(c, X) with a raise *)
  f_strict : bool;              (* is_sub_class(c, base) requires c != base *)
  f_skips_first : bool;         (* the new class itself is not tested *)
  f_called_by : list pystr      (* metaclasses whose __new__ runs the check on clsobj.mro() *)
}.

(* is c a (non-strict) subclass of a sealed root?  (the metaclass filter isinstance(c, StructMeta/FieldMeta)
   holds for every class below Structure / Field) *)
Fixpoint below_sealed (f : final_cfg) (c : cls) : bool :=
  match c with
  | Root r => str_in (root_name r) (f_sealed f)
  | User bs => (fix any (l : list cls) : bool := match l with [] => false | b :: t => below_sealed f b || any t end) bs
  end.

Definition is_root (c : cls) : bool := match c with Root _ => true | User _ => false end.

Fixpoint below (target : root -> bool) (c : cls) : bool :=
  match c with
  | Root r => target r
  | User bs => (fix any (l : list cls) : bool := match l with [] => false | b :: t => below target b || any t end) bs
  end.

Definition is_struct_root (r : root) := match r with RStructure | RFinal | RImmutable => true | _ => false end.
Definition is_field_root (r : root) := match r with RField | RImmField => true | _ => false end.

(* the proper ancestors of a new class with these bases (as a set, order irrelevant for the check) *)
Fixpoint ancestors_self (c : cls) : list cls :=
  c :: match c with
       | Root _ => []
       | User bs => (fix all (l : list cls) : list cls := match l with [] => [] | b :: t => (ancestors_self b ++ all t)%list end) bs
       end.

Definition proper_ancestors (bases : list cls) : list cls := flat_map ancestors_self bases.

(* a strict subclass of a sealed root *)
Definition strictly_sealed (f : final_cfg) (c : cls) : bool :=
  below_sealed f c && (negb (f_strict f) || negb (is_root c)).

(* does a class statement with these bases raise TypeError?  The metaclass of the new class runs the check iff the
   class is below Structure (StructMeta) or below Field (FieldMeta). *)
Definition define_raises (f : final_cfg) (bases : list cls) : bool :=
  let metas := ((if existsb (below is_struct_root) bases then [s2p "StructMeta"] else [])
               ++ (if existsb (below is_field_root) bases then [s2p "FieldMeta"] else []))%list in
  existsb (fun m => str_in m (f_called_by f)) metas
  && f_skips_first f
  && existsb (strictly_sealed f) (proper_ancestors bases).

(* a user class directly or indirectly below ImmutableStructure / FinalStructure / ImmutableField *)
Definition sealed_root (r : root) : bool := match r with RFinal | RImmutable | RImmField => true | _ => false end.
Definition user_sealed (c : cls) : bool := negb (is_root c) && below sealed_root c.

Definition final_cfg_ok (f : final_cfg) : bool :=
  str_in (s2p "FinalStructure") (f_sealed f) && str_in (s2p "ImmutableStructure") (f_sealed f)
  && str_in (s2p "ImmutableField") (f_sealed f) && f_skips_first f
  && str_in (s2p "StructMeta") (f_called_by f) && str_in (s2p "FieldMeta") (f_called_by f).
