(* The code-shaped model of the __set__ chains agrees with the documented rules on the claimed
   domain: accept exactly when documented, same normal form, rejections are TypeError/ValueError.
   (Properties C01, C02.) *)
From Coq Require Import ZArith QArith Lqa NArith String Ascii Bool Lia List.
Import ListNotations.
From TP Require Import Base.PyVal Fields.FieldAst Fields.SetChain Fields.Doc Fields.Domain.
Local Open Scope Z_scope.
Arguments lenZ : simpl never.

(* [agree r o]: the code's outcome r and the documented verdict o coincide *)
Definition agree {A} (r : res A) (o : option A) : Prop :=
  match r, o with
  | Ok a, Some b => a = b
  | Raise x, None => is_te_ve x = true
  | _, _ => False
  end.

Lemma agree_ok {A} (r : res A) o a : agree r o -> (r = Ok a <-> o = Some a).
Proof.
  destruct r, o; simpl; intro H; try contradiction; split; intro E; try discriminate; congruence.
Qed.

Lemma agree_raise {A} (r : res A) o x : agree r o -> r = Raise x -> is_te_ve x = true.
Proof. destruct r, o; simpl; intros H E; try contradiction; try discriminate. congruence. Qed.

(* ------------------------------------------------------------------ order facts on Q *)

Lemma num_ltb_leb a b : num_ltb a b = negb (num_leb b a).
Proof. reflexivity. Qed.

Lemma Qle_bool_total_false a b : Qle_bool a b = false -> Qle_bool b a = true.
Proof.
  intro H. apply Qle_bool_iff. destruct (Qlt_le_dec b a) as [L|L].
  - apply Qlt_le_weak. exact L.
  - apply Qle_bool_iff in L. congruence.
Qed.

(* not (mx == n) and not (mx < n)  <->  n < mx *)
Lemma Qle_bool_false a b : Qle_bool a b = false -> ~ (a <= b)%Q.
Proof. intros H L. apply Qle_bool_iff in L. congruence. Qed.

Lemma Qeq_bool_false a b : Qeq_bool a b = false -> ~ (a == b)%Q.
Proof. intros H L. apply Qeq_bool_iff in L. congruence. Qed.

Lemma excl_max_equiv mx n :
  negb (num_eqb mx n) && negb (num_ltb mx n) = num_ltb n mx.
Proof.
  unfold num_eqb, num_ltb, num_leb.
  set (a := num_to_Q mx). set (b := num_to_Q n).
  rewrite negb_involutive.
  destruct (Qeq_bool a b) eqn:E; destruct (Qle_bool b a) eqn:L1; destruct (Qle_bool a b) eqn:L2;
    simpl; try reflexivity; exfalso;
    repeat match goal with
           | H : Qeq_bool _ _ = true |- _ => apply Qeq_bool_iff in H
           | H : Qle_bool _ _ = true |- _ => apply Qle_bool_iff in H
           | H : Qeq_bool _ _ = false |- _ => apply Qeq_bool_false in H
           | H : Qle_bool _ _ = false |- _ => apply Qle_bool_false in H
           end; lra.
Qed.

(* ------------------------------------------------------------------ scalar chains *)

Lemma sign_check_spec s n :
  sign_check s (PNum n) = if sign_ok s n then Ok tt else Raise ValueError.
Proof.
  unfold sign_check, sign_ok. simpl as_num. destruct s; try reflexivity; unfold num_ltb, num_leb.
  - destruct (Qle_bool (num_to_Q n) (num_to_Q zero)); reflexivity.
  - destruct (Qle_bool (num_to_Q zero) (num_to_Q n)); reflexivity.
  - destruct (Qle_bool (num_to_Q n) (num_to_Q zero)); reflexivity.
  - destruct (Qle_bool (num_to_Q zero) (num_to_Q n)); reflexivity.
Qed.

Lemma max_clause_spec (c : numc) n :
  match maximum c with
  | Some mx =>
      if exclusiveMaximum c && num_eqb mx n then @Raise unit ValueError
      else if num_ltb mx n then Raise ValueError else Ok tt
  | None => Ok tt
  end =
  if match maximum c with
     | Some mx => if exclusiveMaximum c then num_ltb n mx else num_leb n mx
     | None => true
     end then Ok tt else Raise ValueError.
Proof.
  destruct (maximum c) as [mx|]; [|reflexivity].
  destruct (exclusiveMaximum c); simpl.
  - rewrite <- (excl_max_equiv mx n). destruct (num_eqb mx n); simpl; [reflexivity|].
    destruct (num_ltb mx n); reflexivity.
  - rewrite (num_ltb_leb mx n). destruct (num_leb n mx); reflexivity.
Qed.

Lemma number_static_spec c n :
  match multiplesOf c with Some m => negb (m =? 0) | None => true end = true ->
  number_static c (PNum n) = if num_constraints_ok c n then Ok tt else Raise ValueError.
Proof.
  intro Hm. unfold number_static, num_constraints_ok, bind. simpl as_num. cbv beta iota.
  rewrite max_clause_spec.
  destruct (multiplesOf c) as [m|].
  - apply negb_true_iff in Hm. rewrite Hm.
    destruct (num_multiple_of n (NInt m)); simpl; [|reflexivity].
    destruct (minimum c) as [mn|]; simpl; [|reflexivity].
    rewrite num_ltb_leb. destruct (num_leb mn n); simpl; reflexivity.
  - simpl. destruct (minimum c) as [mn|]; simpl; [|reflexivity].
    rewrite num_ltb_leb. destruct (num_leb mn n); simpl; reflexivity.
Qed.

Lemma int_to_flt_is_float z : is_py_float (PNum (int_to_flt z)) = true.
Proof. destruct z; simpl; try reflexivity; destruct (strip2 p); reflexivity. Qed.

Lemma int_to_flt_inv z : exists m e, int_to_flt z = NFlt m e.
Proof. destruct z; simpl; eauto; destruct (strip2 p); eauto. Qed.

(* a checked number: both orders of (static, sign) give the documented verdict *)
Lemma checked_number c s n :
  match multiplesOf c with Some m => negb (m =? 0) | None => true end = true ->
  agree (_ <- number_static c (PNum n) ;; _ <- sign_check s (PNum n) ;; Ok (PNum n))
        (if num_constraints_ok c n && sign_ok s n then Some (PNum n) else None) /\
  agree (_ <- sign_check s (PNum n) ;; _ <- number_static c (PNum n) ;; Ok (PNum n))
        (if num_constraints_ok c n && sign_ok s n then Some (PNum n) else None).
Proof.
  intro Hm. rewrite (number_static_spec c n Hm), sign_check_spec.
  destruct (num_constraints_ok c n); destruct (sign_ok s n); simpl; auto.
Qed.

Lemma number_agree k s c v :
  dom (FNumber k s c) v = true ->
  agree (number_chain k s c v)
        (match v with
         | PNum n =>
             let conv := match k, n with
                         | KNumber, _ => Some n
                         | KInteger, NInt _ => Some n
                         | KFloat, NFlt _ _ => Some n
                         | KFloat, NInt z => Some (int_to_flt z)
                         | _, _ => None
                         end in
             match conv with
             | Some n' => if num_constraints_ok c n' && sign_ok s n' then Some (PNum n') else None
             | None => None
             end
         | _ => None
         end).
Proof.
  simpl. intro H. apply andb_true_iff in H as [H Hf]. apply andb_true_iff in H as [Hb Hm].
  destruct v as [| b | n | | | | | | | | |]; try discriminate Hb;
    try (destruct k; simpl; try reflexivity; destruct s; simpl; reflexivity).
  destruct k.
  - (* Number *) unfold number_chain. cbv zeta. apply (checked_number c s n Hm).
  - (* Integer *) unfold number_chain. destruct n; simpl is_py_int; cbv iota zeta; try reflexivity.
    apply (checked_number c s (NInt z) Hm).
  - (* Float *) unfold number_chain. destruct n.
    + rewrite Hf. destruct (int_to_flt_inv z) as [m [e' E]]. rewrite E.
      unfold bind at 1. cbv beta iota. simpl is_py_float. cbv iota.
      apply (checked_number c s (NFlt m e') Hm).
    + simpl. apply (checked_number c s (NFlt m e) Hm).
    + simpl. reflexivity.
Qed.

Lemma string_agree re_match c v :
  agree (string_chain re_match c v)
        (match v with
         | PStr s =>
             if match minLength c with Some m => m <=? lenZ s | None => true end &&
                match maxLength c with Some m => lenZ s <=? m | None => true end &&
                match pattern c with Some p => re_match p s | None => true end
             then Some v else None
         | _ => None
         end).
Proof.
  destruct v; simpl; try reflexivity.
  destruct (maxLength c) as [mx|]; destruct (minLength c) as [mn|]; simpl;
    repeat match goal with
           | |- context [?a <? ?b] => destruct (Z.ltb_spec a b)
           | |- context [?a <=? ?b] => destruct (Z.leb_spec a b)
           end; simpl; try lia; try reflexivity;
    destruct (pattern c); simpl; try reflexivity; destruct (re_match _ _); reflexivity.
Qed.

(* ------------------------------------------------------------------ lists of outcomes *)

Lemma mapM_agree {A B} (f : A -> res B) (g : A -> option B) l :
  Forall (fun x => agree (f x) (g x)) l -> agree (mapM f l) (all_some (map g l)).
Proof.
  induction 1 as [|x t Hx Ht IH]; simpl; [reflexivity|].
  destruct (f x) as [a|ex], (g x) as [b|]; simpl in *; try contradiction; [|exact Hx].
  subst. destruct (mapM f t) as [r|et], (all_some (map g t)) as [r'|]; simpl in *;
    try contradiction; [subst; reflexivity | exact IH].
Qed.

Lemma size_check_spec sz n :
  size_check sz n = if size_ok sz n then Ok tt else Raise ValueError.
Proof.
  unfold size_check, size_ok. destruct (minItems sz) as [a|], (maxItems sz) as [b|]; simpl;
    repeat match goal with
           | |- context [?a <? ?b] => destruct (Z.ltb_spec a b)
           | |- context [?a <=? ?b] => destruct (Z.leb_spec a b)
           end; simpl; try lia; reflexivity.
Qed.

Lemma uniq_check_spec u l :
  uniq_check u l = if negb u || py_unique l then Ok tt else Raise ValueError.
Proof. unfold uniq_check. destruct u; simpl; [destruct (py_unique l)|]; reflexivity. Qed.

Section Main.
  Variable re_match : N -> pystr -> bool.
  Variable e : env.

  Notation vset := (vset re_match e).
  Notation docb := (docb re_match e).

  Definition P (f : field) : Prop := forall v, dom f v = true -> agree (vset f v) (docb f v).

  Lemma forallb_Forall {A} (p : A -> bool) l : forallb p l = true -> Forall (fun x => p x = true) l.
  Proof.
    induction l as [|x t IH]; simpl; intro H; constructor.
    - apply andb_true_iff in H as [H _]. exact H.
    - apply IH. apply andb_true_iff in H as [_ H]. exact H.
  Qed.

  Lemma each_agree g l : P g -> forallb (dom g) l = true ->
                         agree (mapM (fun x => vset g x) l) (all_some (map (docb g) l)).
  Proof.
    intros Hg Hd. apply mapM_agree. apply forallb_Forall in Hd.
    induction Hd as [|x t Hx Ht IH]; constructor; auto.
  Qed.

  (* positional validation (Array/Deque items=[...]): extras are kept *)
  Lemma pos_seq_agree fs : Forall P fs -> forall l,
      (fix pos (fs : list field) (vs : list pyval) {struct fs} : bool :=
         match fs, vs with
         | g :: fs', x :: vs' => dom g x && pos fs' vs'
         | _, _ => true
         end) fs l = true ->
      (length fs <= length l)%nat ->
      agree ((fix pos (fs : list field) (vs : list pyval) {struct fs} : res (list pyval) :=
                match fs, vs with
                | [], _ => Ok vs
                | _ :: _, [] => Ok []
                | g :: fs', x :: vs' => y <- vset g x ;; ys <- pos fs' vs' ;; Ok (y :: ys)
                end) fs l)
            ((fix pos (fs : list field) (vs : list pyval) {struct fs} : option (list pyval) :=
                match fs, vs with
                | [], _ => Some vs
                | _ :: _, [] => None
                | g :: fs', x :: vs' =>
                    match docb g x, pos fs' vs' with
                    | Some y, Some ys => Some (y :: ys)
                    | _, _ => None
                    end
                end) fs l).
  Proof.
    induction 1 as [|g fs' Hg Hfs IH]; intros l Hd Hl.
    - simpl. reflexivity.
    - destruct l as [|x vs']; [simpl in Hl; lia|].
      apply andb_true_iff in Hd as [Hx Hd]. simpl in Hl.
      specialize (Hg x Hx). specialize (IH vs' Hd ltac:(lia)).
      cbn beta iota. destruct (vset g x) as [y|ex], (docb g x) as [y'|]; simpl in Hg |- *;
        try contradiction; [|exact Hg].
      subst y'.
      match goal with
      | |- agree (bind ?r _) (match ?o with _ => _ end) =>
          destruct r as [ys|et]; destruct o as [ys'|]; simpl in IH |- *; try contradiction;
            [subst; reflexivity | exact IH]
      end.
  Qed.

  (* positional validation of a Tuple with >= 2 item fields and equal length *)
  Lemma pos_tuple_agree fs : Forall P fs -> forall l,
      (fix pos (fs : list field) (vs : list pyval) {struct fs} : bool :=
         match fs, vs with
         | g :: fs', x :: vs' => dom g x && pos fs' vs'
         | _, _ => true
         end) fs l = true ->
      length fs = length l ->
      agree ((fix pos (fs : list field) (vs : list pyval) {struct fs} : res (list pyval) :=
                match fs, vs with
                | [], _ => Ok []
                | _ :: _, [] => Raise IndexError
                | g :: fs', x :: vs' => y <- vset g x ;; ys <- pos fs' vs' ;; Ok (y :: ys)
                end) fs l)
            ((fix pos (fs : list field) (vs : list pyval) {struct fs} : option (list pyval) :=
                match fs, vs with
                | [], _ => Some []
                | _ :: _, [] => None
                | g :: fs', x :: vs' =>
                    match docb g x, pos fs' vs' with
                    | Some y, Some ys => Some (y :: ys)
                    | _, _ => None
                    end
                end) fs l).
  Proof.
    induction 1 as [|g fs' Hg Hfs IH]; intros l Hd Hl.
    - simpl. reflexivity.
    - destruct l as [|x vs']; [simpl in Hl; lia|].
      apply andb_true_iff in Hd as [Hx Hd]. simpl in Hl.
      specialize (Hg x Hx). specialize (IH vs' Hd ltac:(lia)).
      cbn beta iota. destruct (vset g x) as [y|ex], (docb g x) as [y'|]; simpl in Hg |- *;
        try contradiction; [|exact Hg].
      subst y'.
      match goal with
      | |- agree (bind ?r _) (match ?o with _ => _ end) =>
          destruct r as [ys|et]; destruct o as [ys'|]; simpl in IH |- *; try contradiction;
            [subst; reflexivity | exact IH]
      end.
  Qed.

  (* options of the multi-field wrappers *)
  Lemma options_agree fs v : Forall P fs -> forallb (fun g => dom g v) fs = true ->
                             Forall (fun g => agree (vset g v) (docb g v)) fs.
  Proof.
    intros HP Hd. apply forallb_Forall in Hd. induction HP as [|g t Hg Ht IH]; constructor.
    - inversion Hd; subst. auto.
    - inversion Hd; subst. auto.
  Qed.

  Lemma allof_agree fs v : Forall (fun g => agree (vset g v) (docb g v)) fs ->
    agree (_ <- allof_combine (map (fun g => vset g v) fs) ;; Ok v)
          (if forallb (fun g => match docb g v with Some _ => true | None => false end) fs
           then Some v else None).
  Proof.
    induction 1 as [|g t Hg Ht IH]; simpl; [reflexivity|].
    destruct (vset g v) as [a|x], (docb g v) as [b|]; simpl in *; try contradiction; auto.
  Qed.

  Lemma anyof_agree fs v : Forall (fun g => agree (vset g v) (docb g v)) fs ->
    agree (anyof_combine (map (fun g => vset g v) fs)) (first_some (map (fun g => docb g v) fs)).
  Proof.
    induction 1 as [|g t Hg Ht IH]; simpl; [reflexivity|].
    destruct (vset g v) as [a|x], (docb g v) as [b|]; simpl in *; try contradiction; auto.
    unfold caught. rewrite Hg. exact IH.
  Qed.

  Lemma oneof_count fs v : Forall (fun g => agree (vset g v) (docb g v)) fs ->
    oneof_combine (map (fun g => vset g v) fs) = Ok (count_some (map (fun g => docb g v) fs)).
  Proof.
    unfold count_some.
    induction 1 as [|g t Hg Ht IH]; simpl; [reflexivity|].
    destruct (vset g v) as [a|x], (docb g v) as [b|]; simpl in *; try contradiction.
    - rewrite IH. reflexivity.
    - unfold caught. rewrite Hg. exact IH.
  Qed.

  Lemma not_agree fs v : Forall (fun g => agree (vset g v) (docb g v)) fs ->
    agree (_ <- not_combine (map (fun g => vset g v) fs) ;; Ok v)
          (if existsb (fun g => match docb g v with Some _ => true | None => false end) fs
           then None else Some v).
  Proof.
    induction 1 as [|g t Hg Ht IH]; simpl; [reflexivity|].
    destruct (vset g v) as [a|x], (docb g v) as [b|]; simpl in *; try contradiction; auto.
    unfold caught. rewrite Hg. exact IH.
  Qed.

  Ltac seq_prelude k v l :=
    cbn [SetChain.vset Doc.docb];
    destruct (seq_items k v) as [l|] eqn:Es; [|simpl; reflexivity];
    rewrite uniq_check_spec, size_check_spec;
    rewrite (andb_comm (size_ok _ _));
    destruct (negb _ || py_unique l); cbn [bind andb]; [|reflexivity];
    destruct (size_ok _ _); cbn [bind andb]; [|reflexivity].

  Theorem vset_agrees_with_doc : forall f, P f.
  Proof.
    induction f using field_ind'; unfold P; intros v Hd.
    - (* FNumber *) apply number_agree. exact Hd.
    - (* FString *) apply string_agree.
    - (* FBoolean *) destruct v; simpl; try reflexivity.
      destruct (pystr_eqb s str_True); [reflexivity|]. destruct (pystr_eqb s str_False); reflexivity.
    - (* FNone *) destruct v; simpl; reflexivity.
    - (* FAnything *) simpl. reflexivity.
    - (* FEnumLit *) simpl. destruct (py_in v vs); reflexivity.
    - (* FEnumCls *) simpl. destruct v; simpl; try reflexivity.
      + destruct (alist_get ms s); reflexivity.
      + destruct (pystr_eqb cls c && alist_has ms name); reflexivity.
    - (* FSeqAny *) seq_prelude k v l. reflexivity.
    - (* FSeqEach *) cbn [dom] in Hd. seq_prelude k v l.
      pose proof (each_agree f l IHf Hd) as A.
      destruct (mapM _ l) as [r|x], (all_some _) as [r'|]; simpl in *; try contradiction;
        [subst; reflexivity | exact A].
    - (* FSeqPos *) cbn [dom] in Hd. seq_prelude k v l.
      destruct (lenZ l <? lenZ fs) eqn:E1.
      + simpl. apply Z.ltb_lt in E1. destruct (lenZ fs <=? lenZ l) eqn:E2; [apply Z.leb_le in E2; lia|].
        simpl. reflexivity.
      + apply Z.ltb_ge in E1. destruct (lenZ fs <=? lenZ l) eqn:E2; [|apply Z.leb_gt in E2; lia].
        simpl orb. simpl andb.
        destruct a as [[|]|].
        * (* additionalItems=True *) simpl.
          pose proof (pos_seq_agree fs H l Hd ltac:(unfold lenZ in E1; lia)) as A.
          match type of A with agree ?rr ?oo =>
            destruct rr as [r|x]; destruct oo as [r'|]; simpl in *; try contradiction;
              [subst; reflexivity | exact A] end.
        * (* additionalItems=False *)
          destruct (lenZ fs <? lenZ l) eqn:E3.
          -- apply Z.ltb_lt in E3. destruct (lenZ l =? lenZ fs) eqn:E4; [apply Z.eqb_eq in E4; lia|].
             simpl. reflexivity.
          -- apply Z.ltb_ge in E3. destruct (lenZ l =? lenZ fs) eqn:E4; [|apply Z.eqb_neq in E4; lia].
             pose proof (pos_seq_agree fs H l Hd ltac:(unfold lenZ in E1; lia)) as A.
             match type of A with agree ?rr ?oo =>
               destruct rr as [r|x]; destruct oo as [r'|]; simpl in *; try contradiction;
                 [subst; reflexivity | exact A] end.
        * simpl.
          pose proof (pos_seq_agree fs H l Hd ltac:(unfold lenZ in E1; lia)) as A.
          match type of A with agree ?rr ?oo =>
            destruct rr as [r|x]; destruct oo as [r'|]; simpl in *; try contradiction;
              [subst; reflexivity | exact A] end.
    - (* FSet None *) simpl. destruct v; simpl; try reflexivity.
      rewrite size_check_spec. destruct (size_ok sz (lenZ l)); reflexivity.
    - (* FSet Some *) simpl in Hd |- *. destruct v; simpl; try reflexivity.
      rewrite size_check_spec. destruct (size_ok sz (lenZ l)); simpl; [|reflexivity].
      pose proof (each_agree f l IHf Hd) as A.
      destruct (mapM _ l) as [r|x], (all_some _) as [r'|]; simpl in *; try contradiction;
        [subst; reflexivity | exact A].
    - (* FTuple *) cbn [dom] in Hd.
      destruct fs as [|g [|g2 rest]]; [discriminate Hd | |].
      + (* homogeneous *) cbn [SetChain.vset Doc.docb]. destruct v; try exact eq_refl.
        rewrite uniq_check_spec. destruct (negb u || py_unique l); cbn [bind]; [|exact eq_refl].
        inversion H; subst.
        pose proof (each_agree g l H2 Hd) as A.
        destruct (mapM _ l) as [r|x], (all_some _) as [r'|]; simpl in *; try contradiction;
          [subst; reflexivity | exact A].
      + cbn [SetChain.vset Doc.docb]. destruct v; try exact eq_refl.
        rewrite uniq_check_spec. destruct (negb u || py_unique l); cbn [bind]; [|exact eq_refl].
        destruct (lenZ (g :: g2 :: rest) =? lenZ l) eqn:E1; cbn [negb]; [|exact eq_refl].
        apply Z.eqb_eq in E1.
        pose proof (pos_tuple_agree (g :: g2 :: rest) H l Hd ltac:(unfold lenZ in E1; lia)) as A.
        match type of A with agree ?rr ?oo =>
          destruct rr as [r|x]; destruct oo as [r'|]; simpl in *; try contradiction;
            [subst; reflexivity | exact A] end.
    - (* FMapAny *) simpl. destruct v; simpl; try reflexivity.
      rewrite size_check_spec. destruct (size_ok sz (lenZ kv)); reflexivity.
    - (* FMapKV *) simpl in Hd |- *. destruct v; simpl; try reflexivity.
      rewrite size_check_spec. destruct (size_ok sz (lenZ kv)); simpl; [|reflexivity].
      assert (A : agree (mapM (fun p => k' <- vset f1 (fst p) ;; v' <- vset f2 (snd p) ;; Ok (k', v')) kv)
                        (all_some (map (fun p => match docb f1 (fst p), docb f2 (snd p) with
                                                 | Some k', Some v' => Some (k', v')
                                                 | _, _ => None
                                                 end) kv))).
      { apply mapM_agree. apply forallb_Forall in Hd.
        induction Hd as [|p t Hp Ht IH]; constructor; [|exact IH].
        apply andb_true_iff in Hp as [Hk Hv].
        specialize (IHf1 _ Hk). specialize (IHf2 _ Hv).
        destruct (vset f1 (fst p)) as [a|x], (docb f1 (fst p)) as [a'|]; simpl in *; try contradiction;
          [|exact IHf1].
        destruct (vset f2 (snd p)) as [b|x], (docb f2 (snd p)) as [b'|]; simpl in *; try contradiction;
          [subst; reflexivity | exact IHf2]. }
      destruct (mapM _ kv) as [r|x], (all_some _) as [r'|]; simpl in *; try contradiction;
        [subst; reflexivity | exact A].
    - (* FAllOf *) simpl in Hd. cbn [SetChain.vset Doc.docb]. apply allof_agree. apply options_agree; assumption.
    - (* FAnyOf *) simpl in Hd. cbn [SetChain.vset Doc.docb]. apply anyof_agree. apply options_agree; assumption.
    - (* FOneOf *) simpl in Hd. cbn [SetChain.vset Doc.docb].
      rewrite (oneof_count fs v (options_agree fs v H Hd)). simpl.
      destruct (Nat.eqb _ 1); reflexivity.
    - (* FNot *) simpl in Hd. cbn [SetChain.vset Doc.docb]. apply not_agree. apply options_agree; assumption.
    - (* FClassRef *) simpl. destruct v; simpl; try reflexivity.
      destruct (is_instance_of e cls c); reflexivity.
  Qed.

  (* C02: accept exactly when documented, with the documented normal form *)
  Corollary vset_decision f v nf :
    dom f v = true -> (vset f v = Ok nf <-> docb f v = Some nf).
  Proof. intro H. apply agree_ok. apply vset_agrees_with_doc. exact H. Qed.

  (* C02: every rejection is a TypeError or ValueError *)
  Corollary vset_error_class f v x :
    dom f v = true -> vset f v = Raise x -> is_te_ve x = true.
  Proof. intros H. apply (agree_raise _ (docb f v)). apply vset_agrees_with_doc. exact H. Qed.
End Main.
