(* Implicit wrappers of arbitrary classes: for EVERY history of earlier declarations, every class and every
   value, the declaration accepts exactly the instances of ITS class -- provided the registry key separates
   class objects (rk_safe); by induction over the history with the invariant that every cached wrapper wraps the
   class its entry was created for.  A key computed from the qualified name, and the class object itself under
   a metaclass with __eq__/__hash__, are refuted by constructed histories. *)
From Coq Require Import ZArith NArith String Bool List Lia.
Import ListNotations.
From TP Require Import Base.PyVal Base.PyEq Fields.ClassField Ser.AgreeProofs.

Definition reg_wf (reg : registry) : Prop := forall p, In p reg -> k_id (fst p) = k_id (snd p).
Definition keys_in (reg : registry) (univ : list pycls) : Prop := forall p, In p reg -> In (fst p) univ.
Definition key_identity (rk : rkey) (univ : list pycls) : Prop :=
  forall a b, In a univ -> In b univ -> keyeq rk a b = true -> k_id a = k_id b.

Lemma rk_safe_identity rk univ : rk_safe rk univ = true -> key_identity rk univ.
Proof.
  intros Hs a b Ha Hb Hk. destruct rk as [| | attrs |]; try discriminate Hs.
  - cbn [rk_safe] in Hs. rewrite forallb_forall in Hs.
    pose proof (Hs a Ha) as Ma. cbn [keyeq] in Hk.
    destruct (k_meta_eq a); [discriminate Ma|].
    rewrite orb_false_r in Hk. now apply N.eqb_eq in Hk.
  - cbn [keyeq] in Hk. now apply N.eqb_eq in Hk.
Qed.

Lemma reg_find_id rk univ reg c ty :
  key_identity rk univ -> reg_wf reg -> keys_in reg univ -> In c univ ->
  reg_find rk reg c = Some ty -> k_id ty = k_id c.
Proof.
  intros Hid. induction reg as [|[k t] reg IH]; intros Hwf Hk Hc Hf; [discriminate Hf|].
  cbn [reg_find] in Hf. destruct (keyeq rk k c) eqn:E.
  - inversion Hf; subst t. pose proof (Hwf (k, ty) (or_introl eq_refl)) as Hw. cbn [fst snd] in Hw.
    rewrite <- Hw. apply Hid; [apply (Hk (k, ty)); now left | exact Hc | exact E].
  - apply IH; [intros p Hp; apply Hwf; now right | intros p Hp; apply Hk; now right | exact Hc | exact Hf].
Qed.

Lemma reg_getitem_spec rk univ reg c :
  key_identity rk univ -> reg_wf reg -> keys_in reg univ -> In c univ ->
  k_id (snd (reg_getitem rk reg c)) = k_id c /\
  reg_wf (fst (reg_getitem rk reg c)) /\ keys_in (fst (reg_getitem rk reg c)) univ.
Proof.
  intros Hid Hwf Hk Hc. unfold reg_getitem. destruct (reg_find rk reg c) as [ty|] eqn:E; cbn [fst snd].
  - split; [eapply reg_find_id; eauto | split; assumption].
  - split; [reflexivity|]. split; intros p Hp; apply in_app_or in Hp as [Hp|[Hp|[]]];
      try (subst p; cbn [fst snd]); auto.
Qed.

Lemma declare_all_inv rk univ cs : forall reg,
  key_identity rk univ -> reg_wf reg -> keys_in reg univ -> incl cs univ ->
  reg_wf (declare_all rk reg cs) /\ keys_in (declare_all rk reg cs) univ.
Proof.
  induction cs as [|c cs IH]; intros reg Hid Hwf Hk Hin; cbn [declare_all]; [split; assumption|].
  destruct (reg_getitem_spec rk univ reg c Hid Hwf Hk (Hin c (or_introl eq_refl))) as [_ [W K]].
  apply IH; auto. intros x Hx. apply Hin. now right.
Qed.

Lemma cisinstance_id v a b : k_id a = k_id b -> cisinstance v a = cisinstance v b.
Proof. intros H. destruct v; cbn [cisinstance]; [rewrite H|]; reflexivity. Qed.

Lemma cval_eqb_refl v : cval_eqb v v = true.
Proof. destruct v; cbn [cval_eqb]; [rewrite !N.eqb_refl; reflexivity | apply pyval_eqb_refl]. Qed.

Theorem cf_agree_safe : forall rk hist c v,
    rk_safe rk (c :: hist) = true ->
    cf_agree (cf_set rk hist c v) (cf_doc c v) = true.
Proof.
  intros rk hist c v Hs. pose proof (rk_safe_identity _ _ Hs) as Hid.
  unfold cf_set, cf_doc, wrapper_set.
  destruct (declare_all_inv rk (c :: hist) hist [] Hid) as [W K];
    [intros p [] | intros p [] | intros x Hx; now right |].
  destruct (reg_getitem_spec rk (c :: hist) _ c Hid W K (or_introl eq_refl)) as [E _].
  rewrite (cisinstance_id v _ _ E).
  destruct (cisinstance v c); cbn [cf_agree]; [apply cval_eqb_refl | reflexivity].
Qed.

(* the wrapper a declaration gets wraps ITS class, whatever was declared before *)
Theorem cf_wrapper_of_own_class : forall rk hist c,
    rk_safe rk (c :: hist) = true ->
    k_id (snd (reg_getitem rk (declare_all rk [] hist) c)) = k_id c.
Proof.
  intros rk hist c Hs. pose proof (rk_safe_identity _ _ Hs) as Hid.
  destruct (declare_all_inv rk (c :: hist) hist [] Hid) as [W K];
    [intros p [] | intros p [] | intros x Hx; now right |].
  exact (proj1 (reg_getitem_spec rk (c :: hist) _ c Hid W K (or_introl eq_refl))).
Qed.

(* ---------------------------------------------------------------- refutations *)

Definition mkcls (id : N) (qual : string) (meta : option N) : pycls :=
  {| k_id := id; k_module := s2p "app.geometry"; k_qualname := s2p qual; k_name := s2p "Vector";
     k_mro := []; k_meta_eq := meta |}.

(* two classes out of one class factory: same module and qualified name, different objects *)
Definition V2 := mkcls 1 "make_vector.<locals>.Vector" None.
Definition V3 := mkcls 2 "make_vector.<locals>.Vector" None.

Lemma cf_refuted_qualname_key :
  let rk := RK_attrs [s2p "__module__"; s2p "__qualname__"] in
  cf_set rk [V2] V3 (CInst V3 0) = Raise TypeError /\ cf_doc V3 (CInst V3 0) = Some (CInst V3 0) /\
  cf_set rk [V2] V3 (CInst V2 0) = Ok (CInst V2 0) /\ cf_doc V3 (CInst V2 0) = None.
Proof. repeat split; vm_compute; reflexivity. Qed.

(* the class object as key, for classes whose metaclass makes them compare (and hash) equal *)
Definition M1 := mkcls 3 "M1" (Some 7%N).
Definition M2 := mkcls 4 "M2" (Some 7%N).

Lemma cf_refuted_metaclass_eq :
  cf_set RK_object [M1] M2 (CInst M2 0) = Raise TypeError /\ cf_doc M2 (CInst M2 0) = Some (CInst M2 0).
Proof. repeat split; vm_compute; reflexivity. Qed.

(* non-vacuity: with the class object as key the same history is harmless for ordinary classes *)
Lemma cf_safe_nonvacuous :
  rk_safe RK_object [V3; V2] = true /\
  cf_set RK_object [V2] V3 (CInst V3 0) = Ok (CInst V3 0) /\
  cf_set RK_object [V2] V3 (CInst V2 0) = Raise TypeError /\
  cf_set RK_object [V2; V3] V2 (CInst V2 5) = Ok (CInst V2 5).
Proof. repeat split; vm_compute; reflexivity. Qed.
