(* The tie between the GENERATED translation of typedpy/fields/enum.py (Gen/GuardsEnum.v: what the
   source says now) and the hand-written model of an Enum field's __set__ chain (Fields/SetChain.v,
   [vset] on FEnumCls / FEnumLit), on which C01 and C02 are proved: for EVERY declaration and EVERY
   value the two coincide.  A source edit that changes which names / members / literals Enum accepts,
   what it stores, or which exception it raises makes exactly these lemmas fail. *)
From Coq Require Import ZArith QArith NArith String Ascii Bool Lia List.
Import ListNotations.
From TP Require Import Base.PyVal Base.PyOps Base.PyOpsEnum Fields.FieldAst Fields.SetChain Gen.GuardsEnum.
Local Open Scope Z_scope.

(* ------------------------------------------------------------------ how a declaration is seen as `self` *)

Definition members_vals (cls : pystr) (ms : list (pystr * pyval)) : list pyval :=
  map (fun m => PEnum cls (fst m) (snd m)) ms.

(* Enum(values=<members of enum class cls>): [allm] = every member of the class, [members] = the
   declared ones *)
Definition enum_cls_self (cls : pystr) (allm members : list (pystr * pyval)) (a : pystr) : pyval :=
  if pystr_eqb a (s2p "_is_enum") then PBool true
  else if pystr_eqb a (s2p "_valid_enum_values") then PList (members_vals cls members)
  else if pystr_eqb a (s2p "_enum_class") then PList (members_vals cls allm)
  else if pystr_eqb a (s2p "values") then PList (members_vals cls members)
  else PNone.

(* Enum(values=[literals]) *)
Definition enum_lit_self (values : list pyval) (a : pystr) : pyval :=
  if pystr_eqb a (s2p "_is_enum") then PBool false
  else if pystr_eqb a (s2p "values") then PList values
  else PNone.

(* the declared members are members of the class *)
Definition sub_alist (members allm : list (pystr * pyval)) : Prop :=
  forall n x, alist_get members n = Some x -> alist_get allm n = Some x.

(* ------------------------------------------------------------------ facts about the operators *)

Lemma pystr_eqb_sym a b : pystr_eqb a b = pystr_eqb b a.
Proof.
  destruct (pystr_eqb a b) eqn:E1; destruct (pystr_eqb b a) eqn:E2; try reflexivity.
  - apply pystr_eqb_spec in E1. subst. rewrite pystr_eqb_refl in E2. discriminate.
  - apply pystr_eqb_spec in E2. subst. rewrite pystr_eqb_refl in E1. discriminate.
Qed.

Lemma hashable_same : forall v, py_hashable' v = py_hashable v.
Proof.
  (* the two fixpoints have the same body *)
  intro v. reflexivity.
Qed.

Lemma names_of_members cls (ms : list (pystr * pyval)) :
  mapM py_member_name (members_vals cls ms) = Ok (map (fun m => PStr (fst m)) ms).
Proof.
  induction ms as [|[n x] t IH]; [reflexivity|].
  cbn [members_vals map mapM py_member_name bind fst snd].
  change (map (fun m => PEnum cls (fst m) (snd m)) t) with (members_vals cls t). rewrite IH. reflexivity.
Qed.

Lemma py_in_cons x a l : py_in x (a :: l) = py_eq x a || py_in x l.
Proof. reflexivity. Qed.

Lemma in_names_str n (ms : list (pystr * pyval)) :
  py_in (PStr n) (map (fun m => PStr (fst m)) ms) = alist_has ms n.
Proof.
  unfold alist_has. induction ms as [|[k x] t IH]; [reflexivity|].
  change (map (fun m => PStr (fst m)) ((k, x) :: t)) with (PStr k :: map (fun m => PStr (fst m)) t).
  rewrite py_in_cons, IH. cbn [py_eq alist_get]. rewrite (pystr_eqb_sym n k).
  destruct (pystr_eqb k n); reflexivity.
Qed.

Lemma in_members_enum cls c n x (ms : list (pystr * pyval)) :
  py_in (PEnum c n x) (members_vals cls ms) = pystr_eqb c cls && alist_has ms n.
Proof.
  unfold alist_has. induction ms as [|[k y] t IH].
  - cbn. rewrite andb_false_r. reflexivity.
  - change (members_vals cls ((k, y) :: t)) with (PEnum cls k y :: members_vals cls t).
    rewrite py_in_cons, IH. cbn [py_eq alist_get]. rewrite (pystr_eqb_sym n k).
    destruct (pystr_eqb c cls), (pystr_eqb k n); reflexivity.
Qed.

(* a value that is not a str equals no name; one that is not an enum member equals no member *)
Lemma not_in_names v (l : list (pystr * pyval)) :
  match v with PStr _ => false | _ => true end = true ->
  py_in v (map (fun m => PStr (fst m)) l) = false.
Proof.
  intro Hv. induction l as [|[k x] t IH]; [reflexivity|].
  change (map (fun m => PStr (fst m)) ((k, x) :: t)) with (PStr k :: map (fun m => PStr (fst m)) t).
  rewrite py_in_cons, IH, orb_false_r.
  destruct v as [ | b | n | s | l | l | l | f l | kv | c n y | c a | tg r ]; try discriminate Hv; try reflexivity;
    try (destruct n; reflexivity).
Qed.

Lemma not_in_members v cls (l : list (pystr * pyval)) :
  match v with PEnum _ _ _ => false | _ => true end = true ->
  py_in v (members_vals cls l) = false.
Proof.
  intro Hv. induction l as [|[k x] t IH]; [reflexivity|].
  change (members_vals cls ((k, x) :: t)) with (PEnum cls k x :: members_vals cls t).
  rewrite py_in_cons, IH, orb_false_r.
  destruct v as [ | b | n | s | l | l | l | f l | kv | c n y | c a | tg r ]; try discriminate Hv; try reflexivity;
    try (destruct n; reflexivity).
Qed.

(* any(value is v for v in <declared members>): identity with a declared member; in this universe (no
   mix-in: a member equals itself only) it is what `value in <declared members>` decides with == *)
Lemma mapM_is_member cls x (ms : list (pystr * pyval)) :
  mapM (py_is_member x) (members_vals cls ms) =
  Ok (map (fun m => match x with PEnum c' n' _ => pystr_eqb c' cls && pystr_eqb n' (fst m) | _ => false end) ms).
Proof.
  induction ms as [|[k y] t IH]; [reflexivity|].
  cbn [members_vals map mapM py_is_member bind fst snd].
  change (map (fun m => PEnum cls (fst m) (snd m)) t) with (members_vals cls t). rewrite IH. reflexivity.
Qed.

Lemma any_is_enum cls c n x (ms : list (pystr * pyval)) :
  py_any_is (PEnum c n x) (PList (members_vals cls ms)) = Ok (pystr_eqb c cls && alist_has ms n).
Proof.
  unfold py_any_is. rewrite mapM_is_member. cbn [bind]. f_equal.
  unfold alist_has. induction ms as [|[k y] t IH].
  - cbn. rewrite andb_false_r. reflexivity.
  - cbn [map existsb fst alist_get]. rewrite IH. rewrite (pystr_eqb_sym n k).
    destruct (pystr_eqb c cls), (pystr_eqb k n); reflexivity.
Qed.

Lemma any_is_nonenum v cls (ms : list (pystr * pyval)) :
  match v with PEnum _ _ _ => false | _ => true end = true ->
  py_any_is v (PList (members_vals cls ms)) = Ok false.
Proof.
  intro Hv. unfold py_any_is. rewrite mapM_is_member. cbn [bind]. f_equal.
  induction ms as [|m t IH]; [reflexivity|]. cbn [map existsb]. rewrite IH.
  destruct v; try discriminate Hv; reflexivity.
Qed.

Lemma lookup_member cls (allm : list (pystr * pyval)) n :
  enum_lookup (members_vals cls allm) n =
  match alist_get allm n with Some x => Ok (PEnum cls n x) | None => Raise KeyError end.
Proof.
  induction allm as [|[k x] t IH]; [reflexivity|].
  cbn [members_vals map enum_lookup fst snd alist_get].
  destruct (pystr_eqb k n) eqn:E.
  - apply pystr_eqb_spec in E. subst. reflexivity.
  - exact IH.
Qed.

Section Bridge.
  Variable re_match : N -> pystr -> bool.
  Variable e : env.

  (* ---------------------------------------------------------------- Enum._validate, enum-class form *)
  Lemma generated_enum_cls_validate : forall cls allm members v,
      Enum__validate re_match (enum_cls_self cls allm members) v =
      match v with
      | PStr n => if alist_has members n then Ok tt else Raise ValueError
      | PEnum c n _ => if pystr_eqb c cls && alist_has members n then Ok tt else Raise ValueError
      | _ => Raise ValueError
      end.
  Proof.
    intros cls allm members v. unfold Enum__validate.
    change (enum_cls_self cls allm members (s2p "_is_enum")) with (PBool true).
    change (enum_cls_self cls allm members (s2p "_valid_enum_values")) with (PList (members_vals cls members)).
    cbn [py_truthy bind]. unfold py_names_set, py_names_list.
    rewrite names_of_members. cbn [bind py_in_dyn].
    assert (Htail : forall A (k : res A),
               (c <- (t5 <- py_len (PList (map (fun m => PStr (fst m)) members)) ;; py_lt t5 (zint 11)) ;;
                if c then @Raise unit ValueError else Raise ValueError) = Raise ValueError).
    { intros A k. cbn [py_len bind py_lt as_num zint].
      destruct (num_ltb _ _); reflexivity. }
    (* only a str that is not itself a member is hashed (a str is hashable); every other value skips the set of
       names; a member is accepted by identity with a declared member *)
    destruct v as [ | b | n | s | l | l | l | f l | kv | c n x | c a | t r ];
      try (change (py_isinstance _ [K_str]) with false; cbn [py_and py_not negb bind];
           rewrite any_is_nonenum by reflexivity; cbn [negb bind];
           exact (Htail unit (Ok tt))).
    - (* PStr *)
      change (py_isinstance (PStr s) [K_str]) with true. cbn [py_is_enum_member py_and py_not negb bind py_hashable'].
      rewrite in_names_str. destruct (alist_has members s); cbn [negb bind]; [reflexivity|].
      rewrite any_is_nonenum by reflexivity. cbn [negb bind]. exact (Htail unit (Ok tt)).
    - (* PEnum *)
      change (py_isinstance (PEnum c n x) [K_str]) with false. cbn [py_and py_not negb bind].
      rewrite any_is_enum.
      destruct (pystr_eqb c cls && alist_has members n); cbn [negb bind]; [reflexivity|].
      exact (Htail unit (Ok tt)).
  Qed.

  (* ---------------------------------------------------------------- Enum.__set__, enum-class form *)
  Theorem generated_enum_cls_set : forall cls allm members v,
      sub_alist members allm ->
      Enum__set re_match (enum_cls_self cls allm members) v = vset re_match e (FEnumCls cls members) v.
  Proof.
    intros cls allm members v Hsub. unfold Enum__set.
    rewrite generated_enum_cls_validate.
    change (enum_cls_self cls allm members (s2p "_is_enum")) with (PBool true).
    change (enum_cls_self cls allm members (s2p "_enum_class")) with (PList (members_vals cls allm)).
    cbn [vset py_truthy bind].
    destruct v as [ | b | n | s | l | l | l | f l | kv | c n x | c a | t r ];
      try reflexivity.
    - (* PStr: a str that is not an enum member is looked up by name *)
      unfold alist_has. destruct (alist_get members s) as [x|] eqn:Hg; cbn [bind]; [|reflexivity].
      cbn [py_isinstance existsb isinstance1 orb py_enum_getitem py_is_enum_member py_and py_not negb bind].
      rewrite lookup_member, (Hsub s x Hg). reflexivity.
    - (* PEnum *)
      destruct (pystr_eqb c cls && alist_has members n); reflexivity.
  Qed.

  (* ---------------------------------------------------------------- literal form *)
  Theorem generated_enum_lit_set : forall values v,
      Enum__set re_match (enum_lit_self values) v = vset re_match e (FEnumLit values) v.
  Proof.
    intros values v. unfold Enum__set, Enum__validate.
    change (enum_lit_self values (s2p "_is_enum")) with (PBool false).
    change (enum_lit_self values (s2p "values")) with (PList values).
    cbn [vset py_truthy bind py_in_dyn py_not].
    destruct (py_in v values); reflexivity.
  Qed.
End Bridge.
