(* Fields over ARBITRARY (non-typedpy) classes: Field[Foo], Array[Foo], Map[String, Foo], AnyOf[Integer, Foo]...
   FieldMeta.__getitem__ (typedpy/structures/structures.py) creates an implicit TypedField wrapper for the class
   (create_typed_field(name, val): _ty = val, _validate = isinstance(value, _ty)) and caches it in the process-wide
   FieldMeta._registry.  What a later declaration gets therefore depends on the HISTORY of earlier declarations
   and on what the registry is keyed by.  The key is a parameter of the model ([rkey]); the key the current
   source uses is generated (Gen/RegistryKey.v, harness/genmods/registry_key.py).  Executable; no proofs here. *)
From Coq Require Import ZArith NArith String Bool List.
Import ListNotations.
From TP Require Import Base.PyVal Base.PyEq.

(* a class object: identity, the attributes a key could be computed from, the identities of its proper
   ancestors, and -- for a class whose METACLASS overrides __eq__/__hash__ -- the group of classes it is equal to *)
Record pycls := { k_id : N; k_module : pystr; k_qualname : pystr; k_name : pystr;
                  k_mro : list N; k_meta_eq : option N }.

Inductive rkey :=
| RK_object                       (* the class object itself: dict key by hash / == of the class *)
| RK_id                           (* id(val) *)
| RK_attrs (attrs : list pystr)   (* computed from val.__module__ / __qualname__ / __name__ only *)
| RK_unknown.

Definition cls_attr (k : pycls) (a : pystr) : option pystr :=
  if pystr_eqb a (s2p "__module__") then Some (k_module k)
  else if pystr_eqb a (s2p "__qualname__") then Some (k_qualname k)
  else if pystr_eqb a (s2p "__name__") then Some (k_name k)
  else None.

(* stored key of class a found by the key of class b *)
Definition keyeq (rk : rkey) (a b : pycls) : bool :=
  match rk with
  | RK_id => N.eqb (k_id a) (k_id b)
  | RK_object =>
      N.eqb (k_id a) (k_id b) ||
      match k_meta_eq a, k_meta_eq b with Some g, Some h => N.eqb g h | _, _ => false end
  | RK_attrs attrs =>
      forallb (fun at_ => match cls_attr a at_, cls_attr b at_ with
                          | Some x, Some y => pystr_eqb x y
                          | _, _ => false end) attrs
  | RK_unknown => true              (* nothing is known: every lookup may hit *)
  end.

Definition registry := list (pycls * pycls).      (* (class the entry was created for, _ty of the cached wrapper) *)

Fixpoint reg_find (rk : rkey) (reg : registry) (c : pycls) : option pycls :=
  match reg with
  | [] => None
  | (k, ty) :: t => if keyeq rk k c then Some ty else reg_find rk t c
  end.

(* FieldMeta.__getitem__(cls, c) for an arbitrary class c: the cached wrapper, else a new one with _ty = c *)
Definition reg_getitem (rk : rkey) (reg : registry) (c : pycls) : registry * pycls :=
  match reg_find rk reg c with
  | Some ty => (reg, ty)
  | None => (reg ++ [(c, c)], c)
  end.

Fixpoint declare_all (rk : rkey) (reg : registry) (cs : list pycls) : registry :=
  match cs with
  | [] => reg
  | c :: t => declare_all rk (fst (reg_getitem rk reg c)) t
  end.

(* values: instances of arbitrary classes (class + an identity tag) and ordinary values *)
Inductive cval := CInst (cls : pycls) (tag : N) | CPlain (v : pyval).

Definition is_subclass_id (k : pycls) (id : N) : bool := N.eqb (k_id k) id || existsb (N.eqb id) (k_mro k).

Definition cisinstance (v : cval) (ty : pycls) : bool :=
  match v with
  | CInst k _ => is_subclass_id k (k_id ty)
  | CPlain _ => false
  end.

(* TypedField._validate + Field.__set__: the value is stored as it is *)
Definition wrapper_set (ty : pycls) (v : cval) : res cval :=
  if cisinstance v ty then Ok v else Raise TypeError.

(* the declaration Field[c] made after the declarations [hist] (earliest first), then given v *)
Definition cf_set (rk : rkey) (hist : list pycls) (c : pycls) (v : cval) : res cval :=
  let reg := declare_all rk [] hist in
  wrapper_set (snd (reg_getitem rk reg c)) v.

(* documented rule: "Assume Foo is an arbitrary (non-Typedpy) class: foos = Array[Foo]" -- the field accepts
   exactly the instances of the class it was declared with and stores the value given *)
Definition cf_doc (c : pycls) (v : cval) : option cval :=
  if cisinstance v c then Some v else None.

Definition cval_eqb (a b : cval) : bool :=
  match a, b with
  | CInst k t, CInst k' t' => N.eqb (k_id k) (k_id k') && N.eqb t t'
  | CPlain u, CPlain v => pyval_eqb u v
  | _, _ => false
  end.

Definition cf_agree (r : res cval) (d : option cval) : bool :=
  match d, r with
  | Some nf, Ok y => cval_eqb nf y
  | None, Raise e => is_te_ve e
  | _, _ => false
  end.

(* the key separates the classes involved: always for id(); for the class object unless a metaclass
   overrides __eq__/__hash__ *)
Definition rk_safe (rk : rkey) (cs : list pycls) : bool :=
  match rk with
  | RK_id => true
  | RK_object => forallb (fun k => match k_meta_eq k with None => true | Some _ => false end) cs
  | _ => false
  end.
