(* uniqueItems in the model is decided by Python == (py_eq) alone: [py_unique l] holds exactly when no element is
   equal to an EARLIER one.  No hash, repr or identity of the elements enters (the model has none); neither symmetry
   nor transitivity of == is needed for the characterisation. *)
From Coq Require Import ZArith NArith String Bool List Lia.
Import ListNotations.
From TP Require Import Base.PyVal Fields.SetChain.
Local Open Scope string_scope.

(* every element differs (under ==, candidate on the left as in `x not in seen`) from every earlier one *)
Fixpoint pairwise_ne (l : list pyval) : Prop :=
  match l with
  | [] => True
  | x :: t => Forall (fun y => py_eq y x = false) t /\ pairwise_ne t
  end.

Fixpoint nodup_eq (l seen : list pyval) : bool :=
  match l with
  | [] => true
  | x :: t => negb (py_in x seen) && nodup_eq t (x :: seen)
  end.

Lemma dedup_aux_le : forall l seen, (length (py_dedup_aux seen l) <= length seen + length l)%nat.
Proof.
  induction l as [|x l IH]; intros seen; cbn [py_dedup_aux length].
  - rewrite rev_length. lia.
  - destruct (py_in x seen); [specialize (IH seen) | specialize (IH (x :: seen)); cbn [length] in IH]; lia.
Qed.

Lemma dedup_aux_full : forall l seen,
  Nat.eqb (length (py_dedup_aux seen l)) (length seen + length l) = nodup_eq l seen.
Proof.
  induction l as [|x l IH]; intros seen; cbn [py_dedup_aux nodup_eq length].
  - rewrite rev_length, Nat.add_0_r. apply Nat.eqb_refl.
  - destruct (py_in x seen); cbn [negb andb].
    + pose proof (dedup_aux_le l seen). apply Nat.eqb_neq. lia.
    + rewrite <- IH. cbn [length]. f_equal. lia.
Qed.

Lemma not_in_forall x seen : py_in x seen = false <-> Forall (fun s => py_eq x s = false) seen.
Proof.
  unfold py_in. induction seen as [|s t IH]; cbn [existsb]; [split; auto|].
  rewrite orb_false_iff, IH. split; [intros [A B]; constructor; auto | intros H; inversion H; auto].
Qed.

Lemma nodup_eq_spec : forall l seen,
  nodup_eq l seen = true <->
  pairwise_ne l /\ Forall (fun y => Forall (fun s => py_eq y s = false) seen) l.
Proof.
  induction l as [|x t IH]; intros seen; cbn [nodup_eq pairwise_ne].
  - split; [intros _; split; [exact I | constructor] | reflexivity].
  - rewrite andb_true_iff, negb_true_iff, not_in_forall, IH. split.
    + intros [Hx [Hp Hall]]. split; [split; [|exact Hp] | constructor; [exact Hx|]].
      * rewrite Forall_forall in *. intros y Hy. specialize (Hall y Hy). inversion Hall; assumption.
      * rewrite Forall_forall in *. intros y Hy. specialize (Hall y Hy). inversion Hall; assumption.
    + intros [[Hne Hp] Hall]. inversion Hall as [|? ? Hx Ht]; subst. split; [exact Hx | split; [exact Hp|]].
      rewrite Forall_forall in *. intros y Hy. constructor; [apply Hne; exact Hy | apply Ht; exact Hy].
Qed.

Theorem py_unique_by_equality : forall l, py_unique l = true <-> pairwise_ne l.
Proof.
  intros l. unfold py_unique, py_dedup. pose proof (dedup_aux_full l []) as H. cbn [length plus] in H.
  rewrite H, nodup_eq_spec. split; [intros [A _]; exact A | intros A; split; [exact A|]].
  apply Forall_forall. intros; constructor.
Qed.

(* the uniqueItems check of Array / Deque / Tuple in the model of the __set__ chains *)
Theorem uniq_check_by_equality : forall l,
  (uniq_check true l = Ok tt <-> pairwise_ne l) /\
  (uniq_check true l = Raise ValueError <-> ~ pairwise_ne l) /\
  uniq_check false l = Ok tt.
Proof.
  intros l. unfold uniq_check. pose proof (py_unique_by_equality l) as H.
  destruct (py_unique l).
  - split; [tauto|]. split; [|reflexivity]. split; [discriminate | intros A; exfalso; apply A; tauto].
  - split; [split; [discriminate | intros A; destruct H as [_ H]; specialize (H A); discriminate]|].
    split; [|reflexivity]. split; [intros _ A; destruct H as [_ H]; specialize (H A); discriminate | reflexivity].
Qed.

(* equal elements with different hashes / reprs are duplicates; unequal elements with equal hashes are not *)
Example unique_examples :
  py_unique [PStruct (s2p "Meas") [(s2p "x", PNum (NInt 1))]; PStruct (s2p "Meas") [(s2p "x", PNum (NFlt 1 0))]] = false /\
  py_unique [PNum (NInt 1); PBool true] = false /\
  py_unique [PNum (NInt (-1)); PNum (NInt (-2))] = true.
Proof. repeat split; vm_compute; reflexivity. Qed.
