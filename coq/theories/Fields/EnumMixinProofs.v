(* Enum fields over mix-in enum classes: the code-shaped model of Enum.__set__ agrees with the documented
   rule for EVERY class, mix-in, declared subset and candidate; the inputs on which a membership test by ==
   was confused (the defects C02-mixin-eq-confusion / -name-confusion, repaired in typedpy) are decided as
   documented. *)
From Coq Require Import ZArith NArith String Bool List Lia.
Import ListNotations.
From TP Require Import Base.PyVal Base.PyEq Base.PyOps Fields.EnumMixin Ser.AgreeProofs.

Lemma xval_eqb_refl x : is_cand x = true -> xval_eqb x x = true.
Proof.
  destruct x as [v | c m n v | l | l | kv]; cbn; try discriminate; intros _.
  - apply pyval_eqb_refl.
  - rewrite !pystr_eqb_refl, pyval_eqb_refl. destruct m; reflexivity.
Qed.

(* EnumClass[name] on a plain str is the association lookup by name *)
Lemma xmap_get_name E (ms : list (pystr * pyval)) s :
  xmap_get (map (fun m => (fst m, member_of E m)) ms) (PStr s) =
  match alist_get ms s with
  | Some v => Some (XMem (ec_name E) (ec_mix E) s v)
  | None => None
  end.
Proof.
  induction ms as [|[n v] ms IH]; [reflexivity|].
  cbn [map xmap_get alist_get fst snd py_eq].
  destruct (pystr_eqb n s) eqn:Hn.
  - apply pystr_eqb_spec in Hn. subst n. reflexivity.
  - exact IH.
Qed.

Lemma x_in_names_plain_str s names :
  x_in_names (XPlain (PStr s)) names = str_in s names.
Proof.
  unfold x_in_names, str_in. induction names as [|n t IH]; [reflexivity|].
  cbn [existsb]. rewrite IH. f_equal.
Qed.

Lemma alist_has_of_decl (E : ecls) decl s :
  decl_in_class E decl = true -> str_in s (decl_names decl) = true ->
  exists v, alist_get (ec_members E) s = Some v.
Proof.
  unfold decl_in_class, str_in. intros Hd Hs.
  apply existsb_exists in Hs as [n [Hin Hn]]. apply pystr_eqb_spec in Hn. subst n.
  rewrite forallb_forall in Hd. specialize (Hd s Hin). unfold alist_has in Hd.
  destruct (alist_get (ec_members E) s) as [v|]; [eauto | discriminate].
Qed.

(* identity implies ==: what the former membership test (==) saw of a declared member *)
Lemma declared_member_in_members E decl x :
  is_declared_member E decl x = true -> x_in_members E x decl = true.
Proof.
  unfold is_declared_member, x_in_members. intros H.
  apply existsb_exists in H as [m [Hin Hm]]. apply existsb_exists. exists m. split; [exact Hin|].
  unfold x_eq. rewrite Hm. reflexivity.
Qed.

Lemma plain_not_declared E decl v : is_declared_member E decl (XPlain v) = false.
Proof. unfold is_declared_member. induction decl as [|d t IH]; [reflexivity|]. cbn [existsb x_same_member orb]. exact IH. Qed.

(* the code decides as documented on EVERY candidate (before the repair of Enum._validate: only on the
   candidates free of the == confusion and of the name confusion) *)
Theorem mx_agree_doc : forall E decl x,
    is_cand x = true -> decl_in_class E decl = true ->
    mx_agree (mx_set E decl x) (mx_doc E decl x) = true.
Proof.
  intros E decl x Hc Hd.
  destruct x as [v | c m n v | l | l | kv]; try discriminate Hc.
  - (* an ordinary value *)
    pose proof (plain_not_declared E decl v) as Hdm.
    destruct v as [| b | nu | s | l | l | l | f l | kv | c n v | c attrs | t r];
      try (unfold mx_set, mx_validate, x_is_str; cbn [px_isinstance existsb xclass_is isinstance1 orb andb negb];
           rewrite Hdm; reflexivity).
    (* a plain str *)
    unfold mx_set, mx_validate, x_is_str.
    cbn [px_isinstance existsb xclass_is isinstance1 orb andb negb px_is_enum_member mx_doc].
    rewrite x_in_names_plain_str. rewrite Hdm.
    destruct (str_in s (decl_names decl)) eqn:Hn.
    + cbn [negb andb bind]. unfold mx_lookup. cbn [x_base]. rewrite xmap_get_name.
      destruct (alist_has_of_decl E decl s Hd Hn) as [v Hv]. rewrite Hv.
      cbn [mx_agree xval_eqb]. rewrite !pystr_eqb_refl, pyval_eqb_refl. destruct (ec_mix E); reflexivity.
    + reflexivity.
  - (* an enum member: accepted exactly when it IS a declared member, stored as it is *)
    unfold mx_set, mx_validate. cbn [px_is_enum_member negb andb mx_doc].
    rewrite andb_false_r. cbn [negb andb].
    destruct (is_declared_member E decl (XMem c m n v)) eqn:Hdm.
    + cbn [negb bind mx_agree]. apply xval_eqb_refl. reflexivity.
    + reflexivity.
Qed.

(* every rejection is a TypeError / ValueError *)
Theorem mx_error_class : forall E decl x e,
    is_cand x = true -> decl_in_class E decl = true ->
    mx_set E decl x = Raise e -> is_te_ve e = true.
Proof.
  intros E decl x e Hc Hd Hr. pose proof (mx_agree_doc E decl x Hc Hd) as H.
  rewrite Hr in H. unfold mx_agree in H. destruct (mx_doc E decl x); [discriminate H | exact H].
Qed.

(* ---------------------------------------------------------------- the former confusions, now decided as documented *)

Definition Tone : ecls :=
  {| ec_name := s2p "Tone"; ec_mix := MxStr;
     ec_members := [(s2p "LOW", PStr (s2p "low")); (s2p "HIGH", PStr (s2p "LOW")); (s2p "MID", PStr (s2p "mid"))] |}.
Definition Level : ecls :=
  {| ec_name := s2p "Level"; ec_mix := MxInt;
     ec_members := [(s2p "A", PNum (NInt 1)); (s2p "B", PNum (NInt 2))] |}.

(* the raw value of a member of a str mix-in class equals the member, but is neither a declared member object
   nor a declared name: rejected with ValueError (was: accepted by ==, then KeyError in the lookup by name) *)
Lemma mx_value_string_rejected :
  x_in_members Tone (XPlain (PStr (s2p "low"))) (ec_members Tone) = true /\
  mx_set Tone (ec_members Tone) (XPlain (PStr (s2p "low"))) = Raise ValueError /\
  mx_doc Tone (ec_members Tone) (XPlain (PStr (s2p "low"))) = None.
Proof. repeat split; vm_compute; reflexivity. Qed.

(* a member that was NOT declared, whose value is the name of a declared member: rejected (was: accepted and stored) *)
Lemma mx_undeclared_member_rejected :
  let decl := [(s2p "LOW", PStr (s2p "low")); (s2p "MID", PStr (s2p "mid"))] in
  let high := XMem (s2p "Tone") MxStr (s2p "HIGH") (PStr (s2p "LOW")) in
  x_in_names high (decl_names decl) = true /\
  mx_set Tone decl high = Raise ValueError /\ mx_doc Tone decl high = None.
Proof. repeat split; vm_compute; reflexivity. Qed.

(* the raw int of a member of an int mix-in class equals the member: rejected (was: stored as the int) *)
Lemma mx_raw_int_rejected :
  x_in_members Level (XPlain (PNum (NInt 1))) (ec_members Level) = true /\
  mx_set Level (ec_members Level) (XPlain (PNum (NInt 1))) = Raise ValueError /\
  mx_doc Level (ec_members Level) (XPlain (PNum (NInt 1))) = None.
Proof. repeat split; vm_compute; reflexivity. Qed.

(* non-vacuity: members and names of a mix-in class that are accepted / rejected *)
Lemma mx_nonvacuous :
  let decl := [(s2p "LOW", PStr (s2p "low")); (s2p "MID", PStr (s2p "mid"))] in
  decl_in_class Tone decl = true /\
  mx_set Tone decl (XMem (s2p "Tone") MxStr (s2p "MID") (PStr (s2p "mid")))
    = Ok (XMem (s2p "Tone") MxStr (s2p "MID") (PStr (s2p "mid"))) /\
  mx_set Tone decl (XPlain (PStr (s2p "MID"))) = Ok (XMem (s2p "Tone") MxStr (s2p "MID") (PStr (s2p "mid"))) /\
  mx_set Tone decl (XPlain (PStr (s2p "HIGH"))) = Raise ValueError.
Proof. repeat split; vm_compute; reflexivity. Qed.
