(* Enum fields over mix-in enum classes: on every candidate free of the two confusions ([mx_safe]) the
   code-shaped model of Enum.__set__ agrees with the documented rule, for EVERY class, mix-in, declared
   subset and candidate; each confusion is refuted by a constructed witness. *)
From Coq Require Import ZArith NArith String Bool List Lia.
Import ListNotations.
From TP Require Import Base.PyVal Base.PyEq Base.PyOps Fields.EnumMixin Ser.AgreeProofs.

Lemma xval_eqb_refl x : is_cand x = true -> xval_eqb x x = true.
Proof.
  destruct x as [v | c m n v | l | l | kv]; cbn; try discriminate; intros _.
  - apply pyval_eqb_refl.
  - rewrite !pystr_eqb_refl, pyval_eqb_refl. destruct m; reflexivity.
Qed.

(* EnumClass[name] on a plain str is the association lookup by name *)
Lemma xmap_get_name E (ms : list (pystr * pyval)) s :
  xmap_get (map (fun m => (fst m, member_of E m)) ms) (PStr s) =
  match alist_get ms s with
  | Some v => Some (XMem (ec_name E) (ec_mix E) s v)
  | None => None
  end.
Proof.
  induction ms as [|[n v] ms IH]; [reflexivity|].
  cbn [map xmap_get alist_get fst snd py_eq].
  destruct (pystr_eqb n s) eqn:Hn.
  - apply pystr_eqb_spec in Hn. subst n. reflexivity.
  - exact IH.
Qed.

Lemma x_in_names_plain_str s names :
  x_in_names (XPlain (PStr s)) names = str_in s names.
Proof.
  unfold x_in_names, str_in. induction names as [|n t IH]; [reflexivity|].
  cbn [existsb]. rewrite IH. f_equal.
Qed.

Lemma alist_has_of_decl (E : ecls) decl s :
  decl_in_class E decl = true -> str_in s (decl_names decl) = true ->
  exists v, alist_get (ec_members E) s = Some v.
Proof.
  unfold decl_in_class, str_in. intros Hd Hs.
  apply existsb_exists in Hs as [n [Hin Hn]]. apply pystr_eqb_spec in Hn. subst n.
  rewrite forallb_forall in Hd. specialize (Hd s Hin). unfold alist_has in Hd.
  destruct (alist_get (ec_members E) s) as [v|]; [eauto | discriminate].
Qed.

Lemma declared_member_in_members E decl x :
  is_declared_member E decl x = true -> x_in_members E x decl = true.
Proof.
  unfold is_declared_member, x_in_members. intros H.
  apply existsb_exists in H as [m [Hin Hm]]. apply existsb_exists. exists m. split; [exact Hin|].
  unfold x_eq. rewrite Hm. reflexivity.
Qed.

Lemma plain_not_declared E decl v : is_declared_member E decl (XPlain v) = false.
Proof. unfold is_declared_member. induction decl as [|d t IH]; [reflexivity|]. cbn [existsb x_same_member orb]. exact IH. Qed.

Theorem mx_agree_safe : forall E decl x,
    is_cand x = true -> decl_in_class E decl = true -> mx_safe E decl x = true ->
    mx_agree (mx_set E decl x) (mx_doc E decl x) = true.
Proof.
  intros E decl x Hc Hd Hs.
  unfold mx_safe in Hs. apply andb_true_iff in Hs as [Ha Hb].
  destruct x as [v | c m n v | l | l | kv]; try discriminate Hc.
  - (* an ordinary value *)
    pose proof (plain_not_declared E decl v) as Hdm.
    clear Hb.
    destruct v as [| b | nu | s | l | l | l | f l | kv | c n v | c attrs | t r];
      try (unfold mx_set, mx_validate, name_hit, x_is_str in *; cbn [px_isinstance existsb xclass_is isinstance1 orb andb negb] in *;
           rewrite Hdm in Ha; cbn [negb andb] in Ha;
           destruct (x_in_members E _ decl); [discriminate Ha | reflexivity]).
    (* a plain str *)
    unfold mx_set, mx_validate, name_hit, x_is_str in *.
    cbn [px_isinstance existsb xclass_is isinstance1 orb andb negb px_is_enum_member mx_doc] in *.
    rewrite x_in_names_plain_str in *. rewrite Hdm in Ha. cbn [negb andb] in Ha.
    destruct (str_in s (decl_names decl)) eqn:Hn.
    + cbn [negb andb bind]. unfold mx_lookup. cbn [x_base]. rewrite xmap_get_name.
      destruct (alist_has_of_decl E decl s Hd Hn) as [v Hv]. rewrite Hv.
      cbn [mx_agree xval_eqb]. rewrite !pystr_eqb_refl, pyval_eqb_refl. destruct (ec_mix E); reflexivity.
    + cbn [negb andb] in *. destruct (x_in_members E (XPlain (PStr s)) decl); [discriminate Ha | reflexivity].
  - (* an enum member *)
    unfold mx_set, mx_validate. cbn [px_is_enum_member negb andb mx_doc] in *.
    destruct (is_declared_member E decl (XMem c m n v)) eqn:Hdm.
    + rewrite (declared_member_in_members _ _ _ Hdm). rewrite andb_false_r. cbn [bind].
      rewrite andb_false_r. cbn [mx_agree]. apply xval_eqb_refl. reflexivity.
    + cbn [negb andb] in Ha, Hb.
      unfold name_hit in Ha. cbn [px_is_enum_member negb] in Ha. rewrite andb_false_r in Ha. cbn [negb andb] in Ha.
      destruct (x_in_members E (XMem c m n v) decl); [discriminate Ha|].
      destruct (x_is_str (XMem c m n v) && x_in_names (XMem c m n v) (decl_names decl)); [discriminate Hb|].
      reflexivity.
Qed.

(* every rejection of a safe candidate is a TypeError / ValueError *)
Theorem mx_error_class : forall E decl x e,
    is_cand x = true -> decl_in_class E decl = true -> mx_safe E decl x = true ->
    mx_set E decl x = Raise e -> is_te_ve e = true.
Proof.
  intros E decl x e Hc Hd Hs Hr. pose proof (mx_agree_safe E decl x Hc Hd Hs) as H.
  rewrite Hr in H. unfold mx_agree in H. destruct (mx_doc E decl x); [discriminate H | exact H].
Qed.

(* ---------------------------------------------------------------- the confusions are real *)

Definition Tone : ecls :=
  {| ec_name := s2p "Tone"; ec_mix := MxStr;
     ec_members := [(s2p "LOW", PStr (s2p "low")); (s2p "HIGH", PStr (s2p "LOW")); (s2p "MID", PStr (s2p "mid"))] |}.
Definition Level : ecls :=
  {| ec_name := s2p "Level"; ec_mix := MxInt;
     ec_members := [(s2p "A", PNum (NInt 1)); (s2p "B", PNum (NInt 2))] |}.

(* the raw value of a member of a str mix-in class passes _validate (== with the member) and then fails the
   lookup by name with KeyError *)
Lemma mx_refuted_value_keyerror :
  mx_set Tone (ec_members Tone) (XPlain (PStr (s2p "low"))) = Raise KeyError /\
  mx_doc Tone (ec_members Tone) (XPlain (PStr (s2p "low"))) = None.
Proof. split; vm_compute; reflexivity. Qed.

(* a member that was NOT declared is accepted because its value is the name of a declared member *)
Lemma mx_refuted_undeclared_member :
  let decl := [(s2p "LOW", PStr (s2p "low")); (s2p "MID", PStr (s2p "mid"))] in
  let high := XMem (s2p "Tone") MxStr (s2p "HIGH") (PStr (s2p "LOW")) in
  mx_set Tone decl high = Ok high /\ mx_doc Tone decl high = None.
Proof. split; vm_compute; reflexivity. Qed.

(* the raw int of a member of an int mix-in class is accepted and stored as the int, not as the member *)
Lemma mx_refuted_raw_int :
  mx_set Level (ec_members Level) (XPlain (PNum (NInt 1))) = Ok (XPlain (PNum (NInt 1))) /\
  mx_doc Level (ec_members Level) (XPlain (PNum (NInt 1))) = None.
Proof. split; vm_compute; reflexivity. Qed.

(* non-vacuity: members and names of a mix-in class in the safe domain *)
Lemma mx_safe_nonvacuous :
  let decl := [(s2p "LOW", PStr (s2p "low")); (s2p "MID", PStr (s2p "mid"))] in
  mx_safe Tone decl (XMem (s2p "Tone") MxStr (s2p "MID") (PStr (s2p "mid"))) = true /\
  mx_set Tone decl (XMem (s2p "Tone") MxStr (s2p "MID") (PStr (s2p "mid")))
    = Ok (XMem (s2p "Tone") MxStr (s2p "MID") (PStr (s2p "mid"))) /\
  mx_safe Tone decl (XPlain (PStr (s2p "MID"))) = true /\
  mx_set Tone decl (XPlain (PStr (s2p "MID"))) = Ok (XMem (s2p "Tone") MxStr (s2p "MID") (PStr (s2p "mid"))) /\
  mx_safe Tone decl (XPlain (PStr (s2p "HIGH"))) = true /\
  mx_set Tone decl (XPlain (PStr (s2p "HIGH"))) = Raise ValueError.
Proof. repeat split; vm_compute; reflexivity. Qed.
