(* Spec side of C01/C02/C06: the documented rules of each field type (class docstrings and
   docs/fields.rst, transcribed in DESIGN.md Appendix A), as a decision procedure that is
   independent of the code-shaped model in SetChain.v.
   [docb f v = Some nf]  :  the documentation says f accepts v and the value read back is nf.
   [docb f v = None]     :  the documentation says v is not valid for f. *)
From Coq Require Import ZArith QArith NArith String Ascii Bool Lia List.
Import ListNotations.
From TP Require Import Base.PyVal Fields.FieldAst Fields.SetChain.
Local Open Scope Z_scope.

(* the documented numeric constraints *)
Definition num_constraints_ok (c : numc) (n : num) : bool :=
  match multiplesOf c with Some m => num_multiple_of n (NInt m) | None => true end &&
  match minimum c with Some mn => num_leb mn n | None => true end &&
  match maximum c with
  | Some mx => if exclusiveMaximum c then num_ltb n mx else num_leb n mx
  | None => true
  end.

Definition sign_ok (s : sign) (n : num) : bool :=
  match s with
  | SAny => true
  | SPositive => num_ltb zero n
  | SNegative => num_ltb n zero
  | SNonPositive => num_leb n zero
  | SNonNegative => num_leb zero n
  end.

Definition size_ok (sz : sizec) (n : Z) : bool :=
  match minItems sz with Some m => m <=? n | None => true end &&
  match maxItems sz with Some m => n <=? m | None => true end.

Fixpoint all_some {A} (l : list (option A)) : option (list A) :=
  match l with
  | [] => Some []
  | Some x :: t => match all_some t with Some r => Some (x :: r) | None => None end
  | None :: _ => None
  end.

Definition count_some {A} (l : list (option A)) : nat :=
  length (filter (fun o => match o with Some _ => true | None => false end) l).

Fixpoint first_some {A} (l : list (option A)) : option A :=
  match l with
  | [] => None
  | Some x :: _ => Some x
  | None :: t => first_some t
  end.

Section WithOracle.
  Variable re_match : N -> pystr -> bool.
  Variable e : env.

  Fixpoint docb (f : field) (v : pyval) {struct f} : option pyval :=
    match f with
    | FNumber k s c =>
        (* Number: int/float/Decimal; Integer: int; Float: float, "also accepts an int, which will be
           converted to a float"; plus the JSON-schema style constraints and the sign *)
        match v with
        | PNum n =>
            let conv := match k, n with
                        | KNumber, _ => Some n
                        | KInteger, NInt _ => Some n
                        | KFloat, NFlt _ _ => Some n
                        | KFloat, NInt z => Some (int_to_flt z)
                        | _, _ => None
                        end in
            match conv with
            | Some n' => if num_constraints_ok c n' && sign_ok s n' then Some (PNum n') else None
            | None => None
            end
        | _ => None
        end
    | FString c =>
        match v with
        | PStr s =>
            if match minLength c with Some m => m <=? lenZ s | None => true end &&
               match maxLength c with Some m => lenZ s <=? m | None => true end &&
               match pattern c with Some p => re_match p s | None => true end
            then Some v else None
        | _ => None
        end
    | FBoolean =>
        (* "Value of type bool. True or False" (and the strings 'True'/'False' map to them) *)
        match v with
        | PBool _ => Some v
        | PStr s => if pystr_eqb s str_True then Some (PBool true)
                    else if pystr_eqb s str_False then Some (PBool false) else None
        | _ => None
        end
    | FNone => match v with PNone => Some PNone | _ => None end
    | FAnything => Some v
    | FEnumLit values => if py_in v values then Some v else None
    | FEnumCls cls members =>
        match v with
        | PStr name => match alist_get members name with Some x => Some (PEnum cls name x) | None => None end
        | PEnum cls' name _ => if pystr_eqb cls' cls && alist_has members name then Some v else None
        | _ => None
        end
    | FSeqAny k sz u =>
        match seq_items k v with
        | Some l => if size_ok sz (lenZ l) && (negb u || py_unique l) then Some (seq_make k l) else None
        | None => None
        end
    | FSeqEach k item sz u =>
        match seq_items k v with
        | Some l =>
            if size_ok sz (lenZ l) && (negb u || py_unique l) then
              match all_some (map (docb item) l) with
              | Some r => Some (seq_make k r)
              | None => None
              end
            else None
        | None => None
        end
    | FSeqPos k items sz u additional =>
        (* "every element in the content is expected to be of the corresponding field in items";
           additionalItems=False: no elements beyond the ones defined in items *)
        match seq_items k v with
        | Some l =>
            if size_ok sz (lenZ l) && (negb u || py_unique l) &&
               (lenZ items <=? lenZ l) &&
               match additional with Some false => lenZ l =? lenZ items | _ => true end
            then
              match (fix pos (fs : list field) (vs : list pyval) {struct fs} : option (list pyval) :=
                       match fs, vs with
                       | [], _ => Some vs
                       | _ :: _, [] => None
                       | g :: fs', x :: vs' =>
                           match docb g x, pos fs' vs' with
                           | Some y, Some ys => Some (y :: ys)
                           | _, _ => None
                           end
                       end) items l with
              | Some r => Some (seq_make k r)
              | None => None
              end
            else None
        | None => None
        end
    | FSet imm item sz =>
        match v with
        | PSet frozen l =>
            if size_ok sz (lenZ l) then
              match item with
              | Some g => match all_some (map (docb g) l) with
                          | Some r => Some (PSet (imm || frozen) (py_dedup r))
                          | None => None
                          end
              | None => Some (PSet (imm || frozen) l)
              end
            else None
        | _ => None
        end
    | FTuple items u =>
        match v with
        | PTuple l =>
            if negb u || py_unique l then
              match items with
              | [] => None
              | [g] => match all_some (map (docb g) l) with Some r => Some (PTuple r) | None => None end
              | _ =>
                  if lenZ items =? lenZ l then
                    match (fix pos (fs : list field) (vs : list pyval) {struct fs} : option (list pyval) :=
                             match fs, vs with
                             | [], _ => Some []
                             | _ :: _, [] => None
                             | g :: fs', x :: vs' =>
                                 match docb g x, pos fs' vs' with
                                 | Some y, Some ys => Some (y :: ys)
                                 | _, _ => None
                                 end
                             end) items l with
                    | Some r => Some (PTuple r)
                    | None => None
                    end
                  else None
              end
            else None
        | _ => None
        end
    | FMapAny sz =>
        match v with
        | PDict kv => if size_ok sz (lenZ kv) then Some v else None
        | _ => None
        end
    | FMapKV kf vf sz =>
        match v with
        | PDict kv =>
            if size_ok sz (lenZ kv) then
              match all_some (map (fun p => match docb kf (fst p), docb vf (snd p) with
                                            | Some k', Some v' => Some (k', v')
                                            | _, _ => None
                                            end) kv) with
              | Some r => Some (PDict (dict_of_pairs [] r))
              | None => None
              end
            else None
        | _ => None
        end
    | FAllOf fs => if forallb (fun g => match docb g v with Some _ => true | None => false end) fs
                   then Some v else None
    | FAnyOf fs => first_some (map (fun g => docb g v) fs)
    | FOneOf fs => if Nat.eqb (count_some (map (fun g => docb g v) fs)) 1 then Some v else None
    | FNot fs => if existsb (fun g => match docb g v with Some _ => true | None => false end) fs
                 then None else Some v
    | FClassRef c =>
        match v with
        | PStruct c' _ => if is_instance_of e c' c then Some v else None
        | _ => None
        end
    end.
End WithOracle.
