(* Deep embedding of typedpy's public field vocabulary (the declarations the properties quantify
   over), with the strong induction principle for the nested inductive. *)
From Coq Require Import ZArith QArith NArith String Ascii Bool Lia List.
Import ListNotations.
From TP Require Import Base.PyVal.
Local Open Scope Z_scope.

Inductive numkind := KNumber | KInteger | KFloat.
Inductive sign := SAny | SPositive | SNegative | SNonPositive | SNonNegative.
Inductive seqkind := SeqList | SeqDeque.

Record numc := { multiplesOf : option Z;          (* documented as int *)
                 minimum : option num;
                 maximum : option num;
                 exclusiveMaximum : bool }.
Record strc := { minLength : option Z; maxLength : option Z; pattern : option N (* oracle id *) }.
Record sizec := { minItems : option Z; maxItems : option Z }.

Definition no_numc := {| multiplesOf := None; minimum := None; maximum := None; exclusiveMaximum := false |}.
Definition no_strc := {| minLength := None; maxLength := None; pattern := None |}.
Definition no_sizec := {| minItems := None; maxItems := None |}.

Inductive field :=
| FNumber (k : numkind) (s : sign) (c : numc)
| FString (c : strc)
| FBoolean
| FNone
| FAnything
| FEnumLit (values : list pyval)                                     (* Enum[...literals...] *)
| FEnumCls (cls : pystr) (members : list (pystr * pyval))            (* Enum[E] / Enum(values=[E.A,..]): allowed members *)
| FSeqAny (k : seqkind) (sz : sizec) (uniq : bool)                   (* Array()/Deque() without items *)
| FSeqEach (k : seqkind) (item : field) (sz : sizec) (uniq : bool)   (* Array[f] *)
| FSeqPos (k : seqkind) (items : list field) (sz : sizec) (uniq : bool) (additional : option bool)
| FSet (immutable_set : bool) (item : option field) (sz : sizec)     (* Set / ImmutableSet *)
| FTuple (items : list field) (uniq : bool)                          (* one item field = homogeneous *)
| FMapAny (sz : sizec)
| FMapKV (kf vf : field) (sz : sizec)
| FAllOf (fs : list field)
| FAnyOf (fs : list field)
| FOneOf (fs : list field)
| FNot (fs : list field)
| FClassRef (cls : pystr).

Section field_ind_strong.
  Variable P : field -> Prop.
  Hypothesis HNumber : forall k s c, P (FNumber k s c).
  Hypothesis HString : forall c, P (FString c).
  Hypothesis HBoolean : P FBoolean.
  Hypothesis HNone : P FNone.
  Hypothesis HAnything : P FAnything.
  Hypothesis HEnumLit : forall vs, P (FEnumLit vs).
  Hypothesis HEnumCls : forall c ms, P (FEnumCls c ms).
  Hypothesis HSeqAny : forall k sz u, P (FSeqAny k sz u).
  Hypothesis HSeqEach : forall k f sz u, P f -> P (FSeqEach k f sz u).
  Hypothesis HSeqPos : forall k fs sz u a, Forall P fs -> P (FSeqPos k fs sz u a).
  Hypothesis HSetNone : forall i sz, P (FSet i None sz).
  Hypothesis HSetSome : forall i f sz, P f -> P (FSet i (Some f) sz).
  Hypothesis HTuple : forall fs u, Forall P fs -> P (FTuple fs u).
  Hypothesis HMapAny : forall sz, P (FMapAny sz).
  Hypothesis HMapKV : forall kf vf sz, P kf -> P vf -> P (FMapKV kf vf sz).
  Hypothesis HAllOf : forall fs, Forall P fs -> P (FAllOf fs).
  Hypothesis HAnyOf : forall fs, Forall P fs -> P (FAnyOf fs).
  Hypothesis HOneOf : forall fs, Forall P fs -> P (FOneOf fs).
  Hypothesis HNot : forall fs, Forall P fs -> P (FNot fs).
  Hypothesis HClassRef : forall c, P (FClassRef c).

  Fixpoint field_ind' (f : field) : P f :=
    let fix go (l : list field) : Forall P l :=
        match l with
        | [] => Forall_nil _
        | x :: t => Forall_cons _ (field_ind' x) (go t)
        end in
    match f with
    | FNumber k s c => HNumber k s c
    | FString c => HString c
    | FBoolean => HBoolean
    | FNone => HNone
    | FAnything => HAnything
    | FEnumLit vs => HEnumLit vs
    | FEnumCls c ms => HEnumCls c ms
    | FSeqAny k sz u => HSeqAny k sz u
    | FSeqEach k g sz u => HSeqEach k g sz u (field_ind' g)
    | FSeqPos k fs sz u a => HSeqPos k fs sz u a (go fs)
    | FSet i None sz => HSetNone i sz
    | FSet i (Some g) sz => HSetSome i g sz (field_ind' g)
    | FTuple fs u => HTuple fs u (go fs)
    | FMapAny sz => HMapAny sz
    | FMapKV kf vf sz => HMapKV kf vf sz (field_ind' kf) (field_ind' vf)
    | FAllOf fs => HAllOf fs (go fs)
    | FAnyOf fs => HAnyOf fs (go fs)
    | FOneOf fs => HOneOf fs (go fs)
    | FNot fs => HNot fs (go fs)
    | FClassRef c => HClassRef c
    end.
End field_ind_strong.

(* class definitions, as far as instance-level behaviour needs them *)
Inductive hook :=
| HookNone
| HookLe (a b : pystr)        (* __validate__: if both are set ints, require self.a <= self.b, else ValueError *)
| HookNeverNone (a : pystr).  (* __validate__: raise ValueError unless self.a is set *)

Record fdecl := { fd_name : pystr; fd_field : field; fd_immutable : bool; fd_default : option pyval }.

Record classdef := {
  c_name : pystr;
  c_ancestors : list pystr;          (* names of all proper Structure ancestors (for isinstance) *)
  c_fields : list fdecl;             (* get_all_fields_by_name(), in its order *)
  c_required : list pystr;
  c_additional : bool;               (* _additional_properties (resolved) *)
  c_ignore_none : bool;              (* _ignore_none or allow_none_for_optionals *)
  c_immutable : bool;
  c_hook : hook }.

Definition env := list classdef.

Fixpoint find_class (e : env) (n : pystr) : option classdef :=
  match e with
  | [] => None
  | c :: t => if pystr_eqb (c_name c) n then Some c else find_class t n
  end.

Fixpoint find_field (l : list fdecl) (n : pystr) : option fdecl :=
  match l with
  | [] => None
  | d :: t => if pystr_eqb (fd_name d) n then Some d else find_field t n
  end.

(* isinstance(PStruct c' _, c) *)
Definition is_instance_of (e : env) (c' c : pystr) : bool :=
  pystr_eqb c' c ||
  match find_class e c' with
  | Some cd => str_in c (c_ancestors cd)
  | None => false
  end.
