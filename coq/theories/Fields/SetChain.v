(* Code-side model of the __set__ chains of typedpy's field classes (typedpy/fields/*.py and
   Field/TypedField in structures/structures.py).
   [vset f v] is the value f.__set__(instance, v) finally hands to Field.__set__ (the stored
   normal form), or the exception class it raises before storing anything.  Collections validate
   their elements, and multi-field wrappers their options, against scratch structures, so the
   only store into the real instance is the final one: [veff post f v] is that store followed by
   [post], what Field.__set__ runs after it (the class's __validate__ hook once instantiated).
   Executable; no proofs here. *)
From Coq Require Import ZArith QArith NArith String Ascii Bool Lia List.
Import ListNotations.
From TP Require Import Base.PyVal Fields.FieldAst.
Local Open Scope Z_scope.

(* ----------------------------------------------------------------- numbers *)

Fixpoint strip2 (p : positive) : positive * Z :=
  match p with
  | xO q => let '(m, e) := strip2 q in (m, e + 1)
  | _ => (p, 0)
  end.

(* float(z), exact for |z| <= 2^53 *)
Definition int_to_flt (z : Z) : num :=
  match z with
  | Z0 => NFlt 0 0
  | Zpos p => let '(m, e) := strip2 p in NFlt (Zpos m) e
  | Zneg p => let '(m, e) := strip2 p in NFlt (Zneg m) e
  end.

Definition float_exact (z : Z) : bool := Z.abs z <=? 2 ^ 53.

Definition zero : num := NInt 0.

(* Number._validate_static *)
Definition number_static (c : numc) (v : pyval) : res unit :=
  match as_num v with
  | None => Raise TypeError
  | Some n =>
      _ <- match multiplesOf c with
           | None => Ok tt
           | Some m => if m =? 0 then Raise ZeroDivisionError
                       else if num_multiple_of n (NInt m) then Ok tt else Raise ValueError
           end ;;
      _ <- match minimum c with
           | Some mn => if num_ltb n mn then Raise ValueError else Ok tt
           | None => Ok tt
           end ;;
      match maximum c with
      | Some mx =>
          if exclusiveMaximum c && num_eqb mx n then Raise ValueError
          else if num_ltb mx n then Raise ValueError else Ok tt
      | None => Ok tt
      end
  end.

(* Positive / Negative / NonPositive / NonNegative .__set__ guard: only a number (int, float, Decimal)
   is compared with 0; anything else goes on to the next __set__ of the chain, whose type check rejects it *)
Definition sign_check (s : sign) (v : pyval) : res unit :=
  match s with
  | SAny => Ok tt
  | _ =>
      match as_num v with
      | None => Ok tt
      | Some n =>
          let bad := match s with
                     | SPositive => num_leb n zero
                     | SNegative => num_leb zero n
                     | SNonPositive => num_ltb zero n
                     | SNonNegative => num_ltb n zero
                     | SAny => false
                     end in
          if bad then Raise ValueError else Ok tt
      end
  end.

Definition is_py_int (v : pyval) : bool :=
  match v with PBool _ => true | PNum (NInt _) => true | _ => false end.
Definition is_py_float (v : pyval) : bool :=
  match v with PNum (NFlt _ _) => true | _ => false end.

(* the whole chain of a numeric field up to (not including) the final store *)
Definition number_chain (k : numkind) (s : sign) (c : numc) (v : pyval) : res pyval :=
  match k with
  | KNumber =>
      (* Positive.__set__ -> Number.__set__ (validate) *)
      _ <- sign_check s v ;; _ <- number_static c v ;; Ok v
  | KInteger =>
      (* TypedField.__set__ (Integer._validate) -> sign mix-in -> Number.__set__ *)
      if is_py_int v then _ <- number_static c v ;; _ <- sign_check s v ;; Ok v
      else Raise TypeError
  | KFloat =>
      (* Float.__set__ converts ints (not bools), then as Integer with _ty = float *)
      conv <- match v with
              | PNum (NInt z) => if float_exact z then Ok (PNum (int_to_flt z)) else Raise Unmodelled
              | _ => Ok v
              end ;;
      if is_py_float conv then _ <- number_static c conv ;; _ <- sign_check s conv ;; Ok conv
      else Raise TypeError
  end.

(* ----------------------------------------------------------------- helpers *)

Definition lenZ {A} (l : list A) : Z := Z.of_nat (length l).

Definition size_check (sz : sizec) (n : Z) : res unit :=
  _ <- match minItems sz with Some m => if n <? m then Raise ValueError else Ok tt | None => Ok tt end ;;
  match maxItems sz with Some m => if m <? n then Raise ValueError else Ok tt | None => Ok tt end.

Definition uniq_check (u : bool) (l : list pyval) : res unit :=
  if u then (if py_unique l then Ok tt else Raise ValueError) else Ok tt.

Definition seq_items (k : seqkind) (v : pyval) : option (list pyval) :=
  match k, v with
  | SeqList, PList l => Some l
  | SeqDeque, PDeque l => Some l
  | _, _ => None
  end.

Definition seq_make (k : seqkind) (l : list pyval) : pyval :=
  match k with SeqList => PList l | SeqDeque => PDeque l end.

Fixpoint py_hashable (v : pyval) : bool :=
  match v with
  | PList _ | PDeque _ | PDict _ => false
  | PSet frozen _ => frozen
  | PTuple l => forallb py_hashable l
  | _ => true
  end.

Definition str_True : pystr := s2p "True".
Definition str_False : pystr := s2p "False".

(* Boolean.__set__ ('True'/'False' mapping) + Boolean._validate (bool, or one of the two strings) *)
Definition boolean_chain (v : pyval) : res pyval :=
  match v with
  | PStr s => if pystr_eqb s str_True then Ok (PBool true)
              else if pystr_eqb s str_False then Ok (PBool false) else Raise TypeError
  | PBool _ => Ok v
  | _ => Raise TypeError
  end.

(* dict built by assigning res[k] = v in order *)
Fixpoint dict_of_pairs (acc : list (pyval * pyval)) (l : list (pyval * pyval)) : list (pyval * pyval) :=
  match l with
  | [] => acc
  | (k, v) :: t => dict_of_pairs (dict_set acc k v) t
  end.

(* only TypeError/ValueError are caught by the multi-field wrappers *)
Definition caught (e : exn) : bool := is_te_ve e.

Section WithOracle.
  Variable re_match : N -> pystr -> bool.       (* re.match(pattern id, string) is not None *)
  Variable e : env.

  (* String._validate_static *)
  Definition string_chain (c : strc) (v : pyval) : res pyval :=
    match v with
    | PStr s =>
        _ <- match maxLength c with Some m => if m <? lenZ s then Raise ValueError else Ok tt | None => Ok tt end ;;
        _ <- match minLength c with Some m => if lenZ s <? m then Raise ValueError else Ok tt | None => Ok tt end ;;
        match pattern c with
        | Some p => if re_match p s then Ok v else Raise ValueError
        | None => Ok v
        end
    | _ => Raise TypeError
    end.

  (* combining the outcomes of the options of a multi-field wrapper, in order *)
  Fixpoint allof_combine (rs : list (res pyval)) : res unit :=
    match rs with
    | [] => Ok tt
    | Ok _ :: t => allof_combine t
    | Raise x :: _ => Raise x
    end.

  Fixpoint anyof_combine (rs : list (res pyval)) : res pyval :=
    match rs with
    | [] => Raise ValueError
    | Ok nf :: _ => Ok nf
    | Raise x :: t => if caught x then anyof_combine t else Raise x
    end.

  (* number of matching options; an uncaught exception propagates *)
  Fixpoint oneof_combine (rs : list (res pyval)) : res nat :=
    match rs with
    | [] => Ok 0%nat
    | Ok _ :: t => match oneof_combine t with Ok n => Ok (S n) | Raise x => Raise x end
    | Raise x :: t => if caught x then oneof_combine t else Raise x
    end.

  Fixpoint not_combine (rs : list (res pyval)) : res unit :=
    match rs with
    | [] => Ok tt
    | Ok _ :: _ => Raise ValueError
    | Raise x :: t => if caught x then not_combine t else Raise x
    end.

  Fixpoint vset (f : field) (v : pyval) {struct f} : res pyval :=
    match f with
    | FNumber k s c => (number_chain k s c v)
    | FString c => (string_chain c v)
    | FBoolean => (boolean_chain v)
    | FNone => (match v with PNone => Ok PNone | _ => Raise TypeError end)
    | FAnything => (Ok v)
    | FEnumLit values => (if py_in v values then Ok v else Raise ValueError)
    | FEnumCls cls members =>
        (* only a str is looked up among the member names (hashed); any value is compared (==) with the members *)
        (match v with
           | PStr name =>
               match alist_get members name with
               | Some x => Ok (PEnum cls name x)
               | None => Raise ValueError
               end
           | PEnum cls' name _ =>
               if pystr_eqb cls' cls && alist_has members name then Ok v else Raise ValueError
           | _ => Raise ValueError
           end)
    | FSeqAny k sz u =>
        (match seq_items k v with
           | None => Raise TypeError
           | Some l => _ <- uniq_check u l ;; _ <- size_check sz (lenZ l) ;; Ok (seq_make k l)
           end)
    | FSeqEach k item sz u =>
        (match seq_items k v with
           | None => Raise TypeError
           | Some l =>
               _ <- uniq_check u l ;; _ <- size_check sz (lenZ l) ;;
               r <- mapM (fun x => (vset item x)) l ;; Ok (seq_make k r)
           end)
    | FSeqPos k items sz u additional =>
        (match seq_items k v with
           | None => Raise TypeError
           | Some l =>
               _ <- uniq_check u l ;; _ <- size_check sz (lenZ l) ;;
               (* array.py:147 / deque_field.py:87 *)
               if (lenZ l <? lenZ items)
                  || (match additional with Some false => lenZ items <? lenZ l | _ => false end)
               then Raise ValueError
               else
                 r <- (fix pos (fs : list field) (vs : list pyval) {struct fs} : res (list pyval) :=
                         match fs, vs with
                         | [], _ => Ok vs
                         | _ :: _, [] => Ok []
                         | g :: fs', x :: vs' =>
                             y <- (vset g x) ;; ys <- pos fs' vs' ;; Ok (y :: ys)
                         end) items l ;;
                 Ok (seq_make k r)
           end)
    | FSet imm item sz =>
        (match v with
           | PSet frozen l =>
               _ <- size_check sz (lenZ l) ;;
               r <- match item with
                    | Some g => r <- mapM (fun x => (vset g x)) l ;; Ok (py_dedup r)
                    | None => Ok l
                    end ;;
               Ok (PSet (imm || frozen) r)
           | _ => Raise TypeError
           end)
    | FTuple items u =>
        (match v with
           | PTuple l =>
               _ <- uniq_check u l ;;
               match items with
               | [] => Raise Unmodelled
               | [g] => r <- mapM (fun x => (vset g x)) l ;; Ok (PTuple r)
               | _ =>
                   if negb (lenZ items =? lenZ l) then Raise ValueError
                   else
                     r <- (fix pos (fs : list field) (vs : list pyval) {struct fs} : res (list pyval) :=
                             match fs, vs with
                             | [], _ => Ok []
                             | _ :: _, [] => Raise IndexError
                             | g :: fs', x :: vs' =>
                                 y <- (vset g x) ;; ys <- pos fs' vs' ;; Ok (y :: ys)
                             end) items l ;;
                     Ok (PTuple r)
               end
           | _ => Raise TypeError
           end)
    | FMapAny sz =>
        (match v with
           | PDict kv => _ <- size_check sz (lenZ kv) ;; Ok v
           | _ => Raise TypeError
           end)
    | FMapKV kf vf sz =>
        (match v with
           | PDict kv =>
               _ <- size_check sz (lenZ kv) ;;
               r <- mapM (fun p => k' <- (vset kf (fst p)) ;;
                                   v' <- (vset vf (snd p)) ;; Ok (k', v')) kv ;;
               Ok (PDict (dict_of_pairs [] r))
           | _ => Raise TypeError
           end)
    | FAllOf fs => _ <- allof_combine (map (fun g => vset g v) fs) ;; Ok v
    | FAnyOf fs => anyof_combine (map (fun g => vset g v) fs)
    | FOneOf fs =>
        n <- oneof_combine (map (fun g => vset g v) fs) ;;
        if Nat.eqb n 1 then Ok v else Raise ValueError
    | FNot fs => _ <- not_combine (map (fun g => vset g v) fs) ;; Ok v
    | FClassRef c =>
        (match v with
           | PStruct c' _ => if is_instance_of e c' c then Ok v else Raise TypeError
           | _ => Raise TypeError
           end)
    end.

  (* Field.__set__: store into the instance, then the post-store hook.  The list is what got
     stored (at most one value, and only when validation succeeded). *)
  Definition veff (post : pyval -> res unit) (f : field) (v : pyval) : list pyval * res pyval :=
    match vset f v with
    | Ok nf => ([nf], match post nf with Ok _ => Ok nf | Raise x => Raise x end)
    | Raise x => ([], Raise x)
    end.

  Definition nohook (_ : pyval) : res unit := Ok tt.
End WithOracle.
