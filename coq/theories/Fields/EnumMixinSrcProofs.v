(* Bridging lemma for the generated layer Gen/EnumMixinSrc.v (re-emitted on every run from
   typedpy/fields/enum.py): what Enum.__set__ (with the Enum._validate it calls) does NOW on an Enum field over
   a class with ANY mix-in, restricted to ANY declared subset of its members, is the hand-written model
   [mx_set] of Fields/EnumMixin.v, for every candidate.  When the source stops saying that this file stops
   compiling. *)
From Coq Require Import ZArith NArith String Bool List Lia.
Import ListNotations.
From TP Require Import Base.PyVal Base.PyEq Base.PyOps Fields.EnumMixin Fields.EnumMixinProofs Gen.EnumMixinSrc.

Lemma existsb_map_fn {A B} (f : B -> bool) (g : A -> B) l :
  existsb f (map g l) = existsb (fun a => f (g a)) l.
Proof. induction l as [|a l IH]; [reflexivity|]. cbn [map existsb]. rewrite IH. reflexivity. Qed.

Lemma mapM_names E (decl : list (pystr * pyval)) :
  mapM (fun y => px_getattr y (s2p "name")) (map (member_of E) decl)
  = Ok (map (fun m => XPlain (PStr (fst m))) decl).
Proof.
  induction decl as [|m t IH]; [reflexivity|].
  cbn [map mapM]. rewrite IH. unfold member_of at 1. cbn [px_getattr bind].
  replace (pystr_eqb (s2p "name") (s2p "name")) with true by (vm_compute; reflexivity). reflexivity.
Qed.

Lemma is_str_hashable x : is_cand x = true -> x_is_str x = true -> x_hashable x = true.
Proof.
  destruct x as [v | c m n v | l | l | kv]; try discriminate; intros _.
  - destruct v; cbn; try discriminate; reflexivity.
  - reflexivity.
Qed.

Lemma self_is_enum E decl : enum_self E decl (s2p "_is_enum") = XPlain (PBool true).
Proof. unfold enum_self. replace (pystr_eqb (s2p "_is_enum") (s2p "_is_enum")) with true by (vm_compute; reflexivity). reflexivity. Qed.
Lemma self_valid E decl : enum_self E decl (s2p "_valid_enum_values") = XList (map (member_of E) decl).
Proof.
  unfold enum_self.
  replace (pystr_eqb (s2p "_valid_enum_values") (s2p "_is_enum")) with false by (vm_compute; reflexivity).
  replace (pystr_eqb (s2p "_valid_enum_values") (s2p "_valid_enum_values")) with true by (vm_compute; reflexivity).
  reflexivity.
Qed.
Lemma self_class E decl :
  enum_self E decl (s2p "_enum_class") = XMap (map (fun m => (fst m, member_of E m)) (ec_members E)).
Proof.
  unfold enum_self.
  replace (pystr_eqb (s2p "_enum_class") (s2p "_is_enum")) with false by (vm_compute; reflexivity).
  replace (pystr_eqb (s2p "_enum_class") (s2p "_valid_enum_values")) with false by (vm_compute; reflexivity).
  replace (pystr_eqb (s2p "_enum_class") (s2p "_enum_class")) with true by (vm_compute; reflexivity).
  reflexivity.
Qed.

Lemma in_names_eq x (decl : list (pystr * pyval)) :
  existsb (x_eq x) (map (fun m => XPlain (PStr (fst m))) decl) = x_in_names x (decl_names decl).
Proof. unfold x_in_names, decl_names. rewrite !existsb_map_fn. reflexivity. Qed.

Lemma in_members_eq E x (decl : list (pystr * pyval)) :
  existsb (x_eq x) (map (member_of E) decl) = x_in_members E x decl.
Proof. unfold x_in_members. rewrite existsb_map_fn. reflexivity. Qed.

Lemma px_lt_len_ok (l : list xval) : exists b, px_lt (XPlain (PNum (NInt (lenZ' l)))) (xzint 11) = Ok b.
Proof. unfold px_lt, xzint. cbn [x_base]. unfold py_lt. cbn [as_num]. eauto. Qed.

Lemma mapM_is_member E x (decl : list (pystr * pyval)) :
  mapM (px_is_member x) (map (member_of E) decl) = Ok (map (fun m => x_same_member x (member_of E m)) decl).
Proof.
  induction decl as [|m t IH]; [reflexivity|].
  cbn [map mapM]. rewrite IH. unfold member_of at 1. cbn [px_is_member bind]. reflexivity.
Qed.

(* any(value is v for v in self._valid_enum_values): the candidate IS one of the declared members *)
Lemma any_is_declared E x (decl : list (pystr * pyval)) :
  px_any_is x (XList (map (member_of E) decl)) = Ok (is_declared_member E decl x).
Proof.
  unfold px_any_is, is_declared_member. cbn [px_seq_items bind]. rewrite mapM_is_member. cbn [bind].
  rewrite existsb_map_fn. reflexivity.
Qed.

Lemma generated_validate_mx re E decl x :
  is_cand x = true ->
  Enum__validate_mx re (enum_self E decl) x = mx_validate E decl x.
Proof.
  intros Hc. unfold Enum__validate_mx, mx_validate.
  rewrite self_is_enum, self_valid. cbn [px_truthy py_truthy bind].
  unfold px_setcomp_attr, px_listcomp_attr. cbn [px_seq_items bind]. rewrite mapM_names. cbn [bind].
  rewrite any_is_declared.
  fold (x_is_str x).
  unfold py_and, py_not. cbn [bind].
  assert (Htail :
             (c <- (t5 <- px_len (XList (map (fun m : pystr * pyval => XPlain (PStr (fst m))) decl)) ;; px_lt t5 (xzint 11)) ;;
              if c then Raise ValueError else Raise ValueError) = (Raise ValueError : res unit)).
  { cbn [px_len bind].
    destruct (px_lt_len_ok (map (fun m : pystr * pyval => XPlain (PStr (fst m))) decl)) as [b Hb].
    rewrite Hb. cbn [bind]. destruct b; reflexivity. }
  destruct (x_is_str x) eqn:Hs.
  - destruct (px_is_enum_member x); cbn [negb bind andb].
    + destruct (is_declared_member E decl x); cbn [negb bind]; [reflexivity | exact Htail].
    + unfold px_in_dyn at 1. rewrite (is_str_hashable x Hc Hs). rewrite in_names_eq. cbn [bind andb].
      destruct (x_in_names x (decl_names decl)); cbn [negb bind andb]; [reflexivity|].
      destruct (is_declared_member E decl x); cbn [negb bind]; [reflexivity | exact Htail].
  - cbn [bind negb andb].
    destruct (is_declared_member E decl x); cbn [negb bind]; [reflexivity | exact Htail].
Qed.

Theorem generated_enum_set_mx re E decl x :
  is_cand x = true ->
  Enum__set_mx re (enum_self E decl) x = mx_set E decl x.
Proof.
  intros Hc. unfold Enum__set_mx, mx_set. rewrite (generated_validate_mx re E decl x Hc).
  destruct (mx_validate E decl x) as [[]|e]; cbn [bind]; [|reflexivity].
  rewrite self_is_enum, self_class. cbn [px_truthy py_truthy bind].
  fold (x_is_str x). unfold py_and, py_not. cbn [bind].
  destruct (x_is_str x) eqn:Hs; cbn [andb bind]; [|reflexivity].
  destruct (px_is_enum_member x); cbn [negb bind]; [reflexivity|].
  unfold px_getitem_dyn, mx_lookup. rewrite (is_str_hashable x Hc Hs).
  destruct (x_base x) as [b|]; [|reflexivity].
  destruct (xmap_get _ b); reflexivity.
Qed.
