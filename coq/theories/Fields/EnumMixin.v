(* Enum fields over enum classes WITH A MIX-IN TYPE (class Tone(str, enum.Enum), enum.IntEnum, ...).
   In the main value universe (Base/PyVal.v) an enum member is never a str / an int; for a mix-in
   class it IS one: isinstance(Tone.LOW, str), Tone.LOW == "low", hash(Tone.LOW) == hash("low").
   This file gives a small universe in which that is visible, the dynamic operators the GENERATED
   translation of Enum._validate / Enum.__set__ (Gen/EnumMixinSrc.v, emitted by
   harness/genmods/py2v_enum_mixin.py from typedpy/fields/enum.py) uses over it, a hand-written
   code-shaped model [mx_set] and the documented rule [mx_doc].  Executable; no proofs here. *)
From Coq Require Import ZArith NArith String Bool List.
Import ListNotations.
From TP Require Import Base.PyVal Base.PyEq Base.PyOps.
Local Open Scope Z_scope.

Inductive mixin := MxNone | MxStr | MxInt.

Definition mixin_eqb (a b : mixin) : bool :=
  match a, b with MxNone, MxNone | MxStr, MxStr | MxInt, MxInt => true | _, _ => false end.

(* values: ordinary values, enum members (class name, mix-in of the class, member name, member value),
   and the run-time containers Enum's methods build or read (list / set of values, name -> value map) *)
Inductive xval :=
| XPlain (v : pyval)
| XMem (cls : pystr) (mix : mixin) (name : pystr) (value : pyval)
| XList (l : list xval)
| XSet (l : list xval)
| XMap (kv : list (pystr * xval)).

(* the str / int a member of a mix-in class IS (what ==, hash, str methods see) *)
Definition x_base (x : xval) : option pyval :=
  match x with
  | XPlain v => Some v
  | XMem _ MxStr _ v => Some v
  | XMem _ MxInt _ v => Some v
  | _ => None
  end.

Definition x_same_member (x y : xval) : bool :=
  match x, y with
  | XMem c _ n _, XMem c' _ n' _ => pystr_eqb c c' && pystr_eqb n n'
  | _, _ => false
  end.

(* what `in` asks of two values (identity, else ==): the mix-in's __eq__ compares the underlying values; a
   plain member is equal to itself only *)
Definition x_eq (x y : xval) : bool :=
  x_same_member x y ||
  match x_base x, x_base y with
  | Some a, Some b => py_eq a b
  | _, _ => false
  end.

Definition x_hashable (x : xval) : bool :=
  match x with
  | XPlain v => py_hashable' v
  | XMem _ _ _ _ => true
  | _ => false
  end.

(* ---------------------------------------------------------------- the operators of the translation *)

Definition xclass_is (x : xval) (k : pyclass) : bool :=
  match x with
  | XPlain v => isinstance1 v k
  | XMem _ MxStr _ _ => match k with K_str => true | _ => false end
  | XMem _ MxInt _ _ => match k with K_int => true | _ => false end
  | _ => false
  end.

Definition px_isinstance (x : xval) (ks : list pyclass) : bool := existsb (xclass_is x) ks.
Definition px_is_enum_member (x : xval) : bool := match x with XMem _ _ _ _ => true | _ => false end.

Definition px_truthy (x : xval) : bool :=
  match x with
  | XPlain v => py_truthy v
  | XMem _ MxStr _ v | XMem _ MxInt _ v => py_truthy v
  | XMem _ MxNone _ _ => true
  | XList l | XSet l => negb (Nat.eqb (length l) 0)
  | XMap kv => negb (Nat.eqb (length kv) 0)
  end.

Definition px_getattr (x : xval) (a : pystr) : res xval :=
  match x with
  | XMem _ _ n v =>
      if pystr_eqb a (s2p "name") then Ok (XPlain (PStr n))
      else if pystr_eqb a (s2p "value") then Ok (XPlain v)
      else Raise Unmodelled
  | _ => Raise Unmodelled
  end.

Definition px_seq_items (x : xval) : res (list xval) :=
  match x with XList l | XSet l => Ok l | _ => Raise Unmodelled end.

(* [y.a for y in l] / {y.a for y in l}: only membership and len are asked of the result, so the set keeps
   the elements as they come *)
Definition px_listcomp_attr (l : xval) (a : pystr) : res xval :=
  xs <- px_seq_items l ;; r <- mapM (fun y => px_getattr y a) xs ;; Ok (XList r).
Definition px_setcomp_attr (l : xval) (a : pystr) : res xval :=
  xs <- px_seq_items l ;; r <- mapM (fun y => px_getattr y a) xs ;; Ok (XSet r).

(* x in c: a set hashes the candidate, then compares; a list scans with == *)
Definition px_in_dyn (x c : xval) : res bool :=
  match c with
  | XSet l => if x_hashable x then Ok (existsb (x_eq x) l) else Raise TypeError
  | XList l => Ok (existsb (x_eq x) l)
  | _ => Raise Unmodelled
  end.

(* any(x is v for v in c): identity with one of the elements (the identity of enum members only is known:
   one object per class and name) *)
Definition px_is_member (x v : xval) : res bool :=
  match v with XMem _ _ _ _ => Ok (x_same_member x v) | _ => Raise Unmodelled end.
Definition px_any_is (x c : xval) : res bool :=
  xs <- px_seq_items c ;; r <- mapM (px_is_member x) xs ;; Ok (existsb (fun b => b) r).

(* EnumClass[k] = EnumClass._member_map_[k]: a dict lookup by hash / == of k, KeyError when absent *)
Fixpoint xmap_get (kv : list (pystr * xval)) (k : pyval) : option xval :=
  match kv with
  | [] => None
  | (n, m) :: t => if py_eq (PStr n) k then Some m else xmap_get t k
  end.

Definition px_getitem_dyn (c k : xval) : res xval :=
  match c with
  | XMap kv =>
      if x_hashable k then
        match x_base k with
        | Some b => match xmap_get kv b with Some m => Ok m | None => Raise KeyError end
        | None => Raise KeyError
        end
      else Raise TypeError
  | _ => Raise Unmodelled
  end.

Definition px_len (x : xval) : res xval :=
  match x with
  | XList l | XSet l => Ok (XPlain (PNum (NInt (lenZ' l))))
  | XMap kv => Ok (XPlain (PNum (NInt (lenZ' kv))))
  | XPlain v => r <- py_len v ;; Ok (XPlain r)
  | XMem _ MxStr _ v => r <- py_len v ;; Ok (XPlain r)
  | XMem _ _ _ _ => Raise TypeError
  end.

Definition px_lt (a b : xval) : res bool :=
  match x_base a, x_base b with
  | Some u, Some v => py_lt u v
  | _, _ => Raise Unmodelled
  end.

Definition xzint (z : Z) : xval := XPlain (PNum (NInt z)).
Definition px_none : xval := XPlain PNone.

(* ---------------------------------------------------------------- an Enum field over a class *)

Record ecls := { ec_name : pystr; ec_mix : mixin; ec_members : list (pystr * pyval) }.

Definition member_of (E : ecls) (m : pystr * pyval) : xval := XMem (ec_name E) (ec_mix E) (fst m) (snd m).

(* the attribute environment of the Enum field instance: Enum(values=E) / Enum(values=[E.A, ...]) *)
Definition enum_self (E : ecls) (decl : list (pystr * pyval)) (a : pystr) : xval :=
  if pystr_eqb a (s2p "_is_enum") then XPlain (PBool true)
  else if pystr_eqb a (s2p "_valid_enum_values") then XList (map (member_of E) decl)
  else if pystr_eqb a (s2p "_enum_class") then XMap (map (fun m => (fst m, member_of E m)) (ec_members E))
  else XPlain PNone.

(* ---------------------------------------------------------------- code-shaped model of Enum.__set__ *)

Definition decl_names (decl : list (pystr * pyval)) : list pystr := map fst decl.

Definition x_in_names (x : xval) (names : list pystr) : bool :=
  existsb (fun n => x_eq x (XPlain (PStr n))) names.

Definition x_in_members (E : ecls) (x : xval) (decl : list (pystr * pyval)) : bool :=
  existsb (fun m => x_eq x (member_of E m)) decl.

Definition x_is_str (x : xval) : bool := px_isinstance x [K_str].

(* one of the declared member OBJECTS (identity) *)
Definition is_declared_member (E : ecls) (decl : list (pystr * pyval)) (x : xval) : bool :=
  existsb (fun m => x_same_member x (member_of E m)) decl.

Definition mx_validate (E : ecls) (decl : list (pystr * pyval)) (x : xval) : res unit :=
  if negb (x_is_str x && (negb (px_is_enum_member x) && x_in_names x (decl_names decl)))
     && negb (is_declared_member E decl x)
  then Raise ValueError else Ok tt.

Definition mx_lookup (E : ecls) (x : xval) : res xval :=
  match x_base x with
  | Some b => match xmap_get (map (fun m => (fst m, member_of E m)) (ec_members E)) b with
              | Some m => Ok m | None => Raise KeyError end
  | None => Raise KeyError
  end.

Definition mx_set (E : ecls) (decl : list (pystr * pyval)) (x : xval) : res xval :=
  _ <- mx_validate E decl x ;;
  if x_is_str x && negb (px_is_enum_member x) then mx_lookup E x else Ok x.

(* ---------------------------------------------------------------- the documented rule
   "values: a list of valid values, or an enum.Enum class / members of it; the value is a member or the
   NAME of a member, and is stored as the member": accepted exactly when the candidate is one of the
   declared member OBJECTS, or a plain str that is the name of a declared member. *)

Definition mx_doc (E : ecls) (decl : list (pystr * pyval)) (x : xval) : option xval :=
  match x with
  | XMem _ _ _ _ => if is_declared_member E decl x then Some x else None
  | XPlain (PStr s) =>
      if str_in s (decl_names decl) then
        match alist_get (ec_members E) s with
        | Some v => Some (XMem (ec_name E) (ec_mix E) s v)
        | None => None
        end
      else None
  | _ => None
  end.

(* candidates: ordinary values and enum members (not the internal containers) *)
Definition is_cand (x : xval) : bool :=
  match x with XPlain _ | XMem _ _ _ _ => true | _ => false end.

(* the declared members are members of the class *)
Definition decl_in_class (E : ecls) (decl : list (pystr * pyval)) : bool :=
  forallb (fun n => alist_has (ec_members E) n) (decl_names decl).

(* A mix-in opens two confusions for a membership test made with == / hash (both were met by the harness in
   typedpy before its repair, findings C02-mixin-eq-confusion and C02-mixin-name-confusion, now fixed):
   (a) a candidate that is not one of the declared member objects compares equal to one (the raw value
       "low" / 1 of a member of a str / int mix-in class; a member of another class with an equal value);
   (b) a member (a str through its mix-in) that is not declared but whose VALUE is the name of a declared
       member.
   Enum._validate now decides a member by identity and looks only a str that is not itself a member up among
   the declared names, so code and documentation agree on EVERY candidate (Fields/EnumMixinProofs.v);
   [x_in_members] is what the == test saw and is kept for the statement of that fact. *)

(* structural comparison of outcomes *)
Definition xval_eqb (a b : xval) : bool :=
  match a, b with
  | XPlain u, XPlain v => pyval_eqb u v
  | XMem c m n v, XMem c' m' n' v' => pystr_eqb c c' && mixin_eqb m m' && pystr_eqb n n' && pyval_eqb v v'
  | _, _ => false
  end.

Definition mx_agree (r : res xval) (d : option xval) : bool :=
  match d, r with
  | Some nf, Ok y => xval_eqb nf y
  | None, Raise e => is_te_ve e
  | _, _ => false
  end.
