(* The history theorem of Fields/ClassFieldProofs.v instantiated with the facts generated from the CURRENT source
   (Gen/RegistryKey.v): the registry of implicit wrappers is keyed by something that separates class objects, the
   cached wrapper wraps the declared class, and its _validate is the isinstance test -- this file stops compiling
   when any of the three stops being what the source says. *)
From Coq Require Import ZArith NArith String Bool List.
Import ListNotations.
From TP Require Import Base.PyVal Base.PyEq Fields.ClassField Fields.ClassFieldProofs Gen.RegistryKey.

Definition no_meta_eq (cs : list pycls) : bool :=
  forallb (fun k => match k_meta_eq k with None => true | Some _ => false end) cs.

Lemma registry_key_separates : registry_key = RK_object \/ registry_key = RK_id.
Proof. first [left; reflexivity | right; reflexivity]. Qed.

Lemma wrapper_facts_today : wrapper_ty_is_declared_class = true /\ wrapper_validates_isinstance = true.
Proof. split; reflexivity. Qed.

Lemma rk_safe_today cs : no_meta_eq cs = true -> rk_safe registry_key cs = true.
Proof. intros H. destruct registry_key_separates as [E|E]; rewrite E; [exact H | reflexivity]. Qed.

(* for every history of earlier declarations over classes with the default class equality, every class and every
   value: the implicit wrapper accepts exactly the instances of the class it was declared with, stores the value
   given, and rejects with TypeError *)
Theorem cf_agree_today : forall hist c v,
    no_meta_eq (c :: hist) = true ->
    cf_agree (cf_set registry_key hist c v) (cf_doc c v) = true.
Proof. intros hist c v H. apply cf_agree_safe. apply rk_safe_today. exact H. Qed.
