(* The domain on which C02 is claimed, as a decidable predicate on (declaration, value):
   - where a number is expected the candidate is not a bool (the statement's "finite non-bool numbers");
   - multiplesOf is a non-zero int (as documented);
   - an int offered to a Float field converts exactly (|z| <= 2^53; float() of larger ints rounds and
     is outside the model);
   - a Tuple declares at least one item field.
   The predicate follows the declaration into the parts of the value it governs. *)
From Coq Require Import ZArith QArith NArith String Ascii Bool Lia List.
Import ListNotations.
From TP Require Import Base.PyVal Fields.FieldAst Fields.SetChain.
Local Open Scope Z_scope.

Fixpoint dom (f : field) (v : pyval) {struct f} : bool :=
  match f with
  | FNumber k _ c =>
      match v with PBool _ => false | _ => true end &&
      match multiplesOf c with Some m => negb (m =? 0) | None => true end &&
      match k, v with KFloat, PNum (NInt z) => float_exact z | _, _ => true end
  | FSeqEach k g _ _ => match seq_items k v with Some l => forallb (dom g) l | None => true end
  | FSeqPos k gs _ _ _ =>
      match seq_items k v with
      | Some l => (fix pos (fs : list field) (vs : list pyval) {struct fs} : bool :=
                     match fs, vs with
                     | g :: fs', x :: vs' => dom g x && pos fs' vs'
                     | _, _ => true
                     end) gs l
      | None => true
      end
  | FSet _ (Some g) _ => match v with PSet _ l => forallb (dom g) l | _ => true end
  | FTuple gs _ =>
      match gs with
      | [] => false
      | [g] => match v with PTuple l => forallb (dom g) l | _ => true end
      | _ => match v with
             | PTuple l => (fix pos (fs : list field) (vs : list pyval) {struct fs} : bool :=
                              match fs, vs with
                              | g :: fs', x :: vs' => dom g x && pos fs' vs'
                              | _, _ => true
                              end) gs l
             | _ => true
             end
      end
  | FMapKV kf vf _ => match v with
                      | PDict kv => forallb (fun p => dom kf (fst p) && dom vf (snd p)) kv
                      | _ => true end
  | FAllOf fs | FAnyOf fs | FOneOf fs | FNot fs => forallb (fun g => dom g v) fs
  | _ => true
  end.
