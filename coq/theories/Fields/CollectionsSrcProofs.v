(* The tie between the GENERATED translation of the element loops of typedpy's collection fields and of the
   option loops of its multi-field wrappers (Gen/CollectionsSrc.v: what Array / Deque / Tuple / Set /
   ImmutableSet / Map / AllOf / AnyOf / OneOf / NotField . __set__, extract_field_value and _scratch_instance
   say NOW) and the hand-written model Fields/SetChain.v [vset], about which C01 / C02 are proved.

   Every theorem is about EVERY declaration, value, field name, initial store of field names and validating
   instance.  How a model-level declaration is seen as the Python-level `self` is fixed in the first part:
     - `self` is [OObj KSelf attrs] with the attributes the constructor stores (items / _fields, uniqueItems,
       additionalItems, minItems, maxItems) and `_name`;
     - the item / option fields are DISTINCT Field objects #0, #1, ... in declaration order, and the __set__
       of object #i is [vset] of the i-th declared field ([rec_of]): the generated functions are parametric in
       it exactly as [vset] recurses.  (Two positions sharing ONE Field object is a different `self`; see the
       finding [map_shared_field_object] at the end.)
     - the instance the descriptor is invoked on neither skips validation nor trusts supplied values
       ([validating]), and field names obey typedpy's own rule: non-empty, not starting with '_' ([name_ok]). *)
From Coq Require Import ZArith QArith NArith String Ascii Bool Lia List.
Import ListNotations.
From TP Require Import Base.PyVal Base.PyOps Base.PyOps2 Base.PyOpsVersioned Base.PyOpsCollections
     Fields.FieldAst Fields.SetChain Gen.Guards Fields.GuardProofs Gen.CollectionsSrc.
From TP Require Base.PyOpsDerive.
Local Open Scope Z_scope.

(* ------------------------------------------------------------------ how a declaration is seen as `self` *)

Definition optb_val (o : option bool) : pyval := match o with Some b => PBool b | None => PNone end.

(* Array / Deque / Tuple / Set / Map *)
Definition coll_self (name : pystr) (items : cobj) (sz : sizec) (u : bool) (additional : option bool)
           (immutable : bool) : cobj :=
  OObj KSelf [ (s2p "_name", OVal (PStr name)); (s2p "items", items);
               (s2p "uniqueItems", OVal (PBool u)); (s2p "additionalItems", OVal (optb_val additional));
               (s2p "minItems", OVal (optz (minItems sz))); (s2p "maxItems", OVal (optz (maxItems sz)));
               (s2p "_immutable", OVal (PBool immutable)) ].

(* AllOf / AnyOf / OneOf / NotField *)
Definition multi_self (name : pystr) (n : nat) : cobj :=
  OObj KSelf [ (s2p "_name", OVal (PStr name)); (s2p "_fields", OFlds (seq 0 n)) ].

Definition fids {A} (l : list A) : list nat := seq 0 (length l).

(* typedpy's rule for field names (StructMeta.__new__): not empty, no leading underscore *)
Definition name_ok (n : pystr) : bool :=
  match n with c :: _ => negb (N.eqb c 95) | [] => false end.

Definition kcls (k : seqkind) : pyclass := match k with SeqList => K_list | SeqDeque => K_deque end.

(* ------------------------------------------------------------------ generic facts *)

Lemma name_ok_app n s : name_ok n = true -> name_ok (n ++ s) = true.
Proof. destruct n; [discriminate | intro H; exact H]. Qed.

Lemma name_ok_neq_flag n f : name_ok n = true -> pystr_eqb n (95%N :: f) = false.
Proof.
  destruct n as [|c n]; [discriminate|]. cbn [name_ok pystr_eqb]. intro H.
  destruct (N.eqb c 95); [discriminate | reflexivity].
Qed.

Lemma skip_flag_cons : skip_flag = 95%N :: s2p "skip_validation". Proof. reflexivity. Qed.
Lemma trust_flag_cons : trust_flag = 95%N :: s2p "trust_supplied_values". Proof. reflexivity. Qed.

Lemma validating_set attrs n v : name_ok n = true -> validating (alist_set attrs n v) = validating attrs.
Proof.
  intro H. unfold validating, flag_on.
  rewrite !alist_get_set_other; [reflexivity | |].
  - rewrite trust_flag_cons. apply name_ok_neq_flag; exact H.
  - rewrite skip_flag_cons. apply name_ok_neq_flag; exact H.
Qed.

Lemma validating_new : forall attrs, new_scratch = OObj KScratch attrs -> validating attrs = true.
Proof. intros attrs H. inversion H. reflexivity. Qed.

Definition scratch0 : list (pystr * cobj) :=
  [(s2p "_none_fields", OVal (PSet false [])); (s2p "_instantiated", OVal (PBool true))].
Lemma new_scratch_eq : new_scratch = OObj KScratch scratch0. Proof. reflexivity. Qed.
Lemma scratch0_validating : validating scratch0 = true. Proof. reflexivity. Qed.

(* what getattr(instance, flag, False) yields on a validating instance is falsy *)
Lemma inst_flag_skip nm iattrs :
  validating iattrs = true ->
  exists x, co_getattr_def nm (OObj KInst iattrs) (s2p "_skip_validation") (OVal (PBool false)) = Ok x /\
            co_truthy x = Ok false /\
            (forall attrs, validating attrs = true -> validating (alist_set attrs (s2p "_skip_validation") x) = true).
Proof.
  intro H. unfold validating, flag_on in H. change (s2p "_skip_validation") with skip_flag.
  cbn [co_getattr_def].
  destruct (alist_get iattrs skip_flag) as [x|] eqn:E.
  - exists x. split; [reflexivity|]. destruct x; try (cbn [negb andb] in H; discriminate H).
    destruct (py_truthy v) eqn:Ev; [cbn [negb andb] in H; discriminate H|].
    split; [cbn [co_truthy]; rewrite Ev; reflexivity|].
    intros attrs Ha. unfold validating, flag_on in *. rewrite alist_get_set_same, Ev.
    rewrite alist_get_set_other; [|reflexivity].
    cbn [negb andb] in *. destruct (alist_get attrs trust_flag) as [[]|]; cbn [negb andb] in *;
      try exact Ha; try reflexivity; destruct (alist_get attrs skip_flag) as [[]|]; cbn [negb andb] in Ha;
      try (destruct (py_truthy v1)); try (destruct (py_truthy v0)); cbn [negb andb] in Ha; try discriminate Ha; try exact Ha; reflexivity.
  - exists (OVal (PBool false)). split; [reflexivity|]. split; [reflexivity|].
    intros attrs Ha. unfold validating, flag_on in *. rewrite alist_get_set_same.
    rewrite alist_get_set_other; [|reflexivity]. cbn [py_truthy negb andb].
    destruct (alist_get attrs skip_flag) as [[]|]; cbn [negb andb] in Ha;
      try (destruct (py_truthy v)); cbn [negb andb] in Ha; try discriminate Ha; exact Ha.
Qed.

Lemma inst_flag_trust nm iattrs :
  validating iattrs = true ->
  exists x, co_getattr_def nm (OObj KInst iattrs) (s2p "_trust_supplied_values") (OVal (PBool false)) = Ok x /\
            co_truthy x = Ok false.
Proof.
  intro H. unfold validating, flag_on in H. change (s2p "_trust_supplied_values") with trust_flag.
  cbn [co_getattr_def].
  destruct (alist_get iattrs trust_flag) as [x|] eqn:E.
  - exists x. split; [reflexivity|].
    destruct x; try (rewrite andb_false_r in H; discriminate H).
    destruct (py_truthy v) eqn:Ev; [rewrite andb_false_r in H; discriminate H|].
    cbn [co_truthy]. rewrite Ev. reflexivity.
  - exists (OVal (PBool false)). split; reflexivity.
Qed.

(* attribute reads of `self` *)
Lemma self_name nm name items sz u a i : co_getattr nm (coll_self name items sz u a i) (s2p "_name") = Ok (OVal (PStr name)).
Proof. reflexivity. Qed.
Lemma self_items nm name items sz u a i : co_getattr nm (coll_self name items sz u a i) (s2p "items") = Ok items.
Proof. reflexivity. Qed.
Lemma self_unique nm name items sz u a i : co_getattr nm (coll_self name items sz u a i) (s2p "uniqueItems") = Ok (OVal (PBool u)).
Proof. reflexivity. Qed.
Lemma self_additional nm name items sz u a i :
  co_getattr nm (coll_self name items sz u a i) (s2p "additionalItems") = Ok (OVal (optb_val a)).
Proof. reflexivity. Qed.
Lemma self_immutable nm name items sz u a i d :
  co_getattr_def nm (coll_self name items sz u a i) (s2p "_immutable") d = Ok (OVal (PBool i)).
Proof. reflexivity. Qed.
Lemma mself_name nm name n : co_getattr nm (multi_self name n) (s2p "_name") = Ok (OVal (PStr name)).
Proof. reflexivity. Qed.
Lemma mself_fields nm name n : co_getattr nm (multi_self name n) (s2p "_fields") = Ok (OFlds (seq 0 n)).
Proof. reflexivity. Qed.

Lemma fld_get_name nm f : co_getattr nm (OFld f) (s2p "_name") = Ok (OVal (PStr (nm f))).
Proof. reflexivity. Qed.
Lemma fld_set_name nm f s : co_setattr_fld nm (OFld f) (s2p "_name") (OVal (PStr s)) = Ok (nm_set nm f s).
Proof. reflexivity. Qed.
Lemma nm_set_same nm f s : nm_set nm f s f = s.
Proof. unfold nm_set. rewrite Nat.eqb_refl. reflexivity. Qed.
Lemma isinstance_fld_Field f : co_isinstance (OFld f) [OPkg (s2p "Field")] = Ok true.
Proof. reflexivity. Qed.
Lemma isinstance_flds_Field l : co_isinstance (OFlds l) [OPkg (s2p "Field")] = Ok false.
Proof. reflexivity. Qed.
Lemma isinstance_flds_list l : co_isinstance (OFlds l) [OCls K_list] = Ok true.
Proof. reflexivity. Qed.
Lemma isinstance_none_Field : co_isinstance (OVal PNone) [OPkg (s2p "Field")] = Ok false.
Proof. reflexivity. Qed.
Lemma scratch_get nm attrs a :
  co_getattr nm (OObj KScratch attrs) a = match alist_get attrs a with Some x => Ok x | None => Raise AttributeError end.
Proof. reflexivity. Qed.
Lemma call_structure : co_call (OPkg (s2p "Structure")) [] = Ok (OObj KScratch scratch0).
Proof. reflexivity. Qed.

(* the guards of Gen/Guards.v only read these attributes of self *)
Lemma validate_size_self re_match name items sz u a i v :
  SizedCollection_validate_size re_match (co_self_vals (coll_self name items sz u a i)) v =
  SizedCollection_validate_size re_match (sizec_self sz) v.
Proof.
  unfold SizedCollection_validate_size.
  change (co_self_vals (coll_self name items sz u a i) (s2p "minItems")) with (optz (minItems sz)).
  change (co_self_vals (coll_self name items sz u a i) (s2p "maxItems")) with (optz (maxItems sz)).
  change (sizec_self sz (s2p "minItems")) with (optz (minItems sz)).
  change (sizec_self sz (s2p "maxItems")) with (optz (maxItems sz)).
  reflexivity.
Qed.

(* the names of the elements' slots obey the rule as well *)
Lemma elem_name_ok name i : name_ok name = true -> name_ok (name ++ (s2p "_" ++ Z_to_pystr i ++ [])) = true.
Proof. apply name_ok_app. Qed.

Section Bridge.
  Variable re_match : N -> pystr -> bool.
  Variable e : env.

  (* the __set__ of the Field object #i is [vset] of the i-th declared field *)
  Definition rec_of (fs : list field) (i : nat) (v : pyval) : res pyval :=
    match nth_error fs i with Some g => vset re_match e g v | None => Raise Unmodelled end.

  Lemma map_rec_of_aux (v : pyval) : forall fs pre,
      map (fun i => rec_of (pre ++ fs) i v) (seq (length pre) (length fs)) = map (fun g => vset re_match e g v) fs.
  Proof.
    induction fs as [|g fs IH]; intros pre; [reflexivity|].
    cbn [length seq map]. f_equal.
    - unfold rec_of. rewrite nth_error_app2 by lia. rewrite Nat.sub_diag. reflexivity.
    - specialize (IH (pre ++ [g])). rewrite <- app_assoc in IH. cbn [app] in IH.
      rewrite app_length in IH. cbn [length] in IH. rewrite Nat.add_1_r in IH. exact IH.
  Qed.

  Lemma map_rec_of (v : pyval) fs :
    map (fun i => rec_of fs i v) (fids fs) = map (fun g => vset re_match e g v) fs.
  Proof. exact (map_rec_of_aux v fs []). Qed.

  (* ---------------------------------------------------------------- extract_field_value *)

  Ltac sx :=
    repeat (first
      [ rewrite self_name | rewrite self_items | rewrite self_unique | rewrite self_additional | rewrite self_immutable
      | rewrite mself_name | rewrite mself_fields
      | rewrite fld_get_name | rewrite fld_set_name | rewrite nm_set_same
      | rewrite isinstance_fld_Field | rewrite isinstance_flds_Field | rewrite isinstance_flds_list
      | rewrite isinstance_none_Field | rewrite call_structure
      | rewrite scratch_get | rewrite alist_get_set_same
      | progress cbn [bind fst snd co_val co_str co_fstring fstring_parts co_add py_add as_int co_attr_name
                      co_append PyOpsDerive.py_list_append co_bool co_is_none co_is_not_none negb
                      co_is_false co_is_true zint] ]).

  Lemma extract_loop (rec : nat -> pyval -> res pyval) name sz u a im k :
    name_ok name = true ->
    forall l k_after i attrs acc nm,
      validating attrs = true ->
      match mapM (rec 0%nat) l with
      | Ok r => exists attrs' nm', validating attrs' = true /\
          Src_extract_field_value_loop1 re_match rec (coll_self name (OFld 0) sz u a im) k_after
            (enum_from i (map OVal l)) (OObj KScratch attrs) (OVal (seq_make k acc)) nm
          = k_after (OObj KScratch attrs') (OVal (seq_make k (acc ++ r))) nm'
      | Raise x =>
          Src_extract_field_value_loop1 re_match rec (coll_self name (OFld 0) sz u a im) k_after
            (enum_from i (map OVal l)) (OObj KScratch attrs) (OVal (seq_make k acc)) nm = Raise x
      end.
  Proof.
    intros Hn.
    destruct k; cbn [seq_make];
      (induction l as [|x l IH]; intros k_after i attrs acc nm Hv;
       cbn [mapM map enum_from Src_extract_field_value_loop1];
       [ exists attrs, nm; rewrite app_nil_r; split; [exact Hv | reflexivity] |]);
      (sx; cbn [co_field_set]; rewrite Hv;
       destruct (rec 0%nat x) as [nf|ex]; cbn [bind]; [|reflexivity];
       sx;
       match goal with
       | |- context [Src_extract_field_value_loop1 _ _ _ _ (enum_from ?j _) (OObj KScratch ?at') _ ?nm'] =>
           specialize (IH k_after j at' (acc ++ [nf]) nm')
       end;
       rewrite validating_set in IH by (apply elem_name_ok; exact Hn); specialize (IH Hv);
       destruct (mapM (rec 0%nat) l) as [r|ex]; cbn [bind];
       [ destruct IH as (attrs' & nm' & Hv' & IH); exists attrs', nm'; split; [exact Hv'|];
         rewrite IH; rewrite <- app_assoc; reflexivity
       | exact IH ]).
  Qed.

  Lemma extract_spec (rec : nat -> pyval -> res pyval) name sz u a im k l nm :
    name_ok name = true ->
    match mapM (rec 0%nat) l with
    | Ok r => exists nm',
        Src_extract_field_value re_match rec nm (coll_self name (OFld 0) sz u a im) (OVal (seq_make k l)) (OCls (kcls k))
        = Ok (OVal (seq_make k r), nm')
    | Raise x =>
        Src_extract_field_value re_match rec nm (coll_self name (OFld 0) sz u a im) (OVal (seq_make k l)) (OCls (kcls k))
        = Raise x
    end.
  Proof.
    intros Hn. unfold Src_extract_field_value. sx.
    assert (Hc : co_call (OCls (kcls k)) [] = Ok (OVal (seq_make k []))) by (destruct k; reflexivity).
    assert (Hi : co_iter (OVal (seq_make k l)) = Ok (map OVal l)) by (destruct k; reflexivity).
    rewrite Hc. sx. rewrite Hi. sx. unfold co_enumerate.
    match goal with
    | |- context [Src_extract_field_value_loop1 _ _ _ ?ka _ _ _ ?nm0] =>
        pose proof (extract_loop rec name sz u a im k Hn l ka 0 scratch0 [] nm0 scratch0_validating) as H
    end.
    destruct (mapM (rec 0%nat) l) as [r|x].
    - destruct H as (attrs' & nm' & _ & H). exists nm'. rewrite H. reflexivity.
    - exact H.
  Qed.

  (* ---------------------------------------------------------------- Array.__set__ *)

  Theorem generated_array_each : forall item sz u a im name nm iattrs v,
      name_ok name = true -> validating iattrs = true ->
      set_result (Src_Array_set re_match (rec_of [item]) nm (coll_self name (OFld 0) sz u a im) (OObj KInst iattrs) (OVal v))
      = vset re_match e (FSeqEach SeqList item sz u) v.
  Proof.
    intros item sz u a im name nm iattrs v Hn Hi.
    unfold Src_Array_set.
    destruct (inst_flag_trust nm iattrs Hi) as (x & Hx & Hxt). rewrite Hx. cbn [bind]. rewrite Hxt. cbn [bind].
    sx. change co_no_self with no_self. rewrite generated_verify_list.
    destruct v; try reflexivity.
    cbn [vset seq_items]. destruct (uniq_check u l) as [[]|x1]; cbn [bind]; [|reflexivity].
    rewrite validate_size_self, generated_validate_size_list.
    destruct (size_check sz (lenZ l)) as [[]|x1]; cbn [bind]; [|reflexivity].
    pose proof (extract_spec (rec_of [item]) name sz u a im SeqList l nm Hn) as H.
    cbn [seq_make kcls] in H.
    change (rec_of [item] 0%nat) with (fun x => vset re_match e item x) in H.
    destruct (mapM (fun x => vset re_match e item x) l) as [r|x1].
    - destruct H as (nm' & H). rewrite H. sx. reflexivity.
    - rewrite H. reflexivity.
  Qed.
  Theorem generated_array_any : forall (rec : nat -> pyval -> res pyval) sz u a im name nm iattrs v,
      validating iattrs = true ->
      set_result (Src_Array_set re_match rec nm (coll_self name (OVal PNone) sz u a im) (OObj KInst iattrs) (OVal v))
      = vset re_match e (FSeqAny SeqList sz u) v.
  Proof.
    intros rec sz u a im name nm iattrs v Hi.
    unfold Src_Array_set.
    destruct (inst_flag_trust nm iattrs Hi) as (x & Hx & Hxt). rewrite Hx. cbn [bind]. rewrite Hxt. cbn [bind].
    sx. change co_no_self with no_self. rewrite generated_verify_list.
    destruct v; try reflexivity.
    cbn [vset seq_items]. destruct (uniq_check u l) as [[]|x1]; cbn [bind]; [|reflexivity].
    rewrite validate_size_self, generated_validate_size_list.
    destruct (size_check sz (lenZ l)) as [[]|x1]; cbn [bind]; reflexivity.
  Qed.

  (* ---------------------------------------------------------------- positional items *)

  (* element j of the value against field object j, for the n field objects from j on; a value that is too
     short is skipped (`if ind >= len(value): continue`) *)
  Fixpoint zip_idx (fs : list field) (l : list pyval) (j n : nat) : res (list pyval) :=
    match n with
    | O => Ok []
    | S n' =>
        match nth_error l j with
        | None => zip_idx fs l (S j) n'
        | Some x => y <- rec_of fs j x ;; ys <- zip_idx fs l (S j) n' ;; Ok (y :: ys)
        end
    end.

  Fixpoint zipM (fs : list field) (vs : list pyval) : res (list pyval) :=
    match fs, vs with
    | g :: fs', x :: vs' => y <- vset re_match e g x ;; ys <- zipM fs' vs' ;; Ok (y :: ys)
    | _, _ => Ok []
    end.

  Lemma nth_error_Some_lt' {A} (l : list A) j x : nth_error l j = Some x -> (j < length l)%nat.
  Proof. intro H. apply nth_error_Some. congruence. Qed.

  Lemma zip_idx_none fs l : forall n j, (length l <= j)%nat -> zip_idx fs l j n = Ok [].
  Proof.
    induction n as [|n IH]; intros j Hj; [reflexivity|]. cbn [zip_idx].
    destruct (nth_error l j) eqn:E; [apply nth_error_Some_lt' in E; lia | apply IH; lia].
  Qed.

  Lemma zip_idx_zipM : forall fs vs fpre vpre,
      length fpre = length vpre ->
      zip_idx (fpre ++ fs) (vpre ++ vs) (length fpre) (length fs) = zipM fs vs.
  Proof.
    induction fs as [|g fs IH]; intros vs fpre vpre Hl; [reflexivity|].
    cbn [length zip_idx zipM]. rewrite Hl at 1. rewrite nth_error_app2 by lia. rewrite Nat.sub_diag.
    destruct vs as [|x vs]; cbn [nth_error].
    - apply zip_idx_none. rewrite app_nil_r. lia.
    - unfold rec_of at 1. rewrite nth_error_app2 by lia. rewrite Nat.sub_diag. cbn [nth_error].
      specialize (IH vs (fpre ++ [g]) (vpre ++ [x])).
      rewrite <- !app_assoc in IH. cbn [app] in IH. rewrite !app_length in IH. cbn [length] in IH.
      rewrite Nat.add_1_r in IH. rewrite IH by lia. reflexivity.
  Qed.
  Lemma nth_item_nat l j :
    PyOpsDerive.nth_item l (Z.of_nat j) = match nth_error l j with Some x => Ok x | None => Raise IndexError end.
  Proof.
    unfold PyOpsDerive.nth_item. cbv zeta.
    assert (H0 : (Z.of_nat j <? 0) = false) by (apply Z.ltb_ge; lia).
    rewrite !H0. cbn [orb].
    destruct (Z.leb_spec (Z.of_nat (length l)) (Z.of_nat j)).
    - destruct (nth_error l j) eqn:E; [apply nth_error_Some_lt' in E; lia | reflexivity].
    - rewrite Nat2Z.id. destruct (nth_error l j); reflexivity.
  Qed.

  Lemma len_le_nth {A} (l : list A) j :
    (lenZ' l <=? Z.of_nat j) = match nth_error l j with Some _ => false | None => true end.
  Proof.
    unfold lenZ'. destruct (nth_error l j) eqn:E.
    - apply nth_error_Some_lt' in E. destruct (Z.leb_spec (Z.of_nat (length l)) (Z.of_nat j)); [lia | reflexivity].
    - apply nth_error_None in E. destruct (Z.leb_spec (Z.of_nat (length l)) (Z.of_nat j)); [reflexivity | lia].
  Qed.

  Ltac sx2 :=
    repeat (first
      [ rewrite self_name | rewrite self_items | rewrite self_unique | rewrite self_additional | rewrite self_immutable
      | rewrite mself_name | rewrite mself_fields
      | rewrite fld_get_name | rewrite fld_set_name | rewrite nm_set_same
      | rewrite isinstance_fld_Field | rewrite isinstance_flds_Field | rewrite isinstance_flds_list
      | rewrite isinstance_none_Field | rewrite call_structure
      | rewrite scratch_get | rewrite alist_get_set_same | rewrite num_leb_int | rewrite num_ltb_int | rewrite nth_item_nat
      | progress cbn [bind fst snd co_val co_str co_fstring fstring_parts co_add py_add as_int co_attr_name
                      co_append PyOpsDerive.py_list_append co_bool co_is_none co_is_not_none negb
                      co_is_false co_is_true zint co_len py_len co_cmp py_ge py_le py_gt py_lt as_num
                      co_subscript PyOpsDerive.py_subscript PyOpsDerive.as_index] ]).

  Lemma array_pos_loop fs name items_obj sz u a im l :
    name_ok name = true ->
    forall n j i k_after attrs acc nm,
      i = Z.of_nat j -> validating attrs = true ->
      match zip_idx fs l j n with
      | Ok r => exists attrs' nm', validating attrs' = true /\
          Src_Array_set_loop1 re_match (rec_of fs) (coll_self name items_obj sz u a im) (OVal (PList l)) k_after
            (enum_from i (map OFld (seq j n))) (OObj KScratch attrs) (OVal (PList acc)) nm
          = k_after (OObj KScratch attrs') (OVal (PList (acc ++ r))) nm'
      | Raise x =>
          Src_Array_set_loop1 re_match (rec_of fs) (coll_self name items_obj sz u a im) (OVal (PList l)) k_after
            (enum_from i (map OFld (seq j n))) (OObj KScratch attrs) (OVal (PList acc)) nm = Raise x
      end.
  Proof.
    intros Hn. induction n as [|n IH]; intros j i k_after attrs acc nm Hi Hv; subst i;
      cbn [zip_idx seq map enum_from Src_Array_set_loop1].
    - exists attrs, nm. rewrite app_nil_r. split; [exact Hv | reflexivity].
    - sx2. rewrite len_le_nth.
      destruct (nth_error l j) as [x|] eqn:E.
      + sx2. cbn [co_field_set]. rewrite Hv.
        destruct (rec_of fs j x) as [nf|ex]; cbn [bind]; [|reflexivity].
        sx2.
        match goal with
        | |- context [Src_Array_set_loop1 _ _ _ _ _ (enum_from ?i' _) (OObj KScratch ?at') _ ?nm'] =>
            specialize (IH (S j) i' k_after at' (acc ++ [nf]) nm')
        end.
        rewrite validating_set in IH by (apply elem_name_ok; exact Hn).
        specialize (IH ltac:(lia) Hv).
        destruct (zip_idx fs l (S j) n) as [r|ex]; cbn [bind].
        * destruct IH as (attrs' & nm' & Hv' & IH). exists attrs', nm'. split; [exact Hv'|].
          rewrite IH. rewrite <- app_assoc. reflexivity.
        * exact IH.
      + cbn [bind]. apply IH; [lia | exact Hv].
  Qed.
  (* the positional loop of [vset] (FSeqPos) *)
  Fixpoint pos_arr (fs : list field) (vs : list pyval) {struct fs} : res (list pyval) :=
    match fs, vs with
    | [], _ => Ok vs
    | _ :: _, [] => Ok []
    | g :: fs', x :: vs' => y <- vset re_match e g x ;; ys <- pos_arr fs' vs' ;; Ok (y :: ys)
    end.

  Lemma pos_arr_zip : forall fs vs, pos_arr fs vs = (r <- zipM fs vs ;; Ok (r ++ skipn (length fs) vs)).
  Proof.
    induction fs as [|g fs IH]; intros vs; [reflexivity|].
    destruct vs as [|x vs]; [reflexivity|]. cbn [pos_arr zipM length skipn].
    destruct (vset re_match e g x) as [y|ex]; cbn [bind]; [|reflexivity].
    rewrite IH. destruct (zipM fs vs) as [r|ex]; reflexivity.
  Qed.

  Lemma slice_from {A} (l : list A) n : slice_list (Some (Z.of_nat n)) None l = skipn n l.
  Proof.
    unfold slice_list, clamp. destruct (Z.ltb_spec (Z.of_nat n) 0); [lia|]. rewrite Nat2Z.id.
    destruct (Nat.le_ge_cases n (length l)) as [Hle|Hge].
    - rewrite Nat.min_r by lia. rewrite firstn_all2; [reflexivity|]. rewrite skipn_length. lia.
    - rewrite Nat.min_l by lia. rewrite Nat.sub_diag. cbn [firstn]. symmetry. apply skipn_all2. lia.
  Qed.

  Lemma vset_seqpos k items sz u additional v :
    vset re_match e (FSeqPos k items sz u additional) v =
    match seq_items k v with
    | None => Raise TypeError
    | Some l =>
        _ <- uniq_check u l ;; _ <- size_check sz (lenZ l) ;;
        if pos_len_bad items additional l then Raise ValueError
        else r <- pos_arr items l ;; Ok (seq_make k r)
    end.
  Proof. reflexivity. Qed.

  Theorem generated_array_pos : forall items sz u additional im name nm iattrs v,
      name_ok name = true -> validating iattrs = true ->
      set_result (Src_Array_set re_match (rec_of items) nm (coll_self name (OFlds (fids items)) sz u additional im)
                                (OObj KInst iattrs) (OVal v))
      = vset re_match e (FSeqPos SeqList items sz u additional) v.
  Proof.
    intros items sz u additional im name nm iattrs v Hn Hi.
    rewrite vset_seqpos. unfold Src_Array_set.
    destruct (inst_flag_trust nm iattrs Hi) as (x & Hx & Hxt). rewrite Hx. cbn [bind]. rewrite Hxt. cbn [bind].
    sx2. change co_no_self with no_self. rewrite generated_verify_list.
    destruct v; try reflexivity.
    cbn [seq_items]. destruct (uniq_check u l) as [[]|x1]; cbn [bind]; [|reflexivity].
    rewrite validate_size_self, generated_validate_size_list.
    destruct (size_check sz (lenZ l)) as [[]|x1]; cbn [bind]; [|reflexivity].
    destruct (inst_flag_skip nm iattrs Hi) as (y & Hy & Hyt & Hyv). rewrite !Hy. cbn [bind]. rewrite Hyt.
    sx2. cbn [py_not bind negb].
    assert (Hfl : length (fids items) = length items) by apply seq_length.
    rewrite !Hfl.
    assert (Htest : py_or (Ok (lenZ' l <? Z.of_nat (length items)))
                      (fun _ : unit => py_and (co_truthy (co_bool match optb_val additional with PBool false => true | _ => false end))
                                              (fun _ : unit => Ok (Z.of_nat (length items) <? lenZ' l)))
                    = Ok (pos_len_bad items additional l)).
    { unfold pos_len_bad, lenZ, lenZ'. cbn [py_or py_and bind co_truthy co_bool py_truthy].
      destruct (Z.of_nat (length l) <? Z.of_nat (length items)); cbn [orb]; [reflexivity|].
      destruct additional as [[|]|]; reflexivity. }
    rewrite Htest. cbn [bind].
    destruct (pos_len_bad items additional l); [reflexivity|].
    cbn [co_setattr_own co_iter bind]. unfold co_enumerate, fids.
    match goal with
    | |- context [Src_Array_set_loop1 _ _ _ _ ?ka _ (OObj KScratch ?at0) _ ?nm0] =>
        pose proof (array_pos_loop items name (OFlds (seq 0 (length items))) sz u additional im l Hn
                      (length items) 0%nat 0 ka at0 [] nm0 eq_refl (Hyv _ scratch0_validating)) as H
    end.
    pose proof (zip_idx_zipM items l [] [] eq_refl) as Hz. cbn [app length] in Hz. rewrite Hz in H. clear Hz.
    rewrite pos_arr_zip.
    destruct (zipM items l) as [r|ex]; cbn [bind].
    - destruct H as (attrs' & nm' & _ & H). unfold fids in H. rewrite H. sx2.
      rewrite seq_length.
      repeat progress cbn [co_slice co_val opt_val bind py_slice slice_index co_iadd_own co_iter_vals py_iter co_call
                           set_result seq_make zint].
      rewrite slice_from. reflexivity.
    - unfold fids in H. rewrite H. reflexivity.
  Qed.
  (* ---------------------------------------------------------------- Deque.__set__ *)

  Theorem generated_deque_each : forall item sz u a im name nm iattrs v,
      name_ok name = true ->
      set_result (Src_Deque_set re_match (rec_of [item]) nm (coll_self name (OFld 0) sz u a im) (OObj KInst iattrs) (OVal v))
      = vset re_match e (FSeqEach SeqDeque item sz u) v.
  Proof.
    intros item sz u a im name nm iattrs v Hn.
    unfold Src_Deque_set.
    sx2. change co_no_self with no_self. rewrite generated_verify_deque.
    destruct v; try reflexivity.
    cbn [vset seq_items]. destruct (uniq_check u l) as [[]|x1]; cbn [bind]; [|reflexivity].
    rewrite validate_size_self, generated_validate_size_deque.
    destruct (size_check sz (lenZ l)) as [[]|x1]; cbn [bind]; [|reflexivity].
    pose proof (extract_spec (rec_of [item]) name sz u a im SeqDeque l nm Hn) as H.
    cbn [seq_make kcls] in H.
    change (rec_of [item] 0%nat) with (fun x => vset re_match e item x) in H.
    destruct (mapM (fun x => vset re_match e item x) l) as [r|x1].
    - destruct H as (nm' & H). rewrite H. sx2. reflexivity.
    - rewrite H. reflexivity.
  Qed.

  Theorem generated_deque_any : forall (rec : nat -> pyval -> res pyval) sz u a im name nm iattrs v,
      set_result (Src_Deque_set re_match rec nm (coll_self name (OVal PNone) sz u a im) (OObj KInst iattrs) (OVal v))
      = vset re_match e (FSeqAny SeqDeque sz u) v.
  Proof.
    intros rec sz u a im name nm iattrs v.
    unfold Src_Deque_set.
    sx2. change co_no_self with no_self. rewrite generated_verify_deque.
    destruct v; try reflexivity.
    cbn [vset seq_items]. destruct (uniq_check u l) as [[]|x1]; cbn [bind]; [|reflexivity].
    rewrite validate_size_self, generated_validate_size_deque.
    destruct (size_check sz (lenZ l)) as [[]|x1]; cbn [bind]; reflexivity.
  Qed.

  Lemma deque_pos_loop fs name items_obj sz u a im l :
    name_ok name = true ->
    forall n j i k_after attrs acc nm,
      i = Z.of_nat j -> validating attrs = true ->
      match zip_idx fs l j n with
      | Ok r => exists attrs' nm', validating attrs' = true /\
          Src_Deque_set_loop1 re_match (rec_of fs) (coll_self name items_obj sz u a im) (OVal (PDeque l)) k_after
            (enum_from i (map OFld (seq j n))) (OObj KScratch attrs) (OVal (PDeque acc)) nm
          = k_after (OObj KScratch attrs') (OVal (PDeque (acc ++ r))) nm'
      | Raise x =>
          Src_Deque_set_loop1 re_match (rec_of fs) (coll_self name items_obj sz u a im) (OVal (PDeque l)) k_after
            (enum_from i (map OFld (seq j n))) (OObj KScratch attrs) (OVal (PDeque acc)) nm = Raise x
      end.
  Proof.
    intros Hn. induction n as [|n IH]; intros j i k_after attrs acc nm Hi Hv; subst i;
      cbn [zip_idx seq map enum_from Src_Deque_set_loop1].
    - exists attrs, nm. rewrite app_nil_r. split; [exact Hv | reflexivity].
    - sx2. rewrite len_le_nth.
      destruct (nth_error l j) as [x|] eqn:E.
      + sx2. cbn [co_field_set]. rewrite Hv.
        destruct (rec_of fs j x) as [nf|ex]; cbn [bind]; [|reflexivity].
        sx2.
        match goal with
        | |- context [Src_Deque_set_loop1 _ _ _ _ _ (enum_from ?i' _) (OObj KScratch ?at') _ ?nm'] =>
            specialize (IH (S j) i' k_after at' (acc ++ [nf]) nm')
        end.
        rewrite validating_set in IH by (apply elem_name_ok; exact Hn).
        specialize (IH ltac:(lia) Hv).
        destruct (zip_idx fs l (S j) n) as [r|ex]; cbn [bind].
        * destruct IH as (attrs' & nm' & Hv' & IH). exists attrs', nm'. split; [exact Hv'|].
          rewrite IH. rewrite <- app_assoc. reflexivity.
        * exact IH.
      + cbn [bind]. apply IH; [lia | exact Hv].
  Qed.

  Lemma range_seq (G : Z -> cobj) : forall m a n,
      map (fun i => G (Z.of_nat n + Z.of_nat i)) (seq a m) = map (fun i => G (Z.of_nat i)) (seq (n + a) m).
  Proof.
    induction m as [|m IH]; intros a n; [reflexivity|]. cbn [seq map]. f_equal.
    - rewrite Nat2Z.inj_add. reflexivity.
    - rewrite IH. rewrite Nat.add_succ_r. reflexivity.
  Qed.

  Lemma skipn_nth {A} (l : list A) j x : nth_error l j = Some x -> skipn j l = x :: skipn (S j) l.
  Proof.
    revert j. induction l as [|y l IH]; intros [|j] H; try discriminate H.
    - inversion H. reflexivity.
    - cbn [nth_error] in H. cbn [skipn]. rewrite (IH j H). reflexivity.
  Qed.

  (* for i in range(len(self.items), len(value)): res.append(value[i]) *)
  Lemma deque_tail_loop (rec : nat -> pyval -> res pyval) l :
    forall m j k_after acc nm,
      (j + m = length l)%nat ->
      Src_Deque_set_loop2 re_match rec (OVal (PDeque l)) k_after
        (map (fun i => OVal (zint (Z.of_nat i))) (seq j m)) (OVal (PDeque acc)) nm
      = k_after (OVal (PDeque (acc ++ skipn j l))) nm.
  Proof.
    induction m as [|m IH]; intros j k_after acc nm Hj; cbn [seq map Src_Deque_set_loop2].
    - rewrite skipn_all2 by lia. rewrite app_nil_r. reflexivity.
    - sx2. destruct (nth_error l j) as [x|] eqn:E; [|apply nth_error_None in E; lia].
      sx2. rewrite IH by lia. rewrite (skipn_nth l j x E). rewrite <- app_assoc. reflexivity.
  Qed.

  Theorem generated_deque_pos : forall items sz u additional im name nm iattrs v,
      name_ok name = true -> validating iattrs = true ->
      set_result (Src_Deque_set re_match (rec_of items) nm (coll_self name (OFlds (fids items)) sz u additional im)
                                (OObj KInst iattrs) (OVal v))
      = vset re_match e (FSeqPos SeqDeque items sz u additional) v.
  Proof.
    intros items sz u additional im name nm iattrs v Hn Hi.
    rewrite vset_seqpos. unfold Src_Deque_set.
    sx2. change co_no_self with no_self. rewrite generated_verify_deque.
    destruct v; try reflexivity.
    cbn [seq_items]. destruct (uniq_check u l) as [[]|x1]; cbn [bind]; [|reflexivity].
    rewrite validate_size_self, generated_validate_size_deque.
    destruct (size_check sz (lenZ l)) as [[]|x1]; cbn [bind]; [|reflexivity].
    destruct (inst_flag_skip nm iattrs Hi) as (y & Hy & Hyt & Hyv). rewrite !Hy. cbn [bind]. rewrite Hyt.
    sx2. cbn [py_not bind negb].
    assert (Hfl : length (fids items) = length items) by apply seq_length.
    rewrite !Hfl.
    assert (Htest : py_or (Ok (lenZ' l <? Z.of_nat (length items)))
                      (fun _ : unit => py_and (co_truthy (co_bool match optb_val additional with PBool false => true | _ => false end))
                                              (fun _ : unit => Ok (Z.of_nat (length items) <? lenZ' l)))
                    = Ok (pos_len_bad items additional l)).
    { unfold pos_len_bad, lenZ, lenZ'. cbn [py_or py_and bind co_truthy co_bool py_truthy].
      destruct (Z.of_nat (length l) <? Z.of_nat (length items)); cbn [orb]; [reflexivity|].
      destruct additional as [[|]|]; reflexivity. }
    rewrite Htest. cbn [bind].
    destruct (pos_len_bad items additional l) eqn:Hbad; [reflexivity|].
    cbn [co_setattr_own co_iter co_call bind]. unfold co_enumerate, fids.
    match goal with
    | |- context [Src_Deque_set_loop1 _ _ _ _ ?ka _ (OObj KScratch ?at0) _ ?nm0] =>
        pose proof (deque_pos_loop items name (OFlds (seq 0 (length items))) sz u additional im l Hn
                      (length items) 0%nat 0 ka at0 [] nm0 eq_refl (Hyv _ scratch0_validating)) as H
    end.
    pose proof (zip_idx_zipM items l [] [] eq_refl) as Hz. cbn [app length] in Hz. rewrite Hz in H. clear Hz.
    rewrite pos_arr_zip.
    destruct (zipM items l) as [r|ex]; cbn [bind].
    - destruct H as (attrs' & nm' & _ & H). rewrite H. sx2. rewrite seq_length.
      assert (Hle : (length items <= length l)%nat).
      { unfold pos_len_bad, lenZ in Hbad. apply orb_false_iff in Hbad. destruct Hbad as [Hb _].
        apply Z.ltb_ge in Hb. lia. }
      cbn [co_range co_val bind as_int zint app]. unfold lenZ'.
      replace (Z.to_nat (Z.of_nat (length l) - Z.of_nat (length items))) with (length l - length items)%nat by lia.
      rewrite (range_seq (fun z => OVal (zint z))). rewrite Nat.add_0_r.
      rewrite deque_tail_loop by lia. sx2.
      cbn [co_iter_vals py_iter bind set_result seq_make app]. reflexivity.
    - rewrite H. reflexivity.
  Qed.
  (* ---------------------------------------------------------------- Tuple.__set__ *)

  Fixpoint pos_tup (fs : list field) (vs : list pyval) {struct fs} : res (list pyval) :=
    match fs, vs with
    | [], _ => Ok []
    | _ :: _, [] => Raise IndexError
    | g :: fs', x :: vs' => y <- vset re_match e g x ;; ys <- pos_tup fs' vs' ;; Ok (y :: ys)
    end.

  Lemma vset_tuple items u v :
    vset re_match e (FTuple items u) v =
    match v with
    | PTuple l =>
        _ <- uniq_check u l ;;
        match items with
        | [] => Raise Unmodelled
        | [g] => r <- mapM (fun x => vset re_match e g x) l ;; Ok (PTuple r)
        | _ => if negb (lenZ items =? lenZ l) then Raise ValueError
               else r <- pos_tup items l ;; Ok (PTuple r)
        end
    | _ => Raise TypeError
    end.
  Proof. reflexivity. Qed.

  (* element j, j+1, ... of the value against the field objects fl, in order; value[ind] raises IndexError *)
  Fixpoint tup_idx (rec : nat -> pyval -> res pyval) (l : list pyval) (j : nat) (fl : list nat) : res (list pyval) :=
    match fl with
    | [] => Ok []
    | f :: fl' =>
        match nth_error l j with
        | None => Raise IndexError
        | Some x => y <- rec f x ;; ys <- tup_idx rec l (S j) fl' ;; Ok (y :: ys)
        end
    end.

  Lemma tup_idx_pos : forall fs vs fpre vpre,
      length fpre = length vpre ->
      tup_idx (rec_of (fpre ++ fs)) (vpre ++ vs) (length fpre) (seq (length fpre) (length fs)) = pos_tup fs vs.
  Proof.
    induction fs as [|g fs IH]; intros vs fpre vpre Hl; [reflexivity|].
    cbn [length seq tup_idx pos_tup]. rewrite Hl at 1. rewrite nth_error_app2 by lia. rewrite Nat.sub_diag.
    destruct vs as [|x vs]; cbn [nth_error]; [reflexivity|].
    unfold rec_of at 1. rewrite nth_error_app2 by lia. rewrite Nat.sub_diag. cbn [nth_error].
    specialize (IH vs (fpre ++ [g]) (vpre ++ [x])).
    rewrite <- !app_assoc in IH. cbn [app] in IH. rewrite !app_length in IH. cbn [length] in IH.
    rewrite Nat.add_1_r in IH. rewrite IH by lia. reflexivity.
  Qed.

  Lemma tup_idx_repeat (rec : nat -> pyval -> res pyval) f : forall vs vpre,
      tup_idx rec (vpre ++ vs) (length vpre) (repeat f (length vs)) = mapM (rec f) vs.
  Proof.
    induction vs as [|x vs IH]; intros vpre; [reflexivity|].
    cbn [length repeat tup_idx mapM]. rewrite nth_error_app2 by lia. rewrite Nat.sub_diag. cbn [nth_error].
    specialize (IH (vpre ++ [x])). rewrite <- app_assoc in IH. cbn [app] in IH.
    rewrite app_length in IH. cbn [length] in IH. rewrite Nat.add_1_r in IH. rewrite IH. reflexivity.
  Qed.

  Lemma tuple_loop (rec : nat -> pyval -> res pyval) name items_obj sz u a im l fl_all :
    name_ok name = true -> (length l <= length fl_all)%nat ->
    forall fl j i k_after attrs acc nm,
      i = Z.of_nat j -> validating attrs = true ->
      match tup_idx rec l j fl with
      | Ok r => exists attrs' nm', validating attrs' = true /\
          Src_Tuple_set_loop1 re_match rec (coll_self name items_obj sz u a im) (OVal (PTuple l)) (OFlds fl_all) k_after
            (enum_from i (map OFld fl)) (OVal (PList acc)) (OObj KScratch attrs) nm
          = k_after (OVal (PList (acc ++ r))) (OObj KScratch attrs') nm'
      | Raise x =>
          Src_Tuple_set_loop1 re_match rec (coll_self name items_obj sz u a im) (OVal (PTuple l)) (OFlds fl_all) k_after
            (enum_from i (map OFld fl)) (OVal (PList acc)) (OObj KScratch attrs) nm = Raise x
      end.
  Proof.
    intros Hn Hlen. induction fl as [|f fl IH]; intros j i k_after attrs acc nm Hi Hv; subst i;
      cbn [tup_idx map enum_from Src_Tuple_set_loop1].
    - exists attrs, nm. rewrite app_nil_r. split; [exact Hv | reflexivity].
    - sx2. destruct (nth_error l j) as [x|] eqn:E; cbn [bind]; [|reflexivity].
      cbn [co_field_set]. rewrite Hv.
      destruct (rec f x) as [nf|ex]; cbn [bind]; [|reflexivity].
      sx2.
      repeat progress cbn [co_slice co_val opt_val bind py_slice slice_index co_iadd_own co_iter_vals py_iter zint].
      rewrite slice_from. rewrite skipn_all2 by lia. rewrite app_nil_r.
      match goal with
      | |- context [Src_Tuple_set_loop1 _ _ _ _ _ _ (enum_from ?i' _) _ (OObj KScratch ?at') ?nm'] =>
          specialize (IH (S j) i' k_after at' (acc ++ [nf]) nm')
      end.
      rewrite validating_set in IH by (apply elem_name_ok; exact Hn).
      specialize (IH ltac:(lia) Hv).
      destruct (tup_idx rec l (S j) fl) as [r|ex]; cbn [bind].
      + destruct IH as (attrs' & nm' & Hv' & IH). exists attrs', nm'. split; [exact Hv'|].
        rewrite IH. rewrite <- app_assoc. reflexivity.
      + exact IH.
  Qed.
  Lemma num_eqb_int a b : num_eqb (NInt a) (NInt b) = (a =? b).
  Proof.
    unfold num_eqb, Qeq_bool. cbn [num_to_Q Qnum Qden]. rewrite !Z.mul_1_r.
    destruct (Z.eqb_spec a b) as [E|E].
    - rewrite E. apply Zeq_is_eq_bool. reflexivity.
    - destruct (Zeq_bool a b) eqn:Hz; [apply Zeq_bool_eq in Hz; contradiction | reflexivity].
  Qed.

  Definition tuple_declared (items : list field) : bool := negb (Nat.eqb (length items) 0).

  Theorem generated_tuple : forall items u sz a im name nm iattrs v,
      name_ok name = true -> tuple_declared items = true ->
      set_result (Src_Tuple_set re_match (rec_of items) nm (coll_self name (OFlds (fids items)) sz u a im)
                                (OObj KInst iattrs) (OVal v))
      = vset re_match e (FTuple items u) v.
  Proof.
    intros items u sz a im name nm iattrs v Hn Hd.
    rewrite vset_tuple. unfold Src_Tuple_set.
    sx2. change co_no_self with no_self. rewrite generated_verify_tuple.
    destruct v; try reflexivity.
    destruct (uniq_check u l) as [[]|x1]; cbn [bind]; [|reflexivity].
    assert (Hfl : length (fids items) = length items) by apply seq_length.
    rewrite !Hfl.
    repeat progress cbn [py_len bind co_val py_ne py_eq as_num zint py_and].
    rewrite num_eqb_int. unfold lenZ'. fold (lenZ items). fold (lenZ l).
    destruct items as [|g [|g2 rest]]; [discriminate Hd | |].
    - (* one item field: every element against it *)
      change (Z.of_nat (length [g])) with 1. change (lenZ [g]) with 1. change (1 <? 1) with false.
      assert (Hc : (if negb (1 =? lenZ l) then Ok false else @Ok bool false) = Ok false) by (destruct (negb _); reflexivity).
      rewrite Hc. cbn [bind].
      unfold fids. cbn [length seq co_mul as_int]. rewrite concat_repeat_single.
      cbn [co_iter bind]. unfold co_enumerate, lenZ. rewrite Nat2Z.id.
      match goal with
      | |- context [Src_Tuple_set_loop1 _ _ ?so _ _ ?ka _ _ _ _] =>
          pose proof (tuple_loop (rec_of [g]) name (OFlds [0%nat]) sz u a im l (repeat 0%nat (length l)) Hn
                        ltac:(rewrite repeat_length; lia) (repeat 0%nat (length l)) 0%nat 0 ka scratch0 [] nm
                        eq_refl scratch0_validating) as H
      end.
      pose proof (tup_idx_repeat (rec_of [g]) 0%nat l []) as Hz. cbn [app length] in Hz. rewrite Hz in H. clear Hz.
      change (rec_of [g] 0%nat) with (fun x => vset re_match e g x) in H.
      destruct (mapM (fun x => vset re_match e g x) l) as [r|ex]; cbn [bind].
      + destruct H as (attrs' & nm' & _ & H). rewrite H.
        cbn [co_call co_iter_vals py_iter bind set_result app]. reflexivity.
      + rewrite H. reflexivity.
    - (* several item fields: positional *)
      assert (Hgt : (1 <? lenZ (g :: g2 :: rest)) = true).
      { unfold lenZ. cbn [length]. apply Z.ltb_lt. lia. }
      rewrite Hgt.
      destruct (lenZ (g :: g2 :: rest) =? lenZ l) eqn:Hlen; cbn [negb bind]; [|reflexivity].
      cbn [co_iter bind]. unfold co_enumerate, fids.
      apply Z.eqb_eq in Hlen. unfold lenZ in Hlen.
      match goal with
      | |- context [Src_Tuple_set_loop1 _ _ _ _ _ ?ka _ _ _ _] =>
          pose proof (tuple_loop (rec_of (g :: g2 :: rest)) name (OFlds (seq 0 (length (g :: g2 :: rest)))) sz u a im l
                        (seq 0 (length (g :: g2 :: rest))) Hn
                        ltac:(rewrite seq_length; lia) (seq 0 (length (g :: g2 :: rest))) 0%nat 0 ka scratch0 [] nm
                        eq_refl scratch0_validating) as H
      end.
      pose proof (tup_idx_pos (g :: g2 :: rest) l [] [] eq_refl) as Hz. cbn [app] in Hz.
      change (length (@nil field)) with 0%nat in Hz. rewrite Hz in H. clear Hz.
      destruct (pos_tup (g :: g2 :: rest) l) as [r|ex]; cbn [bind].
      + destruct H as (attrs' & nm' & _ & H). rewrite H.
        cbn [co_call co_iter_vals py_iter bind set_result app]. reflexivity.
      + rewrite H. reflexivity.
  Qed.
  (* ---------------------------------------------------------------- Set.__set__ *)

  Lemma set_loop (rec : nat -> pyval -> res pyval) name sz u a im :
    forall l k_after acc nm,
      match mapM (rec 0%nat) l with
      | Ok r =>
          Src_Set_set_loop1 re_match rec (coll_self name (OFld 0) sz u a im) k_after (map OVal l) (OVal (PList acc)) nm
          = k_after (OVal (PList (acc ++ r))) nm
      | Raise x =>
          Src_Set_set_loop1 re_match rec (coll_self name (OFld 0) sz u a im) k_after (map OVal l) (OVal (PList acc)) nm
          = Raise x
      end.
  Proof.
    induction l as [|x l IH]; intros k_after acc nm; cbn [mapM map Src_Set_set_loop1].
    - rewrite app_nil_r. reflexivity.
    - sx2. cbn [co_field_set]. rewrite scratch0_validating.
      destruct (rec 0%nat x) as [nf|ex]; cbn [bind]; [|reflexivity].
      sx2. specialize (IH k_after (acc ++ [nf]) nm).
      destruct (mapM (rec 0%nat) l) as [r|ex]; cbn [bind].
      + rewrite IH. rewrite <- app_assoc. reflexivity.
      + exact IH.
  Qed.

  (* the converted elements can be put in a set: the model's value universe does not force the elements of a
     [PSet] to be hashable, Python does *)
  Definition set_elems_hashable (g : field) (v : pyval) : bool :=
    match v with
    | PSet _ l => match mapM (fun x => vset re_match e g x) l with Ok r => forallb py_hashable' r | Raise _ => true end
    | _ => true
    end.

  Theorem generated_set_items : forall g sz u a im name nm iattrs v,
      validating iattrs = true -> set_elems_hashable g v = true ->
      set_result (Src_Set_set re_match (rec_of [g]) nm (coll_self name (OFld 0) sz u a im) (OObj KInst iattrs) (OVal v))
      = vset re_match e (FSet false (Some g) sz) v.
  Proof.
    intros g sz u a im name nm iattrs v Hi Hh.
    unfold Src_Set_set.
    destruct (inst_flag_trust nm iattrs Hi) as (x & Hx & Hxt). rewrite Hx. cbn [bind]. rewrite Hxt. cbn [bind].
    destruct v; try reflexivity.
    cbn [vset orb]. destruct frozen;
      (cbn [co_isinstance co_isinstance1 isinstance1 bind py_not negb];
       sx2; rewrite validate_size_self, generated_validate_size_set;
       destruct (size_check sz (lenZ l)) as [[]|x1]; cbn [bind]; [|reflexivity];
       sx2; cbn [co_iter py_iter bind];
       match goal with
       | |- context [Src_Set_set_loop1 _ _ _ ?ka _ _ ?nm0] =>
           pose proof (set_loop (rec_of [g]) name sz u a im l ka [] nm0) as H
       end;
       change (rec_of [g] 0%nat) with (fun x => vset re_match e g x) in H;
       cbn [set_elems_hashable] in Hh;
       destruct (mapM (fun x => vset re_match e g x) l) as [r|ex]; cbn [bind];
       [ rewrite H; cbn [app co_call co_iter_vals py_iter bind]; rewrite Hh; reflexivity
       | rewrite H; reflexivity ]).
  Qed.

  Theorem generated_set_plain : forall (rec : nat -> pyval -> res pyval) sz u a im name nm iattrs v,
      validating iattrs = true ->
      set_result (Src_Set_set re_match rec nm (coll_self name (OVal PNone) sz u a im) (OObj KInst iattrs) (OVal v))
      = vset re_match e (FSet false None sz) v.
  Proof.
    intros rec sz u a im name nm iattrs v Hi.
    unfold Src_Set_set.
    destruct (inst_flag_trust nm iattrs Hi) as (x & Hx & Hxt). rewrite Hx. cbn [bind]. rewrite Hxt. cbn [bind].
    destruct v; try reflexivity.
    cbn [vset orb]. destruct frozen;
      (cbn [co_isinstance co_isinstance1 isinstance1 bind py_not negb];
       sx2; rewrite validate_size_self, generated_validate_size_set;
       destruct (size_check sz (lenZ l)) as [[]|x1]; cbn [bind]; reflexivity).
  Qed.
  (* ---------------------------------------------------------------- ImmutableSet.__set__ *)

  Definition set_add (sl : list pyval) (x : pyval) : list pyval := if py_in x sl then sl else sl ++ [x].

  Lemma existsb_rev {A} (f : A -> bool) l : existsb f (rev l) = existsb f l.
  Proof.
    induction l as [|x l IH]; [reflexivity|]. cbn [rev existsb]. rewrite existsb_app, IH. cbn [existsb].
    rewrite orb_false_r. apply orb_comm.
  Qed.

  Lemma fold_set_add_dedup : forall l seen, fold_left set_add l (rev seen) = py_dedup_aux seen l.
  Proof.
    induction l as [|x l IH]; intros seen; [reflexivity|]. cbn [fold_left py_dedup_aux]. unfold set_add at 2.
    unfold py_in at 1. rewrite existsb_rev. fold (py_in x seen).
    destruct (py_in x seen); [apply IH|]. change (rev seen ++ [x]) with (rev (x :: seen)). apply IH.
  Qed.

  (* every element converted before the first failure can be hashed *)
  Fixpoint conv_hashable (f : pyval -> res pyval) (l : list pyval) : bool :=
    match l with
    | [] => true
    | x :: t => match f x with Ok y => py_hashable' y && conv_hashable f t | Raise _ => true end
    end.

  Lemma iset_loop (rec : nat -> pyval -> res pyval) name sz u a im :
    forall l k_after attrs val sl nm,
      validating attrs = true -> name_ok (nm 0%nat) = true -> conv_hashable (rec 0%nat) l = true ->
      match mapM (rec 0%nat) l with
      | Ok r => exists attrs', validating attrs' = true /\
          Src_ImmutableSet_set_loop1 re_match rec (coll_self name (OFld 0) sz u a im) k_after (map OVal l)
            (OObj KScratch attrs) val (OVal (PSet false sl)) nm
          = k_after (OObj KScratch attrs')
                    (match l with [] => val | _ :: _ => OVal (PSet false (fold_left set_add r sl)) end)
                    (OVal (PSet false (fold_left set_add r sl))) nm
      | Raise x =>
          Src_ImmutableSet_set_loop1 re_match rec (coll_self name (OFld 0) sz u a im) k_after (map OVal l)
            (OObj KScratch attrs) val (OVal (PSet false sl)) nm = Raise x
      end.
  Proof.
    induction l as [|x l IH]; intros k_after attrs val sl nm Hv Hn Hh; cbn [mapM map Src_ImmutableSet_set_loop1].
    - exists attrs. split; [exact Hv | reflexivity].
    - cbn [conv_hashable] in Hh. sx2. cbn [co_truthy py_truthy bind].
      assert (Hsc : validating scratch0 = true) by exact scratch0_validating.
      destruct im; cbn [bind]; sx2; cbn [co_field_set]; rewrite ?Hv, ?Hsc;
        (destruct (rec 0%nat x) as [nf|ex]; cbn [bind]; [|reflexivity]);
        apply andb_true_iff in Hh; destruct Hh as [Hh1 Hh2];
        sx2; cbn [co_set_add co_val bind]; rewrite Hh1; fold (set_add sl nf);
        match goal with
        | |- context [Src_ImmutableSet_set_loop1 _ _ _ _ _ (OObj KScratch ?at') _ _ _] =>
            specialize (IH k_after at' (OVal (PSet false (set_add sl nf))) (set_add sl nf) nm)
        end;
        rewrite validating_set in IH by exact Hn; specialize (IH ltac:(assumption) Hn Hh2);
        (destruct l as [|x2 l2];
         [ cbn [mapM bind fold_left] in *; destruct IH as (attrs' & Hv' & IH); exists attrs'; split; [exact Hv' | exact IH]
         | destruct (mapM (rec 0%nat) (x2 :: l2)) as [r|ex]; cbn [bind fold_left];
           [ destruct IH as (attrs' & Hv' & IH); exists attrs'; split; [exact Hv' | exact IH] | exact IH ] ]).
  Qed.
  Lemma set_result_repack (r : res (cobj * names)) : set_result (p <- r ;; Ok (fst p, snd p)) = set_result r.
  Proof. destruct r as [[o n]|ex]; reflexivity. Qed.

  Lemma conv_hashable_mapM (f : pyval -> res pyval) : forall l r,
      conv_hashable f l = true -> mapM f l = Ok r -> forallb py_hashable' r = true.
  Proof.
    induction l as [|x l IH]; intros r Hh Hm; cbn [mapM conv_hashable] in *.
    - inversion Hm. reflexivity.
    - destruct (f x) as [y|ex]; cbn [bind] in Hm; [|discriminate Hm].
      apply andb_true_iff in Hh. destruct Hh as [H1 H2].
      destruct (mapM f l) as [ys|ex]; cbn [bind] in Hm; [|discriminate Hm].
      inversion Hm. cbn [forallb]. rewrite H1. exact (IH ys H2 eq_refl).
  Qed.

  Definition iset_first_ok (g : field) (v : pyval) : bool :=
    match v with PSet _ l => conv_hashable (fun x => vset re_match e g x) l | _ => true end.

  (* ImmutableSet.__set__ converts the elements, then hands the frozenset to Set.__set__ (its super), which
     checks the size and converts the elements AGAIN: the chain is [vset] applied twice *)
  Theorem generated_immutableset_items : forall g sz u a im name nm iattrs v,
      name_ok name = true -> validating iattrs = true ->
      iset_first_ok g v = true ->
      match vset re_match e (FSet true (Some g) sz) v with Ok nf => set_elems_hashable g nf | Raise _ => true end = true ->
      set_result (Src_ImmutableSet_set re_match (rec_of [g]) nm (coll_self name (OFld 0) sz u a im) (OObj KInst iattrs) (OVal v))
      = (nf <- vset re_match e (FSet true (Some g) sz) v ;; vset re_match e (FSet true (Some g) sz) nf).
  Proof.
    intros g sz u a im name nm iattrs v Hn Hi Hh1 Hh2.
    unfold Src_ImmutableSet_set.
    destruct v; try reflexivity.
    assert (Hinst : co_isinstance (OVal (PSet frozen l)) [OCls K_set; OCls K_frozenset] = Ok true) by (destruct frozen; reflexivity).
    rewrite Hinst. cbn [py_not bind negb].
    sx2. rewrite validate_size_self, generated_validate_size_set.
    cbn [vset orb] in *.
    destruct (size_check sz (lenZ l)) as [[]|x1] eqn:Hsz; cbn [bind] in *; [|reflexivity].
    sx2. cbn [co_call co_iter py_iter bind].
    match goal with
    | |- context [Src_ImmutableSet_set_loop1 _ _ _ ?ka _ (OObj KScratch ?at0) ?val _ ?nm0] =>
        pose proof (iset_loop (rec_of [g]) name sz u a im l ka at0 val [] nm0 scratch0_validating) as H
    end.
    rewrite nm_set_same in H. specialize (H Hn).
    change (rec_of [g] 0%nat) with (fun x => vset re_match e g x) in H.
    cbn [iset_first_ok] in Hh1. specialize (H Hh1).
    destruct (mapM (fun x => vset re_match e g x) l) as [r|ex] eqn:Hm; cbn [bind] in *.
    - destruct H as (attrs' & _ & H). rewrite H.
      pose proof (fold_set_add_dedup r []) as Hd. cbn [rev] in Hd. fold (py_dedup r) in Hd. rewrite Hd.
      assert (Hfin : forall nm1, set_result (p40 <- Src_Set_set re_match (rec_of [g]) nm1 (coll_self name (OFld 0) sz u a im)
                                                     (OObj KInst iattrs) (OVal (PSet true (py_dedup r))) ;; Ok (fst p40, snd p40))
                                 = vset re_match e (FSet true (Some g) sz) (PSet true (py_dedup r))).
      { intros nm1. rewrite set_result_repack. rewrite generated_set_items; [reflexivity | exact Hi | exact Hh2]. }
      destruct l as [|x0 l0].
      + cbn [mapM] in Hm. inversion Hm. subst r. change (py_dedup []) with (@nil pyval) in *.
        destruct frozen; cbn [co_isinstance co_isinstance1 isinstance1 bind co_call]; apply Hfin.
      + cbn [co_isinstance co_isinstance1 isinstance1 bind co_call]. apply Hfin.
    - rewrite H. reflexivity.
  Qed.
  Theorem generated_immutableset_plain : forall (rec : nat -> pyval -> res pyval) sz u a im name nm iattrs v,
      validating iattrs = true ->
      set_result (Src_ImmutableSet_set re_match rec nm (coll_self name (OVal PNone) sz u a im) (OObj KInst iattrs) (OVal v))
      = vset re_match e (FSet true None sz) v.
  Proof.
    intros rec sz u a im name nm iattrs v Hi.
    unfold Src_ImmutableSet_set.
    destruct v; try reflexivity.
    assert (Hinst : co_isinstance (OVal (PSet frozen l)) [OCls K_set; OCls K_frozenset] = Ok true) by (destruct frozen; reflexivity).
    rewrite Hinst. cbn [py_not bind negb].
    sx2. rewrite validate_size_self, generated_validate_size_set.
    cbn [vset orb].
    destruct (size_check sz (lenZ l)) as [[]|x1] eqn:Hsz; cbn [bind]; [|reflexivity].
    sx2.
    assert (Hfin : forall nm1, set_result (p40 <- Src_Set_set re_match rec nm1 (coll_self name (OVal PNone) sz u a im)
                                                   (OObj KInst iattrs) (OVal (PSet true l)) ;; Ok (fst p40, snd p40))
                               = Ok (PSet true l)).
    { intros nm1. rewrite set_result_repack. rewrite generated_set_plain by exact Hi.
      cbn [vset orb]. rewrite Hsz. reflexivity. }
    destruct frozen; cbn [co_isinstance co_isinstance1 isinstance1 bind co_call]; apply Hfin.
  Qed.

  (* when the first normal form is a fixed point of the chain, the double pass is a single [vset] *)
  Corollary generated_immutableset_items_fix : forall g sz u a im name nm iattrs v,
      name_ok name = true -> validating iattrs = true ->
      iset_first_ok g v = true ->
      match vset re_match e (FSet true (Some g) sz) v with
      | Ok nf => set_elems_hashable g nf | Raise _ => true end = true ->
      (forall nf, vset re_match e (FSet true (Some g) sz) v = Ok nf -> vset re_match e (FSet true (Some g) sz) nf = Ok nf) ->
      set_result (Src_ImmutableSet_set re_match (rec_of [g]) nm (coll_self name (OFld 0) sz u a im) (OObj KInst iattrs) (OVal v))
      = vset re_match e (FSet true (Some g) sz) v.
  Proof.
    intros g sz u a im name nm iattrs v Hn Hi H1 H2 Hfix.
    rewrite generated_immutableset_items by assumption.
    destruct (vset re_match e (FSet true (Some g) sz) v) as [nf|ex] eqn:E; cbn [bind]; [|reflexivity].
    apply Hfix. reflexivity.
  Qed.
  (* ---------------------------------------------------------------- Map.__set__ *)

  Lemma key_value_names_differ : forall n, pystr_eqb (n ++ s2p "_key") (n ++ s2p "_value") = false /\
                                            pystr_eqb (n ++ s2p "_value") (n ++ s2p "_key") = false.
  Proof.
    induction n as [|c n IH]; [split; reflexivity|]. cbn [app pystr_eqb]. rewrite N.eqb_refl. exact IH.
  Qed.

  Definition conv_pair (rec : nat -> pyval -> res pyval) (p : pyval * pyval) : res (pyval * pyval) :=
    k' <- rec 0%nat (fst p) ;; v' <- rec 1%nat (snd p) ;; Ok (k', v').

  (* every key converted before the first failure can be hashed *)
  Fixpoint conv_keys_hashable (rec : nat -> pyval -> res pyval) (kv : list (pyval * pyval)) : bool :=
    match kv with
    | [] => true
    | p :: t => match conv_pair rec p with
                | Ok (k', _) => py_hashable' k' && conv_keys_hashable rec t
                | Raise _ => true
                end
    end.

  Lemma map_loop (rec : nat -> pyval -> res pyval) (nm : names) :
    name_ok (nm 0%nat) = true -> pystr_eqb (nm 1%nat) (nm 0%nat) = false ->
    forall kv k_after val d,
      conv_keys_hashable rec kv = true ->
      match mapM (conv_pair rec) kv with
      | Ok prs =>
          Src_Map_set_loop1 re_match rec (OFld 0) (OFld 1) k_after (map (fun p => (OVal (fst p), OVal (snd p))) kv)
            val (OVal (PDict d)) nm
          = k_after (match kv with [] => val | _ :: _ => OVal (PDict (dict_of_pairs d prs)) end)
                    (OVal (PDict (dict_of_pairs d prs))) nm
      | Raise x =>
          Src_Map_set_loop1 re_match rec (OFld 0) (OFld 1) k_after (map (fun p => (OVal (fst p), OVal (snd p))) kv)
            val (OVal (PDict d)) nm = Raise x
      end.
  Proof.
    intros Hn Hne. induction kv as [|[k v] kv IH]; intros k_after val d Hh; cbn [mapM map Src_Map_set_loop1 fst snd].
    - reflexivity.
    - cbn [conv_keys_hashable] in Hh. unfold conv_pair at 1. unfold conv_pair at 1 in Hh. cbn [fst snd] in *.
      sx2. cbn [co_field_set]. rewrite scratch0_validating.
      destruct (rec 0%nat k) as [k'|ex]; cbn [bind] in *; [|reflexivity].
      rewrite validating_set by exact Hn. rewrite scratch0_validating.
      destruct (rec 1%nat v) as [v'|ex]; cbn [bind] in *; [|reflexivity].
      apply andb_true_iff in Hh. destruct Hh as [Hh1 Hh2].
      sx2. rewrite (alist_get_set_other _ _ _ _ Hne). rewrite alist_get_set_same. sx2.
      cbn [co_setitem co_val bind py_setitem]. rewrite Hh1. cbn [bind].
      specialize (IH k_after (OVal (PDict (dict_set d k' v'))) (dict_set d k' v') Hh2).
      destruct kv as [|p2 kv2].
      + cbn [mapM bind dict_of_pairs] in *. exact IH.
      + destruct (mapM (conv_pair rec) (p2 :: kv2)) as [prs|ex]; cbn [bind dict_of_pairs]; exact IH.
  Qed.

  Definition map_keys_ok (kf vf : field) (v : pyval) : bool :=
    match v with PDict kv => conv_keys_hashable (rec_of [kf; vf]) kv | _ => true end.

  Theorem generated_map_kv : forall kf vf sz u a im name nm iattrs v,
      name_ok name = true -> map_keys_ok kf vf v = true ->
      set_result (Src_Map_set re_match (rec_of [kf; vf]) nm (coll_self name (OFlds [0; 1]%nat) sz u a im) (OObj KInst iattrs) (OVal v))
      = vset re_match e (FMapKV kf vf sz) v.
  Proof.
    intros kf vf sz u a im name nm iattrs v Hn Hh.
    unfold Src_Map_set.
    destruct v; try reflexivity.
    cbn [co_isinstance co_isinstance1 isinstance1 bind py_not negb vset].
    sx2. rewrite validate_size_self, generated_validate_size_dict.
    destruct (size_check sz (lenZ kv)) as [[]|x1]; cbn [bind]; [|reflexivity].
    sx2. cbn [nth_fld Z.ltb Z.leb orb Z.to_nat nth_error length Z.of_nat Z.compare Pos.compare Pos.compare_cont Pos.of_succ_nat Pos.succ].
    change (Pos.to_nat 1) with 1%nat. cbn [nth_error bind]. sx2.
    cbn [co_call co_dict_items co_val py_dict_items bind].
    set (nm2 := nm_set (nm_set nm 0 (name ++ s2p "_key")) 1 (name ++ s2p "_value")).
    assert (Hn0 : name_ok (nm2 0%nat) = true) by (apply name_ok_app; exact Hn).
    assert (Hne : pystr_eqb (nm2 1%nat) (nm2 0%nat) = false) by (apply key_value_names_differ).
    match goal with
    | |- context [Src_Map_set_loop1 _ _ _ _ ?ka _ ?val _ _] =>
        pose proof (map_loop (rec_of [kf; vf]) nm2 Hn0 Hne kv ka val [] Hh) as H
    end.
    change (conv_pair (rec_of [kf; vf])) with
        (fun p : pyval * pyval => k' <- vset re_match e kf (fst p) ;; v' <- vset re_match e vf (snd p) ;; Ok (k', v')) in H.
    destruct kv as [|p0 kv0].
    - cbn [mapM map] in *. rewrite H. sx2. reflexivity.
    - destruct (mapM (fun p : pyval * pyval => k' <- vset re_match e kf (fst p) ;; v' <- vset re_match e vf (snd p) ;; Ok (k', v')) (p0 :: kv0))
        as [prs|ex]; cbn [bind]; rewrite H; [sx2|]; reflexivity.
  Qed.

  Theorem generated_map_any : forall (rec : nat -> pyval -> res pyval) sz u a im name nm iattrs v,
      set_result (Src_Map_set re_match rec nm (coll_self name (OVal PNone) sz u a im) (OObj KInst iattrs) (OVal v))
      = vset re_match e (FMapAny sz) v.
  Proof.
    intros rec sz u a im name nm iattrs v.
    unfold Src_Map_set.
    destruct v; try reflexivity.
    cbn [co_isinstance co_isinstance1 isinstance1 bind py_not negb vset].
    sx2. rewrite validate_size_self, generated_validate_size_dict.
    destruct (size_check sz (lenZ kv)) as [[]|x1]; cbn [bind]; reflexivity.
  Qed.
  (* ---------------------------------------------------------------- multi-field wrappers *)

  Lemma scratch_instance_spec (rec : nat -> pyval -> res pyval) nm iattrs :
    validating iattrs = true ->
    Src_scratch_instance re_match rec nm (OObj KInst iattrs) = Ok (OObj KScratch scratch0, nm).
  Proof.
    intros Hi. unfold Src_scratch_instance. sx2. cbn [Src_scratch_instance_loop1]. sx2.
    destruct (inst_flag_skip nm iattrs Hi) as (y & Hy & Hyt & _).
    destruct (inst_flag_trust nm iattrs Hi) as (x & Hx & Hxt).
    rewrite Hy. cbn [bind]. rewrite Hyt. cbn [bind]. sx2.
    rewrite Hx. cbn [bind]. rewrite Hxt. cbn [bind]. reflexivity.
  Qed.

  (* AllOf *)
  Lemma allof_loop (rec : nat -> pyval -> res pyval) name n iattrs v :
    validating iattrs = true ->
    forall fl k_after nm,
      match allof_combine (map (fun f => rec f v) fl) with
      | Ok _ => exists nm',
          Src_AllOf_set_loop1 re_match rec (multi_self name n) (OObj KInst iattrs) (OVal v) k_after (map OFld fl) nm = k_after nm'
      | Raise x =>
          Src_AllOf_set_loop1 re_match rec (multi_self name n) (OObj KInst iattrs) (OVal v) k_after (map OFld fl) nm = Raise x
      end.
  Proof.
    intros Hi. induction fl as [|f fl IH]; intros k_after nm; cbn [map allof_combine Src_AllOf_set_loop1].
    - exists nm. reflexivity.
    - sx2. rewrite (scratch_instance_spec rec _ iattrs Hi). sx2.
      cbn [co_field_set]. rewrite scratch0_validating.
      destruct (rec f v) as [nf|ex]; cbn [bind]; [|reflexivity].
      apply IH.
  Qed.

  Theorem generated_allof : forall fs name nm iattrs v,
      validating iattrs = true ->
      set_result (Src_AllOf_set re_match (rec_of fs) nm (multi_self name (length fs)) (OObj KInst iattrs) (OVal v))
      = vset re_match e (FAllOf fs) v.
  Proof.
    intros fs name nm iattrs v Hi.
    unfold Src_AllOf_set, Src_MultiFieldWrapper_get_fields. sx2. cbn [co_iter bind].
    match goal with
    | |- context [Src_AllOf_set_loop1 _ _ _ _ _ ?ka _ ?nm0] =>
        pose proof (allof_loop (rec_of fs) name (length fs) iattrs v Hi (seq 0 (length fs)) ka nm0) as H
    end.
    pose proof (map_rec_of v fs) as Hm. unfold fids in Hm. rewrite Hm in H. clear Hm. cbn [vset].
    destruct (allof_combine (map (fun g => vset re_match e g v) fs)) as [[]|ex]; cbn [bind].
    - destruct H as (nm' & H). rewrite H. reflexivity.
    - rewrite H. reflexivity.
  Qed.

  (* AnyOf *)
  Fixpoint anyof_find (rs : list (res pyval)) : res (option pyval) :=
    match rs with
    | [] => Ok None
    | Ok nf :: _ => Ok (Some nf)
    | Raise x :: t => if caught x then anyof_find t else Raise x
    end.

  Lemma anyof_combine_find rs :
    anyof_combine rs = match anyof_find rs with Ok (Some nf) => Ok nf | Ok None => Raise ValueError | Raise x => Raise x end.
  Proof.
    induction rs as [|[nf|x] t IH]; cbn [anyof_combine anyof_find]; try reflexivity.
    destruct (caught x); [exact IH | reflexivity].
  Qed.

  Lemma anyof_loop (rec : nat -> pyval -> res pyval) name n iattrs v :
    validating iattrs = true ->
    forall fl k_after scr m nm,
      match anyof_find (map (fun f => rec f v) fl) with
      | Ok (Some nf) => exists attrs' nm', alist_get attrs' name = Some (OVal nf) /\
          Src_AnyOf_set_loop1 re_match rec (multi_self name n) (OObj KInst iattrs) (OVal v) k_after (map OFld fl) scr m nm
          = k_after (OObj KScratch attrs') (OVal (PBool true)) nm'
      | Ok None => exists scr' nm',
          Src_AnyOf_set_loop1 re_match rec (multi_self name n) (OObj KInst iattrs) (OVal v) k_after (map OFld fl) scr m nm
          = k_after scr' m nm'
      | Raise x =>
          Src_AnyOf_set_loop1 re_match rec (multi_self name n) (OObj KInst iattrs) (OVal v) k_after (map OFld fl) scr m nm
          = Raise x
      end.
  Proof.
    intros Hi. induction fl as [|f fl IH]; intros k_after scr m nm; cbn [map anyof_find Src_AnyOf_set_loop1].
    - exists scr, nm. reflexivity.
    - sx2. rewrite (scratch_instance_spec rec _ iattrs Hi). cbn [catch fst snd]. cbv zeta.
      cbn [co_field_set]. rewrite scratch0_validating.
      destruct (rec f v) as [nf|ex]; cbn [bind catch].
      + eexists. eexists. split; [|reflexivity]. rewrite nm_set_same. apply alist_get_set_same.
      + destruct ex; cbn [exn_is_a exn_eqb orb caught is_te_ve]; first [apply IH | reflexivity].
  Qed.

  Theorem generated_anyof : forall fs name nm iattrs v,
      validating iattrs = true ->
      set_result (Src_AnyOf_set re_match (rec_of fs) nm (multi_self name (length fs)) (OObj KInst iattrs) (OVal v))
      = vset re_match e (FAnyOf fs) v.
  Proof.
    intros fs name nm iattrs v Hi.
    unfold Src_AnyOf_set, Src_MultiFieldWrapper_get_fields.
    destruct (inst_flag_skip nm iattrs Hi) as (y & Hy & Hyt & _).
    destruct (inst_flag_trust nm iattrs Hi) as (x & Hx & Hxt).
    rewrite Hx, Hy. cbn [bind py_or]. rewrite Hxt. cbn [bind]. rewrite Hyt. cbn [bind].
    sx2. cbn [co_iter bind].
    match goal with
    | |- context [Src_AnyOf_set_loop1 _ _ _ _ _ ?ka _ ?scr ?m ?nm0] =>
        pose proof (anyof_loop (rec_of fs) name (length fs) iattrs v Hi (seq 0 (length fs)) ka scr m nm0) as H
    end.
    pose proof (map_rec_of v fs) as Hm. unfold fids in Hm. rewrite Hm in H. clear Hm. cbn [vset]. rewrite anyof_combine_find.
    destruct (anyof_find (map (fun g => vset re_match e g v) fs)) as [[nf|]|ex].
    - destruct H as (attrs' & nm' & Hget & H). rewrite H.
      cbn [co_truthy py_truthy py_not bind negb]. sx2. cbn [co_dict_attr]. rewrite Hget. reflexivity.
    - destruct H as (scr' & nm' & H). rewrite H. reflexivity.
    - rewrite H. reflexivity.
  Qed.
  (* OneOf *)
  Lemma oneof_loop (rec : nat -> pyval -> res pyval) name n iattrs v :
    validating iattrs = true ->
    forall fl k_after c nm,
      match oneof_combine (map (fun f => rec f v) fl) with
      | Ok cnt => exists nm',
          Src_OneOf_set_loop1 re_match rec (multi_self name n) (OObj KInst iattrs) (OVal v) k_after (map OFld fl) (OVal (zint c)) nm
          = k_after (OVal (zint (c + Z.of_nat cnt))) nm'
      | Raise x =>
          Src_OneOf_set_loop1 re_match rec (multi_self name n) (OObj KInst iattrs) (OVal v) k_after (map OFld fl) (OVal (zint c)) nm
          = Raise x
      end.
  Proof.
    intros Hi. induction fl as [|f fl IH]; intros k_after c nm; cbn [map oneof_combine Src_OneOf_set_loop1].
    - exists nm. rewrite Z.add_0_r. reflexivity.
    - sx2. rewrite (scratch_instance_spec rec _ iattrs Hi). cbn [catch fst snd]. cbv zeta.
      cbn [co_field_set]. rewrite scratch0_validating.
      destruct (rec f v) as [nf|ex]; cbn [bind catch].
      + cbn [co_iadd_val co_add co_val bind py_add as_int zint catch].
        match goal with |- context [Src_OneOf_set_loop1 _ _ _ _ _ _ _ _ ?nm1] => specialize (IH k_after (c + 1) nm1) end.
        destruct (oneof_combine (map (fun f0 => rec f0 v) fl)) as [cnt|ex].
        * destruct IH as (nm' & IH). exists nm'. unfold zint in *. rewrite IH. f_equal. f_equal. f_equal. f_equal. lia.
        * exact IH.
      + destruct ex; cbn [exn_is_a exn_eqb orb caught is_te_ve]; first [apply IH | reflexivity].
  Qed.

  Lemma truthy_zint z : py_truthy (zint z) = negb (z =? 0).
  Proof.
    unfold zint. cbn [py_truthy num_to_Q]. unfold Qeq_bool. cbn [Qnum Qden]. rewrite Z.mul_1_r, Z.mul_0_l.
    destruct (Z.eqb_spec z 0) as [E|E].
    - subst z. reflexivity.
    - destruct (Zeq_bool z 0) eqn:Hz; [apply Zeq_bool_eq in Hz; contradiction | reflexivity].
  Qed.

  Theorem generated_oneof : forall fs name nm iattrs v,
      validating iattrs = true ->
      set_result (Src_OneOf_set re_match (rec_of fs) nm (multi_self name (length fs)) (OObj KInst iattrs) (OVal v))
      = vset re_match e (FOneOf fs) v.
  Proof.
    intros fs name nm iattrs v Hi.
    unfold Src_OneOf_set, Src_MultiFieldWrapper_get_fields.
    destruct (inst_flag_skip nm iattrs Hi) as (y & Hy & Hyt & _).
    rewrite Hy. cbn [bind]. rewrite Hyt. cbn [bind].
    sx2. cbn [co_iter bind].
    match goal with
    | |- context [Src_OneOf_set_loop1 _ _ _ _ _ ?ka _ _ ?nm0] =>
        pose proof (oneof_loop (rec_of fs) name (length fs) iattrs v Hi (seq 0 (length fs)) ka 0 nm0) as H
    end.
    pose proof (map_rec_of v fs) as Hm. unfold fids in Hm. rewrite Hm in H. clear Hm. cbn [vset].
    destruct (oneof_combine (map (fun g => vset re_match e g v) fs)) as [cnt|ex]; cbn [bind].
    - destruct H as (nm' & H). rewrite H. rewrite Z.add_0_l.
      cbn [co_truthy bind py_not]. rewrite truthy_zint. sx2.
      destruct cnt as [|[|cnt]]; try reflexivity.
      rewrite negb_involutive.
      assert (H0 : (Z.of_nat (S (S cnt)) =? 0) = false) by (apply Z.eqb_neq; lia).
      assert (H1 : (1 <? Z.of_nat (S (S cnt))) = true) by (apply Z.ltb_lt; lia).
      rewrite H0, H1. reflexivity.
    - rewrite H. reflexivity.
  Qed.

  (* NotField *)
  Lemma notfield_loop (rec : nat -> pyval -> res pyval) name n iattrs v :
    validating iattrs = true ->
    forall fl k_after nm,
      match not_combine (map (fun f => rec f v) fl) with
      | Ok _ => exists nm',
          Src_NotField_set_loop1 re_match rec (multi_self name n) (OObj KInst iattrs) (OVal v) k_after (map OFld fl) nm = k_after nm'
      | Raise x =>
          Src_NotField_set_loop1 re_match rec (multi_self name n) (OObj KInst iattrs) (OVal v) k_after (map OFld fl) nm = Raise x
      end.
  Proof.
    intros Hi. induction fl as [|f fl IH]; intros k_after nm; cbn [map not_combine Src_NotField_set_loop1].
    - exists nm. reflexivity.
    - sx2. rewrite (scratch_instance_spec rec _ iattrs Hi). cbn [catch fst snd]. cbv zeta.
      cbn [co_field_set]. rewrite scratch0_validating.
      destruct (rec f v) as [nf|ex]; cbn [bind catch]; [reflexivity|].
      destruct ex; cbn [exn_is_a exn_eqb orb caught is_te_ve]; first [apply IH | reflexivity].
  Qed.

  Theorem generated_notfield : forall fs name nm iattrs v,
      validating iattrs = true ->
      set_result (Src_NotField_set re_match (rec_of fs) nm (multi_self name (length fs)) (OObj KInst iattrs) (OVal v))
      = vset re_match e (FNot fs) v.
  Proof.
    intros fs name nm iattrs v Hi.
    unfold Src_NotField_set, Src_MultiFieldWrapper_get_fields.
    destruct (inst_flag_skip nm iattrs Hi) as (y & Hy & Hyt & _).
    rewrite Hy. cbn [bind]. rewrite Hyt. cbn [bind].
    sx2. cbn [co_iter bind].
    match goal with
    | |- context [Src_NotField_set_loop1 _ _ _ _ _ ?ka _ ?nm0] =>
        pose proof (notfield_loop (rec_of fs) name (length fs) iattrs v Hi (seq 0 (length fs)) ka nm0) as H
    end.
    pose proof (map_rec_of v fs) as Hm. unfold fids in Hm. rewrite Hm in H. clear Hm. cbn [vset].
    destruct (not_combine (map (fun g => vset re_match e g v) fs)) as [[]|ex]; cbn [bind].
    - destruct H as (nm' & H). rewrite H. reflexivity.
    - rewrite H. reflexivity.
  Qed.
  (* a Tuple declared without item fields is outside the hand model ([vset] declines); the source accepts every
     tuple and stores the EMPTY tuple *)
  Theorem generated_tuple_no_items : forall (rec : nat -> pyval -> res pyval) u sz a im name nm iattrs l,
      set_result (Src_Tuple_set re_match rec nm (coll_self name (OFlds []) sz u a im) (OObj KInst iattrs) (OVal (PTuple l)))
      = (_ <- uniq_check u l ;; Ok (PTuple [])).
  Proof.
    intros rec u sz a im name nm iattrs l. unfold Src_Tuple_set.
    sx2. change co_no_self with no_self. rewrite generated_verify_tuple.
    destruct (uniq_check u l) as [[]|x1]; cbn [bind]; [|reflexivity].
    repeat progress cbn [py_len bind co_val py_ne py_eq as_num zint py_and length Z.of_nat].
    rewrite num_eqb_int. change (1 <? 0) with false.
    assert (Hc : (if negb (0 =? lenZ' l) then Ok false else @Ok bool false) = Ok false) by (destruct (negb _); reflexivity).
    rewrite Hc. cbn [bind co_mul as_int]. cbn [repeat concat].
    assert (Hr : concat (repeat (@nil nat) (Z.to_nat (lenZ' l))) = []).
    { induction (Z.to_nat (lenZ' l)) as [|k IHk]; [reflexivity | exact IHk]. }
    rewrite Hr. cbn [co_iter map bind]. unfold co_enumerate. cbn [enum_from Src_Tuple_set_loop1 co_call co_iter_vals py_iter bind].
    reflexivity.
  Qed.
  (* ---------------------------------------------------------------- hashability is preserved by the chains *)

  (* Python can only put hashable elements in a set / use hashable keys; the chains keep them hashable, so the
     side conditions of the Set / ImmutableSet / Map theorems hold whenever the INPUT is a Python value *)
  Lemma mapM_hashable (f : pyval -> res pyval) :
    forall l r, (forall x nf, In x l -> py_hashable' x = true -> f x = Ok nf -> py_hashable' nf = true) ->
                forallb py_hashable' l = true -> mapM f l = Ok r -> forallb py_hashable' r = true.
  Proof.
    induction l as [|x l IH]; intros r Hf Hl Hm; cbn [mapM forallb] in *.
    - inversion Hm. reflexivity.
    - apply andb_true_iff in Hl. destruct Hl as [Hx Hl].
      destruct (f x) as [y|ex] eqn:Ey; cbn [bind] in Hm; [|discriminate Hm].
      destruct (mapM f l) as [ys|ex] eqn:Eys; cbn [bind] in Hm; [|discriminate Hm].
      inversion Hm. cbn [forallb]. rewrite (Hf x y (or_introl eq_refl) Hx Ey).
      apply (IH ys); [intros x0 nf Hin; apply Hf; right; exact Hin | exact Hl | reflexivity].
  Qed.

  Lemma number_chain_hashable k s c v nf :
    py_hashable' v = true -> number_chain k s c v = Ok nf -> py_hashable' nf = true.
  Proof.
    intros Hv H. destruct k; cbn [number_chain] in H.
    - destruct (sign_check s v); cbn [bind] in H; [|discriminate H].
      destruct (number_static c v); cbn [bind] in H; [|discriminate H]. inversion H. subst. exact Hv.
    - destruct (is_py_int v); [|discriminate H].
      destruct (number_static c v); cbn [bind] in H; [|discriminate H].
      destruct (sign_check s v); cbn [bind] in H; [|discriminate H]. inversion H. subst. exact Hv.
    - assert (Hgen : forall conv, py_hashable' conv = true ->
                (if is_py_float conv then _ <- number_static c conv ;; _ <- sign_check s conv ;; Ok conv else Raise TypeError) = Ok nf ->
                py_hashable' nf = true).
      { intros conv Hc H0. destruct (is_py_float conv); [|discriminate H0].
        destruct (number_static c conv); cbn [bind] in H0; [|discriminate H0].
        destruct (sign_check s conv); cbn [bind] in H0; [|discriminate H0]. inversion H0. subst. exact Hc. }
      destruct v as [| | [z|m ex|m ex] | | | | | | | | |]; cbn [bind] in H; try (apply (Hgen _ Hv H)).
      destruct (float_exact z); cbn [bind] in H; [|discriminate H]. apply (Hgen (PNum (int_to_flt z)) eq_refl H).
  Qed.

  Lemma vset_hashable : forall f v nf,
      py_hashable' v = true -> vset re_match e f v = Ok nf -> py_hashable' nf = true.
  Proof.
    apply (field_ind' (fun f => forall v nf, py_hashable' v = true -> vset re_match e f v = Ok nf -> py_hashable' nf = true)).
    - intros k s c v nf Hv H. cbn [vset] in H. eapply number_chain_hashable; eassumption.
    - intros c v nf Hv H. cbn [vset] in H. unfold string_chain in H. destruct v; try discriminate H.
      repeat match type of H with
             | context [match ?x with _ => _ end] => destruct x; cbn [bind] in H; try discriminate H
             end.
      all: inversion H; reflexivity.
    - intros v nf Hv H. cbn [vset] in H. unfold boolean_chain in H. destruct v; try discriminate H.
      + inversion H. reflexivity.
      + destruct (pystr_eqb s str_True); [inversion H; reflexivity|].
        destruct (pystr_eqb s str_False); [inversion H; reflexivity | discriminate H].
    - intros v nf Hv H. cbn [vset] in H. destruct v; try discriminate H. inversion H. reflexivity.
    - intros v nf Hv H. cbn [vset] in H. inversion H. subst. exact Hv.
    - intros vs v nf Hv H. cbn [vset] in H. destruct (py_in v vs); [inversion H; subst; exact Hv | discriminate H].
    - intros c ms v nf Hv H. cbn [vset] in H.
      destruct v; try discriminate H.
      + destruct (alist_get ms s); [inversion H; reflexivity | discriminate H].
      + match type of H with (if ?b then _ else _) = _ => destruct b end; [inversion H; reflexivity | discriminate H].
    - intros k sz u v nf Hv H. cbn [vset] in H. destruct k; destruct v; try discriminate Hv; discriminate H.
    - intros k f sz u _ v nf Hv H. cbn [vset] in H. destruct k; destruct v; try discriminate Hv; discriminate H.
    - intros k fs sz u a _ v nf Hv H. cbn [vset] in H. destruct k; destruct v; try discriminate Hv; discriminate H.
    - intros i sz v nf Hv H. cbn [vset] in H. destruct v; try discriminate H.
      destruct (size_check sz (lenZ l)); cbn [bind] in H; [|discriminate H].
      inversion H. cbn [py_hashable'] in *. rewrite Hv. apply orb_true_r.
    - intros i f sz _ v nf Hv H. cbn [vset] in H. destruct v; try discriminate H.
      destruct (size_check sz (lenZ l)); cbn [bind] in H; [|discriminate H].
      destruct (mapM (fun x => vset re_match e f x) l); cbn [bind] in H; [|discriminate H].
      inversion H. cbn [py_hashable'] in *. rewrite Hv. apply orb_true_r.
    - (* Tuple *)
      intros fs u HF v nf Hv H. cbn [vset] in H.
      destruct v; try discriminate H. cbn [py_hashable'] in Hv.
      destruct (uniq_check u l); cbn [bind] in H; [|discriminate H].
      assert (Hpos : forall fs0, Forall (fun g => forall v nf, py_hashable' v = true -> vset re_match e g v = Ok nf -> py_hashable' nf = true) fs0 ->
                forall vs r, forallb py_hashable' vs = true ->
                (fix pos (fs : list field) (vs : list pyval) {struct fs} : res (list pyval) :=
                   match fs, vs with
                   | [], _ => Ok []
                   | _ :: _, [] => Raise IndexError
                   | g :: fs', x :: vs' => y <- vset re_match e g x ;; ys <- pos fs' vs' ;; Ok (y :: ys)
                   end) fs0 vs = Ok r -> forallb py_hashable' r = true).
      { induction fs0 as [|g fs0 IHf]; intros HF0 vs r Hvs Hp.
        - inversion Hp. reflexivity.
        - destruct vs as [|x vs]; [discriminate Hp|]. inversion HF0 as [|g' fs' Hg HF']. subst.
          cbn [forallb] in Hvs. apply andb_true_iff in Hvs. destruct Hvs as [Hx Hvs].
          destruct (vset re_match e g x) as [y|ex] eqn:Ey; cbn [bind] in Hp; [|discriminate Hp].
          match type of Hp with (ys <- ?P ;; _) = _ => destruct P as [ys|ex] eqn:Eys end; cbn [bind] in Hp; [|discriminate Hp].
          inversion Hp. cbn [forallb]. rewrite (Hg x y Hx Ey). apply (IHf HF' vs ys Hvs Eys). }
      destruct fs as [|g [|g2 rest]]; [discriminate H | |].
      + destruct (mapM (fun x => vset re_match e g x) l) as [r|ex] eqn:Er; cbn [bind] in H; [|discriminate H].
        inversion H. cbn [py_hashable'].
        inversion HF as [|g' fs' Hg HF']. subst.
        apply (mapM_hashable (fun x => vset re_match e g x) l r); [intros x nf0 _; apply Hg | exact Hv | exact Er].
      + destruct (negb (lenZ (g :: g2 :: rest) =? lenZ l)); [discriminate H|].
        match type of H with (r <- ?P ;; _) = _ => destruct P as [r|ex] eqn:Er end; cbn [bind] in H; [|discriminate H].
        inversion H. cbn [py_hashable']. apply (Hpos (g :: g2 :: rest) HF l r Hv Er).
    - intros sz v nf Hv H. cbn [vset] in H. destruct v; try discriminate Hv; discriminate H.
    - intros kf vf sz _ _ v nf Hv H. cbn [vset] in H. destruct v; try discriminate Hv; discriminate H.
    - intros fs _ v nf Hv H. cbn [vset] in H.
      destruct (allof_combine (map (fun g => vset re_match e g v) fs)); cbn [bind] in H; [|discriminate H].
      inversion H. subst. exact Hv.
    - (* AnyOf *)
      intros fs HF v nf Hv H. cbn [vset] in H.
      induction fs as [|g fs IHf]; cbn [map anyof_combine] in H; [discriminate H|].
      inversion HF as [|g' fs' Hg HF']. subst.
      destruct (vset re_match e g v) as [y|ex] eqn:Ey.
      + inversion H. subst. apply (Hg v nf Hv Ey).
      + destruct (caught ex); [apply (IHf HF' H) | discriminate H].
    - intros fs _ v nf Hv H. cbn [vset] in H.
      destruct (oneof_combine (map (fun g => vset re_match e g v) fs)) as [cnt|ex]; cbn [bind] in H; [|discriminate H].
      destruct (Nat.eqb cnt 1); [inversion H; subst; exact Hv | discriminate H].
    - intros fs _ v nf Hv H. cbn [vset] in H.
      destruct (not_combine (map (fun g => vset re_match e g v) fs)); cbn [bind] in H; [|discriminate H].
      inversion H. subst. exact Hv.
    - intros c v nf Hv H. cbn [vset] in H.
      destruct v; try discriminate H. destruct (is_instance_of e cls c); [inversion H; reflexivity | discriminate H].
  Qed.
  (* a Python set holds hashable elements, a Python dict hashable keys *)
  Definition py_container_ok (v : pyval) : bool :=
    match v with
    | PSet _ l => forallb py_hashable' l
    | PDict kv => forallb (fun p => py_hashable' (fst p)) kv
    | _ => true
    end.

  Lemma conv_hashable_of_input g : forall l,
      forallb py_hashable' l = true -> conv_hashable (fun x => vset re_match e g x) l = true.
  Proof.
    induction l as [|x l IH]; intros Hl; [reflexivity|]. cbn [forallb conv_hashable] in *.
    apply andb_true_iff in Hl. destruct Hl as [Hx Hl].
    destruct (vset re_match e g x) as [y|ex] eqn:Ey; [|reflexivity].
    rewrite (vset_hashable g x y Hx Ey). exact (IH Hl).
  Qed.

  Lemma set_elems_hashable_of_input g v : py_container_ok v = true -> set_elems_hashable g v = true.
  Proof.
    destruct v; try reflexivity. cbn [py_container_ok set_elems_hashable]. intros Hl.
    destruct (mapM (fun x => vset re_match e g x) l) as [r|ex] eqn:Er; [|reflexivity].
    apply (mapM_hashable (fun x => vset re_match e g x) l r); [intros x nf _; apply vset_hashable | exact Hl | exact Er].
  Qed.

  Lemma dedup_aux_forallb (P : pyval -> bool) : forall l seen,
      forallb P seen = true -> forallb P l = true -> forallb P (py_dedup_aux seen l) = true.
  Proof.
    induction l as [|x l IH]; intros seen Hs Hl; cbn [py_dedup_aux].
    - rewrite forallb_forall in *. intros y Hy. apply Hs. apply in_rev. exact Hy.
    - cbn [forallb] in Hl. apply andb_true_iff in Hl. destruct Hl as [Hx Hl].
      destruct (py_in x seen); apply IH; try assumption. cbn [forallb]. rewrite Hx, Hs. reflexivity.
  Qed.

  Lemma conv_keys_hashable_of_input kf vf : forall kv,
      forallb (fun p => py_hashable' (fst p)) kv = true -> conv_keys_hashable (rec_of [kf; vf]) kv = true.
  Proof.
    induction kv as [|[k v] kv IH]; intros Hl; [reflexivity|]. cbn [forallb conv_keys_hashable fst] in *.
    apply andb_true_iff in Hl. destruct Hl as [Hk Hl]. unfold conv_pair. cbn [fst snd].
    change (rec_of [kf; vf] 0%nat k) with (vset re_match e kf k).
    destruct (vset re_match e kf k) as [k'|ex] eqn:Ek; cbn [bind]; [|reflexivity].
    destruct (rec_of [kf; vf] 1%nat v) as [v'|ex]; cbn [bind]; [|reflexivity].
    rewrite (vset_hashable kf k k' Hk Ek). exact (IH Hl).
  Qed.

  (* the Set / ImmutableSet / Map theorems for every value that can exist in Python *)
  Corollary generated_set_items_py : forall g sz u a im name nm iattrs v,
      validating iattrs = true -> py_container_ok v = true ->
      set_result (Src_Set_set re_match (rec_of [g]) nm (coll_self name (OFld 0) sz u a im) (OObj KInst iattrs) (OVal v))
      = vset re_match e (FSet false (Some g) sz) v.
  Proof. intros. apply generated_set_items; [assumption | apply set_elems_hashable_of_input; assumption]. Qed.

  Corollary generated_immutableset_items_py : forall g sz u a im name nm iattrs v,
      name_ok name = true -> validating iattrs = true -> py_container_ok v = true ->
      set_result (Src_ImmutableSet_set re_match (rec_of [g]) nm (coll_self name (OFld 0) sz u a im) (OObj KInst iattrs) (OVal v))
      = (nf <- vset re_match e (FSet true (Some g) sz) v ;; vset re_match e (FSet true (Some g) sz) nf).
  Proof.
    intros g sz u a im name nm iattrs v Hn Hi Hc.
    apply generated_immutableset_items; try assumption.
    - destruct v; try reflexivity. apply conv_hashable_of_input. exact Hc.
    - destruct (vset re_match e (FSet true (Some g) sz) v) as [nf|ex] eqn:E; [|reflexivity].
      apply set_elems_hashable_of_input.
      destruct v; try discriminate E. cbn [vset] in E.
      destruct (size_check sz (lenZ l)); cbn [bind] in E; [|discriminate E].
      destruct (mapM (fun x => vset re_match e g x) l) as [r|ex] eqn:Er; cbn [bind] in E; [|discriminate E].
      inversion E. cbn [py_container_ok] in *. unfold py_dedup. apply dedup_aux_forallb; [reflexivity|].
      apply (mapM_hashable (fun x => vset re_match e g x) l r); [intros x nf0 _; apply vset_hashable | exact Hc | exact Er].
  Qed.

  Corollary generated_map_kv_py : forall kf vf sz u a im name nm iattrs v,
      name_ok name = true -> py_container_ok v = true ->
      set_result (Src_Map_set re_match (rec_of [kf; vf]) nm (coll_self name (OFlds [0; 1]%nat) sz u a im) (OObj KInst iattrs) (OVal v))
      = vset re_match e (FMapKV kf vf sz) v.
  Proof.
    intros kf vf sz u a im name nm iattrs v Hn Hc. apply generated_map_kv; [assumption|].
    destruct v; try reflexivity. apply conv_keys_hashable_of_input. exact Hc.
  Qed.
End Bridge.

(* ------------------------------------------------------------------ side conditions are satisfiable; findings *)

Definition any_re : N -> pystr -> bool := fun _ _ => true.
Definition names0 : names := fun _ => s2p "f".

Example side_conditions_satisfiable :
  name_ok (s2p "items") = true /\ validating [] = true /\
  validating [(s2p "_skip_validation", OVal (PBool false))] = true /\
  tuple_declared [FBoolean] = true /\
  set_elems_hashable any_re [] (FNumber KFloat SAny no_numc) (PSet false [PNum (NInt 1); PNum (NInt 2)]) = true /\
  iset_first_ok any_re [] FBoolean (PSet false [PBool true; PStr (s2p "True")]) = true /\
  map_keys_ok any_re [] (FString no_strc) FBoolean (PDict [(PStr (s2p "k"), PStr (s2p "True"))]) = true /\
  py_container_ok (PSet false [PNum (NInt 1); PTuple [PStr (s2p "a")]]) = true /\
  py_container_ok (PDict [(PStr (s2p "k"), PList [])]) = true.
Proof. repeat split; vm_compute; reflexivity. Qed.

(* the generated functions evaluate: Array[Float] converts, Map[String, Boolean] converts values *)
Example generated_functions_run :
  set_result (Src_Array_set any_re (rec_of any_re [] [FNumber KFloat SAny no_numc]) names0
                (coll_self (s2p "a") (OFld 0) no_sizec false None false) (OObj KInst []) (OVal (PList [PNum (NInt 4); PNum (NFlt 1 0)])))
  = Ok (PList [PNum (NFlt 1 2); PNum (NFlt 1 0)]) /\
  set_result (Src_Map_set any_re (rec_of any_re [] [FString no_strc; FBoolean]) names0
                (coll_self (s2p "m") (OFlds [0; 1]%nat) no_sizec false None false) (OObj KInst [])
                (OVal (PDict [(PStr (s2p "k"), PStr (s2p "True"))])))
  = Ok (PDict [(PStr (s2p "k"), PBool true)]) /\
  set_result (Src_AnyOf_set any_re (rec_of any_re [] [FNumber KInteger SAny no_numc; FBoolean]) names0
                (multi_self (s2p "x") 2) (OObj KInst []) (OVal (PStr (s2p "True"))))
  = Ok (PBool true).
Proof. repeat split; vm_compute; reflexivity. Qed.

(* FINDING 1 (source and hand model disagree; the library follows the source).  ImmutableSet.__set__ hands its
   frozenset to Set.__set__, which checks minItems AGAIN on the converted, de-duplicated elements:
   ImmutableSet(items=Boolean(), minItems=2) given {True, 'True'} is rejected (ValueError) by typedpy,
   while [vset] stores frozenset({True}). *)
Example immutableset_double_pass_disagrees :
  let sz := {| minItems := Some 2; maxItems := None |} in
  let v := PSet false [PBool true; PStr (s2p "True")] in
  vset any_re [] (FSet true (Some FBoolean) sz) v = Ok (PSet true [PBool true]) /\
  set_result (Src_ImmutableSet_set any_re (rec_of any_re [] [FBoolean]) names0
                (coll_self (s2p "s") (OFld 0) sz false None true) (OObj KInst []) (OVal v)) = Raise ValueError /\
  (* ... exactly as the double-pass theorem says *)
  (nf <- vset any_re [] (FSet true (Some FBoolean) sz) v ;; vset any_re [] (FSet true (Some FBoolean) sz) nf) = Raise ValueError.
Proof. repeat split; vm_compute; reflexivity. Qed.

(* FINDING 2 (outside the declaration language of the hand model: the SAME Field object as key and value field,
   `s = String(); Map(items=[s, s])`).  Both slots of the scratch structure then have one name, the value
   overwrites the key: typedpy stores {'v': 'v'} for {'k': 'v'}.  The generated function predicts it when
   self.items is [#0; #0]; the theorems above are about distinct objects [#0; #1]. *)
Example map_shared_field_object :
  set_result (Src_Map_set any_re (rec_of any_re [] [FString no_strc; FString no_strc]) names0
                (coll_self (s2p "m") (OFlds [0; 0]%nat) no_sizec false None false) (OObj KInst [])
                (OVal (PDict [(PStr (s2p "k"), PStr (s2p "v"))])))
  = Ok (PDict [(PStr (s2p "v"), PStr (s2p "v"))]) /\
  vset any_re [] (FMapKV (FString no_strc) (FString no_strc) no_sizec) (PDict [(PStr (s2p "k"), PStr (s2p "v"))])
  = Ok (PDict [(PStr (s2p "k"), PStr (s2p "v"))]).
Proof. split; vm_compute; reflexivity. Qed.

Print Assumptions generated_array_each.
Print Assumptions generated_array_any.
Print Assumptions generated_array_pos.
Print Assumptions generated_deque_each.
Print Assumptions generated_deque_any.
Print Assumptions generated_deque_pos.
Print Assumptions generated_tuple.
Print Assumptions generated_tuple_no_items.
Print Assumptions generated_set_items.
Print Assumptions generated_set_plain.
Print Assumptions generated_immutableset_items.
Print Assumptions generated_immutableset_items_fix.
Print Assumptions generated_immutableset_plain.
Print Assumptions generated_map_kv.
Print Assumptions generated_map_any.
Print Assumptions generated_set_items_py.
Print Assumptions generated_immutableset_items_py.
Print Assumptions generated_map_kv_py.
Print Assumptions vset_hashable.
Print Assumptions generated_allof.
Print Assumptions generated_anyof.
Print Assumptions generated_oneof.
Print Assumptions generated_notfield.
Print Assumptions side_conditions_satisfiable.
Print Assumptions immutableset_double_pass_disagrees.
Print Assumptions map_shared_field_object.
