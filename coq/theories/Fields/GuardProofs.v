(* The tie between the GENERATED guard functions (Gen/Guards.v: what typedpy's source says now) and
   the hand-written code-side model (Fields/SetChain.v) on which C01/C02 are proved: each generated
   function coincides, for EVERY declaration and EVERY value, with the corresponding hand-written one.
   These lemmas are the only proofs that look inside generated text; a source edit that changes a
   guard (a flipped comparison, a dropped bound, another exception class) makes exactly the matching
   lemma fail. *)
From Coq Require Import ZArith QArith NArith String Ascii Bool Lia List.
Import ListNotations.
From TP Require Import Base.PyVal Base.PyOps Fields.FieldAst Fields.SetChain Gen.Guards.
Local Open Scope Z_scope.

(* ------------------------------------------------------------------ how a declaration is seen as `self` *)

Definition optz (o : option Z) : pyval := match o with Some z => zint z | None => PNone end.
Definition optnum (o : option num) : pyval := match o with Some n => PNum n | None => PNone end.
Definition optpat (o : option N) : pyval := match o with Some p => zint (Z.of_N p) | None => PNone end.

Definition numc_self (c : numc) (a : pystr) : pyval :=
  if pystr_eqb a (s2p "multiplesOf") then optz (multiplesOf c)
  else if pystr_eqb a (s2p "minimum") then optnum (minimum c)
  else if pystr_eqb a (s2p "maximum") then optnum (maximum c)
  else if pystr_eqb a (s2p "exclusiveMaximum") then PBool (exclusiveMaximum c)
  else PNone.

Definition strc_self (c : strc) (a : pystr) : pyval :=
  if pystr_eqb a (s2p "minLength") then optz (minLength c)
  else if pystr_eqb a (s2p "maxLength") then optz (maxLength c)
  else if pystr_eqb a (s2p "pattern") then optpat (pattern c)
  else PNone.

Definition sizec_self (c : sizec) (a : pystr) : pyval :=
  if pystr_eqb a (s2p "minItems") then optz (minItems c)
  else if pystr_eqb a (s2p "maxItems") then optz (maxItems c)
  else PNone.

(* positional items: only their number matters to the length test *)
Definition pos_self {A} (items : list A) (additional : option bool) (a : pystr) : pyval :=
  if pystr_eqb a (s2p "items") then PList (map (fun _ => PNone) items)
  else if pystr_eqb a (s2p "additionalItems") then match additional with Some b => PBool b | None => PNone end
  else PNone.

Definition no_self (a : pystr) : pyval := PNone.
Definition sized_self (maxlen : Z) (a : pystr) : pyval := if pystr_eqb a (s2p "maxlen") then zint maxlen else PNone.

Section Bridge.
  Variable re_match : N -> pystr -> bool.

  Ltac dnum n := destruct n as [?z|?m ?e|?m ?e].

  (* ---------------------------------------------------------------- Number._validate_static *)
  Lemma isinst_num : forall n : num, py_isinstance (PNum n) [K_float; K_int; K_Decimal] = true.
  Proof. intros n; dnum n; reflexivity. Qed.

  Ltac split_ifs :=
    repeat match goal with
           | |- context [if ?b then _ else _] => destruct b eqn:?; cbn [bind negb andb]
           end.

  Lemma generated_number_static : forall c v,
      Number__validate_static re_match (numc_self c) v = number_static c v.
  Proof.
    intros [mo mn mx ex] v.
    unfold Number__validate_static, number_static.
    change (numc_self _ (s2p "multiplesOf")) with (optz mo).
    change (numc_self _ (s2p "minimum")) with (optnum mn).
    change (numc_self _ (s2p "maximum")) with (optnum mx).
    change (numc_self _ (s2p "exclusiveMaximum")) with (PBool ex).
    cbn [multiplesOf minimum maximum exclusiveMaximum].
    destruct (as_num v) as [n|] eqn:Hv.
    2:{ destruct v; try discriminate Hv; reflexivity. }
    assert (Hin : py_isinstance v [K_float; K_int; K_Decimal] = true).
    { destruct v; try discriminate Hv; [reflexivity | apply isinst_num]. }
    assert (Hmod : forall m, py_mod_truthy v (zint m) =
                             if m =? 0 then Raise ZeroDivisionError else Ok (negb (num_multiple_of n (NInt m)))).
    { intros m. unfold py_mod_truthy, zint. rewrite Hv. reflexivity. }
    assert (Hgt : forall k, py_gt (PNum k) v = Ok (num_ltb n k)).
    { intros k. unfold py_gt, py_lt. rewrite Hv. reflexivity. }
    assert (Hlt : forall k, py_lt (PNum k) v = Ok (num_ltb k n)).
    { intros k. unfold py_lt. rewrite Hv. reflexivity. }
    assert (Heq : forall k, py_eqv (PNum k) v = Ok (num_eqb k n)).
    { intros k. unfold py_eqv. destruct v; try discriminate Hv; cbn [py_eq as_num] in *;
        inversion Hv; subst; reflexivity. }
    cbn [bind py_not]. rewrite Hin. cbn [negb bind].
    destruct mo as [m|]; destruct mn as [k|]; destruct mx as [k'|]; destruct ex;
      cbn [optz optnum];
      rewrite ?isinst_num, ?Hmod, ?Hgt, ?Hlt, ?Heq;
      change (py_isinstance PNone [K_float; K_int; K_Decimal]) with false;
      change (py_isinstance PNone [K_float]) with false;
      change (py_isinstance PNone [K_int]) with false;
      try change (py_isinstance (zint m) [K_float]) with false;
      try change (py_isinstance (zint m) [K_int]) with true;
      cbn [bind py_and py_or py_truthy];
      rewrite ?isinst_num, ?Hmod, ?Hgt, ?Hlt, ?Heq; cbn [bind];
      split_ifs; rewrite ?Hgt, ?Hlt, ?Heq; cbn [bind]; split_ifs; try reflexivity; try (cbn [negb] in *; congruence).
  Qed.

  (* ---------------------------------------------------------------- sign mix-ins: a non-number passes (Ok) *)
  Lemma generated_positive : forall self v,
      Positive__set re_match self v = (_ <- sign_check SPositive v ;; Ok v).
  Proof.
    intros self v. unfold Positive__set, sign_check, py_le, zint, zero. cbn [as_num].
    destruct (as_num v) as [n|] eqn:Hv; cbn [bind].
    - assert (Hin : py_isinstance v [K_float; K_int; K_Decimal] = true).
      { destruct v; try discriminate Hv; [reflexivity | apply isinst_num]. }
      rewrite Hin. cbn [py_and bind]. destruct (num_leb n (NInt 0)); reflexivity.
    - assert (Hin : py_isinstance v [K_float; K_int; K_Decimal] = false).
      { destruct v; try discriminate Hv; reflexivity. }
      rewrite Hin. reflexivity.
  Qed.

  Lemma generated_negative : forall self v,
      Negative__set re_match self v = (_ <- sign_check SNegative v ;; Ok v).
  Proof.
    intros self v. unfold Negative__set, sign_check, py_ge, py_le, zint, zero. cbn [as_num].
    destruct (as_num v) as [n|] eqn:Hv; cbn [bind].
    - assert (Hin : py_isinstance v [K_float; K_int; K_Decimal] = true).
      { destruct v; try discriminate Hv; [reflexivity | apply isinst_num]. }
      rewrite Hin. cbn [py_and bind]. destruct (num_leb (NInt 0) n); reflexivity.
    - assert (Hin : py_isinstance v [K_float; K_int; K_Decimal] = false).
      { destruct v; try discriminate Hv; reflexivity. }
      rewrite Hin. reflexivity.
  Qed.

  Lemma generated_nonpositive : forall self v,
      NonPositive__set re_match self v = (_ <- sign_check SNonPositive v ;; Ok v).
  Proof.
    intros self v. unfold NonPositive__set, sign_check, py_gt, py_lt, zint, zero. cbn [as_num].
    destruct (as_num v) as [n|] eqn:Hv; cbn [bind].
    - assert (Hin : py_isinstance v [K_float; K_int; K_Decimal] = true).
      { destruct v; try discriminate Hv; [reflexivity | apply isinst_num]. }
      rewrite Hin. cbn [py_and bind]. destruct (num_ltb (NInt 0) n); reflexivity.
    - assert (Hin : py_isinstance v [K_float; K_int; K_Decimal] = false).
      { destruct v; try discriminate Hv; reflexivity. }
      rewrite Hin. reflexivity.
  Qed.

  Lemma generated_nonnegative : forall self v,
      NonNegative__set re_match self v = (_ <- sign_check SNonNegative v ;; Ok v).
  Proof.
    intros self v. unfold NonNegative__set, sign_check, py_lt, zint, zero. cbn [as_num].
    destruct (as_num v) as [n|] eqn:Hv; cbn [bind].
    - assert (Hin : py_isinstance v [K_float; K_int; K_Decimal] = true).
      { destruct v; try discriminate Hv; [reflexivity | apply isinst_num]. }
      rewrite Hin. cbn [py_and bind]. destruct (num_ltb n (NInt 0)); reflexivity.
    - assert (Hin : py_isinstance v [K_float; K_int; K_Decimal] = false).
      { destruct v; try discriminate Hv; reflexivity. }
      rewrite Hin. reflexivity.
  Qed.

  (* ---------------------------------------------------------------- String._validate_static *)
  Lemma generated_string_static : forall c v,
      (_ <- String__validate_static re_match (strc_self c) v ;; Ok v) = string_chain re_match c v.
  Proof.
    intros [mn mx pat] v. unfold String__validate_static, string_chain.
    change (strc_self _ (s2p "minLength")) with (optz mn).
    change (strc_self _ (s2p "maxLength")) with (optz mx).
    change (strc_self _ (s2p "pattern")) with (optpat pat).
    cbn [minLength maxLength pattern].
    destruct v; try reflexivity.
    change (py_isinstance (PStr s) [K_str]) with true. cbn [py_not bind negb py_len].
    unfold py_gt, py_lt, zint. change (lenZ' s) with (lenZ s).
    destruct mx as [m|]; destruct mn as [k|]; destruct pat as [p|];
      cbn [optz optpat zint py_is_not_none py_is_none negb py_and bind as_num py_not py_re_match];
      rewrite ?num_ltb_int, ?N2Z.id; cbn [bind];
      split_ifs; try reflexivity; try (cbn [negb] in *; congruence).
  Qed.

  (* ---------------------------------------------------------------- Boolean.__set__ + Boolean._validate *)
  Lemma generated_boolean : forall v,
      (v' <- Boolean__set re_match no_self v ;; _ <- Boolean__validate re_match no_self v' ;; Ok v')
      = boolean_chain v.
  Proof.
    intros v. unfold Boolean__set, Boolean__validate, boolean_chain.
    destruct v; try reflexivity.
    - (* str *)
      assert (Hsym : forall a b, pystr_eqb a b = pystr_eqb b a).
      { intros a b. destruct (pystr_eqb a b) eqn:H1; destruct (pystr_eqb b a) eqn:H2; try reflexivity.
        - apply pystr_eqb_spec in H1. subst. rewrite pystr_eqb_refl in H2. discriminate.
        - apply pystr_eqb_spec in H2. subst. rewrite pystr_eqb_refl in H1. discriminate. }
      destruct (pystr_eqb s str_True) eqn:HT.
      { apply pystr_eqb_spec in HT. subst s. vm_compute. reflexivity. }
      destruct (pystr_eqb s str_False) eqn:HF.
      { apply pystr_eqb_spec in HF. subst s. vm_compute. reflexivity. }
      unfold py_in_hashed, py_in_lit, py_dict_getitem.
      cbn [py_hashable' py_in existsb py_eq dict_get bind orb].
      change (s2p "True") with str_True. change (s2p "False") with str_False.
      rewrite HT, HF. cbn [orb bind].
      change (py_isinstance (PStr s) [K_bool]) with false.
      change (py_isinstance (PStr s) [K_str]) with true.
      cbn [py_not py_and bind negb py_in existsb py_eq orb].
      rewrite HT, HF. reflexivity.
  Qed.

  (* ---------------------------------------------------------------- SizedCollection.validate_size *)
  Lemma generated_validate_size_len : forall sz items n,
      py_len items = Ok (zint n) ->
      SizedCollection_validate_size re_match (sizec_self sz) items = size_check sz n.
  Proof.
    intros [mn mx] items n Hlen. unfold SizedCollection_validate_size, size_check.
    change (sizec_self _ (s2p "minItems")) with (optz mn).
    change (sizec_self _ (s2p "maxItems")) with (optz mx).
    cbn [minItems maxItems]. rewrite Hlen. unfold py_gt, py_lt, zint.
    destruct mn as [k|]; destruct mx as [m|];
      cbn [optz zint py_is_not_none py_is_none negb py_and bind as_num];
      rewrite ?num_ltb_int; cbn [bind]; split_ifs; try reflexivity; try (cbn [negb] in *; congruence).
  Qed.

  Lemma generated_validate_size_list : forall sz l,
      SizedCollection_validate_size re_match (sizec_self sz) (PList l) = size_check sz (lenZ l).
  Proof. intros. apply generated_validate_size_len. reflexivity. Qed.
  Lemma generated_validate_size_deque : forall sz l,
      SizedCollection_validate_size re_match (sizec_self sz) (PDeque l) = size_check sz (lenZ l).
  Proof. intros. apply generated_validate_size_len. reflexivity. Qed.
  Lemma generated_validate_size_set : forall sz f l,
      SizedCollection_validate_size re_match (sizec_self sz) (PSet f l) = size_check sz (lenZ l).
  Proof. intros. apply generated_validate_size_len. reflexivity. Qed.
  Lemma generated_validate_size_dict : forall sz kv,
      SizedCollection_validate_size re_match (sizec_self sz) (PDict kv) = size_check sz (lenZ kv).
  Proof. intros. apply generated_validate_size_len. reflexivity. Qed.

  (* ---------------------------------------------------------------- verify_type_and_uniqueness *)
  Lemma dedup_aux_length : forall l seen, (length (py_dedup_aux seen l) <= length seen + length l)%nat.
  Proof.
    induction l as [|x l IH]; intros seen; cbn [py_dedup_aux length].
    - rewrite rev_length. lia.
    - destruct (py_in x seen).
      + specialize (IH seen). lia.
      + specialize (IH (x :: seen)). cbn [length] in IH. lia.
  Qed.

  Lemma uniq_test : forall l,
      (Z.of_nat (length (py_dedup l)) <? Z.of_nat (length l)) = negb (py_unique l).
  Proof.
    intros l. unfold py_unique. pose proof (dedup_aux_length l []) as H. cbn [length] in H.
    fold (py_dedup l) in H.
    destruct (Nat.eqb_spec (length (py_dedup l)) (length l)); destruct (Z.ltb_spec (Z.of_nat (length (py_dedup l))) (Z.of_nat (length l)));
      cbn [negb]; try reflexivity; lia.
  Qed.

  Lemma generated_verify_list : forall u v,
      verify_type_and_uniqueness_list re_match no_self v (PBool u) =
      match v with PList l => uniq_check u l | _ => Raise TypeError end.
  Proof.
    intros u v. unfold verify_type_and_uniqueness_list, uniq_check.
    destruct v; try reflexivity.
    change (py_isinstance (PList l) [K_list]) with true. cbn [py_not bind negb py_truthy].
    destruct u; [|reflexivity].
    cbn [py_unique_list py_seq_items bind py_len]. unfold py_lt, zint, lenZ'. cbn [as_num].
    rewrite num_ltb_int, uniq_test. destruct (py_unique l); reflexivity.
  Qed.

  Lemma generated_verify_deque : forall u v,
      verify_type_and_uniqueness_deque re_match no_self v (PBool u) =
      match v with PDeque l => uniq_check u l | _ => Raise TypeError end.
  Proof.
    intros u v. unfold verify_type_and_uniqueness_deque, uniq_check.
    destruct v; try reflexivity.
    change (py_isinstance (PDeque l) [K_deque]) with true. cbn [py_not bind negb py_truthy].
    destruct u; [|reflexivity].
    cbn [py_unique_list py_seq_items bind py_len]. unfold py_lt, zint, lenZ'. cbn [as_num].
    rewrite num_ltb_int, uniq_test. destruct (py_unique l); reflexivity.
  Qed.

  Lemma generated_verify_tuple : forall u v,
      verify_type_and_uniqueness_tuple re_match no_self v (PBool u) =
      match v with PTuple l => uniq_check u l | _ => Raise TypeError end.
  Proof.
    intros u v. unfold verify_type_and_uniqueness_tuple, uniq_check.
    destruct v; try reflexivity.
    change (py_isinstance (PTuple l) [K_tuple]) with true. cbn [py_not bind negb py_truthy].
    destruct u; [|reflexivity].
    cbn [py_unique_list py_seq_items bind py_len]. unfold py_lt, zint, lenZ'. cbn [as_num].
    rewrite num_ltb_int, uniq_test. destruct (py_unique l); reflexivity.
  Qed.

  (* ---------------------------------------------------------------- positional length tests *)
  Definition pos_len_bad {A} (items : list A) (additional : option bool) (l : list pyval) : bool :=
    (lenZ l <? lenZ items) || (match additional with Some false => lenZ items <? lenZ l | _ => false end).

  Lemma generated_array_positional : forall (items : list field) additional l,
      Array_positional_len_bad re_match (pos_self items additional) (PList l) = Ok (pos_len_bad items additional l).
  Proof.
    intros items additional l. unfold Array_positional_len_bad, pos_len_bad.
    change (pos_self items additional (s2p "items")) with (PList (map (fun _ : field => PNone) items)).
    change (pos_self items additional (s2p "additionalItems")) with (match additional with Some b => PBool b | None => PNone end).
    cbn [py_len bind py_or]. unfold py_gt, py_lt, zint, lenZ', lenZ. cbn [as_num]. rewrite map_length, !num_ltb_int.
    cbn [bind]. destruct (Z.of_nat (length l) <? Z.of_nat (length items)); cbn [orb]; [reflexivity|].
    destruct additional as [[|]|]; reflexivity.
  Qed.

  Lemma generated_deque_positional : forall (items : list field) additional l,
      Deque_positional_len_bad re_match (pos_self items additional) (PDeque l) = Ok (pos_len_bad items additional l).
  Proof.
    intros items additional l. unfold Deque_positional_len_bad, pos_len_bad.
    change (pos_self items additional (s2p "items")) with (PList (map (fun _ : field => PNone) items)).
    change (pos_self items additional (s2p "additionalItems")) with (match additional with Some b => PBool b | None => PNone end).
    cbn [py_len bind py_or]. unfold py_gt, py_lt, zint, lenZ', lenZ. cbn [as_num]. rewrite map_length, !num_ltb_int.
    cbn [bind]. destruct (Z.of_nat (length l) <? Z.of_nat (length items)); cbn [orb]; [reflexivity|].
    destruct additional as [[|]|]; reflexivity.
  Qed.

  Lemma generated_tuple_len : forall (items : list field) l,
      Tuple_len_bad re_match (pos_self items None) (PTuple l) =
      Ok (negb (lenZ items =? lenZ l) && (1 <? lenZ items)).
  Proof.
    intros items l. unfold Tuple_len_bad.
    change (pos_self items None (s2p "items")) with (PList (map (fun _ : field => PNone) items)).
    cbn [py_len bind py_and]. unfold py_ne, py_gt, py_lt, zint, lenZ', lenZ. cbn [as_num py_eq].
    rewrite map_length, num_ltb_int.
    assert (Heq : num_eqb (NInt (Z.of_nat (length items))) (NInt (Z.of_nat (length l))) =
                  (Z.of_nat (length items) =? Z.of_nat (length l))).
    { unfold num_eqb, Qeq_bool. cbn [num_to_Q Qnum Qden]. rewrite !Z.mul_1_r.
      destruct (Z.eqb_spec (Z.of_nat (length items)) (Z.of_nat (length l))) as [E|E].
      - rewrite E. apply Zeq_is_eq_bool. reflexivity.
      - destruct (Zeq_bool _ _) eqn:Hz; [apply Zeq_bool_eq in Hz; contradiction | reflexivity]. }
    rewrite Heq. cbn [bind]. destruct (Z.of_nat (length items) =? Z.of_nat (length l)); reflexivity.
  Qed.

  (* Sized.__set__ (maxlen): not part of the field AST; characterised directly *)
  Lemma generated_sized : forall maxlen s,
      Sized__set re_match (sized_self maxlen) (PStr s) =
      if maxlen <? lenZ s then Raise ValueError else Ok (PStr s).
  Proof.
    intros maxlen s. unfold Sized__set.
    change (sized_self maxlen (s2p "maxlen")) with (zint maxlen).
    cbn [py_len bind]. unfold py_gt, py_lt, zint. cbn [as_num]. rewrite num_ltb_int. change (lenZ' s) with (lenZ s).
    cbn [bind]. destruct (maxlen <? lenZ s); reflexivity.
  Qed.
End Bridge.
