(* Case type and comparison functions evaluated by the C17 correspondence harness. *)
From Coq Require Import ZArith NArith String List. Import ListNotations.
From TP Require Export Base.PyVal Base.PyEq Ser.Versioned.
Definition case := (dict * list mapping * res pyval)%type.
Definition model (c : case) : res pyval :=
  let '(d, maps, obs) := c in
  match convert_dict std_fn d maps with Ok r => Ok (PDict r) | Raise e => Raise e end.
Definition unmodelled (c : case) : bool :=
  match model c with Raise Unmodelled => true | _ => false end.
(* the statement's domain: the document carries an int version >= 1 *)
Definition in_domain (c : case) : bool :=
  let '(d, maps, obs) := c in
  match dict_get d version_key with Some (PNum (NInt z)) => Z.leb 1 z | _ => false end.
Definition mismatch (c : case) : bool :=
  let '(d, maps, obs) := c in
  in_domain c && negb (unmodelled c) && negb (res_val_eqb_weak (model c) obs).
