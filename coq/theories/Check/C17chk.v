(* Case types and comparison functions evaluated by the C17 correspondence harness.  The model is
   instantiated at the facts re-read from the source on this run (Gen/VersionedShape.v). *)
From Coq Require Import ZArith NArith String List. Import ListNotations.
From TP Require Export Base.PyVal Base.PyEq Ser.Versioned Ser.VersionedDeser Gen.VersionedShape.

(* the integer literals of convert_dict as the source has them now (the pinned ones when the recogniser
   does not know the shape: the bridging lemma gen_cd_params_ok fails in that case anyway) *)
Definition chk_params : cd_params := if gen_cd_recognised then gen_cd_params else std_cd_params.

(* ---- stream convert_dict *)
Definition case := (dict * list mapping * res pyval)%type.
Definition model (c : case) : res pyval :=
  let '(d, maps, obs) := c in
  match convert_dict std_fn chk_params d maps with Ok r => Ok (PDict r) | Raise e => Raise e end.
Definition unmodelled (c : case) : bool :=
  match model c with Raise Unmodelled => true | _ => false end.
(* the statement's domain: the document carries an int version >= 1 *)
Definition doc_in_domain (d : dict) : bool :=
  match dict_get d version_key with Some (PNum (NInt z)) => Z.leb 1 z | _ => false end.
Definition in_domain (c : case) : bool := let '(d, maps, obs) := c in doc_in_domain d.
Definition mismatch (c : case) : bool :=
  let '(d, maps, obs) := c in
  in_domain c && negb (unmodelled c) && negb (res_val_eqb_weak (model c) obs).

(* ---- stream deser-state: public state of the instance deserialize_structure_internal builds for a Versioned
   class with Anything fields, through Deserializer.deserialize / deserialize_structure *)
Definition dcase := (entry * vclass * dopts * dict * list mapping * res pyval)%type.
Definition state_attrs (st : dict) : list (pystr * pyval) :=
  map (fun kv => match fst kv with PStr s => (s, snd kv) | _ => (s2p "<non-str key>", snd kv) end) st.
Definition dmodel (c : dcase) : res pyval :=
  let '(e, cl, o, d, maps, obs) := c in
  match deser_internal std_fn chk_params gen_prelude gen_deser_sites gen_init_shape e cl o maps d with
  | Ok st => Ok (PStruct (s2p "V") (state_attrs st))
  | Raise ex => Raise ex
  end.
Definition dunmodelled (c : dcase) : bool := match dmodel c with Raise Unmodelled => true | _ => false end.
Definition dmismatch (c : dcase) : bool :=
  let '(e, cl, o, d, maps, obs) := c in
  doc_in_domain d && negb (dunmodelled c) && negb (res_val_eqb_weak (dmodel c) obs).
