(* Case types and boolean functions the C02 harness evaluates for its two further streams: Enum fields over
   mix-in enum classes (Fields/EnumMixin.v) and fields over arbitrary classes (Fields/ClassField.v, with the
   registry key generated from the current source, Gen/RegistryKey.v). *)
From Coq Require Import ZArith NArith String List Bool. Import ListNotations.
From TP Require Export Base.PyVal Base.PyEq Fields.EnumMixin Fields.ClassField Gen.RegistryKey.

(* ------------------------------------------------------------------ enum mix-in *)
Record xcase := { xc_cls : ecls; xc_decl : list (pystr * pyval); xc_value : xval; xc_obs : res xval }.

Definition xobs_agree (d : option xval) (o : res xval) : bool :=
  match d, o with
  | Some nf, Ok y => xval_eqb nf y
  | None, Raise e => is_te_ve e
  | _, _ => false
  end.

(* C02 on observed behaviour: accepted exactly when documented, stored as the member, rejections TE/VE *)
Definition xspec_fail (c : xcase) : bool :=
  negb (xobs_agree (mx_doc (xc_cls c) (xc_decl c) (xc_value c)) (xc_obs c)).

Definition xres_equiv (a b : res xval) : bool :=
  match a, b with
  | Ok x, Ok y => xval_eqb x y
  | Raise e, Raise e' => exn_equiv e e'
  | _, _ => false
  end.

(* correspondence: the code-shaped model predicts the observed outcome *)
Definition xmismatch (c : xcase) : bool :=
  negb (xres_equiv (mx_set (xc_cls c) (xc_decl c) (xc_value c)) (xc_obs c)).

(* the domain of C02_enum_mixin_agree: every candidate, every declared subset of the class' members (before the
   repair of Enum._validate it excluded the candidates confused by ==, [mx_safe]) *)
Definition xsafe (c : xcase) : bool := is_cand (xc_value c) && decl_in_class (xc_cls c) (xc_decl c).

(* ------------------------------------------------------------------ arbitrary classes *)
Record ccase := { cc_hist : list pycls; cc_cls : pycls; cc_value : cval; cc_obs : res cval }.

Definition cobs_agree (d : option cval) (o : res cval) : bool :=
  match d, o with
  | Some nf, Ok y => cval_eqb nf y
  | None, Raise e => is_te_ve e
  | _, _ => false
  end.

Definition cspec_fail (c : ccase) : bool := negb (cobs_agree (cf_doc (cc_cls c) (cc_value c)) (cc_obs c)).

Definition cres_equiv (a b : res cval) : bool :=
  match a, b with
  | Ok x, Ok y => cval_eqb x y
  | Raise e, Raise e' => exn_equiv e e'
  | _, _ => false
  end.

Definition cmismatch (c : ccase) : bool :=
  negb (cres_equiv (cf_set registry_key (cc_hist c) (cc_cls c) (cc_value c)) (cc_obs c)).

Definition csafe (c : ccase) : bool := rk_safe registry_key (cc_cls c :: cc_hist c).
