(* C20, class level: the decidable safety of a class given by the table indices of its fields' validators
   (evaluated by the harness for every class profile). *)
From Coq Require Import List Arith Bool String. Import ListNotations.
From TP Require Export Global.Threads Global.SharedName Global.Compose Global.ClassModel Gen.SharedAccess.

Definition class_safe_of (idx : list nat) : bool := class_safe_b (class_of shared_access idx).
Definition class_steps_of (idx : list nat) : list nat :=
  map (@List.length action) (class_threads (class_of shared_access idx)).
