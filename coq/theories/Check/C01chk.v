(* Case type and boolean functions the C01 harness evaluates (one case = one step of a chain of
   entry points, run on the real implementation; [sc_cur] is the OBSERVED instance the step was
   applied to, [sc_obs] the observed outcome). *)
From Coq Require Import ZArith NArith String List Bool. Import ListNotations.
From TP Require Export Base.PyVal Base.PyEq Fields.FieldAst Fields.SetChain Fields.Doc Fields.Domain
  Struct.Shapes Struct.Instance Struct.Entry Check.Fieldchk Struct.EntrySites Gen.EntrySites.

Record scase := {
  sc_tbl : table;            (* re.match oracle for the strings/patterns of this case *)
  sc_env : env;
  sc_cur : pyval;            (* observed current instance (PNone before the first step) *)
  sc_entry : entry;
  sc_cmp : bool;             (* compare the model's outcome with the observed one (false: the keyword
                                arguments the entry point hands to the constructor are not modelled) *)
  sc_obs : res pyval }.

Definition sre (c : scase) := tbl_match (sc_tbl c).

Definition smodel (c : scase) : res pyval := run_entry (sre c) (sc_env c) (sc_cur c) (sc_entry c).

Definition sunmodelled (c : scase) : bool :=
  match smodel c with Raise Unmodelled => true | _ => false end.

Fixpoint val_nonfinite (v : pyval) : bool :=
  has_nonfinite v ||
  match v with
  | PStruct _ a => existsb (fun p => val_nonfinite (snd p)) a
  | PList l | PTuple l | PDeque l | PSet _ l => existsb val_nonfinite l
  | PDict kv => existsb (fun p => val_nonfinite (fst p) || val_nonfinite (snd p)) kv
  | _ => false
  end.

Definition entry_values (en : entry) : list pyval :=
  match en with
  | ECtor _ kw | EDeser _ kw | EClone kw | EFromOther _ kw | EWrap _ _ kw => map snd kw
  | EFromMapping _ s o => map snd s ++ map snd o
  | _ => []
  end.

Definition snonfinite (c : scase) : bool :=
  val_nonfinite (sc_cur c) || existsb val_nonfinite (entry_values (sc_entry c)).

Definition saccepted (c : scase) : bool := match sc_obs c with Ok _ => true | _ => false end.

(* copy / deepcopy / pickle raised: no instance is yielded, C01 says nothing (the coherence of
   copies is C11's subject); counted separately *)
Definition scopy_raised (c : scase) : bool :=
  match entry_plan (sc_env c) (sc_cur c) (sc_entry c) with
  | PValue _ => negb (saccepted c)
  | _ => false
  end.

(* Comparison of the model's instance with the observed one.  Copies made by Structure.__deepcopy__
   (copy.deepcopy itself, and the defensive copies an immutable structure makes of nested
   structures) are compared up to Python equality: they are equality- but not type-preserving
   (an AnyOf whose first option is a Float turns a stored 6 into 6.0; see the deepcopy finding).
   Everything the constructor stores itself is compared exactly (normal forms matter there). *)
Fixpoint has_struct (v : pyval) : bool :=
  match v with
  | PStruct _ _ => true
  | PList l | PTuple l | PDeque l | PSet _ l => existsb has_struct l
  | PDict kv => existsb (fun p => has_struct (fst p) || has_struct (snd p)) kv
  | _ => false
  end.

Definition attr_equiv (x y : pyval) : bool := pyval_eqb x y || (has_struct x && py_eq x y).

Definition inst_equiv (x y : pyval) : bool :=
  match x, y with
  | PStruct c a, PStruct c' a' =>
      pystr_eqb c c' && Nat.eqb (length a) (length a') &&
      forallb (fun p => match alist_get a' (fst p) with
                        | Some v' => attr_equiv (snd p) v'
                        | None => false
                        end) a
  | _, _ => pyval_eqb x y
  end.

Definition sis_copy (c : scase) : bool :=
  match entry_plan (sc_env c) (sc_cur c) (sc_entry c) with PValue _ => true | _ => false end.

Definition sres_equiv (c : scase) (m o : res pyval) : bool :=
  match m, o with
  | Ok x, Ok y => if sis_copy c then py_eq x y && py_eq y x else inst_equiv x y
  | Raise e1, Raise e2 => exn_equiv e1 e2
  | _, _ => false
  end.


(* SPEC (independent of vset): the observed instance is valid for its class, and so is every
   instance nested in it *)
Definition valid_obs (c : scase) (v : pyval) : bool :=
  inst_ok (sre c) (sc_env c) v && deep_valid (sre c) (sc_env c) v.

Definition sspec_fail (c : scase) : bool :=
  match sc_obs c with
  | Ok v => negb (valid_obs c v)
  | Raise _ => false
  end.

(* the statement's domain, with and without the [stable] clause of the theorem *)
Definition arg_dom (c : classdef) (p : pystr * pyval) : bool :=
  match find_field (c_fields c) (fst p) with
  | Some fd => dom (fd_field fd) (snd p)
  | None => true
  end.

Definition plan_dom (pl : plan) : bool :=
  match pl with
  | PConstruct c kw =>
      forallb (arg_dom c) kw &&
      forallb (fun fd => match fd_default fd with Some d => arg_dom c (fd_name fd, d) | None => true end) (c_fields c)
  | _ => true
  end.

Definition cur_valid (c : scase) : bool :=
  match sc_cur c with
  | PStruct _ _ => valid_obs c (sc_cur c)
  | _ => true
  end.

(* What the theorems ask of the inputs: a COPY needs a valid current instance (C01_entry_sound); an entry
   point that funnels into the constructor re-validates every value it takes from the current instance,
   so only the Structure instances nested in the keyword arguments have to be valid (C01_chain_deep_sound:
   class references are checked by isinstance only).  In particular an instance that has gone ill-typed
   since it was built - an unwrapped inner container altered in place - must still be REJECTED by
   shallow_clone_with_overrides / cast_to / from_other_class / Cls(f=x.f): such steps are in the domain. *)
Definition plan_inputs_ok (c : scase) (pl : plan) : bool :=
  match pl with
  | PConstruct _ kw => vals_deep (sre c) (sc_env c) kw
  | PValue _ => cur_valid c
  | PRaise _ => true
  end.

Definition sin_dom (c : scase) : bool :=
  negb (snonfinite c) && plan_inputs_ok c (entry_plan (sc_env c) (sc_cur c) (sc_entry c)) &&
  plan_dom (entry_plan (sc_env c) (sc_cur c) (sc_entry c)).

(* the hypotheses of C01_entry_sound hold *)
Definition sin_thm_dom (c : scase) : bool :=
  sin_dom c && entry_dom (sre c) (sc_env c) (sc_cur c) (sc_entry c).

(* Known limit of the model: ImmutableSet.__set__ hands the CONVERTED frozenset to Set.__set__, which
   validates its size a second time; [vset] checks the size of the supplied set only.  The two can
   differ only where the [stable] clause fails, and only in the direction "typedpy rejects what the
   model accepts" (the safe one for C01).  Such steps are counted, not compared.
   The [stable] clause is looked at on its own (whether or not the other arguments are in the statement's
   domain: a bool offered to a numeric option next to such a set must not turn the step into a mismatch). *)
Definition arg_stable (c : scase) (cd : classdef) (p : pystr * pyval) : bool :=
  match find_field (c_fields cd) (fst p) with
  | Some fd => stable (sre c) (sc_env c) (fd_field fd) (snd p)
  | None => true
  end.

Definition plan_stable (c : scase) (pl : plan) : bool :=
  match pl with
  | PConstruct cd kw =>
      forallb (arg_stable c cd) kw &&
      forallb (fun fd => match fd_default fd with Some d => arg_stable c cd (fd_name fd, d) | None => true end) (c_fields cd)
  | _ => true
  end.

Definition sstricter (c : scase) : bool :=
  negb (plan_stable c (entry_plan (sc_env c) (sc_cur c) (sc_entry c))) && negb (snonfinite c) &&
  match smodel c, sc_obs c with
  | Ok _, Raise x => is_te_ve x
  | _, _ => false
  end.

(* correspondence: the model of the entry point predicts the observed outcome *)
Definition smismatch (c : scase) : bool :=
  sc_cmp c && negb (sunmodelled c) && negb (snonfinite c) && negb (scopy_raised c) &&
  negb (sstricter c) &&
  negb (sres_equiv c (smodel c) (sc_obs c)).

(* a concrete violation: in the domain, accepted, and the result is not valid *)
Definition sviolation (c : scase) : bool := sin_dom c && sspec_fail c.
(* ... of which those where only the [stable] clause fails are the normalised-collision defect *)
Definition sunstable (c : scase) : bool := sviolation c && negb (sin_thm_dom c).

(* Localisation of a violation (used only to NAME it): positions, in the observed instance's
   attribute list, of the attributes that do not conform to their declaration / are undeclared in a
   closed class.  Empty for a failure of _required, of the hook, or of a nested instance. *)
Definition sbad_attrs (c : scase) : list nat :=
  match sc_obs c with
  | Ok (PStruct cn a) =>
      match find_class (sc_env c) cn with
      | Some cd =>
          indices_where (fun p => match find_field (c_fields cd) (fst p) with
                                  | Some fd => negb (conf (sre c) (sc_env c) (fd_field fd) (snd p))
                                  | None => negb (c_additional cd)
                                  end) a 0
      | None => []
      end
  | _ => []
  end.

(* The rows of today's entry-site table (Gen/EntrySites.v) that are not safe, by witness kind
   (0 deser, 1 from_other(instance), 2 from_other(mapping), 3 clone, 4 cast_to, 5 copy, 6 deepcopy,
   7 pickle): printed by the check; empty on a tree for which Props/C01.v builds. *)
Definition all_site_kinds : list site_kind :=
  [KDeser; KFromOther; KFromMapping; KClone; KCast; KCopy; KDeepCopy; KPickle].
Definition unsafe_site_kinds : list nat :=
  indices_where (fun k => negb (entry_site_ok entry_sites default_unpickle (wit_entry k))) all_site_kinds 0.

(* All eight verdicts of a case in ONE evaluation (the harness used to evaluate eight separate
   [indices_where] passes, each re-running the model and the spec): same definitions, shared
   sub-results.  Order: smismatch, sviolation, sunstable, sin_dom, sin_thm_dom, sunmodelled,
   scopy_raised, sstricter (Check/C01chkProofs.v: sflags_spec). *)
Definition sflags (c : scase) : list bool :=
  let m := smodel c in
  let plan := entry_plan (sc_env c) (sc_cur c) (sc_entry c) in
  let unm := match m with Raise Unmodelled => true | _ => false end in
  let nonfin := snonfinite c in
  let copyraised := match plan with PValue _ => negb (saccepted c) | _ => false end in
  let dom := negb nonfin && plan_inputs_ok c plan && plan_dom plan in
  let thm := dom && entry_dom (sre c) (sc_env c) (sc_cur c) (sc_entry c) in
  let stricter := negb (plan_stable c plan) && negb nonfin &&
                  match m, sc_obs c with Ok _, Raise x => is_te_ve x | _, _ => false end in
  let viol := dom && sspec_fail c in
  let mism := sc_cmp c && negb unm && negb nonfin && negb copyraised && negb stricter &&
              negb (sres_equiv c m (sc_obs c)) in
  [mism; viol; viol && negb thm; dom; thm; unm; copyraised; stricter].

(* ---- deserialization with its real pre-processing (Ser/Deserialize.v, Ser/DeserEntry.v): one case =
   Deserializer(cls).deserialize(doc) [dc_ku = None] or deserialize_structure(cls, doc) [Some true] on a
   JSON-shaped document, with the observed outcome *)
From TP Require Export Ser.Json Ser.Serialize Ser.Deserialize Ser.DeserEntry.

Record dcase := { dc_tbl : table; dc_env : env; dc_ens : enums; dc_flags : dflags; dc_ku : option bool;
                  dc_cls : pystr; dc_doc : pyval; dc_obs : res pyval }.

Definition DFUEL : nat := 8.

Definition dmodel (c : dcase) : res pyval :=
  deserialize (tbl_match (dc_tbl c)) (dc_env c) (dc_ens c) (dc_flags c) DFUEL (dc_ku c) (dc_cls c) (dc_doc c).

Definition ddeclines (c : dcase) : bool := match dmodel c with Raise x => model_exn x | _ => false end.

(* hypothesis of C01_deserialize_sound *)
Definition ddom (c : dcase) : bool :=
  match find_class (dc_env c) (dc_cls c) with
  | Some cd => deser_dom (tbl_match (dc_tbl c)) (dc_env c) (dc_ens c) (dc_flags c) (pred DFUEL)
                         (adjust_keep_undefined cd (dc_ku c)) (dc_cls c) (dc_doc c)
  | None => false
  end.

Definition dres_equiv (m o : res pyval) : bool :=
  match m, o with
  | Ok x, Ok y => inst_equiv x y
  | Raise e1, Raise e2 => exn_equiv e1 e2
  | _, _ => false
  end.

(* verdicts: model and typedpy differ; hypothesis of the theorem holds; model declines;
   the theorem's conclusion fails of the MODEL's own result (never, by C01_deserialize_sound) *)
Definition dflags_of (c : dcase) : list bool :=
  let m := dmodel c in
  let decl := match m with Raise x => model_exn x | _ => false end in
  let d := ddom c in
  [ negb decl && negb (val_nonfinite (dc_doc c)) && negb (dres_equiv m (dc_obs c));
    d; decl;
    d && match m with Ok x => negb (inst_ok (tbl_match (dc_tbl c)) (dc_env c) x) | Raise _ => false end ].

(* ---- default factories: a field declared with `default=<callable>` gets, at every construction, the value
   the callable returns THEN.  The harness fixes that value per chain; the class environment of a case is
   env0 with the default of the named (class, field) pairs replaced by it. *)
From TP Require Export Struct.Defaults.
Definition set_default (ov : pystr * pystr * pyval) (c : classdef) : classdef :=
  let '(cn, fn, d) := ov in
  if pystr_eqb (c_name c) cn then with_default c fn d else c.

Definition override_defaults (e : env) (ovs : list (pystr * pystr * pyval)) : env :=
  fold_left (fun e' ov => map (set_default ov) e') ovs e.
