(* Correspondence cases of C10, fast clause over histories: the state machine of Ser/FastState.v run on
   the schedule typedpy executed, its outputs compared with what typedpy returned op by op. *)
From Coq Require Import ZArith NArith String List Bool.
Import ListNotations.
From TP Require Export Check.C10chk Ser.FastState.

Record hcase := {
  hc_env : tenv;                                   (* flattened declarations of the family *)
  hc_parents : list (pystr * pystr);               (* child -> parent *)
  hc_sser : otable; hc_oser : otable; hc_ofast : otable;
  hc_ops : list hop;
  hc_outs : list (res pyval);                      (* observed, one per op: None / the document / the exception *)
  hc_regs : list (bool * pystr * pyval * res pyval) }.   (* compact, class, twin instance, observed regular document *)

Definition hm_outs (c : hcase) : list (res pyval) :=
  snd (run_ops (tbl_lookup (hc_sser c)) (tbl_lookup (hc_ofast c)) (hc_env c) (hc_parents c) st0 (hc_ops c)).

Definition hm_reg (c : hcase) (r : bool * pystr * pyval * res pyval) : res pyval :=
  match r with
  | (compact, cn, v, _) =>
      ser_top any_re (tbl_lookup (hc_sser c)) (tbl_lookup (hc_oser c)) (hc_env c) FUEL compact cn v
  end.

Fixpoint differs2 (m o : list (res pyval)) : bool :=
  match m, o with
  | [], [] => false
  | x :: m', y :: o' => differs x y || differs2 m' o'
  | _, _ => true
  end.

(* the model declines somewhere: the states after that point are not comparable either *)
Definition h_undecided (c : hcase) : bool :=
  existsb undecided (hm_outs c) || existsb (fun r => undecided (hm_reg c r)) (hc_regs c).
Definition h_out_mismatch (c : hcase) : bool :=
  negb (existsb undecided (hm_outs c)) && differs2 (hm_outs c) (hc_outs c).
Definition h_reg_mismatch (c : hcase) : bool :=
  existsb (fun r => differs (hm_reg c r) (snd r)) (hc_regs c).
