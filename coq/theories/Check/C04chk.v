(* Case types and comparison functions evaluated by the C04 correspondence harness. *)
From Coq Require Import ZArith NArith String List Bool. Import ListNotations.
From TP Require Export Base.PyVal Base.PyEq Struct.Shapes Struct.Handles Struct.HandlesToday.

(* class context: (ImmutableStructure?, field immutable?) and the field's declaration *)
Definition shape := (bool * bool * decl)%type.
Definition cfg_of (s : shape) : cfg := let '(si, fi, _) := s in today si fi.
Definition world0 (s : shape) : world := let '(_, _, d) := s in world_of (cfg_of s) d.

(* an accessor path: (index into the name table, child index) per step, after the initial read *)
Definition apath := list (nat * nat).

Fixpoint acc_ops (names : list pystr) (p : apath) (h : nat) : list op :=
  match p with
  | [] => []
  | (a, i) :: t => OAcc h (nth a names []) i :: acc_ops names t (S h)
  end.

Definition ops_of (names : list pystr) (p : apath) : list op := ORead :: acc_ops names p 0.

(* observed / predicted result of an accessor path *)
Inductive aobs := ObsNone | ObsDetached | ObsRef (p : path).

(* predicted vs observed.  An accessor call that yields no contained object on the implementation
   (raises, or returns something from which the element cannot be reached — e.g. deque.__mul__ on a
   subclass with a different constructor) hands out nothing: compatible with any prediction. *)
Definition aobs_eqb (a b : aobs) : bool :=
  match a, b with
  | _, ObsNone => true
  | ObsDetached, ObsDetached => true
  | ObsRef p, ObsRef q => path_eqb p q
  | _, _ => false
  end.

Definition predict_acc (names : list pystr) (s : shape) (p : apath) : aobs :=
  let '(w, r) := run_last (cfg_of s) (ops_of names p) (world0 s) Done in
  match r with
  | Raised => ObsNone
  | Done =>
      match last (w_handles w) Detached with
      | Detached => ObsDetached
      | Guarded q | Live q => ObsRef q
      end
  end.

(* 0 = raised, state unchanged; 1 = returned, state unchanged; 2 = state changed *)
Fixpoint obj_eqb (a b : obj) {struct a} : bool :=
  match a, b with
  | Atom x, Atom y => Z.eqb x y
  | Box k w es, Box k' w' es' =>
      okind_eqb k k'
      && (fix all (l l' : list obj) : bool :=
            match l, l' with
            | [], [] => true
            | x :: t, y :: t' => obj_eqb x y && all t t'
            | _, _ => false
            end) es es'
  | _, _ => false
  end.

Definition state_eqb (a b : option obj) : bool :=
  match a, b with
  | None, None => true
  | Some x, Some y => obj_eqb x y
  | _, _ => false
  end.

Definition marker : list obj := [Atom 424242].

Definition code_of (s : shape) (ops : list op) : nat :=
  let '(w, r) := run_last (cfg_of s) ops (world0 s) Done in
  if negb (state_eqb (abs w) (abs (world0 s))) then 2
  else match r with Raised => 0 | Done => 1 end.

Definition predict_mut (anames mnames : list pystr) (s : shape) (p : apath) (m : nat) : nat :=
  code_of s (ops_of anames p ++ [OMut (length p) (nth m mnames []) marker]).

(* one case = one class shape with all the probes made on it *)
Record case := {
  k_shape : shape;
  k_acc : list (apath * aobs);            (* accessor stream *)
  k_mut : list (apath * nat * nat);       (* mutator stream: path, mutator index, observed code *)
  k_ops : list (list op * nat);           (* instance-level operations, observed code *)
  k_ctor : bool                           (* mutating the constructor arguments changed the instance *)
}.

Section with_names.
  Variables anames mnames : list pystr.

  Definition acc_mismatches (c : case) : nat :=
    length (filter (fun pr => negb (aobs_eqb (predict_acc anames (k_shape c) (fst pr)) (snd pr))) (k_acc c)).
  Definition mut_mismatches (c : case) : nat :=
    length (filter (fun t => let '(p, m, o) := t in negb (Nat.eqb (predict_mut anames mnames (k_shape c) p m) o)) (k_mut c)).
  Definition ops_mismatches (c : case) : nat :=
    length (filter (fun t => negb (Nat.eqb (code_of (k_shape c) (fst t)) (snd t))) (k_ops c)).
  Definition ctor_mismatch (c : case) : bool :=
    let '(_, _, d) := k_shape c in
    negb (Bool.eqb (match ctor_alias (cfg_of (k_shape c)) d with [] => false | _ => true end) (k_ctor c)).

  Definition mismatch (c : case) : bool :=
    negb (Nat.eqb (acc_mismatches c) 0) || negb (Nat.eqb (mut_mismatches c) 0)
    || negb (Nat.eqb (ops_mismatches c) 0) || ctor_mismatch c.

  (* the first disagreeing probe of a case, for the report: (stream, index) *)
  Definition first_bad (c : case) : list (nat * nat) :=
    map (fun i => (0, i)) (firstn 1 (indices_where (fun pr => negb (aobs_eqb (predict_acc anames (k_shape c) (fst pr)) (snd pr))) (k_acc c) 0))
    ++ map (fun i => (1, i)) (firstn 1 (indices_where (fun t => let '(p, m, o) := t in negb (Nat.eqb (predict_mut anames mnames (k_shape c) p m) o)) (k_mut c) 0))
    ++ map (fun i => (2, i)) (firstn 1 (indices_where (fun t => negb (Nat.eqb (code_of (k_shape c) (fst t)) (snd t))) (k_ops c) 0))
    ++ (if ctor_mismatch c then [(3, 0)] else []).

  (* do the hypotheses of C04_invariant hold for this class shape (world_safe)?  and the model's verdict *)
  Definition shape_safe_today (c : case) : bool := world_safe (cfg_of (k_shape c)) (world0 (k_shape c)).
  Definition probes (c : case) : nat := length (k_acc c) + length (k_mut c) + length (k_ops c) + 1.
End with_names.

(* no-subclass stream *)
Definition sub_case := (list cls * bool)%type.
Definition sub_mismatch (c : sub_case) : bool :=
  negb (Bool.eqb (define_raises today_final (fst c)) (snd c)).
