(* Case type and boolean functions evaluated by the C03 correspondence harness.
   A case is one observed history on the real implementation: class, reified start state, and for every
   operation the observed outcome and the reified state after it.  The model is run step by step from the
   OBSERVED pre-state of each step (so one disagreement does not cascade). *)
From Coq Require Import ZArith NArith String List Bool. Import ListNotations.
From TP Require Export Check.Fieldchk Struct.Shapes Struct.Instance Struct.Mutate Gen.Tables Struct.WrapBody Gen.WrapBodies.

(* an operation as the harness performed it *)
Inductive hop :=
| HSet (n : pystr) (v : pyval)
| HDel (n : pystr)
| HWrap (n : pystr) (kind : N) (meth : pystr) (live : bool) (base : res pyval)
    (* kind: 0 list / 1 deque / 2 dict wrapper; the shape is looked up in the GENERATED table;
       live: the handle used is the wrapper object currently stored in the instance;
       base: what the base type's method did to a plain copy of the handle's content *)
| HOpaque.                                   (* an operation the model does not predict (nested wrappers, F5) *)

Record ostep := { o_op : hop; o_out : outcome; o_post : option attrs (* None: reified state unchanged *) }.

Record hcase := { h_tbl : table; h_class : classdef; h_init : attrs; h_steps : list ostep }.

(* the generated table of a wrapper kind (Gen/Tables.v: which mutators exist, which are overridden), every
   overridden entry re-classified IN COQ from the statement-by-statement translation of its body
   (Gen/WrapBodies.v, Struct/WrapBody.v [classify]); the stricter verdict wins *)
Definition raw_table_of (k : N) : mutator_table :=
  match k with 0%N => list_mutators | 1%N => deque_mutators | _ => dict_mutators end.

Definition bodies_of (k : N) : body_table :=
  match k with 0%N => list_bodies | 1%N => deque_bodies | _ => dict_bodies end.

Definition strict_list : mutator_table := Eval vm_compute in refine 0%N list_mutators list_bodies.
Definition strict_deque : mutator_table := Eval vm_compute in refine 1%N deque_mutators deque_bodies.
Definition strict_dict : mutator_table := Eval vm_compute in refine 2%N dict_mutators dict_bodies.

Definition table_of (k : N) : mutator_table :=
  match k with 0%N => strict_list | 1%N => strict_deque | _ => strict_dict end.

Definition lookup_shape (t : mutator_table) (m : pystr) : shape :=
  match alist_get t m with Some s => s | None => Unrecognised end.

Definition shape_of (k : N) (m : pystr) : shape := lookup_shape (table_of k) m.

Definition to_mop (h : hop) : option mop :=
  match h with
  | HSet n v => Some (SetAttr n v)
  | HDel n => Some (DelItem n)
  | HWrap n k m _ base => Some (WrapMut n (shape_of k m) base)
  | HOpaque => None
  end.

Section WithEnv.
  Variable e : env.

  (* the model's prediction for one step from state a; None = no prediction *)
  Definition model_step (tbl : table) (c : classdef) (a : attrs) (h : hop) : option (attrs * outcome) :=
    match h with
    | HOpaque => None
    | HWrap n k m false base =>
        (* a stale handle: copy-mutate-reassign still reassigns the instance's field (from the handle's own
           content); an in-place method only changes the detached handle *)
        match shape_of k m with
        | CopyMutateReassign _ => Some (mstep (tbl_match tbl) e c a (WrapMut n (shape_of k m) base))
        | GuardThenInPlace =>
            if c_immutable c || field_immutable c n then Some (a, Raised ValueError)
            else Some (a, match base with Ok _ => Done | Raise x => Raised x end)
        | _ => Some (a, match base with Ok _ => Done | Raise x => Raised x end)
        end
    | _ => match to_mop h with
           | Some op => Some (mstep (tbl_match tbl) e c a op)
           | None => None
           end
    end.

  Definition attrs_same (c : classdef) (a b : attrs) : bool :=
    pyval_eqb (PStruct (c_name c) a) (PStruct (c_name c) b).

  Definition outcome_equiv (x y : outcome) : bool :=
    match x, y with
    | Done, Done => true
    | Raised p, Raised q => exn_equiv p q
    | _, _ => false
    end.

  Definition attrs_nonfinite (a : attrs) : bool := existsb (fun p => has_nonfinite (snd p)) a.

  Definition hop_nonfinite (h : hop) : bool :=
    match h with
    | HSet _ v => has_nonfinite v
    | HWrap _ _ _ _ (Ok v) => has_nonfinite v
    | _ => false
    end.

  Definition post_of (pre : attrs) (s : ostep) : attrs :=
    match o_post s with Some p => p | None => pre end.

  (* correspondence of one step *)
  Definition step_mismatch (tbl : table) (c : classdef) (pre : attrs) (s : ostep) : bool :=
    match model_step tbl c pre (o_op s) with
    | None => false
    | Some (a', r) =>
        match r with
        | Raised Unmodelled | Raised OutOfFuel => false
        | _ =>
            negb (attrs_nonfinite pre || hop_nonfinite (o_op s)) &&
            negb (attrs_same c a' (post_of pre s) && outcome_equiv r (o_out s))
        end
    end.

  (* ---------------------------------------------------------------- the spec on observed behaviour *)

  Definition attr_ok_dom (tbl : table) (c : classdef) (p : pystr * pyval) : bool :=
    match find_field (c_fields c) (fst p) with
    | Some fd => negb (in_domain (fd_field fd) (snd p)) ||
                 is_some (docb (tbl_match tbl) e (fd_field fd) (snd p))
    | None => c_additional c
    end.

  (* valid per the declaration (values outside the stated domain of the documented rules are not judged) *)
  Definition state_ok_dom (tbl : table) (c : classdef) (a : attrs) : bool :=
    forallb (fun r => alist_has a r) (c_required c) &&
    forallb (attr_ok_dom tbl c) a &&
    negb (has_dup (map fst a)) &&
    hook_ok (c_hook c) a.

  Definition exn_is (x y : exn) : bool := exn_eqb x y.

  (* exception classes the statement allows: TypeError/ValueError for a rejected value, the container's
     usual IndexError/KeyError for a missing index/key (i.e. when the base type raises the same) *)
  Definition allowed_exn (h : hop) (x : exn) : bool :=
    is_te_ve x ||
    match h with
    | HDel _ => exn_is x KeyError
    | HWrap _ _ _ _ (Raise y) => (exn_is y IndexError || exn_is y KeyError) && exn_is x y
    | HOpaque => exn_is x IndexError || exn_is x KeyError
    | _ => false
    end.

  Definition step_spec_bad (tbl : table) (c : classdef) (pre : attrs) (s : ostep) : bool :=
    match o_out s with
    | Done => negb (state_ok_dom tbl c (post_of pre s))
    | Raised x => negb (attrs_same c pre (post_of pre s)) || negb (allowed_exn (o_op s) x)
    end.

  (* the step succeeded through validation (setattr, or copy-mutate-reassign) and what validation itself
     stored is not admitted by the declaration: a defect of the field's __set__ chain (C01's subject), not
     of the mutation path *)
  Definition step_nf_bad (tbl : table) (c : classdef) (pre : attrs) (s : ostep) : bool :=
    match o_out s, to_mop (o_op s) with
    | Done, Some op =>
        match (match op with
               | SetAttr n v => Some (n, v)
               | WrapMut n (CopyMutateReassign _) (Ok v) => Some (n, v)
               | _ => None
               end) with
        | Some (n, v) =>
            match find_field (c_fields c) n with
            | Some fd =>
                match vset (tbl_match tbl) e (fd_field fd) v with
                | Ok nf => negb (attr_ok_dom tbl c (n, nf))
                | Raise _ => false
                end
            | None => false
            end
        | None => false
        end
    | _, _ => false
    end.

  (* walk a history; result: 0 = nothing found, k+1 = first step (0-based k) where [bad] holds *)
  Fixpoint first_bad (bad : attrs -> ostep -> bool) (pre : attrs) (l : list ostep) (i : nat) : nat :=
    match l with
    | [] => 0
    | s :: t => if bad pre s then S i else first_bad bad (post_of pre s) t (S i)
    end.

  Definition hist_mismatch (h : hcase) : nat :=
    first_bad (step_mismatch (h_tbl h) (h_class h)) (h_init h) (h_steps h) 0.

  Definition hist_spec_bad (h : hcase) : nat :=
    first_bad (step_spec_bad (h_tbl h) (h_class h)) (h_init h) (h_steps h) 0.

  Definition hist_nf_bad (h : hcase) : nat :=
    first_bad (step_nf_bad (h_tbl h) (h_class h)) (h_init h) (h_steps h) 0.

  Definition start_valid (h : hcase) : bool := state_ok_dom (h_tbl h) (h_class h) (h_init h).

  (* do the hypotheses of C03_history hold for this history (all handles live, every step modelled)? *)
  Definition all_live (h : hcase) : bool :=
    forallb (fun s => match o_op s with HWrap _ _ _ false _ | HOpaque => false | _ => true end) (h_steps h).

  Definition mops_of (h : hcase) : list mop :=
    flat_map (fun s => match to_mop (o_op s) with Some op => [op] | None => [] end) (h_steps h).

  Definition hyps_hold (h : hcase) : bool :=
    all_live h && hook_wf (h_class h) &&
    struct_ok (tbl_match (h_tbl h)) e (h_class h) (h_init h) &&
    hist_safe (tbl_match (h_tbl h)) e (h_class h) (h_init h) (mops_of h).

  (* the part of the spec the theorem speaks about: the state after the step (not the exception class) *)
  Definition step_state_bad (tbl : table) (c : classdef) (pre : attrs) (s : ostep) : bool :=
    match o_out s with
    | Done => negb (state_ok_dom tbl c (post_of pre s))
    | Raised _ => negb (attrs_same c pre (post_of pre s))
    end.

  Definition hist_state_bad (h : hcase) : nat :=
    first_bad (step_state_bad (h_tbl h) (h_class h)) (h_init h) (h_steps h) 0.

  (* when they hold, the theorem predicts: every step good.  Evaluated on the OBSERVED trace this is a
     check of the theorem's conclusion against the implementation. *)
  Definition theorem_contradicted (h : hcase) : bool :=
    hyps_hold h && negb (Nat.eqb (hist_state_bad h) 0) && Nat.eqb (hist_mismatch h) 0.
End WithEnv.

(* indices (within each table) of the entries that are not safe NOW *)
Definition unsafe_idx (t : mutator_table) : list nat := indices_where (fun p => negb (shape_safe (snd p))) t 0.
