(* Case type and boolean functions the C11 harness evaluates (vm_compute) on OBJECT GRAPHS observed on the
   real typedpy: the graph of an instance and of its copy.copy / copy.deepcopy / pickle round trip, objects
   identified by id().  The objects reachable from the original come first (indices below hc_n0). *)
From Coq Require Import ZArith NArith String List Bool Arith. Import ListNotations.
From TP Require Export Base.PyVal Base.PyEq Struct.CopyHeap Struct.StatePolicy Gen.CopySites Check.C11chk.

Inductive hkind := HDeep | HPickle | HCopy.

Record hcase := {
  hc_kind : hkind;
  hc_heap : heap;          (* observed *)
  hc_n0 : nat;             (* the first hc_n0 objects are those reachable from the original *)
  hc_x : child;            (* the original *)
  hc_y : child }.          (* the observed copy *)

Definition HFUEL : nat := 14.

Definition h_old (c : hcase) : heap := firstn (hc_n0 c) (hc_heap c).

(* the hypotheses of C11_deepcopy_separated on the observed original *)
Definition h_dom (c : hcase) : bool :=
  closedb (hc_heap c) && closedb (h_old c) && imm_opaqueb (hc_heap c) &&
  child_okb (length (h_old c)) (hc_x c) && child_okb (length (hc_heap c)) (hc_y c).

(* the model's copy of the observed original, under the policy generated from the current source *)
Definition h_model (c : hcase) : option (heap * child) :=
  match hc_kind c with
  | HDeep => dc copy_sites HFUEL (h_old c) (hc_x c)
  | HPickle => pickle_heap HFUEL (h_old c) (hc_x c)
  | HCopy => if copy_is_dict_update then copy_shallow (h_old c) (hc_x c) else None
  end.

Definition subset_loc (a b : list loc) : bool := forallb (fun l => mem_loc l b) a.
Definition same_locs (a b : list loc) : bool := subset_loc a b && subset_loc b a.

Definition val_equiv (a b : pyval) : bool := py_eq a b && py_eq b a.

(* model and implementation disagree: on the value of the copy, or on WHICH mutable objects of the original
   the copy shares.  (The pickle round trip drops undeclared attributes: its value is
   compared by the value-level model, Check/C11chk.v; here only the sharing.) *)
Definition h_mismatch (c : hcase) : bool :=
  h_dom c &&
  match h_model c with
  | None => true
  | Some (hm, ym) =>
      (match hc_kind c with
       | HPickle => false
       | _ => negb (val_equiv (abs HFUEL hm ym) (abs HFUEL (hc_heap c) (hc_y c)))
       end) ||
      negb (same_locs (shared_mutable HFUEL hm (hc_x c) ym)
                      (shared_mutable HFUEL (hc_heap c) (hc_x c) (hc_y c)))
  end.

(* the spec clause on the OBSERVED graph: a deep copy / unpickled copy shares a mutable object with the
   original (sound by C11_separation_check_sound) *)
Definition h_spec_fail (c : hcase) : bool :=
  h_dom c &&
  match hc_kind c with
  | HCopy => false
  | _ => negb (separatedb HFUEL (hc_heap c) (hc_x c) (hc_y c))
  end.

(* the model predicts sharing of a mutable object *)
Definition h_predicted_shared (c : hcase) : bool :=
  h_dom c &&
  match h_model c with
  | Some (hm, ym) => negb (separatedb HFUEL hm (hc_x c) ym)
  | None => false
  end.

(* facts about the generated policy *)
Definition policy_is_safe : bool := policy_safe copy_sites.
Definition policy_unsafe_types : list tyname :=
  unsafe_types_of (cp_attr copy_sites) ++ unsafe_types_of (cp_wlist copy_sites) ++
  unsafe_types_of (cp_wdeque copy_sites) ++ unsafe_types_of (cp_wdict copy_sites).
Definition policy_readable : bool :=
  match cp_attr copy_sites, cp_wlist copy_sites, cp_wdeque copy_sites, cp_wdict copy_sites with
  | UnknownPol, _, _, _ | _, UnknownPol, _, _ | _, _, UnknownPol, _ | _, _, _, UnknownPol => false
  | _, _, _, _ => true
  end.

(* ------------------------------------------------------------------ value-level copies, pickle under the generated policy *)

(* as Check/C11chk.c_mismatch, with the pickle round trip computed from the __getstate__ policy read from
   the current source *)
Definition c_model_gen (c : ccase) : option inst :=
  match cc_kind c with
  | KPickle => pickle_rt_pol state_sites (cc_cls c) (cc_x c)
  | _ => Some (c_model c)
  end.

Definition c_mismatch_gen (c : ccase) : bool :=
  match c_model_gen c with
  | Some y => negb (inst_eqb y (cc_obs c))
  | None => true
  end.

Definition state_policy_is_safe : bool := state_policy_safe state_sites.
