(* Case type and boolean functions evaluated by the C07 harness (correspondence of Ser/Mappers.v
   with typedpy, and the statement's clauses on the implementation's observed behaviour). *)
From Coq Require Import ZArith NArith Bool List. Import ListNotations.
From TP Require Export Base.PyVal Base.PyEq Ser.Mappers.

(* what the implementation was observed to do, for one value of camel_case_convert *)
Record obs := Obs {
  o_ser_agg : res amap;          (* aggregate_serialization_mappers(cls, override, flag) *)
  o_des_agg : res amap;          (* aggregate_deserialization_mappers(cls, override, flag) *)
  o_doc : res dval;              (* Serializer(x, mapper=override).serialize(camel_case_convert=flag) *)
  o_back : res (list (pystr * ival)) (* fields of Deserializer(cls, mapper=override, camel..=flag).deserialize(doc) *)
}.

Record case := Case {
  c_h : hclass;
  c_override : option amap;
  c_x : list (pystr * ival);
  c_plain : obs;      (* camel_case_convert = False *)
  c_camel : obs       (* camel_case_convert = True *)
}.

Definition sel (flag : bool) (c : case) : obs := if flag then c_camel c else c_plain c.

(* ---------------------------------------------------------------- equalities *)

Definition amap_eq2 (a b : amap) : bool := amap_eqb a b && amap_eqb b a.

Definition weak_exn_eqb (a b : exn) : bool := exn_eqb a b || (is_te_ve a && is_te_ve b).

Definition res_eqb {A} (eqb : A -> A -> bool) (m o : res A) : bool :=
  match m, o with
  | Ok a, Ok b => eqb a b
  | Raise e, Raise f => weak_exn_eqb e f
  | _, _ => false
  end.

Definition is_unmodelled {A} (r : res A) : bool := match r with Raise Unmodelled => true | _ => false end.

Fixpoint dval_eqb (a b : dval) {struct a} : bool :=
  match a, b with
  | DScal x, DScal y => Z.eqb x y
  | DDict l, DDict m =>
      Nat.eqb (length l) (length m) &&
      (fix all (l : list (pystr * dval)) : bool :=
         match l with
         | [] => true
         | (k, v) :: t => match alist_get m k with Some w => dval_eqb v w | None => false end && all t
         end) l
  | DList l, DList m =>
      (* order-free (a serialized Set has the iteration order of a Python set; the order of an
         Array is not a matter of this property): same length, every element has an equal one *)
      Nat.eqb (length l) (length m) &&
      (fix all (l : list dval) : bool :=
         match l with
         | [] => true
         | x :: l' => existsb (fun y => dval_eqb x y) m && all l'
         end) l
  | _, _ => false
  end.

Definition dval_eq2 (a b : dval) : bool := dval_eqb a b && dval_eqb b a.

Fixpoint ival_eqb (a b : ival) {struct a} : bool :=
  match a, b with
  | IScal x, IScal y => Z.eqb x y
  | IStruct l, IStruct m =>
      (fix all2 (l m : list (pystr * ival)) : bool :=
         match l, m with
         | [], [] => true
         | (k, x) :: l', (k', y) :: m' => pystr_eqb k k' && ival_eqb x y && all2 l' m'
         | _, _ => false
         end) l m
  | IList l, IList m =>
      (fix all2 (l m : list ival) : bool :=
         match l, m with
         | [], [] => true
         | x :: l', y :: m' => ival_eqb x y && all2 l' m'
         | _, _ => false
         end) l m
  | _, _ => false
  end.

(* comparison of deserialized instances: collections compare as sets (a deserialized Set is a
   Python set: no order, equal elements collapse) *)
Fixpoint ival_sub (a b : ival) {struct a} : bool :=
  match a, b with
  | IScal x, IScal y => Z.eqb x y
  | IStruct l, IStruct m =>
      (fix all2 (l m : list (pystr * ival)) : bool :=
         match l, m with
         | [], [] => true
         | (k, x) :: l', (k', y) :: m' => pystr_eqb k k' && ival_sub x y && all2 l' m'
         | _, _ => false
         end) l m
  | IList l, IList m =>
      (fix all (l : list ival) : bool :=
         match l with
         | [] => true
         | x :: l' => existsb (fun y => ival_sub x y) m && all l'
         end) l
  | _, _ => false
  end.

Definition inst_eqb (a b : list (pystr * ival)) : bool :=
  ival_sub (IStruct a) (IStruct b) && ival_sub (IStruct b) (IStruct a).

(* ---------------------------------------------------------------- correspondence *)

Definition code_class (c : case) : classdef := to_class true (c_h c).
Definition decl_class (c : case) : classdef := to_class false (c_h c).

Definition mism_ser_agg (flag : bool) (c : case) : bool :=
  let m := aggregate true (code_class c) (c_override c) flag in
  negb (is_unmodelled m) && negb (res_eqb amap_eq2 m (o_ser_agg (sel flag c))).

Definition mism_des_agg (flag : bool) (c : case) : bool :=
  let m := aggregate false (code_class c) (c_override c) flag in
  negb (is_unmodelled m) && negb (res_eqb amap_eq2 m (o_des_agg (sel flag c))).

Definition mism_doc (flag : bool) (c : case) : bool :=
  let m := serialize (code_class c) (c_override c) flag (c_x c) in
  negb (is_unmodelled m) && negb (res_eqb dval_eq2 m (o_doc (sel flag c))).

(* deserialization of the OBSERVED document *)
Definition model_back (flag : bool) (c : case) : res (list (pystr * ival)) :=
  match o_doc (sel flag c) with
  | Ok (DDict d) => deser_struct (code_class c) (c_override c) flag d
  | _ => Raise Unmodelled
  end.

Definition mism_back (flag : bool) (c : case) : bool :=
  let m := model_back flag c in
  negb (is_unmodelled m) && negb (res_eqb inst_eqb m (o_back (sel flag c))).

Definition mismatch (c : case) : bool :=
  mism_ser_agg false c || mism_ser_agg true c || mism_des_agg false c || mism_des_agg true c ||
  mism_doc false c || mism_doc true c || mism_back false c || mism_back true c.

Definition unmodelled (c : case) : bool :=
  is_unmodelled (aggregate true (code_class c) (c_override c) false) ||
  is_unmodelled (aggregate false (code_class c) (c_override c) false) ||
  is_unmodelled (aggregate false (code_class c) (c_override c) true) ||
  is_unmodelled (serialize (code_class c) (c_override c) false (c_x c)).

(* ---------------------------------------------------------------- the statement's clauses *)

Definition keys_of {A} (l : list (pystr * A)) : list pystr := map fst l.

(* observed aggregated mapper against the declarative chain, at every level.
   [des]: the nested entry of field n is looked up under its mapped key first, as
   construct_fields_map does. *)
Fixpoint agg_ok (des : bool) (c : classdef) (L : list mapper) (o : amap) {struct c} : bool :=
  match c with
  | Class fields _ =>
      (fix go (fs : list (pystr * option (ckind * classdef))) : bool :=
         match fs with
         | [] => true
         | (n, fk) :: t =>
             let want := rename_chain L n in
             match alist_get o n with
             | Some v => mval_eqb v (mval_of want)
             | None => false
             end &&
             match fk with
             | None => true
             | Some (_, c') =>
                 let sub :=
                     match (if des then match want with
                                        | Some k => alist_get o (k ++ suffix)
                                        | None => None end
                            else None) with
                     | Some x => Some x
                     | None => alist_get o (n ++ suffix)
                     end in
                 match sub with
                 | Some (Sub o') => agg_ok des c' (nested_list L n c') o'
                 | _ => match cfields c', (des, want) with
                        | [], _ => true
                        | _, (true, None) => true     (* a dropped field is never deserialized *)
                        | _, _ => false
                        end
                 end
             end && go t
         end) fields
  end.

(* observed document against the chain: key set exact at every level, scalars copied *)
Fixpoint keys_ok (c : classdef) (L : list mapper) (v : ival) (d : dval) {struct v} : bool :=
  match v, d with
  | IScal z, DScal z' => Z.eqb z z'
  | IList l, DList m =>
      (* order-free, see dval_eqb: one document per element, and every element is the image of
         some document / every document the image of some element *)
      Nat.eqb (length l) (length m) &&
      (fix all (l : list ival) : bool :=
         match l with
         | [] => true
         | x :: l' => existsb (fun y => keys_ok c L x y) m && all l'
         end) l &&
      forallb (fun y => (fix any (l : list ival) : bool :=
                           match l with
                           | [] => false
                           | x :: l' => keys_ok c L x y || any l'
                           end) l) m
  | IStruct x, DDict dd =>
      (* every populated, non-dropped field has its key, with a matching value unless a later
         field took the same key *)
      (fix go (x : list (pystr * ival)) : bool :=
         match x with
         | [] => true
         | (n, v') :: t =>
             let later_keys := flat_map (fun n' => match rename_chain L n' with Some k => [k] | None => [] end)
                                        (keys_of t) in
             match rename_chain L n with
             | None => true
             | Some k =>
                 match alist_get dd k with
                 | None => false
                 | Some dv =>
                     str_in k later_keys ||
                     match alist_get (cfields c) n with
                     | Some (Some (_, c')) => keys_ok c' (nested_list L n c') v' dv
                     | Some None => keys_ok c L v' dv
                     | None => false
                     end
                 end
             end && go t
         end) x &&
      (* and nothing else *)
      forallb (fun k => existsb (fun n => match rename_chain L n with
                                          | Some k' => pystr_eqb k k' | None => false end) (keys_of x))
              (keys_of dd)
  | _, _ => false
  end.

Definition decl_list_of (flag : bool) (c : case) : list mapper := used_list (decl_class c) (c_override c) flag.
Definition code_list_of (flag : bool) (c : case) : list mapper := used_list (code_class c) (c_override c) flag.

Definition spec_agg_fail (des flag : bool) (c : case) : bool :=
  match (if des then o_des_agg else o_ser_agg) (sel flag c) with
  | Ok o => negb (agg_ok des (decl_class c) (decl_list_of flag c) o)
  | Raise _ => true
  end.

Definition spec_keys_fail (flag : bool) (c : case) : bool :=
  match o_doc (sel flag c) with
  | Ok d => negb (keys_ok (decl_class c) (decl_list_of flag c) (IStruct (c_x c)) d)
  | Raise _ => true
  end.

Definition spec_fail (c : case) : bool :=
  spec_agg_fail false false c || spec_agg_fail false true c ||
  spec_agg_fail true false c || spec_agg_fail true true c ||
  spec_keys_fail false c || spec_keys_fail true c.

(* the same clauses with the mapper list as the CODE collects it (inherited declarations
   counted again): used only to classify a spec failure *)
Definition spec_fail_with_code_lists (c : case) : bool :=
  let chk (des flag : bool) :=
      match (if des then o_des_agg else o_ser_agg) (sel flag c) with
      | Ok o => negb (agg_ok des (code_class c) (code_list_of flag c) o)
      | Raise _ => true
      end in
  let chk_doc (flag : bool) :=
      match o_doc (sel flag c) with
      | Ok d => negb (keys_ok (code_class c) (code_list_of flag c) (IStruct (c_x c)) d)
      | Raise _ => true
      end in
  chk false false || chk false true || chk true false || chk true true || chk_doc false || chk_doc true.

(* ---- round trip hypotheses, evaluated on the declarative side *)

Fixpoint nodup_str (l : list pystr) : bool :=
  match l with
  | [] => true
  | x :: t => negb (str_in x t) && nodup_str t
  end.

(* no field of the class (populated or not) is dropped, and the chain is injective on the
   class's fields -- at every level the instance reaches *)
Fixpoint rt_hyps (c : classdef) (L : list mapper) (v : ival) {struct v} : bool :=
  match v with
  | IScal _ => true
  | IList l => forallb (rt_hyps c L) l
  | IStruct x =>
      let ks := map (rename_chain L) (field_names c) in
      forallb (fun o => match o with Some _ => true | None => false end) ks &&
      nodup_str (flat_map (fun o => match o with Some k => [k] | None => [] end) ks) &&
      (fix go (x : list (pystr * ival)) : bool :=
         match x with
         | [] => true
         | (n, v') :: t =>
             match alist_get (cfields c) n with
             | Some (Some (_, c')) => rt_hyps c' (nested_list L n c') v'
             | _ => true
             end && go t
         end) x
  end.

(* an unpopulated field whose NAME is the key of a populated one while its own key is absent:
   the non-strict fallback of get_processed_input reads the other field's value *)
Fixpoint capture (c : classdef) (L : list mapper) (v : ival) {struct v} : bool :=
  match v with
  | IScal _ => false
  | IList l => existsb (capture c L) l
  | IStruct x =>
      let pop := keys_of x in
      let img := flat_map (fun n => match rename_chain L n with Some k => [k] | None => [] end) pop in
      existsb (fun u => negb (str_in u pop) && str_in u img &&
                        match rename_chain L u with Some k => negb (str_in k img) | None => false end)
              (field_names c) ||
      (fix go (x : list (pystr * ival)) : bool :=
         match x with
         | [] => false
         | (n, v') :: t =>
             match alist_get (cfields c) n with
             | Some (Some (_, c')) => capture c' (nested_list L n c') v'
             | _ => false
             end || go t
         end) x
  end.

Definition rt_applicable (flag : bool) (c : case) : bool :=
  rt_hyps (decl_class c) (decl_list_of flag c) (IStruct (c_x c)).

Definition rt_capture (flag : bool) (c : case) : bool :=
  capture (decl_class c) (decl_list_of flag c) (IStruct (c_x c)).

(* the model (faithful to the code) predicts the observed result of the round trip *)
Definition rt_model_agrees (flag : bool) (c : case) : bool :=
  res_eqb inst_eqb (model_back flag c) (o_back (sel flag c)).

(* nesting depth of the instance (0 = flat) *)
Fixpoint idepth (v : ival) : nat :=
  match v with
  | IScal _ => 0
  | IList l => fold_right (fun x acc => Nat.max (idepth x) acc) 0%nat l
  | IStruct x => S ((fix go (x : list (pystr * ival)) : nat :=
                       match x with [] => 0%nat | (_, v') :: t => Nat.max (idepth v') (go t) end) x)
  end.
Definition deep2 (c : case) : bool := Nat.leb 3 (idepth (IStruct (c_x c))).

(* wrapper stream *)
Definition wcase := (list pystr * list pystr * bool)%type.   (* fields, mapper keys, observed: raised *)
Definition wmismatch (w : wcase) : bool :=
  let '(fields, keys, raised) := w in
  negb (Bool.eqb (negb (is_ok (wrapper_validate fields keys))) raised).
