(* Case types and boolean comparison functions the C11 harness evaluates (vm_compute) on generated
   instances and the behaviour observed on the real typedpy. *)
From Coq Require Import ZArith NArith String List Bool. Import ListNotations.
From TP Require Export Base.PyVal Base.PyEq Fields.FieldAst Struct.EqHash.

(* per-case oracle tables, filled from the real str()/repr() of the atoms occurring in the case *)
Record oracles := {
  o_num : list (num * pystr);
  o_str : list (pystr * pystr);
  o_enum : list ((pystr * pystr) * pystr) }.

Definition look_num (o : oracles) (n : num) : pystr :=
  match find (fun p => num_struct_eqb (fst p) n) (o_num o) with
  | Some p => snd p | None => s2p "?num?" end.
Definition look_str (o : oracles) (s : pystr) : pystr :=
  match find (fun p => pystr_eqb (fst p) s) (o_str o) with
  | Some p => snd p | None => s2p "?str?" end.
Definition look_enum (o : oracles) (c n : pystr) : pystr :=
  match find (fun p => pystr_eqb (fst (fst p)) c && pystr_eqb (snd (fst p)) n) (o_enum o) with
  | Some p => snd p | None => s2p "?enum?" end.

Definition m_str (o : oracles) (x : inst) : pystr :=
  inst_str (look_num o) (look_str o) (look_enum o) x.

(* the domain on which py_eq stands for Python's == of stored values: nested Structure values
   carry no explicit None attribute (their __eq__ reads an absent name as None), no float nan/inf,
   no arbitrary objects *)
Fixpoint plain (v : pyval) : bool :=
  match v with
  | POther _ _ => false
  | PList l | PTuple l | PDeque l | PSet _ l => forallb plain l
  | PDict kv => forallb (fun p => plain (fst p) && plain (snd p)) kv
  | PEnum _ _ x => plain x
  | PStruct _ attrs => forallb (fun p => plain (snd p) && negb (match snd p with PNone => true | _ => false end)) attrs
  | _ => true
  end.

Definition inst_dom (x : inst) : bool :=
  wf_inst x && forallb (fun p => plain (snd p)) (i_attrs x).

(* ------------------------------------------------------------------ pairs: ==, str, hash *)

Record pcase := {
  pc_or : oracles; pc_cls : classdef; pc_undef : bool;
  pc_a : inst; pc_b : inst;
  pc_eq : bool;                 (* observed a == b *)
  pc_sa : pystr; pc_sb : pystr; (* observed str(a), str(b) *)
  pc_heq : bool }.              (* observed hash(a) == hash(b) *)

Definition p_dom (c : pcase) : bool := inst_dom (pc_a c) && inst_dom (pc_b c) && wf_class (pc_cls c).

Definition p_model_eq (c : pcase) : bool := inst_eq (pc_cls c) (pc_undef c) (pc_a c) (pc_b c).

Definition p_eq_mismatch (c : pcase) : bool :=
  p_dom c && negb (Bool.eqb (p_model_eq c) (pc_eq c)).

Definition p_str_mismatch (c : pcase) : bool :=
  p_dom c &&
  (negb (pystr_eqb (m_str (pc_or c) (pc_a c)) (pc_sa c)) ||
   negb (pystr_eqb (m_str (pc_or c) (pc_b c)) (pc_sb c))).

(* hash = str_hash o str: equal hashes exactly when the model's strings are equal *)
Definition p_hash_mismatch (c : pcase) : bool :=
  p_dom c &&
  negb (Bool.eqb (pystr_eqb (m_str (pc_or c) (pc_a c)) (m_str (pc_or c) (pc_b c))) (pc_heq c)).

(* the defect the model predicts (F10): equal, printed differently *)
Definition p_predicted_incoherent (c : pcase) : bool :=
  p_dom c && p_model_eq c &&
  negb (pystr_eqb (m_str (pc_or c) (pc_a c)) (m_str (pc_or c) (pc_b c))).

Definition p_canonical (c : pcase) : bool :=
  (icanon (pc_cls c) true (pc_a c) && icanon (pc_cls c) true (pc_b c)) ||
  (icanon (pc_cls c) false (pc_a c) && icanon (pc_cls c) false (pc_b c)).

(* spec clause on the OBSERVED behaviour, for pairs satisfying the hypotheses of C11_hash_char:
   observed equal but observed hashes differ *)
Definition p_spec_fail_canonical (c : pcase) : bool :=
  p_dom c && p_canonical c && pc_eq c && negb (pc_heq c).

(* ------------------------------------------------------------------ copies *)

Inductive ckind := KCopy | KDeep | KPickle.

Record ccase := { cc_cls : classdef; cc_kind : ckind; cc_x : inst; cc_obs : inst }.

Definition names_eqb (a b : option (list pystr)) : bool :=
  match a, b with
  | None, None => true
  | Some l, Some m => subset l m && subset m l
  | _, _ => false
  end.

(* same observable state *)
Definition inst_eqb (a b : inst) : bool :=
  pyval_eqb (PStruct (i_cls a) (i_attrs a)) (PStruct (i_cls b) (i_attrs b)) &&
  names_eqb (i_nones a) (i_nones b) && Bool.eqb (i_live a) (i_live b).

Definition c_model (c : ccase) : inst :=
  match cc_kind c with
  | KCopy => copy_inst (cc_x c)
  | KDeep => deepcopy_inst (cc_x c)
  | KPickle => pickle_rt (cc_cls c) (cc_x c)
  end.

Definition c_mismatch (c : ccase) : bool := negb (inst_eqb (c_model c) (cc_obs c)).

(* the model predicts that the pickle round trip is not state-preserving (undeclared attributes are lost) *)
Definition c_predicted_lossy (c : ccase) : bool :=
  match cc_kind c with KPickle => negb (pickle_safe (cc_cls c) (cc_x c)) | _ => false end.
