(* Case type and comparison functions evaluated by the C16 correspondence harness:
   the model of the run-time signature (Stubs/Signature.v) and of the stub generator
   (Stubs/StubModel.v) against what the real typedpy produced for the same class definition. *)
From Coq Require Import List Bool NArith String. Import ListNotations.
From TP Require Export Base.PyVal Base.PyEq Stubs.Signature Stubs.StubModel.

Definition omethod := option (list sparam * bool).

Record obs := { o_def_ok : bool;                       (* the class statement succeeded *)
                o_sig : list (pystr * bool);           (* inspect.signature(cls): name, has default *)
                o_sig_kw : bool;
                o_required : list pystr;               (* cls._required *)
                o_consts : list pystr;                 (* cls._constants *)
                o_fields : list pystr;                 (* cls.get_all_fields_by_name() keys, in order *)
                o_init : omethod;                      (* parsed from the .pyi; None: not comparable *)
                o_clone : omethod; o_other : omethod; o_trusted : omethod }.

Definition case := (hier * bool * obs)%type.

Definition sparam_eqb (a b : sparam) : bool := pystr_eqb (fst a) (fst b) && Bool.eqb (snd a) (snd b).
Fixpoint list_eqb {A} (eqb : A -> A -> bool) (a b : list A) : bool :=
  match a, b with
  | [], [] => true
  | x :: a', y :: b' => eqb x y && list_eqb eqb a' b'
  | _, _ => false
  end.
Definition subset {A} (eqb : A -> A -> bool) (a b : list A) : bool :=
  forallb (fun x => existsb (eqb x) b) a.
Definition set_eqb {A} (eqb : A -> A -> bool) (a b : list A) : bool :=
  subset eqb a b && subset eqb b a && Nat.eqb (List.length a) (List.length b).

Definition model_sig (apd : bool) (C : hier) : list sparam :=
  map (fun p => (p_name p, p_default p)) (s_params (sig apd C)).

Definition defok_mismatch (c : case) : bool :=
  let '(C, apd, o) := c in negb (Bool.eqb (def_ok apd C) (o_def_ok o)).

Definition sig_mismatch (c : case) : bool :=
  let '(C, apd, o) := c in
  o_def_ok o &&
  negb (set_eqb sparam_eqb (model_sig apd C) (o_sig o) && Bool.eqb (s_kwargs (sig apd C)) (o_sig_kw o)).

Definition req_mismatch (c : case) : bool :=
  let '(C, apd, o) := c in
  o_def_ok o &&
  negb (set_eqb pystr_eqb (required_attr apd C) (o_required o)
        && set_eqb pystr_eqb (constants C) (o_consts o)
        && set_eqb pystr_eqb (all_names C) (o_fields o)).

(* informational only: the model also reproduces the ORDER of the rendered keywords and of
   get_all_fields_by_name (the property does not speak about it) *)
Definition order_differs (c : case) : bool :=
  let '(C, apd, o) := c in
  o_def_ok o &&
  negb (list_eqb pystr_eqb (all_names C) (o_fields o)
        && match o_init o with
           | None => true
           | Some (ps, _) => list_eqb sparam_eqb (m_kwparams (stub_init apd apd C)) ps
           end).

Definition method_eqb (m : stub_method) (o : omethod) : bool :=
  match o with
  | None => true
  | Some (ps, kw) => set_eqb sparam_eqb (m_kwparams m) ps && Bool.eqb (m_kw m) kw
  end.

Definition stub_mismatch (c : case) : bool :=
  let '(C, apd, o) := c in
  o_def_ok o &&
  negb (method_eqb (stub_init apd apd C) (o_init o)
        && method_eqb (stub_shallow_clone apd apd C) (o_clone o)
        && method_eqb (stub_from_other_class apd apd C) (o_other o)
        && method_eqb (stub_from_trusted_data apd apd C) (o_trusted o)).

Definition mismatch (c : case) : bool :=
  defok_mismatch c || sig_mismatch c || req_mismatch c || stub_mismatch c.

(* which cases satisfy the hypotheses of the characterisation theorems *)
Definition hyp_tok_safe (c : case) : bool := let '(C, apd, o) := c in o_def_ok o && tok_safe apd C.
Definition hyp_kw_safe (c : case) : bool := let '(C, apd, o) := c in o_def_ok o && kw_safe apd C.
