(* The one-pass verdict vector of Check/C01chk.v is, component by component, the eight separately
   defined verdicts. *)
From Coq Require Import ZArith NArith String List Bool. Import ListNotations.
From TP Require Import Check.C01chk.

Lemma sflags_spec c :
  sflags c = [smismatch c; sviolation c; sunstable c; sin_dom c; sin_thm_dom c; sunmodelled c;
              scopy_raised c; sstricter c].
Proof. reflexivity. Qed.
