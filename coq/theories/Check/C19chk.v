(* Case type and comparison functions evaluated by the C19 correspondence harness: the effect the model
   predicts for (operation, field type) -- computed from the site facts GENERATED from /repo -- against the
   effect observed on the real implementation by deep snapshots and mutation of arguments / results. *)
From Coq Require Import ZArith NArith String List Bool. Import ListNotations.
From TP Require Export Base.PyVal Base.PyEq Struct.Alias Gen.AliasSites.

(* (argument written by the call, argument retained by reference, result aliases internal state) *)
Definition obs := (bool * bool * bool)%type.
Definition obs_eqb (a b : obs) : bool :=
  let '(a1, a2, a3) := a in let '(b1, b2, b3) := b in Bool.eqb a1 b1 && Bool.eqb a2 b2 && Bool.eqb a3 b3.
Definition obs_any (a : obs) : bool := let '(a1, a2, a3) := a in a1 || a2 || a3.

Inductive case :=
| CField (op : opid) (immutable : bool) (t : aty) (o : obs)
| CSop (s : sop) (o : obs).

Definition model (c : case) : obs :=
  match c with
  | CField op imm t _ =>
      let '(w, r, l) := predict alias_sites op t in
      (* an ImmutableStructure deep-copies what it is given and what it hands out *)
      match op with
      | OCtor | OSetattr | ODeser => (w, r && negb imm, l)
      | _ => (w, r, l)
      end
  | CSop s _ => predict_sop alias_sites s
  end.

Definition observed (c : case) : obs := match c with CField _ _ _ o => o | CSop _ o => o end.

Definition mismatch (c : case) : bool := negb (obs_eqb (model c) (observed c)).

(* the property speaks about typed fields; Anything / untyped positions are handed by reference by design *)
Definition in_scope (c : case) : bool :=
  match c with
  | CField _ imm t _ => typed_inside t || imm     (* an ImmutableStructure copies defensively whatever the type *)
  | CSop _ _ => true
  end.

(* C19's clauses on the observed behaviour *)
Definition violates (c : case) : bool := in_scope c && obs_any (observed c).
(* what the model (with the current generated sites) says is a defect *)
Definition predicted_violation (c : case) : bool := in_scope c && obs_any (model c).
