(* Case type and comparison functions evaluated by the C19 correspondence harness: the effect the model
   predicts for (operation, owner kind, field type, argument shape) -- computed from the site facts and the
   isinstance tables GENERATED from /repo -- against the effect observed on the real implementation by deep
   snapshots and mutation of arguments / results. *)
From Coq Require Import ZArith NArith String List Bool. Import ListNotations.
From TP Require Export Base.PyVal Base.PyEq Struct.Alias Struct.AliasIntake Gen.AliasSites Gen.AliasTables.

(* (argument written by the call, argument retained by reference, result aliases internal state) *)
Definition obs := (bool * bool * bool)%type.
Definition obs_eqb (a b : obs) : bool :=
  let '(a1, a2, a3) := a in let '(b1, b2, b3) := b in Bool.eqb a1 b1 && Bool.eqb a2 b2 && Bool.eqb a3 b3.
Definition obs_any (a : obs) : bool := let '(a1, a2, a3) := a in a1 || a2 || a3.

Inductive case :=
| CIntake (op : opid) (own : owner) (t : aty) (v : vshape) (o : obs)   (* constructor / setattr / deserialization *)
| CField (op : opid) (immutable : bool) (t : aty) (o : obs)            (* serialization paths, trusted deserialization *)
| CSop (s : sop) (o : obs).

Definition intake_deser (op : opid) : bool := match op with ODeser => true | _ => false end.

Definition model (c : case) : obs :=
  match c with
  | CIntake op own t v _ =>
      match op with
      | OCtor | ODeser => (false, retains alias_sites copy_tables own (intake_deser op) t v, false)
      | OSetattr =>
          (* assignment to a field of an immutable owner raises: nothing is taken *)
          (false, negb (owner_immutable own) && retains alias_sites copy_tables own false t v, false)
      | _ => (true, true, true)       (* not an intake operation: never generated *)
      end
  | CField op imm t _ => predict alias_sites op t
  | CSop s _ => predict_sop alias_sites s
  end.

Definition observed (c : case) : obs :=
  match c with CIntake _ _ _ _ o => o | CField _ _ _ o => o | CSop _ o => o end.

(* the generated argument has the shape its declared type admits (a generator error otherwise) *)
Definition well_shaped (c : case) : bool :=
  match c with
  | CIntake op _ t v _ => shape_ok (intake_deser op) t v
  | _ => true
  end.

Definition mismatch (c : case) : bool := negb (well_shaped c) || negb (obs_eqb (model c) (observed c)).

(* the property speaks about typed fields; Anything / untyped positions of a MUTABLE owner are handed by reference by
   design; an immutable owner (ImmutableStructure, or a field declared immutable) copies defensively whatever the type *)
Definition in_scope (c : case) : bool :=
  match c with
  | CIntake _ own t _ _ => typed_inside t || owner_immutable own
  | CField _ imm t _ => typed_inside t || imm
  | CSop (SVersionedDeser b) _ => b     (* an untyped field of a mutable Versioned class is outside the claim *)
  | CSop _ _ => true
  end.

(* C19's clauses on the observed behaviour *)
Definition violates (c : case) : bool := in_scope c && obs_any (observed c).
(* what the model (with the current generated sites and tables) says is a defect *)
Definition predicted_violation (c : case) : bool := in_scope c && obs_any (model c).
