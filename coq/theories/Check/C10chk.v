(* Correspondence cases of C10: the model of Ser/Trusted.v and Ser/Fast.v against what the real
   typedpy did on the same class / document / instance.  Oracles are finite tables filled from the
   real SerializableField.deserialize / serialize (and the unmodelled field kinds). *)
From Coq Require Import ZArith NArith String List Bool.
Import ListNotations.
From TP Require Export Base.PyVal Base.PyEq Fields.FieldAst Fields.SetChain Struct.Instance Ser.Trusted Ser.Fast.

Definition otable := list (N * list (pyval * res pyval)).

Fixpoint tbl_find (l : list (pyval * res pyval)) (v : pyval) : res pyval :=
  match l with
  | [] => Raise Unmodelled
  | (k, r) :: t => if pyval_eqb k v then r else tbl_find t v
  end.

Fixpoint tbl_lookup (t : otable) (id : N) (v : pyval) : res pyval :=
  match t with
  | [] => Raise Unmodelled
  | (i, l) :: t' => if N.eqb i id then tbl_find l v else tbl_lookup t' id v
  end.

Definition any_re (_ : N) (_ : pystr) : bool := true.
Definition FUEL : nat := 6.

Definition undecided {A} (r : res A) : bool :=
  match r with Raise Unmodelled | Raise OutOfFuel => true | _ => false end.

(* structural equality in which the insertion order of dicts is not significant (documents) *)
Fixpoint doc_eqb (a b : pyval) {struct a} : bool :=
  let fix eq_list (l m : list pyval) {struct l} : bool :=
      match l, m with
      | [], [] => true
      | x :: l', y :: m' => doc_eqb x y && eq_list l' m'
      | _, _ => false
      end in
  match a, b with
  | PList l, PList m => eq_list l m
  | PTuple l, PTuple m => eq_list l m
  | PSet f l, PSet g m =>
      Bool.eqb f g && Nat.eqb (length l) (length m) &&
      (fix all_in (l : list pyval) : bool :=
         match l with
         | [] => true
         | x :: l' => existsb (fun y => doc_eqb x y) m && all_in l'
         end) l
  | PDict kv, PDict kw =>
      Nat.eqb (length kv) (length kw) &&
      (fix all_kv (l : list (pyval * pyval)) : bool :=
         match l with
         | [] => true
         | (k, x) :: l' => existsb (fun p => pyval_eqb k (fst p) && doc_eqb x (snd p)) kw && all_kv l'
         end) kv
  | PStruct c at1, PStruct c' at2 =>
      pystr_eqb c c' && Nat.eqb (length at1) (length at2) &&
      (fix all_at (l : list (pystr * pyval)) : bool :=
         match l with
         | [] => true
         | (k, x) :: l' => existsb (fun p => pystr_eqb k (fst p) && doc_eqb x (snd p)) at2 && all_at l'
         end) at1
  | _, _ => pyval_eqb a b
  end.

Definition res_doc_eqb_weak (a b : res pyval) : bool :=
  match a, b with
  | Ok x, Ok y => doc_eqb x y
  | Raise _, Raise _ => true
  | _, _ => false
  end.

(* outcomes are compared up to: same value / both raise (the class of a rejection is not part of C10) *)
Definition differs (model obs : res pyval) : bool :=
  negb (undecided model) && negb (res_doc_eqb_weak model obs).

(* ------------------------------------------------------------------ deserialization stream *)

Record dcase := {
  dc_env : tenv; dc_cls : pystr; dc_ku : bool; dc_doc : pyval;
  dc_sdeser : otable; dc_ostore : otable;
  dc_level : N;                 (* observed classifier verdict: 0 False, 1 not_nested, 2 nested, 3 raises *)
  dc_reg : res pyval;           (* observed: regular path *)
  dc_tr : res pyval }.          (* observed: direct_trusted_mapping=True *)

Definition m_level (c : dcase) : res (option level) := level_of (dc_env c) FUEL (dc_cls c).
Definition level_code (r : res (option level)) : N :=
  match r with
  | Ok None => 0 | Ok (Some NotNested) => 1 | Ok (Some Nested) => 2 | Raise _ => 3
  end%N.
Definition m_reg (c : dcase) : res pyval :=
  deser_regular any_re (tbl_lookup (dc_sdeser c)) (tbl_lookup (dc_ostore c)) (dc_env c) FUEL (dc_ku c) [] (dc_cls c) (dc_doc c).
Definition m_tr (c : dcase) : res pyval :=
  deser_trusted any_re (tbl_lookup (dc_sdeser c)) (tbl_lookup (dc_ostore c)) (dc_env c) FUEL (dc_ku c) (dc_cls c) (dc_doc c).

Definition d_level_mismatch (c : dcase) : bool :=
  negb (undecided (m_level c)) && negb (N.eqb (level_code (m_level c)) (dc_level c)).
Definition d_reg_mismatch (c : dcase) : bool := differs (m_reg c) (dc_reg c).
Definition d_tr_mismatch (c : dcase) : bool := differs (m_tr c) (dc_tr c).
Definition d_undecided (c : dcase) : bool := undecided (m_reg c) || undecided (m_tr c).
(* the model's own verdict on the property for this case: both paths agree *)
Definition d_model_paths_differ (c : dcase) : bool :=
  negb (undecided (m_reg c)) && negb (undecided (m_tr c)) && is_ok (m_reg c) &&
  negb (res_val_eqb (m_reg c) (m_tr c)).

(* ------------------------------------------------------------------ from_trusted_data stream *)

Definition re_tbl (t : list (N * list pystr)) (p : N) (s : pystr) : bool :=
  existsb (fun e => N.eqb (fst e) p && existsb (pystr_eqb s) (snd e)) t.

Record kcase := {
  kc_tbl : list (N * list pystr);
  kc_env : env; kc_cls : classdef; kc_kw : list (pystr * pyval);
  kc_cons : res pyval;          (* observed: cls(kw) *)
  kc_trusted : res pyval }.     (* observed: cls.from_trusted_data(None, kw) *)

Definition k_cons_mismatch (c : kcase) : bool :=
  differs (construct (re_tbl (kc_tbl c)) (kc_env c) (kc_cls c) (kc_kw c)) (kc_cons c).
Definition k_trusted_mismatch (c : kcase) : bool :=
  negb (res_val_eqb (Ok (from_trusted (kc_cls c) (kc_kw c))) (kc_trusted c)).

(* ------------------------------------------------------------------ fast serialization stream *)

Record fcase := {
  fc_env : tenv; fc_cls : pystr; fc_inst : pyval; fc_sn : bool; fc_compact : bool;
  fc_sser : otable; fc_oser : otable; fc_ofast : otable;
  fc_create : res pyval;        (* observed create_serializer: Ok None / the exception *)
  fc_fast : res pyval;          (* observed x.serialize() of the FastSerializable class *)
  fc_reg : res pyval }.         (* observed Serializer(twin).serialize(compact=...) *)

Definition m_create (c : fcase) : res pyval :=
  match create_serializer (fc_env c) FUEL (fc_cls c) with Ok _ => Ok PNone | Raise x => Raise x end.
Definition m_fast (c : fcase) : res pyval :=
  fast_ser (tbl_lookup (fc_sser c)) (tbl_lookup (fc_ofast c)) (fc_env c) FUEL (fc_sn c) (fc_compact c) (fc_cls c) (fc_inst c).
Definition m_sreg (c : fcase) : res pyval :=
  ser_top any_re (tbl_lookup (fc_sser c)) (tbl_lookup (fc_oser c)) (fc_env c) FUEL (fc_compact c) (fc_cls c) (fc_inst c).

Definition f_create_mismatch (c : fcase) : bool := differs (m_create c) (fc_create c).
Definition f_fast_mismatch (c : fcase) : bool := is_ok (fc_create c) && differs (m_fast c) (fc_fast c).
Definition f_reg_mismatch (c : fcase) : bool := differs (m_sreg c) (fc_reg c).
Definition f_undecided (c : fcase) : bool := undecided (m_create c) || undecided (m_fast c) || undecided (m_sreg c).
