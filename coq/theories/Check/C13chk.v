(* Case types and comparison functions evaluated by the C13 correspondence harness. *)
From Coq Require Import ZArith NArith String List Bool. Import ListNotations.
From TP Require Export Base.PyVal Base.PyEq Fields.FieldAst Fields.SetChain Struct.Spelling Check.Fieldchk.

Definition opt_eqb {A} (eq : A -> A -> bool) (a b : option A) : bool :=
  match a, b with Some x, Some y => eq x y | None, None => true | _, _ => false end.
Definition numc_eqb (a b : numc) : bool :=
  opt_eqb Z.eqb (multiplesOf a) (multiplesOf b) && opt_eqb num_struct_eqb (minimum a) (minimum b) &&
  opt_eqb num_struct_eqb (maximum a) (maximum b) && Bool.eqb (exclusiveMaximum a) (exclusiveMaximum b).
Definition strc_eqb (a b : strc) : bool :=
  opt_eqb Z.eqb (minLength a) (minLength b) && opt_eqb Z.eqb (maxLength a) (maxLength b) &&
  opt_eqb N.eqb (pattern a) (pattern b).
Definition sizec_eqb (a b : sizec) : bool :=
  opt_eqb Z.eqb (minItems a) (minItems b) && opt_eqb Z.eqb (maxItems a) (maxItems b).
Definition numkind_eqb (a b : numkind) : bool :=
  match a, b with KNumber, KNumber | KInteger, KInteger | KFloat, KFloat => true | _, _ => false end.
Definition sign_eqb (a b : sign) : bool :=
  match a, b with SAny, SAny | SPositive, SPositive | SNegative, SNegative | SNonPositive, SNonPositive
                | SNonNegative, SNonNegative => true | _, _ => false end.
Definition seqkind_eqb (a b : seqkind) : bool :=
  match a, b with SeqList, SeqList | SeqDeque, SeqDeque => true | _, _ => false end.

Fixpoint list_eqb {A} (eq : A -> A -> bool) (l m : list A) : bool :=
  match l, m with [], [] => true | x :: l', y :: m' => eq x y && list_eqb eq l' m' | _, _ => false end.

(* structural equality of Field terms *)
Fixpoint field_eqb (a b : field) {struct a} : bool :=
  let fix eqs (l m : list field) {struct l} : bool :=
      match l, m with [], [] => true | x :: l', y :: m' => field_eqb x y && eqs l' m' | _, _ => false end in
  match a, b with
  | FNumber k s c, FNumber k' s' c' => numkind_eqb k k' && sign_eqb s s' && numc_eqb c c'
  | FString c, FString c' => strc_eqb c c'
  | FBoolean, FBoolean | FNone, FNone | FAnything, FAnything => true
  | FEnumLit v, FEnumLit v' => list_eqb pyval_eqb v v'
  | FEnumCls c m, FEnumCls c' m' =>
      pystr_eqb c c' && list_eqb (fun p q => pystr_eqb (fst p) (fst q) && pyval_eqb (snd p) (snd q)) m m'
  | FSeqAny k sz u, FSeqAny k' sz' u' => seqkind_eqb k k' && sizec_eqb sz sz' && Bool.eqb u u'
  | FSeqEach k f sz u, FSeqEach k' f' sz' u' => seqkind_eqb k k' && field_eqb f f' && sizec_eqb sz sz' && Bool.eqb u u'
  | FSeqPos k fs sz u ad, FSeqPos k' fs' sz' u' ad' =>
      seqkind_eqb k k' && eqs fs fs' && sizec_eqb sz sz' && Bool.eqb u u' && opt_eqb Bool.eqb ad ad'
  | FSet i None sz, FSet i' None sz' => Bool.eqb i i' && sizec_eqb sz sz'
  | FSet i (Some f) sz, FSet i' (Some f') sz' => Bool.eqb i i' && field_eqb f f' && sizec_eqb sz sz'
  | FTuple fs u, FTuple fs' u' => eqs fs fs' && Bool.eqb u u'
  | FMapAny sz, FMapAny sz' => sizec_eqb sz sz'
  | FMapKV k v sz, FMapKV k' v' sz' => field_eqb k k' && field_eqb v v' && sizec_eqb sz sz'
  | FAllOf fs, FAllOf fs' | FAnyOf fs, FAnyOf fs' | FOneOf fs, FOneOf fs' | FNot fs, FNot fs' => eqs fs fs'
  | FClassRef c, FClassRef c' => pystr_eqb c c'
  | _, _ => false
  end.

(* ---------------------------------------------------------------- spelling -> Field object *)
Inductive sctx := CxAnnot | CxAssign | CxSub.
Inductive sobs := ObsField (f : field) | ObsIgnored | ObsRaise (x : exn) | ObsDefective.
Record scase := { sc_ctx : sctx; sc_ty : tyexpr; sc_obs : sobs }.

Definition to_obs (r : res (option field)) : sobs :=
  match r with
  | Ok (Some f) => ObsField f
  | Ok None => ObsIgnored
  | Raise x => if exn_eqb x defective then ObsDefective else ObsRaise x
  end.

Definition smodel (c : scase) : sobs :=
  to_obs match sc_ctx c with
         | CxAnnot => convert_annot (sc_ty c)
         | CxAssign => convert_assign (sc_ty c)
         | CxSub => f <- convert_sub (sc_ty c) ;; Ok (Some f)
         end.

Definition sobs_eqb (a b : sobs) : bool :=
  match a, b with
  | ObsField f, ObsField g => field_eqb f g
  | ObsIgnored, ObsIgnored | ObsDefective, ObsDefective => true
  | ObsRaise x, ObsRaise y => exn_equiv x y
  | _, _ => false
  end.

(* The marker [defective] stops the model where typedpy builds a malformed Tuple and goes on; when the enclosing
   expression then raises anyway (e.g. a typing alias assigned as a class attribute) the model declines. *)
Definition sunmodelled (c : scase) : bool :=
  match smodel c, sc_obs c with
  | ObsRaise Unmodelled, _ => true
  | ObsDefective, ObsRaise _ => true
  | _, _ => false
  end.
Definition smismatch (c : scase) : bool := negb (sunmodelled c) && negb (sobs_eqb (smodel c) (sc_obs c)).

(* ---------------------------------------------------------------- declaration -> (field, default, required) *)
Inductive dobs :=
| DField (f : field) (default : option pyval) (required : bool)
| DIgnored | DRaise (x : exn) | DDefective.
Record dcase := { dc_tbl : table; dc_env : env; dc_decl : decl; dc_obs : dobs }.

Definition dobs_of (r : res (list fres * list pystr)) : dobs :=
  match r with
  | Ok ([r], req) => DField (fr_field r) (match fr_default r with Some PNone => None | x => x end)
                            (str_in (fr_name r) req)
  | Ok (_, _) => DIgnored
  | Raise x => if exn_eqb x defective then DDefective else DRaise x
  end.

Definition dmodel (c : dcase) : dobs := dobs_of (class_result (tbl_match (dc_tbl c)) (dc_env c) [dc_decl c]).

Definition dobs_eqb (a b : dobs) : bool :=
  match a, b with
  | DField f d r, DField g d' r' => field_eqb f g && opt_eqb pyval_eqb d d' && Bool.eqb r r'
  | DIgnored, DIgnored | DDefective, DDefective => true
  | DRaise x, DRaise y => exn_equiv x y
  | _, _ => false
  end.

Definition dunmodelled (c : dcase) : bool := match dmodel c with DRaise Unmodelled => true | _ => false end.
Definition dmismatch (c : dcase) : bool := negb (dunmodelled c) && negb (dobs_eqb (dmodel c) (dc_obs c)).

(* ---------------------------------------------------------------- the same under `from __future__ import annotations` *)
(* fc_len: length of the annotation text the compiler stored (ast.unparse of the annotation expression) *)
Record fcase := { fc_len : Z; fc_case : dcase }.
Definition fmodel (c : fcase) : dobs :=
  let d := fc_case c in dobs_of (class_result_future (tbl_match (dc_tbl d)) (dc_env d) [(fc_len c, dc_decl d)]).
Definition funmodelled (c : fcase) : bool := match fmodel c with DRaise Unmodelled => true | _ => false end.
Definition fmismatch (c : fcase) : bool := negb (funmodelled c) && negb (dobs_eqb (fmodel c) (dc_obs (fc_case c))).

(* ---------------------------------------------------------------- spec clause of C13_optional_marking on OBSERVED behaviour *)
(* For `a: typing.Union[...]` inside the theorem's domain (typing keeps the Union as written, every member is None or
   denotes a field) and without default, the implementation must have produced a field that is required iff it is
   neither listed in _optional nor has a member denoting NoneField — whatever the model's own marks_optional computes. *)
Definition opt_spec_applies (c : dcase) : bool :=
  let d := dc_decl c in
  d_annot d &&
  match d_ty d with TUnion l => union_written l && forallb member_ok l | _ => false end &&
  match d_eq d, d_kw d with None, None => true | _, _ => false end.

Definition opt_spec_fails (c : dcase) : bool :=
  opt_spec_applies c &&
  match d_ty (dc_decl c), dc_obs c with
  | TUnion l, DField _ _ req => negb (Bool.eqb req (negb (d_opt (dc_decl c) || existsb member_none l)))
  | _, _ => true
  end.
