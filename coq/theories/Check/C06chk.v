(* Case functions of the C06 harness that go beyond Check/C05chk.v (harness/props/c06.py): the documented
   reading declines a document in which some multi-field wrapper has several distinct candidate readings. *)
From Coq Require Import ZArith NArith String List Bool. Import ListNotations.
From TP Require Export Check.C05chk.

(* the keep_undefined the documented reading uses at EVERY level of the document: the explicit one, or for the
   default (None) what Deserializer.deserialize makes of it for the target class (C06_keep_undefined_adjustment) *)
Definition dku (c : dcase) : option bool :=
  match dc_ku c with
  | Some b => Some b
  | None => match find_class (dc_env c) (dc_cls c) with
            | Some cl => Some (adjust_keep_undefined cl None)
            | None => None
            end
  end.

Definition dspec6 (c : dcase) : res pyval :=
  match dku c with
  | Some b => spec_deser (tbl_match (dc_tbl c)) (dc_env c) (dc_ens c) (dc_flags c) FUEL b (dc_cls c) (dc_doc c)
  | None => Raise Unmodelled
  end.

Definition dambiguous (c : dcase) : bool :=
  match dku c with
  | Some b => doc_ambiguous (tbl_match (dc_tbl c)) (dc_env c) (dc_ens c) (dc_flags c) FUEL b (dc_cls c) (dc_doc c)
  | None => true
  end.

(* the spec declines: the model of the constructor declines, or the reading is ambiguous *)
Definition dspec_declines6 (c : dcase) : bool := declines (dspec6 c) || dambiguous c.

(* the error-class clause is judged on every observation; the agreement clause where the reading is unambiguous *)
Definition dspec_fail6 (c : dcase) : bool :=
  dbadexn c || (negb (dspec_declines6 c) && negb (res_equiv_tv (dspec6 c) (dc_obs c))).

Definition dmodels_differ6 (c : dcase) : bool :=
  negb (dspec_declines6 c) && negb (dunmodelled c) && negb (res_equiv_tv (dspec6 c) (dmodel c)).

(* everything the harness asks about a case, computed in one pass (the two models are evaluated once):
   bit 0 dmismatch, 1 dunmodelled, 2 dspec_fail6, 3 dspec_declines6, 4 dmodels_differ6, 5 dbadexn, 6 dambiguous *)
Definition dsummary (c : dcase) : N :=
  let m := dmodel c in
  let s := dspec6 c in
  let a := dambiguous c in
  let unmod := declines m in
  let decl := declines s || a in
  let bad := dbadexn c in
  let b (i : N) (x : bool) : N := if x then N.shiftl 1 i else 0%N in
  (b 0 (negb unmod && negb (res_val_equiv m (dc_obs c))) +
   b 1 unmod +
   b 2 (bad || (negb decl && negb (res_equiv_tv s (dc_obs c)))) +
   b 3 decl +
   b 4 (negb decl && negb unmod && negb (res_equiv_tv s m)) +
   b 5 bad +
   b 6 a)%N.
