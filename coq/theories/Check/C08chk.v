(* Case types and boolean checks evaluated by harness/props/c08.py (property C08). *)
From Coq Require Import ZArith NArith String List Bool. Import ListNotations.
From TP Require Export Base.PyVal Base.PyEq Fields.FieldAst Fields.SetChain Schema.Draft4 Schema.ToSchema.

Definition table := list (N * list pystr).
Definition tbl_match (t : table) (p : N) (s : pystr) : bool :=
  existsb (fun e => N.eqb (fst e) p && existsb (pystr_eqb s) (snd e)) t.

Definition ptable := list (N * pystr).
Definition pat_text (t : ptable) (p : N) : pystr :=
  match find (fun e => N.eqb (fst e) p) t with Some e => snd e | None => [] end.

Definition smap_of (l : list (pystr * renames)) (cn : pystr) : renames :=
  match alist_get l cn with Some m => m | None => [] end.

Definition einfo_of (l : list (pystr * eopts)) : einfo_t :=
  fun cn => match alist_get l cn with Some o => o | None => no_einfo cn end.

Definition FUEL : nat := 12.

(* ---------------------------------------------------------------- stream 1: to_schema *)
(* model structure_to_schema vs the real one: equality of the JSON documents (objects order-free,
   numbers by value); "raises" on both sides when the class is outside the mappable fragment *)
(* sc_pre: classes exported earlier into the SAME definitions dict (the documented way of exporting several
   classes into one document); [] for an export into a fresh {} *)
Record scase := { sc_env : env; sc_einfo : list (pystr * eopts); sc_smap : list (pystr * renames); sc_pats : ptable;
                  sc_pre : list pystr; sc_cls : pystr; sc_obs : option (pyval * pyval) }.

Definition pre_refs (c : scase) : list pystr :=
  flat_map (fun nm => match find_class (sc_env c) nm with Some cd => class_refs cd | None => [] end) (sc_pre c).

Definition smodel (c : scase) : option (pyval * pyval) :=
  match find_class (sc_env c) (sc_cls c) with
  | None => None
  | Some cd =>
      let ei := einfo_of (sc_einfo c) in
      if schema_mappable ei (sc_env c) FUEL cd then
        let d := to_schema ei (sc_env c) (smap_of (sc_smap c)) FUEL cd in
        Some (sch_json (pat_text (sc_pats c)) (fst d),
              defs_json (pat_text (sc_pats c))
                        (defs_from ei (sc_env c) (smap_of (sc_smap c)) FUEL (pre_refs c) ++ snd d))
      else None
  end.

Definition smismatch (c : scase) : bool :=
  match smodel c, sc_obs c with
  | Some (s, d), Some (s', d') => negb (jeq s s' && jeq d d')
  | None, None => false
  | _, _ => true
  end.

(* model prediction of well-formedness of the class's export (after the dialect translation) *)
Definition sclean (c : scase) : bool :=
  match find_class (sc_env c) (sc_cls c) with
  | None => false
  | Some cd => schema_clean (einfo_of (sc_einfo c)) (sc_env c) (smap_of (sc_smap c)) FUEL cd
  end.
Definition swf (c : scase) : bool :=
  match find_class (sc_env c) (sc_cls c) with
  | None => false
  | Some cd => wf_doc (fix_doc (to_schema (einfo_of (sc_einfo c)) (sc_env c) (smap_of (sc_smap c)) FUEL cd))
  end.
(* characterisation check: clean classes have well-formed exports (instance of the theorem) *)
Definition sclean_not_wf (c : scase) : bool := sclean c && negb (swf c).

(* ---------------------------------------------------------------- stream 2: valid4 / wf4 *)
(* a document parsed from the REAL (dialect-translated) export, an instance document, the verdicts of
   the independent validator (jsonschema.Draft4Validator): is_valid and check_schema + $ref resolution *)
Record vcase := { vc_search : table; vc_doc : schema * list (pystr * schema);
                  vc_inst : pyval; vc_verdict : bool }.

Definition vmodel (c : vcase) : bool :=
  valid4 (tbl_match (vc_search c)) (snd (vc_doc c)) 40 (fst (vc_doc c)) (vc_inst c).
Definition vmismatch (c : vcase) : bool := negb (Bool.eqb (vmodel c) (vc_verdict c)).

Record wcase := { wc_doc : schema * list (pystr * schema); wc_verdict : bool }.
Definition wmismatch (c : wcase) : bool := negb (Bool.eqb (wf_doc (wc_doc c)) (wc_verdict c)).

(* ---------------------------------------------------------------- stream 3: serializer *)
Record rcase := { rc_tbl : table; rc_env : env; rc_einfo : list (pystr * eopts); rc_smap : list (pystr * renames); rc_cls : pystr;
                  rc_attrs : list (pystr * pyval); rc_obs : pyval }.

(* JSON equality with arrays compared as multisets: the iteration order of a Python set (and hence of
   its serialization) is not observable through the reified instance *)
Fixpoint jequ (a b : pyval) {struct a} : bool :=
  match a with
  | PList l =>
      match b with
      | PList m =>
          Nat.eqb (length l) (length m) &&
          (fix all_in (l : list pyval) : bool :=
             match l with
             | [] => true
             | x :: l' => existsb (fun y => jequ x y) m && all_in l'
             end) l
      | _ => false
      end
  | PDict kv =>
      match b with
      | PDict kw =>
          Nat.eqb (length kv) (length kw) &&
          (fix all_kv (l : list (pyval * pyval)) : bool :=
             match l with
             | [] => true
             | (k, x) :: l' =>
                 existsb (fun p => match k, fst p with
                                   | PStr s, PStr t => pystr_eqb s t
                                   | _, _ => false
                                   end && jequ x (snd p)) kw && all_kv l'
             end) kv
      | _ => false
      end
  | _ => jeq a b
  end.

Definition rmodel (c : rcase) : option pyval :=
  match find_class (rc_env c) (rc_cls c) with
  | None => None
  | Some cd => ser_top (einfo_of (rc_einfo c)) (tbl_match (rc_tbl c)) (rc_env c) (smap_of (rc_smap c)) FUEL cd (rc_attrs c)
  end.
Definition runmodelled (c : rcase) : bool := match rmodel c with None => true | Some _ => false end.
Definition rmismatch (c : rcase) : bool :=
  match rmodel c with
  | None => false
  | Some j => negb (jequ j (rc_obs c))
  end.
