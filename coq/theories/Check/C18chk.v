(* C18: what the harness evaluates on observed behaviour (vm_compute). *)
From Coq Require Import NArith List String Bool. Import ListNotations.
From TP Require Import Base.PyVal Base.PyEq Base.PyOps Errors.Template Errors.Render Errors.Parse Errors.TemplateOk
  Errors.Collect Errors.Guard Errors.GuardSchema Errors.Switch Gen.Templates Gen.GuardProgs Gen.SwitchSites.
Local Open Scope list_scope.

Definition opt_str_eqb (a b : option pystr) : bool :=
  match a, b with
  | None, None => true
  | Some x, Some y => pystr_eqb x y
  | _, _ => false
  end.

Fixpoint list_eqb {A B} (eqb : A -> B -> bool) (a : list A) (b : list B) : bool :=
  match a, b with
  | [], [] => true
  | x :: a', y :: b' => eqb x y && list_eqb eqb a' b'
  | _, _ => false
  end.

(* ---------------------------------------------------------------- render stream *)
(* a field-level exception observed at raise site t_id with these frame values, its own text
   (inner) and the text of the fail-fast exception of the construction (outer) *)
Record rcase := { rc_tid : N; rc_cls : pystr; rc_args : rargs; rc_inner : pystr; rc_outer : pystr;
                   rc_expect : option (pystr * suffix) (* top-level name and element suffix the harness expects *) }.

Definition template_by_id (i : N) : option template := find (fun t => N.eqb (t_id t) i) templates.

Definition render_mismatch (c : rcase) : bool :=
  match template_by_id (rc_tid c) with
  | None => true
  | Some t =>
      match render t (rc_args c) with
      | None => true
      | Some m => negb (pystr_eqb m (rc_inner c) && pystr_eqb (with_class (rc_cls c) m) (rc_outer c) &&
                        match rc_expect c with
                        | Some (n, sfx) => pystr_eqb (field_path n sfx) (r_path (rc_args c))
                        | None => true
                        end)
      end
  end.

(* the hypotheses of C18_template_ok hold of the case *)
Definition render_hyps (c : rcase) : bool :=
  match template_by_id (rc_tid c) with
  | Some t => scalar_kind t && args_nonl (rc_args c) && identb (rc_cls c)
  | None => false
  end.

(* ---------------------------------------------------------------- parse stream *)
Inductive oproblem := OText (s : pystr) | OMatchRepr | OExpanded.
Record obs_ei := { o_field : option pystr; o_value : option pystr; o_problem : oproblem }.
Record pcase := { pc_ff : bool; pc_x : exn_text; pc_obs : list obs_ei }.

Definition problem_agrees (p : problem) (o : oproblem) : bool :=
  match p, o with
  | PText s, OText s' => pystr_eqb s s'
  | PMatchRepr, OMatchRepr => true
  | PExpanded, _ => true            (* not modelled: whatever json.loads made of it *)
  | _, _ => false
  end.

Definition ei_agrees (e : error_info) (o : obs_ei) : bool :=
  opt_str_eqb (ei_field e) (o_field o) && opt_str_eqb (ei_value e) (o_value o) &&
  problem_agrees (ei_problem e) (o_problem o).

Definition parse_mismatch (c : pcase) : bool :=
  negb (list_eqb ei_agrees (helper (pc_ff c) (pc_x c)) (pc_obs c)).

Definition parse_unmodelled (c : pcase) : bool :=
  existsb (fun e => match ei_problem e with PExpanded => true | _ => false end) (helper (pc_ff c) (pc_x c)).

(* ---------------------------------------------------------------- construct / deserialize stream *)
(* observed exception: None = accepted; Some (raw, json) *)
Record ccase := { cc_ff : bool; cc_cls : pystr; cc_args : list uarg; cc_obs : option exn_text }.
Record dcase := { dc_ff : bool; dc_cls : pystr; dc_args : list darg; dc_bound : list (darg * bool); dc_obs : option exn_text }.

(* raw text is compared for plain messages, the decoded list for the JSON form *)
Definition exn_agrees (m o : option exn_text) : bool :=
  match m, o with
  | None, None => true
  | Some a, Some b =>
      match x_json a, x_json b with
      | Some la, Some lb => list_eqb pystr_eqb la lb
      | None, None => pystr_eqb (x_raw a) (x_raw b)
      | _, _ => false
      end
  | _, _ => false
  end.

Definition no_dumps (l : list pystr) : pystr := [].

Definition construct_mismatch (c : ccase) : bool :=
  negb (exn_agrees (construct_u no_dumps (cc_ff c) (cc_cls c) (cc_args c)) (cc_obs c)).

(* the case lies where the theorems about [construct] speak (every error a TypeError / ValueError) *)
Definition construct_hyps (c : ccase) : bool := all_caught (cc_args c).

Definition deser_mismatch (c : dcase) : bool :=
  negb (exn_agrees (deserialize_u no_dumps (dc_ff c) (dc_cls c) (dc_args c) (dc_bound c)) (dc_obs c)).

(* ---------------------------------------------------------------- guard stream *)
(* one real validation chain run on one value: the field object's attributes as the harness read them,
   the strings (among those in play) that its compiled pattern matches, the parameters, and what
   happened: accepted, rejected by the raise statement numbered tid, or an exception that no raise
   statement of typedpy produced (by class name) *)
Inductive gobs := GOPass | GONamed (tid : N) | GOBare (name : pystr).
Record gcase := { gc_label : pystr; gc_self : list (pystr * pyval); gc_re : list pystr;
                  gc_vals : list pyval; gc_obs : gobs }.

Definition self_of (l : list (pystr * pyval)) (a : pystr) : pyval :=
  match alist_get l a with Some v => v | None => PNone end.
Definition re_of (l : list pystr) (s : pystr) : bool := str_in s l.

Definition exn_name (e : exn) : pystr :=
  match e with
  | TypeError => s2p "TypeError" | ValueError => s2p "ValueError" | InvalidStructureErr => s2p "InvalidStructureErr"
  | IndexError => s2p "IndexError" | KeyError => s2p "KeyError" | AttributeError => s2p "AttributeError"
  | OverflowError => s2p "OverflowError" | ZeroDivisionError => s2p "ZeroDivisionError"
  | NotImplementedError => s2p "NotImplementedError" | RuntimeError => s2p "RuntimeError"
  | OutOfFuel => s2p "OutOfFuel" | Unmodelled => s2p "Unmodelled" | OtherExn n => n
  end.

Definition guard_run (c : gcase) : option outcome :=
  match kind_by_label (gc_label c) with
  | Some k => match entry_of (k_entry k) with
              | Some g => Some (run (re_of (gc_re c)) (self_of (gc_self c)) (gc_vals c) (g_prog g))
              | None => None
              end
  | None => None
  end.

(* the model declines (rounding float(), Decimal arithmetic, opaque objects) *)
Definition guard_unmodelled (c : gcase) : bool :=
  match guard_run c with Some (Bare Unmodelled) => true | _ => false end.

Definition guard_mismatch (c : gcase) : bool :=
  match guard_run c with
  | None => true
  | Some (Bare Unmodelled) => false
  | Some (Pass _) => match gc_obs c with GOPass => false | _ => true end
  | Some (Named tid _) => match gc_obs c with GONamed t => negb (N.eqb t tid) | _ => true end
  | Some (Bare e) => match gc_obs c with GOBare n => negb (pystr_eqb n (exn_name e)) | _ => true end
  end.

(* the real field object does not fit the schema its kind's theorem assumes *)
Definition guard_schema_bad (c : gcase) : bool :=
  match kind_by_label (gc_label c) with
  | Some k => negb (attrs_ok (k_schema k) (self_of (gc_self c)))
  | None => true
  end.

(* the hypotheses of C18_rejection_is_templated hold of the case *)
Definition guard_hyps (c : gcase) : bool :=
  match kind_by_label (gc_label c) with
  | Some k => env_ok (init_env k) (self_of (gc_self c)) (gc_vals c)
  | None => false
  end.

(* ... and yet the implementation raised an exception that names nothing: the theorem's conclusion is
   false of the implementation (model and code have parted, or the schema is wrong) *)
Definition guard_bare_under_hyps (c : gcase) : bool :=
  guard_hyps c && match gc_obs c with GOBare _ => true | _ => false end.

(* restricted kinds whose chain, today, passes the analysis on ALL values: the restriction is obsolete *)
Definition restriction_obsolete (k : gkind) : bool :=
  match entry_of (k_entry k) with
  | Some g => gsafe {| a_vars := map (fun _ => None) (k_domain k); a_attrs := k_schema k |} (g_prog g)
  | None => false
  end.
Definition obsolete_restrictions : list pystr := map k_label (filter restriction_obsolete kinds_restricted).

(* ---------------------------------------------------------------- constructor-only stream *)
(* a field that the deserializer's own validation accepted and the constructor then rejected, by the
   raise statement that rejected it: the statement must be one of Collect.ctor_only_sites *)
Definition ctor_only_unlisted (tid : N) : bool :=
  match template_by_id tid with
  | Some t => negb (is_ctor_only_site t)
  | None => true
  end.

(* ---------------------------------------------------------------- switch stream *)
(* a history of set_fail_fast / failing_fast calls made by several real threads, with the answers observed *)
Record scase := { sc_evs : list event; sc_obs : list (option bool) }.

Definition ob_eqb (a b : option bool) : bool :=
  match a, b with Some x, Some y => Bool.eqb x y | None, None => true | _, _ => false end.

(* the cells the generated setter / getter use explain the observed answers *)
Definition switch_mismatch (c : scase) : bool :=
  negb (list_eqb ob_eqb (run_switch switch_write switch_read (init_store switch_init) (sc_evs c)) (sc_obs c)).

(* the observed answers are not those of ONE process-wide switch: the clause on the implementation *)
Definition switch_not_process_wide (c : scase) : bool :=
  negb (list_eqb ob_eqb (spec_switch true (sc_evs c)) (sc_obs c)).

